// C07 driver: import resolution on generated file systems.
//
//   c07_driver run <table> <cases> <scratchdir>
//     table  : one line per document version:  <docid> \t <abstract text (ignored here)> \t <hex of file bytes>
//     cases  : one case per line, space separated steps:
//                W:<path>:<docid>   write / replace a file in the case directory (sub-directories are created)
//                M:<dir/>           create a directory;   K:… / KC  declarations for the model side (ignored here)
//                D:<file>           delete it
//                N:<0|1>            new Importer (strict flag); the previous one is destroyed
//                N2:<0|1>           new Importer; the previous one stays alive (its library models too)
//                T:<u|c>:<name>:<url>:<ref>  origin model object: importSource()->setUrl, setImportReference
//                P:<file>           parse <file> (strict Parser) -> the origin model; prints P=bad if it has no model
//                R                  resolveImports(origin, dir)  -> R=<0|1> I=[issues] L=[library keys]
//                U                  origin->hasUnresolvedImports() (forked)   -> U=<0|1|CRASH(n)|TIMEOUT>
//                F                  importer->flattenModel(origin) (forked)   -> F=<null|model|CRASH(n)|TIMEOUT> I=[issues]
//                C                  importer->removeAllModels()
//     output : one line per case (forkrun.hpp: CRASH(sig) / THROW(type) / TIMEOUT when the whole case dies).
//   c07_driver paths <cases>   : lines "<hex url> <hex base>" -> resolvePath / pathFromUrl / normalisePath (internal)
//
// Issues are printed as  <level>:<RULE>@<kind>:<name>  with kind u(nits) / c(omponent) (name = owningModelName/entityName),
// i(mport source; name = url), m(odel), n(one).
#include <algorithm>
#include <cstdio>
#include <dirent.h>
#include <sys/stat.h>
#include <fstream>
#include <map>
#include <sstream>

#include <libcellml>

#include "commonutils.h"
#include "utilities.h"

#include "forkrun.hpp"

namespace libcellml {
// defined in importer.cpp, not declared in any header
std::string normaliseDirectorySeparator(const std::string &path);
std::string normalisePath(const std::string &path);
std::string pathFromUrl(const std::string &url);
std::string resolvePath(const std::string &filename, const std::string &base);
} // namespace libcellml

using namespace verif;

static std::map<std::string, std::string> gBlobs;
static std::string gDir;

static std::string ruleName(libcellml::Issue::ReferenceRule r)
{
    using R = libcellml::Issue::ReferenceRule;
    switch (r) {
    case R::IMPORTER_MISSING_FILE: return "MISSING_FILE";
    case R::IMPORTER_NULL_MODEL: return "NULL_MODEL";
    case R::UNDEFINED: return "UNDEFINED";
    case R::IMPORTER_ERROR_IMPORTING_UNITS: return "ERROR_IMPORTING_UNITS";
    case R::IMPORT_EQUIVALENT_INFOSET: return "CYCLE";
    case R::IMPORTER_MISSING_UNITS: return "MISSING_UNITS";
    case R::IMPORTER_MISSING_COMPONENT: return "MISSING_COMPONENT";
    case R::IMPORTER_UNRESOLVED_IMPORTS: return "UNRESOLVED_IMPORTS";
    case R::IMPORTER_UNDEFINED_MODEL: return "UNDEFINED_MODEL";
    default: return "RULE" + std::to_string(int(r));
    }
}

static std::string ownerName(const libcellml::ParentedEntityConstPtr &e)
{
    auto m = libcellml::owningModel(e);
    return m == nullptr ? std::string("?") : m->name();
}

static std::string issueText(const libcellml::IssuePtr &is)
{
    std::string lvl;
    switch (is->level()) {
    case libcellml::Issue::Level::ERROR: lvl = "E"; break;
    case libcellml::Issue::Level::WARNING: lvl = "W"; break;
    default: lvl = "M"; break;
    }
    std::string item;
    auto it = is->item();
    switch (it->type()) {
    case libcellml::CellmlElementType::UNITS:
        item = it->units() == nullptr ? "u:null" : "u:" + ownerName(it->units()) + "/" + it->units()->name();
        break;
    case libcellml::CellmlElementType::COMPONENT:
        item = it->component() == nullptr ? "c:null" : "c:" + ownerName(it->component()) + "/" + it->component()->name();
        break;
    case libcellml::CellmlElementType::IMPORT:
        item = it->importSource() == nullptr ? "i:null" : "i:" + it->importSource()->url();
        break;
    case libcellml::CellmlElementType::MODEL: item = "m"; break;
    case libcellml::CellmlElementType::UNDEFINED: item = "n"; break;
    default: item = "t" + std::to_string(int(it->type())); break;
    }
    return lvl + ":" + ruleName(is->referenceRule()) + "@" + item;
}

static std::string issuesText(const libcellml::ImporterPtr &imp)
{
    std::string o = "[";
    for (size_t i = 0; i < imp->issueCount(); ++i) {
        if (i != 0) {
            o += ",";
        }
        o += issueText(imp->issue(i));
    }
    return o + "]";
}

static std::string stripDir(const std::string &k)
{
    if (k.compare(0, gDir.size(), gDir) == 0) {
        return k.substr(gDir.size());
    }
    return "!" + k;
}

// run fn in a forked child (alarm 10 s, 512 KiB stack: unbounded recursion ends quickly); its text, or CRASH(sig) / TIMEOUT
static std::string guarded(const std::function<std::string()> &fn)
{
    int fds[2];
    if (pipe(fds) != 0) {
        return "PIPEFAIL";
    }
    fflush(stdout);
    pid_t pid = fork();
    if (pid == 0) {
        close(fds[0]);
        alarm(10);
        struct rlimit rl;
        rl.rlim_cur = rl.rlim_max = 512 * 1024; // stack exhaustion is reached quickly
        setrlimit(RLIMIT_STACK, &rl);
        std::string r;
        try {
            r = fn();
        } catch (const std::exception &e) {
            r = std::string("THROW(") + typeid(e).name() + ")";
        } catch (...) {
            r = "THROW(unknown)";
        }
        size_t off = 0;
        while (off < r.size()) {
            ssize_t w = write(fds[1], r.data() + off, r.size() - off);
            if (w <= 0) {
                break;
            }
            off += size_t(w);
        }
        close(fds[1]);
        _exit(0);
    }
    close(fds[1]);
    std::string out;
    char buf[4096];
    ssize_t n;
    while ((n = read(fds[0], buf, sizeof buf)) > 0) {
        out.append(buf, size_t(n));
    }
    close(fds[0]);
    int status = 0;
    waitpid(pid, &status, 0);
    if (WIFSIGNALED(status)) {
        int sig = WTERMSIG(status);
        return sig == SIGALRM ? std::string("TIMEOUT") : "CRASH(" + std::to_string(sig) + ")";
    }
    if (WEXITSTATUS(status) != 0) {
        return "CRASH(exit" + std::to_string(WEXITSTATUS(status)) + ")";
    }
    return out;
}

// a case that died may have left files behind; sub-directories are emptied and removed too
static void cleanPath(const std::string &dir, bool removeSelf)
{
    DIR *d = opendir(dir.c_str());
    if (d == nullptr) {
        return;
    }
    std::vector<std::pair<std::string, bool>> names;
    while (struct dirent *e = readdir(d)) {
        std::string n = e->d_name;
        if (n != "." && n != "..") {
            names.emplace_back(n, e->d_type == DT_DIR);
        }
    }
    closedir(d);
    for (const auto &n : names) {
        if (n.second) {
            cleanPath(dir + n.first + "/", true);
        } else {
            remove((dir + n.first).c_str());
        }
    }
    if (removeSelf) {
        rmdir(dir.c_str());
    }
}

static void cleanDir()
{
    cleanPath(gDir, false);
}

// mkdir -p for the directory part of a path relative to the case directory
static void makeDirs(const std::string &rel)
{
    size_t pos = 0;
    while ((pos = rel.find('/', pos)) != std::string::npos) {
        mkdir((gDir + rel.substr(0, pos)).c_str(), 0777);
        ++pos;
    }
}

static std::string runCase(const std::string &line)
{
    cleanDir();
    std::vector<std::string> written;
    libcellml::ImporterPtr importer = libcellml::Importer::create(true);
    std::vector<libcellml::ImporterPtr> retired;
    libcellml::ModelPtr origin;
    std::string out;
    auto emit = [&](const std::string &s) {
        if (!out.empty()) {
            out += " ";
        }
        out += s;
    };
    for (const auto &step : splitws(line)) {
        if (step.empty()) {
            continue;
        }
        auto f = splitws(step, ':');
        const std::string &op = f[0];
        if (op == "K" || op == "KC") {
            continue; // declarations for the model side: which spellings of a path reach which file
        }
        if (op == "M") {
            makeDirs(f[1]);
            continue;
        }
        if (op == "W") {
            makeDirs(f[1]);
            std::ofstream o(gDir + f[1], std::ios::binary | std::ios::trunc);
            o << gBlobs.at(f[2]);
            o.close();
            written.push_back(f[1]);
        } else if (op == "D") {
            remove((gDir + f[1]).c_str());
        } else if (op == "N") {
            importer = nullptr;
            importer = libcellml::Importer::create(f[1] == "1");
        } else if (op == "N2") {
            // a new importer while the previous one, and the library models its links point to, stay alive
            retired.push_back(importer);
            importer = libcellml::Importer::create(f[1] == "1");
        } else if (op == "T") {
            // T:<u|c>:<name>:<url>:<ref>  re-target an import of the origin model object
            if (origin != nullptr) {
                libcellml::ImportedEntityPtr e;
                if (f[1] == "u") {
                    e = origin->units(f[2]);
                } else {
                    e = origin->component(f[2], true);
                }
                if (e != nullptr && e->isImport()) {
                    e->importSource()->setUrl(f[3] == "~" ? std::string() : f[3]);
                    e->setImportReference(f[4] == "~" ? std::string() : f[4]);
                }
            }
        } else if (op == "P") {
            origin = nullptr;
            std::ifstream in(gDir + f[1], std::ios::binary);
            bool bad = !in.good();
            if (!bad) {
                std::stringstream b;
                b << in.rdbuf();
                auto parser = libcellml::Parser::create(true);
                origin = parser->parseModel(b.str());
                for (size_t i = 0; i < parser->errorCount() && !bad; ++i) {
                    bad = parser->error(i)->referenceRule() == libcellml::Issue::ReferenceRule::XML;
                }
                bad = bad || origin == nullptr;
            }
            if (bad) {
                origin = nullptr;
                emit("P=bad");
            }
        } else if (op == "R") {
            if (origin == nullptr) {
                emit("R=-");
                continue;
            }
            bool r = importer->resolveImports(origin, gDir);
            std::vector<std::string> keys;
            for (size_t i = 0; i < importer->libraryCount(); ++i) {
                keys.push_back(stripDir(importer->key(i)));
            }
            std::sort(keys.begin(), keys.end());
            std::string l = "[";
            for (size_t i = 0; i < keys.size(); ++i) {
                l += (i ? "," : "") + keys[i];
            }
            emit(std::string("R=") + (r ? "1" : "0") + " I=" + issuesText(importer) + " L=" + l + "]");
        } else if (op == "U") {
            if (origin == nullptr) {
                emit("U=-");
                continue;
            }
            emit("U=" + guarded([&]() { return std::string(origin->hasUnresolvedImports() ? "1" : "0"); }));
        } else if (op == "F") {
            if (origin == nullptr) {
                emit("F=-");
                continue;
            }
            std::string r = guarded([&]() {
                auto flat = importer->flattenModel(origin);
                return std::string(flat == nullptr ? "null" : "model") + " I=" + issuesText(importer);
            });
            emit("F=" + r);
        } else if (op == "C") {
            importer->removeAllModels();
        } else {
            emit("BADSTEP(" + step + ")");
        }
    }
    cleanDir();
    return out;
}

static std::string pathsCase(const std::string &line)
{
    auto f = splitws(line);
    std::string url = hexdecode(f[0]);
    std::string base = f.size() > 1 ? hexdecode(f[1]) : std::string();
    return hexencode(libcellml::normalisePath(base)) + " " + hexencode(libcellml::pathFromUrl(url)) + " "
           + hexencode(libcellml::resolvePath(libcellml::normaliseDirectorySeparator(url), libcellml::normalisePath(base)));
}

int main(int argc, char **argv)
{
    if (argc >= 3 && std::string(argv[1]) == "paths") {
        return runCases(readLines(argv[2]), pathsCase, 20);
    }
    if (argc < 5 || std::string(argv[1]) != "run") {
        fprintf(stderr, "usage: c07_driver run <table> <cases> <scratchdir> | paths <cases>\n");
        return 2;
    }
    for (const auto &l : readLines(argv[2])) {
        auto f = splitws(l, '\t');
        if (f.size() >= 3) {
            gBlobs[f[0]] = hexdecode(f[2]);
        }
    }
    // no core files: a stack-exhaustion crash must be cheap
    struct rlimit nocore;
    nocore.rlim_cur = nocore.rlim_max = 0;
    setrlimit(RLIMIT_CORE, &nocore);
    gDir = argv[4];
    if (gDir.empty() || gDir.back() != '/') {
        gDir += "/";
    }
    return runCases(readLines(argv[3]), runCase, 60);
}
