// c09_driver — ownership invariants over API histories (C09), implementation side.
//
// usage: c09_driver seq    <casefile>     one line per case: rets, first WF failure, digest of all snapshots
//        c09_driver full   <casefile>     one line per case: after every op  <ret> <wf> | <snapshot>   joined by " ;; "
//        c09_driver badarg <casefile>     stage 2 (see c09_badarg.hpp)
//
// casefile for seq/full:
//   line 1     universe <tok> <tok> ...      tok = m:<name> | c:<name> | v:<name> | u:<name> | r   (slot i = i-th token)
//   then       setup <name> <op>;<op>;...    (any number) named set-up prefixes
//   other      <op>;<op>;...                 ops in the syntax of harness/common/script.hpp
//              a case may start with  `@<n>;`  : the first n ops are set-up (executed, not reported),
//              or with `@<name>;` : the named set-up is executed first
//
// After EVERY op the driver evaluates the property's own oracle on the real objects through public getters
// (wfCheck: every listed child names the lister as parent, nothing listed twice or by two listers, parent chains
// end, equivalence symmetric and never null) and takes snapshot.hpp's dumpStructure.
#include <cstdio>
#include <cstring>
#include <map>
#include <set>
#include <string>
#include <vector>

#include <libcellml>

#include "forkrun.hpp"
#include "script.hpp"
#include "snapshot.hpp"

#include "c09_badarg.hpp"

using namespace verif;

static std::vector<std::string> gUniverse;
static std::map<std::string, std::vector<std::string>> gSetups; // named set-up prefixes: header lines `setup <name> <op>;<op>;...`

static void buildUniverse(Interp &in)
{
    size_t slot = 0;
    for (const auto &t : gUniverse) {
        std::string s = std::to_string(slot);
        if (t == "r") {
            in.exec("reset " + s);
        } else if (t.size() >= 2 && t[1] == ':') {
            std::string nm = strToken(t.substr(2));
            switch (t[0]) {
            case 'm': in.exec("model " + s + " " + nm); break;
            case 'c': in.exec("component " + s + " " + nm); break;
            case 'v': in.exec("variable " + s + " " + nm); break;
            case 'u': in.exec("units " + s + " " + nm); break;
            default: break;
            }
        }
        ++slot;
    }
}

// ---- the property's oracle, on the real objects --------------------------------------------------------------
static std::string wfCheck(const Interp &in)
{
    using namespace libcellml;
    std::vector<EntityPtr> todo;
    std::set<const Entity *> seen;
    auto push = [&](const EntityPtr &p) {
        if (p != nullptr && seen.insert(p.get()).second) {
            todo.push_back(p);
        }
    };
    for (const auto &sl : in.slots) {
        push(sl.p);
    }
    std::map<const Entity *, const Entity *> listerOf;
    std::vector<EntityPtr> all;
    auto checkList = [&](const EntityPtr &k, size_t n, const std::function<ParentedEntityPtr(size_t)> &get, const char *what) -> std::string {
        std::set<const Entity *> here;
        for (size_t i = 0; i < n; ++i) {
            auto x = get(i);
            if (x == nullptr) {
                return std::string("null-child-in-") + what;
            }
            if (!here.insert(x.get()).second) {
                return std::string("listed-twice-in-") + what;
            }
            auto it = listerOf.find(x.get());
            if (it != listerOf.end() && it->second != k.get()) {
                return std::string("two-listers-") + what;
            }
            listerOf[x.get()] = k.get();
            if (x->parent().get() != dynamic_cast<const ParentedEntity *>(k.get())) {
                return std::string("parent-mismatch-") + what;
            }
            push(x);
        }
        return "";
    };
    while (!todo.empty()) {
        EntityPtr e = todo.back();
        todo.pop_back();
        all.push_back(e);
        std::string r;
        if (auto ce = std::dynamic_pointer_cast<ComponentEntity>(e)) {
            r = checkList(e, ce->componentCount(), [&](size_t i) { return ce->component(i); }, "components");
            if (!r.empty()) {
                return r;
            }
        }
        if (auto m = std::dynamic_pointer_cast<Model>(e)) {
            r = checkList(e, m->unitsCount(), [&](size_t i) { return m->units(i); }, "units");
            if (!r.empty()) {
                return r;
            }
        }
        if (auto c = std::dynamic_pointer_cast<Component>(e)) {
            r = checkList(e, c->variableCount(), [&](size_t i) { return c->variable(i); }, "variables");
            if (!r.empty()) {
                return r;
            }
            r = checkList(e, c->resetCount(), [&](size_t i) { return c->reset(i); }, "resets");
            if (!r.empty()) {
                return r;
            }
        }
        if (auto v = std::dynamic_pointer_cast<Variable>(e)) {
            push(v->units());
        }
        if (auto rs = std::dynamic_pointer_cast<Reset>(e)) {
            push(rs->variable());
            push(rs->testVariable());
        }
    }
    // a parent that is alive but reachable from no slot (possible only through a strong cycle) is looked at too
    const size_t bound = all.size() + 8;
    for (const auto &e : all) {
        auto p = std::dynamic_pointer_cast<ParentedEntity>(e);
        if (p == nullptr) {
            continue;
        }
        size_t steps = 0;
        ParentedEntityPtr q = p->parent();
        while (q != nullptr) {
            if (q == p || ++steps > bound) {
                return "cyclic-ancestry";
            }
            q = q->parent();
        }
        if (auto v = std::dynamic_pointer_cast<Variable>(e)) {
            size_t n = v->equivalentVariableCount();
            std::set<const Entity *> eqs;
            for (size_t i = 0; i < n; ++i) {
                auto w = v->equivalentVariable(i);
                if (w == nullptr) {
                    return "equivalence-yields-null";
                }
                if (!eqs.insert(w.get()).second) {
                    return "equivalence-listed-twice";
                }
                if (!w->hasEquivalentVariable(v)) {
                    return "equivalence-asymmetric";
                }
                (void)w->name(); // touches the object: ASan sees a dangling one
            }
        }
    }
    return "ok";
}

static inline void hashUpdate(uint64_t &h, const std::string &s)
{
    const uint64_t mask = (uint64_t(1) << 61) - 1;
    for (unsigned char c : s) {
        h = (h * 1000003ULL + c) & mask;
    }
    h = (h * 1000003ULL + 10) & mask;
}

static std::string runSeq(const std::string &line, bool full)
{
    Interp in;
    buildUniverse(in);
    auto ops = splitws(line, ';');
    size_t setup = 0;
    size_t first = 0;
    if (!ops.empty() && !ops[0].empty() && ops[0][0] == '@') {
        std::string tag = ops[0].substr(1);
        auto it = gSetups.find(tag);
        if (it != gSetups.end()) {
            for (const auto &o : it->second) {
                if (!o.empty()) {
                    in.exec(o);
                }
            }
        } else {
            setup = size_t(atoi(tag.c_str()));
        }
        first = 1;
    }
    std::string out;
    std::string rets;
    long wfFail = -1;
    std::string wfWhy;
    uint64_t h = 7;
    size_t k = 0;
    for (size_t i = first; i < ops.size(); ++i) {
        if (ops[i].empty()) {
            continue;
        }
        std::string r = in.exec(ops[i]);
        if (setup > 0) {
            --setup;
            continue;
        }
        std::string wf = wfCheck(in);
        std::string snap = dumpStructure(in);
        if (full) {
            if (k > 0) {
                out += " ;; ";
            }
            out += r + " " + wf + " | " + snap;
        } else {
            rets += (k > 0 ? "," : "") + r;
            if (wf != "ok" && wfFail < 0) {
                wfFail = long(k);
                wfWhy = wf;
            }
            hashUpdate(h, snap);
        }
        ++k;
    }
    if (full) {
        return out;
    }
    char buf[64];
    snprintf(buf, sizeof buf, "%016llx", (unsigned long long)h);
    return rets + " " + (wfFail < 0 ? std::string("wf=ok") : "wf=" + std::to_string(wfFail) + ":" + wfWhy) + " " + buf;
}

int main(int argc, char **argv)
{
    if (argc < 3) {
        fprintf(stderr, "usage: c09_driver seq|full|badarg <casefile>\n");
        return 2;
    }
    std::string mode = argv[1];
    auto lines = readLines(argv[2]);
    if (mode == "badarg") {
        return verif::c09::runBadArg(lines);
    }
    if (lines.empty() || lines[0].rfind("universe", 0) != 0) {
        fprintf(stderr, "first line must be `universe ...`\n");
        return 2;
    }
    {
        auto t = splitws(lines[0], ' ');
        gUniverse.assign(t.begin() + 1, t.end());
    }
    size_t firstCase = 1;
    while (firstCase < lines.size() && lines[firstCase].rfind("setup ", 0) == 0) {
        auto sp = lines[firstCase].find(' ', 6);
        if (sp != std::string::npos) {
            gSetups[lines[firstCase].substr(6, sp - 6)] = splitws(lines[firstCase].substr(sp + 1), ';');
        }
        ++firstCase;
    }
    std::vector<std::string> cases(lines.begin() + long(firstCase), lines.end());
    bool full = mode == "full";
    return runCases(cases, [full](const std::string &c) { return runSeq(c, full); }, 20, 16);
}
