// C06 driver: flattening of generated import graphs.
//
//   c06_driver <cases>
//     cases : one case per line:  <directory> <origin file name> [noflatten]
//   For each case: Parser (strict) on <directory>/<origin>, Importer::resolveImports(model, <directory>/),
//   then (in a forked child, so that a crash / hang of flattening leaves the rest of the line intact)
//   Importer::flattenModel.  Output: ONE line per case, fields separated by TAB:
//     P=<parser issue count>
//     R=<0|1>  RI=<importer issue count after resolveImports>
//     V=<validator issue count of the origin model>,<of library model 0>,...      (each model validated on a clone)
//     O=<canonical dump of the origin model>@@<of library model 0>@@...   (compared with the model's echo of its input)
//     X=<export>     the origin model and every library model (Importer::library(i), i = 0..) as a token string in
//                    the format read by ocaml/flatten/driver.ml (the INPUT of the extracted model): identity tags of
//                    variables = position in a pre-order walk, import sources by library index
//     then from the child:
//     F=<null|model|CRASH(n)|TIMEOUT>  FI=<issues of the importer after flattenModel, "level:description-hash">
//     H=<flat->hasImports()>  FV=<validator issue count of the flat model>  FU=<number of variables whose units are not
//                    linked to a units of the flat model and are not standard>
//     U=<ok|CHANGED:<which>>   dumpModel(sorted = true) of the origin and of every library model before flattenModel and
//                    after it are identical (and the library has the same keys)
//     D=<canonical dump of the flat model>   (same format as the model's: see canon* below)
//   and the file <directory>/flat.cellml = Printer::printModel(flat).
//
// Canonical dump (mirrored by ocaml/flatten/driver.ml):
//   model := M{name|U[units;...]|C[comp...]|E[eq;...]}
//   units := name:imp:ref,prefix,exp,log10mult/...          imp := - | url#ref
//   comp  := (name:imp:math:V[name,units,init,iface;...]:K[comp...])      units := ~ when the variable has none
//   math  := <name u=units>text kids</>  per element, white-space-only text dropped, text trimmed
//   eq    := a/b/x=c/d/y,mapid,connid    the two variable paths in sorted order, the list sorted
#include <algorithm>
#include <cmath>
#include <cstdio>
#include <fstream>
#include <map>
#include <sstream>

#include <libcellml>

#include "utilities.h"
#include "xmldoc.h"
#include "xmlnode.h"
#include "xmlutils.h"

#include "dump.hpp"
#include "forkrun.hpp"

using namespace verif;
using namespace libcellml;

static std::string slurp(const std::string &p)
{
    std::ifstream f(p, std::ios::binary);
    std::stringstream s;
    s << f.rdbuf();
    return s.str();
}

static std::string tok(const std::string &s)
{
    return s.empty() ? std::string("~") : s;
}

static std::string numText(double v)
{
    if (std::floor(v) == v && std::fabs(v) < 1e15) {
        char b[64];
        snprintf(b, sizeof b, "%lld", (long long)v);
        return b;
    }
    char b[64];
    snprintf(b, sizeof b, "%.17g", v);
    return b;
}

static std::string multText(double m)
{
    if (m > 0.0) {
        double k = std::round(std::log10(m));
        if (std::fabs(std::pow(10.0, k) - m) <= 1e-12 * m) {
            return numText(k);
        }
    }
    char b[64];
    snprintf(b, sizeof b, "raw%.17g", m);
    return b;
}

static std::string trim(const std::string &s)
{
    size_t a = s.find_first_not_of(" \t\r\n");
    if (a == std::string::npos) {
        return "";
    }
    size_t b = s.find_last_not_of(" \t\r\n");
    return s.substr(a, b - a + 1);
}

// ---------------------------------------------------------------- math: canonical text and token export

static void mathNode(const XmlNodePtr &node, std::string &canon, std::string &exp)
{
    std::string name = node->name();
    std::string units = node->isMathmlElement("cn") ? node->attribute("units") : std::string();
    std::string text;
    std::vector<XmlNodePtr> kids;
    for (auto ch = node->firstChild(); ch != nullptr; ch = ch->next()) {
        if (ch->isText()) {
            text += trim(ch->convertToString());
        } else if (ch->isElement()) {
            kids.push_back(ch);
        }
    }
    canon += "<" + name + (units.empty() ? "" : " u=" + units) + ">" + text;
    exp += " X " + tok(name) + " " + tok(units) + " " + tok(text) + " " + std::to_string(kids.size());
    for (const auto &k : kids) {
        mathNode(k, canon, exp);
    }
    canon += "</>";
}

static void mathOf(const std::string &math, std::string &canon, std::string &exp)
{
    canon.clear();
    exp.clear();
    size_t roots = 0;
    std::string body;
    if (!math.empty()) {
        for (const auto &doc : multiRootXml(math)) {
            auto root = doc->rootNode();
            if (root == nullptr) {
                continue;
            }
            ++roots;
            mathNode(root, canon, body);
        }
    }
    exp = " " + std::to_string(roots) + body;
}

// ---------------------------------------------------------------- canonical dump

static std::string canonImport(const ImportedEntityConstPtr &e)
{
    if (!e->isImport()) {
        return "-";
    }
    return e->importSource()->url() + "#" + e->importReference();
}

static std::string canonUnits(const UnitsPtr &u)
{
    std::string o = u->name() + ":" + canonImport(u) + ":";
    for (size_t i = 0; i < u->unitCount(); ++i) {
        std::string ref, pre, id;
        double ex = 0, mu = 0;
        u->unitAttributes(i, ref, pre, ex, mu, id);
        if (i != 0) {
            o += "/";
        }
        o += ref + "," + pre + "," + numText(ex) + "," + multText(mu);
    }
    return o;
}

static std::string canonComp(const ComponentPtr &c)
{
    std::string canon, exp;
    mathOf(c->math(), canon, exp);
    std::string o = "(" + c->name() + ":" + canonImport(c) + ":" + canon + ":V[";
    for (size_t i = 0; i < c->variableCount(); ++i) {
        auto v = c->variable(i);
        if (i != 0) {
            o += ";";
        }
        o += v->name() + "," + (v->units() == nullptr ? std::string("~") : v->units()->name()) + "," + v->initialValue() + "," + v->interfaceType();
    }
    o += "]:K[";
    for (size_t i = 0; i < c->componentCount(); ++i) {
        o += canonComp(c->component(i));
    }
    return o + "])";
}

static std::string varPath(const VariablePtr &v)
{
    std::vector<std::string> names;
    names.push_back(v->name());
    auto p = v->parent();
    while (p != nullptr && std::dynamic_pointer_cast<Model>(p) == nullptr) {
        names.push_back(std::dynamic_pointer_cast<NamedEntity>(p)->name());
        p = p->parent();
    }
    std::string o;
    for (auto it = names.rbegin(); it != names.rend(); ++it) {
        o += (o.empty() ? "" : "/") + *it;
    }
    return (p == nullptr ? "OUT:" : "") + o;
}

static void collectVars(const ComponentPtr &c, std::vector<VariablePtr> &out)
{
    for (size_t i = 0; i < c->variableCount(); ++i) {
        out.push_back(c->variable(i));
    }
    for (size_t i = 0; i < c->componentCount(); ++i) {
        collectVars(c->component(i), out);
    }
}

static std::string canonModel(const ModelPtr &m)
{
    std::string o = "M{" + m->name() + "|U[";
    for (size_t i = 0; i < m->unitsCount(); ++i) {
        o += (i ? ";" : "") + canonUnits(m->units(i));
    }
    o += "]|C[";
    for (size_t i = 0; i < m->componentCount(); ++i) {
        o += canonComp(m->component(i));
    }
    o += "]|E[";
    std::vector<VariablePtr> vars;
    for (size_t i = 0; i < m->componentCount(); ++i) {
        collectVars(m->component(i), vars);
    }
    std::vector<std::string> eqs;
    for (const auto &v : vars) {
        for (size_t j = 0; j < v->equivalentVariableCount(); ++j) {
            auto w = v->equivalentVariable(j);
            std::string a = varPath(v);
            std::string b = varPath(w);
            std::string mi = Variable::equivalenceMappingId(v, w);
            std::string ci = Variable::equivalenceConnectionId(v, w);
            if (a <= b) {
                eqs.push_back(a + "=" + b + "," + mi + "," + ci);
            } else {
                eqs.push_back(b + "=" + a + "," + mi + "," + ci);
            }
        }
    }
    std::sort(eqs.begin(), eqs.end());
    eqs.erase(std::unique(eqs.begin(), eqs.end()), eqs.end());
    for (size_t i = 0; i < eqs.size(); ++i) {
        o += (i ? ";" : "") + eqs[i];
    }
    return o + "]}";
}

// ---------------------------------------------------------------- export for the extracted model

struct Exporter
{
    ImporterPtr importer;
    std::map<const Variable *, size_t> oid;
    size_t next = 0;

    std::string imp(const ImportedEntityConstPtr &e)
    {
        if (!e->isImport()) {
            return " D";
        }
        auto src = e->importSource();
        long k = -1;
        auto mdl = src->model();
        if (mdl != nullptr) {
            for (size_t i = 0; i < importer->libraryCount(); ++i) {
                if (importer->library(i) == mdl) {
                    k = long(i);
                }
            }
        }
        return " I " + tok(src->url()) + " " + std::to_string(k) + " " + tok(e->importReference());
    }

    void number(const ComponentPtr &c)
    {
        for (size_t i = 0; i < c->variableCount(); ++i) {
            oid[c->variable(i).get()] = next++;
        }
        for (size_t i = 0; i < c->componentCount(); ++i) {
            number(c->component(i));
        }
    }

    std::string comp(const ComponentPtr &c)
    {
        std::string canon, exp;
        mathOf(c->math(), canon, exp);
        std::string o = " C " + tok(c->name()) + imp(c) + exp + " " + std::to_string(c->variableCount());
        for (size_t i = 0; i < c->variableCount(); ++i) {
            auto v = c->variable(i);
            o += " " + std::to_string(oid[v.get()]) + " " + tok(v->name()) + " " + (v->units() == nullptr ? std::string("~") : tok(v->units()->name()))
                 + " " + tok(v->initialValue()) + " " + tok(v->interfaceType());
        }
        o += " " + std::to_string(c->componentCount());
        for (size_t i = 0; i < c->componentCount(); ++i) {
            o += comp(c->component(i));
        }
        return o;
    }

    // base: first identity tag of this model (tags are unique over all models of the case)
    std::string model(const ModelPtr &m, size_t base)
    {
        oid.clear();
        next = base;
        for (size_t i = 0; i < m->componentCount(); ++i) {
            number(m->component(i));
        }
        std::string o = "M " + tok(m->name()) + " " + std::to_string(m->unitsCount());
        for (size_t i = 0; i < m->unitsCount(); ++i) {
            auto u = m->units(i);
            o += " U " + tok(u->name()) + imp(u) + " " + std::to_string(u->unitCount());
            for (size_t k = 0; k < u->unitCount(); ++k) {
                std::string ref, pre, id;
                double ex = 0, mu = 0;
                u->unitAttributes(k, ref, pre, ex, mu, id);
                o += " " + tok(ref) + " " + tok(pre) + " " + numText(ex) + " " + multText(mu);
            }
        }
        o += " " + std::to_string(m->componentCount());
        for (size_t i = 0; i < m->componentCount(); ++i) {
            o += comp(m->component(i));
        }
        std::vector<VariablePtr> vars;
        for (size_t i = 0; i < m->componentCount(); ++i) {
            collectVars(m->component(i), vars);
        }
        std::vector<std::string> eqs;
        std::map<std::pair<size_t, size_t>, bool> seen;
        for (const auto &v : vars) {
            for (size_t j = 0; j < v->equivalentVariableCount(); ++j) {
                auto w = v->equivalentVariable(j);
                auto it = oid.find(w.get());
                if (it == oid.end()) {
                    continue; // an equivalent variable outside this model
                }
                size_t a = oid[v.get()];
                size_t b = it->second;
                auto key = std::make_pair(std::min(a, b), std::max(a, b));
                if (seen[key]) {
                    continue;
                }
                seen[key] = true;
                eqs.push_back(" " + std::to_string(a) + " " + std::to_string(b) + " " + tok(Variable::equivalenceMappingId(v, w)) + " "
                              + tok(Variable::equivalenceConnectionId(v, w)));
            }
        }
        o += " " + std::to_string(eqs.size());
        for (const auto &e : eqs) {
            o += e;
        }
        return o;
    }
};

static size_t countVars(const ComponentPtr &c)
{
    size_t n = c->variableCount();
    for (size_t i = 0; i < c->componentCount(); ++i) {
        n += countVars(c->component(i));
    }
    return n;
}

static size_t unlinkedVars(const ModelPtr &m, const ComponentPtr &c)
{
    size_t n = 0;
    for (size_t i = 0; i < c->variableCount(); ++i) {
        auto u = c->variable(i)->units();
        if (u != nullptr && !isStandardUnitName(u->name()) && (u->parent() == nullptr || u->parent() != m)) {
            ++n;
        }
    }
    for (size_t i = 0; i < c->componentCount(); ++i) {
        n += unlinkedVars(m, c->component(i));
    }
    return n;
}

static size_t validatorIssues(const ModelPtr &m)
{
    auto v = Validator::create();
    v->validateModel(m->clone());
    return v->issueCount();
}

static std::string flattenPart(const ImporterPtr &importer, const ModelPtr &origin, const std::string &dir)
{
    std::vector<std::string> before;
    std::vector<std::string> keys;
    before.push_back(dumpModel(origin, true));
    for (size_t i = 0; i < importer->libraryCount(); ++i) {
        before.push_back(dumpModel(importer->library(i), true));
        keys.push_back(importer->key(i));
    }
    auto flat = importer->flattenModel(origin);
    std::string o = std::string("F=") + (flat == nullptr ? "null" : "model") + "\tFI=";
    for (size_t i = 0; i < importer->issueCount(); ++i) {
        o += (i ? "|" : "") + std::to_string(int(importer->issue(i)->referenceRule())) + ":" + importer->issue(i)->description();
    }
    std::string unchanged = "ok";
    if (dumpModel(origin, true) != before[0]) {
        unchanged = "CHANGED:origin";
    }
    if (importer->libraryCount() != keys.size()) {
        unchanged = "CHANGED:library-size";
    } else {
        for (size_t i = 0; i < importer->libraryCount(); ++i) {
            if (importer->key(i) != keys[i] || dumpModel(importer->library(i), true) != before[i + 1]) {
                unchanged = "CHANGED:" + importer->key(i);
            }
        }
    }
    if (flat != nullptr) {
        size_t unl = 0;
        for (size_t i = 0; i < flat->componentCount(); ++i) {
            unl += unlinkedVars(flat, flat->component(i));
        }
        auto printer = Printer::create();
        std::ofstream out(dir + "/flat.cellml", std::ios::binary);
        out << printer->printModel(flat);
        out.close();
        o += std::string("\tH=") + (flat->hasImports() ? "1" : "0") + "\tFV=" + std::to_string(validatorIssues(flat)) + "\tFU=" + std::to_string(unl);
        o += "\tU=" + unchanged + "\tD=" + canonModel(flat);
    } else {
        o += "\tU=" + unchanged;
    }
    for (auto &ch : o) {
        if (ch == '\n' || ch == '\r') {
            ch = ' ';
        }
    }
    return o;
}

// run fn in a forked child (alarm, small stack so that unbounded recursion ends quickly)
static std::string guarded(const std::function<std::string()> &fn, unsigned seconds)
{
    int fds[2];
    if (pipe(fds) != 0) {
        return "F=PIPEFAIL";
    }
    fflush(stdout);
    pid_t pid = fork();
    if (pid == 0) {
        close(fds[0]);
        alarm(seconds);
        struct rlimit rl;
        rl.rlim_cur = rl.rlim_max = 8 * 1024 * 1024;
        setrlimit(RLIMIT_STACK, &rl);
        std::string r;
        try {
            r = fn();
        } catch (const std::exception &e) {
            r = std::string("F=THROW(") + typeid(e).name() + ")";
        } catch (...) {
            r = "F=THROW(unknown)";
        }
        size_t off = 0;
        while (off < r.size()) {
            ssize_t w = write(fds[1], r.data() + off, r.size() - off);
            if (w <= 0) {
                break;
            }
            off += size_t(w);
        }
        close(fds[1]);
        _exit(0);
    }
    close(fds[1]);
    std::string out;
    char buf[4096];
    ssize_t n;
    while ((n = read(fds[0], buf, sizeof buf)) > 0) {
        out.append(buf, size_t(n));
    }
    close(fds[0]);
    int status = 0;
    waitpid(pid, &status, 0);
    if (WIFSIGNALED(status)) {
        int sig = WTERMSIG(status);
        return sig == SIGALRM ? std::string("F=TIMEOUT") : "F=CRASH(" + std::to_string(sig) + ")";
    }
    if (WEXITSTATUS(status) != 0) {
        return "F=CRASH(exit" + std::to_string(WEXITSTATUS(status)) + ")";
    }
    return out;
}

static std::string runCase(const std::string &line)
{
    auto f = splitws(line);
    if (f.size() < 2) {
        return "BADCASE";
    }
    std::string dir = f[0];
    std::string originName = f[1];
    remove((dir + "/flat.cellml").c_str());
    auto parser = Parser::create(true);
    auto origin = parser->parseModel(slurp(dir + "/" + originName));
    std::string o = "P=" + std::to_string(parser->issueCount());
    auto importer = Importer::create(true);
    bool r = importer->resolveImports(origin, dir + "/");
    o += std::string("\tR=") + (r ? "1" : "0") + "\tRI=" + std::to_string(importer->issueCount());
    o += "\tV=" + std::to_string(validatorIssues(origin));
    for (size_t i = 0; i < importer->libraryCount(); ++i) {
        o += "," + std::to_string(validatorIssues(importer->library(i)));
    }
    Exporter ex;
    ex.importer = importer;
    size_t base = 0;
    std::string x = std::to_string(importer->libraryCount()) + " " + ex.model(origin, base);
    for (size_t i = 0; i < origin->componentCount(); ++i) {
        base += countVars(origin->component(i));
    }
    for (size_t k = 0; k < importer->libraryCount(); ++k) {
        auto lib = importer->library(k);
        x += " " + ex.model(lib, base);
        for (size_t i = 0; i < lib->componentCount(); ++i) {
            base += countVars(lib->component(i));
        }
    }
    x += " " + std::to_string(base);
    o += "\tX=" + x;
    o += "\tO=" + canonModel(origin);
    for (size_t k = 0; k < importer->libraryCount(); ++k) {
        o += "@@" + canonModel(importer->library(k));
    }
    if (f.size() > 2 && f[2] == "noflatten") {
        return o;
    }
    o += "\t" + guarded([&]() { return flattenPart(importer, origin, dir); }, 20);
    return o;
}

int main(int argc, char **argv)
{
    if (argc < 2) {
        fprintf(stderr, "usage: c06_driver <cases>\n");
        return 2;
    }
    return runCases(readLines(argv[1]), runCase, 60);
}
