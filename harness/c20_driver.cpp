// C20 driver.  argv[1] = case file, one case per line:
//
//     <hex CellML 2.0 document> <flags> <marks>
//
//   flags : "g" = also generate code with the C profile (fields CH / CC), "-" = analysis only
//   marks : "-" (none) or  <mark>;<mark>;...   in Analyser::addExternalVariable order, each
//             <var>[:<dep>+<dep>+...]       AnalyserExternalVariable::create(var), then addDependency(dep) in order
//             =<k>                           addExternalVariable() once more with the k-th object created so far
//           <var>, <dep> = "<c>.<v>" (c = index of the component in depth-first order of the parsed model, v = index
//           of the variable in it) or "F<k>" = variable k of ANOTHER model that the driver builds through the API
//           (model "other", component "fc", variables f0..f3)
//
// For each case: Parser (strict) -> Analyser::addExternalVariable... -> Analyser::analyseModel -> one canonical line
//   T=<model type> I=<issues, sorted: level:rule:item> VOI=<primary|-> H=<hasExternalVariables>
//   S=<primary>:<index>:<initialising|->:<equation ids '+'>;...
//   V=<primary>:<type>:<index>:<initialising|->:<equation ids>;...
//   E=<id>:<type>:<computed variables '+'>:<dependencies '+'>:<nla system index|->:<nla siblings '+'>;...
//   X=<var>:<accepted dependencies '+'>:<addDependency return values as 0/1 digits>;...   (the marks as the API kept them)
//   [CH=<hex interface code> CC=<hex implementation code>]
// equation id = the value of the single <cn> of its AST; an EXTERNAL equation (no AST) is "x<computed variables>".
// Only public API is used.
#include <algorithm>
#include <cstdlib>
#include <map>
#include <sstream>

#include <libcellml>

#include "forkrun.hpp"

using namespace verif;

static std::map<libcellml::Variable *, std::string> gVarIds;
static std::vector<std::vector<libcellml::VariablePtr>> gVars;

static void indexComponent(const libcellml::ComponentPtr &c, size_t &n)
{
    size_t me = n++;
    gVars.emplace_back();
    for (size_t i = 0; i < c->variableCount(); ++i) {
        gVarIds[c->variable(i).get()] = std::to_string(me) + "." + std::to_string(i);
        gVars[me].push_back(c->variable(i));
    }
    for (size_t i = 0; i < c->componentCount(); ++i) {
        indexComponent(c->component(i), n);
    }
}

static std::string vid(const libcellml::VariablePtr &v)
{
    if (v == nullptr) {
        return "-";
    }
    auto it = gVarIds.find(v.get());
    return (it == gVarIds.end()) ? std::string("?") : it->second;
}

static void findCn(const libcellml::AnalyserEquationAstPtr &ast, std::vector<std::string> &out)
{
    if (ast == nullptr) {
        return;
    }
    if (ast->type() == libcellml::AnalyserEquationAst::Type::CN) {
        out.push_back(ast->value());
    }
    findCn(ast->leftChild(), out);
    findCn(ast->rightChild(), out);
}

static std::string eid(const libcellml::AnalyserEquationPtr &e)
{
    if (e == nullptr) {
        return "null";
    }
    if (e->type() == libcellml::AnalyserEquation::Type::EXTERNAL) {
        std::string r = "x";
        auto vars = e->variables();
        for (size_t i = 0; i < vars.size(); ++i) {
            r += (i ? "&" : "") + ((vars[i] != nullptr) ? vid(vars[i]->variable()) : std::string("null"));
        }
        return r;
    }
    // the <cn> that carries the id: an integer in 1001..99999 (scaling between compatible units adds <cn>s such as
    // 0.001 or 1000 to the AST)
    std::vector<std::string> all;
    std::vector<std::string> cns;
    findCn(e->ast(), all);
    for (const auto &c : all) {
        char *end = nullptr;
        double v = std::strtod(c.c_str(), &end);
        if ((end != c.c_str()) && (v >= 1001.0) && (v <= 99999.0) && (v == double(long(v)))) {
            cns.push_back(std::to_string(long(v)));
        }
    }
    if (cns.size() != 1) {
        return "cn" + std::to_string(cns.size());
    }
    return cns[0];
}

static std::string eids(const std::vector<libcellml::AnalyserEquationPtr> &es)
{
    std::string r;
    for (size_t i = 0; i < es.size(); ++i) {
        r += (i ? "+" : "") + eid(es[i]);
    }
    return r;
}

static const char *levelName(libcellml::Issue::Level l)
{
    switch (l) {
    case libcellml::Issue::Level::ERROR: return "E";
    case libcellml::Issue::Level::WARNING: return "W";
    default: return "M";
    }
}

static std::string ruleName(libcellml::Issue::ReferenceRule r)
{
    using R = libcellml::Issue::ReferenceRule;
    switch (r) {
    case R::ANALYSER_EQUATION_NOT_EQUALITY_STATEMENT: return "NOT_EQUALITY";
    case R::ANALYSER_UNITS: return "UNITS";
    case R::ANALYSER_UNLINKED_UNITS: return "UNLINKED_UNITS";
    case R::ANALYSER_VARIABLE_INITIALISED_MORE_THAN_ONCE: return "INIT_TWICE";
    case R::ANALYSER_VARIABLE_NON_CONSTANT_INITIALISATION: return "NON_CONST_INIT";
    case R::ANALYSER_VOI_INITIALISED: return "VOI_INIT";
    case R::ANALYSER_VOI_SEVERAL: return "VOI_SEVERAL";
    case R::ANALYSER_ODE_NOT_FIRST_ORDER: return "ODE_ORDER";
    case R::ANALYSER_VARIABLE_UNUSED: return "UNUSED";
    case R::ANALYSER_STATE_NOT_INITIALISED: return "STATE_NOT_INIT";
    case R::ANALYSER_STATE_RATE_AS_ALGEBRAIC: return "STATE_RATE_ALG";
    case R::ANALYSER_VARIABLE_COMPUTED_MORE_THAN_ONCE: return "COMPUTED_TWICE";
    case R::ANALYSER_EXTERNAL_VARIABLE_DIFFERENT_MODEL: return "EXT_FOREIGN";
    case R::ANALYSER_EXTERNAL_VARIABLE_VOI: return "EXT_VOI";
    case R::ANALYSER_EXTERNAL_VARIABLE_USE_PRIMARY_VARIABLE: return "EXT_PRIMARY";
    default: return "RULE" + std::to_string(int(r));
    }
}

static std::string analyse(const std::string &line)
{
    auto parts = splitws(line, ' ');
    if (parts.size() < 3) {
        return "BAD_CASE";
    }
    std::string text = hexdecode(parts[0]);
    bool generate = parts[1].find('g') != std::string::npos;
    gVarIds.clear();
    gVars.clear();
    auto parser = libcellml::Parser::create(true);
    auto model = parser->parseModel(text);
    std::ostringstream o;
    if (parser->errorCount() != 0) {
        o << "PARSE_ERROR " << parser->error(0)->description();
        std::string s = o.str();
        std::replace(s.begin(), s.end(), '\n', ' ');
        return s;
    }
    size_t n = 0;
    for (size_t i = 0; i < model->componentCount(); ++i) {
        indexComponent(model->component(i), n);
    }

    // the other model (kept alive for the whole case)
    auto other = libcellml::Model::create("other");
    auto fc = libcellml::Component::create("fc");
    other->addComponent(fc);
    std::vector<libcellml::VariablePtr> foreign;
    for (int k = 0; k < 4; ++k) {
        auto v = libcellml::Variable::create("f" + std::to_string(k));
        v->setUnits("dimensionless");
        fc->addVariable(v);
        foreign.push_back(v);
        gVarIds[v.get()] = "F" + std::to_string(k);
    }
    auto lookup = [&](const std::string &t) -> libcellml::VariablePtr {
        if (t.empty()) {
            return nullptr;
        }
        if (t[0] == 'F') {
            size_t k = std::stoul(t.substr(1));
            return (k < foreign.size()) ? foreign[k] : nullptr;
        }
        auto dot = t.find('.');
        size_t c = std::stoul(t.substr(0, dot));
        size_t v = std::stoul(t.substr(dot + 1));
        if (c >= gVars.size() || v >= gVars[c].size()) {
            return nullptr;
        }
        return gVars[c][v];
    };

    auto analyser = libcellml::Analyser::create();
    std::ostringstream x;
    std::vector<libcellml::AnalyserExternalVariablePtr> created;
    auto showMark = [&](const libcellml::AnalyserExternalVariablePtr &ev, const std::string &bits, bool added) {
        x << vid(ev->variable()) << ":";
        auto deps = ev->dependencies();
        for (size_t i = 0; i < deps.size(); ++i) {
            x << (i ? "+" : "") << vid(deps[i]);
        }
        x << ":" << bits << (added ? "" : "!") << ";";
    };
    if (parts[2] != "-") {
        for (const auto &m : splitws(parts[2], ';')) {
            if (m.empty()) {
                continue;
            }
            if (m[0] == '=') {
                size_t k = std::stoul(m.substr(1));
                if (k >= created.size()) {
                    return "BAD_CASE mark " + m;
                }
                showMark(created[k], "", analyser->addExternalVariable(created[k]));
                continue;
            }
            auto colon = m.find(':');
            auto var = lookup(m.substr(0, colon));
            if (var == nullptr) {
                return "BAD_CASE mark " + m;
            }
            auto ev = libcellml::AnalyserExternalVariable::create(var);
            std::string bits;
            if (colon != std::string::npos) {
                for (const auto &d : splitws(m.substr(colon + 1), '+')) {
                    if (d.empty()) {
                        continue;
                    }
                    auto dep = lookup(d);
                    if (dep == nullptr) {
                        return "BAD_CASE dep " + d;
                    }
                    bits += ev->addDependency(dep) ? "1" : "0";
                }
            }
            created.push_back(ev);
            showMark(ev, bits, analyser->addExternalVariable(ev));
        }
    }

    analyser->analyseModel(model);
    auto am = analyser->model();

    o << "T=" << libcellml::AnalyserModel::typeAsString(am->type());

    std::vector<std::string> issues;
    for (size_t i = 0; i < analyser->issueCount(); ++i) {
        auto is = analyser->issue(i);
        std::string item = "-";
        if (is->item() != nullptr && is->item()->type() == libcellml::CellmlElementType::VARIABLE) {
            item = vid(is->item()->variable());
        }
        issues.push_back(std::string(levelName(is->level())) + ":" + ruleName(is->referenceRule()) + ":" + item);
    }
    std::sort(issues.begin(), issues.end());
    o << " I=";
    for (size_t i = 0; i < issues.size(); ++i) {
        o << (i ? "," : "") << issues[i];
    }

    o << " VOI=" << ((am->voi() != nullptr) ? vid(am->voi()->variable()) : std::string("-"));
    o << " H=" << (am->hasExternalVariables() ? 1 : 0);

    o << " S=";
    for (const auto &v : am->states()) {
        o << vid(v->variable()) << ":" << v->index() << ":" << vid(v->initialisingVariable()) << ":" << eids(v->equations()) << ";";
    }
    o << " V=";
    for (const auto &v : am->variables()) {
        o << vid(v->variable()) << ":" << libcellml::AnalyserVariable::typeAsString(v->type()) << ":" << v->index() << ":"
          << vid(v->initialisingVariable()) << ":" << eids(v->equations()) << ";";
    }
    o << " E=";
    for (const auto &e : am->equations()) {
        o << eid(e) << ":" << libcellml::AnalyserEquation::typeAsString(e->type()) << ":";
        auto vars = e->variables();
        for (size_t i = 0; i < vars.size(); ++i) {
            o << (i ? "+" : "") << ((vars[i] != nullptr) ? vid(vars[i]->variable()) : std::string("null"));
        }
        o << ":" << eids(e->dependencies()) << ":";
        if (e->nlaSystemIndex() == size_t(-1)) {
            o << "-";
        } else {
            o << e->nlaSystemIndex();
        }
        o << ":" << eids(e->nlaSiblings()) << ";";
    }
    o << " X=" << x.str();

    if (generate) {
        auto generator = libcellml::Generator::create();
        generator->setModel(am);
        o << " CH=" << hexencode(generator->interfaceCode()) << " CC=" << hexencode(generator->implementationCode());
    }
    return o.str();
}

int main(int argc, char **argv)
{
    if (argc < 2) {
        fprintf(stderr, "usage: c20_driver <case file>\n");
        return 2;
    }
    return runCases(readLines(argv[1]), analyse, 60);
}
