// c09_badarg.hpp — stage 2 of C09 (stub, filled in later)
#pragma once
#include <string>
#include <vector>
namespace verif { namespace c09 {
inline int runBadArg(const std::vector<std::string> &) { return 0; }
}}
