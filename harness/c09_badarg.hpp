// c09_badarg.hpp — stage 2 of C09: one public call with a bad argument from a fixed start state, in a forked child,
// with a dump of every entity before and after.
//
// case line:   <setup>|<call>
//   setup  = commands separated by ';' : harness/common/script.hpp commands and the service commands below
//   call   = ONE command (script.hpp or service command)
// output line: <result token> <same|CHANGED> issues=<issue count of the service the call went to, or ->
//   (a crash of the library gives CRASH(sig) / CRASH(exit99) for the whole line: forkrun.hpp)
//
// Service commands (objects are script slots or `null`; s<hex> strings; decimal indices, -1 = SIZE_MAX).
// The services live beside the interpreter; `svc` creates them.
//   svc                                   create Annotator Importer Analyser Validator Printer Generator (+ profile)
//   ann_setmodel M                        an_analyse M   (keeps the AnalyserModel)     ev_create V   (keeps it)
//   an_addext                             adds the kept external variable to the analyser
//   ann_<getter> sID [idx]                getter in item component componentencapsulation encapsulation variable reset model
//                                         importsource units mapvariables connection unitsitem testvalue resetvalue
//   ann_assignallids M | ann_clearallids M | ann_isunique s | ann_items s | ann_itemcount s | ann_ids | ann_duplicateids
//   ann_assignid_model M type | ann_assignid_component C type | ann_assignid_importsource I | ann_assignid_reset R type
//   ann_assignid_units U | ann_assignid_unitsitem U idx | ann_assignid_variable V | ann_assignid_pair V V type
//   ann_assignid_vv V V type | ann_assignid_unit U idx | ann_assignid_any_{variable V|component C|null}
//   imp_flatten M | imp_resolve M s | imp_library_n s | imp_library_i idx | imp_key idx | imp_addmodel M s
//   imp_replacemodel M s | imp_clearimports M | imp_addimportsource I | imp_importsource idx
//   imp_removeimportsource_i idx | imp_removeimportsource_p I | imp_hasimportsource I
//   an_addext_null | an_addext_v V | an_removeext_i idx | an_removeext_m M s s | an_removeext_p V | an_containsext_m M s s
//   an_containsext_p V | an_ext_i idx | an_ext_m M s s
//   ev_create_tmp V | ev_adddep V | ev_removedep_i idx | ev_removedep_m M s s | ev_removedep_p V | ev_containsdep_m M s s
//   ev_containsdep_p V | ev_dep_i idx | ev_dep_m M s s
//   am_state idx | am_variable idx | am_equation idx | am_areequivalent V V | aeq_dependency idx | aeq_nlasibling idx
//   aeq_variable idx | avar_equation idx
//   gen_setprofile_null | gen_setmodel_null | gen_equationcode_null | gen_equationcode_null2
//   val_validate M | pr_print M | log_issue idx | log_error idx | log_warning idx | log_message idx
#pragma once

#include <functional>
#include <map>
#include <string>
#include <vector>

#include <libcellml>

#include "dump.hpp"
#include "forkrun.hpp"
#include "script.hpp"
#include "snapshot.hpp"

namespace verif {
namespace c09 {

struct Services
{
    libcellml::AnnotatorPtr ann;
    libcellml::ImporterPtr imp;
    libcellml::AnalyserPtr an;
    libcellml::AnalyserModelPtr am;
    libcellml::AnalyserExternalVariablePtr ev;
    libcellml::ValidatorPtr val;
    libcellml::PrinterPtr pr;
    libcellml::GeneratorPtr gen;
    libcellml::GeneratorProfilePtr prof;
    libcellml::LoggerPtr last; // the service the last call went to
};

inline std::string fullDump(Interp &in)
{
    using namespace libcellml;
    std::string out = dumpStructure(in);
    for (size_t s = 0; s < in.slots.size(); ++s) {
        const Slot &sl = in.slots[s];
        if (sl.kind == Kind::Empty || sl.p == nullptr) {
            continue;
        }
        out += " {" + std::to_string(s) + " ";
        switch (sl.kind) {
        case Kind::Model: out += dumpModel(std::static_pointer_cast<Model>(sl.p), false, false); break;
        case Kind::Component: out += dumpComponent(std::static_pointer_cast<Component>(sl.p), false); break;
        case Kind::Variable: out += dumpVariable(std::static_pointer_cast<Variable>(sl.p)); break;
        case Kind::Units: out += dumpUnits(std::static_pointer_cast<Units>(sl.p), false); break;
        case Kind::Reset: out += dumpReset(std::static_pointer_cast<Reset>(sl.p)); break;
        case Kind::ImportSource: {
            auto is = std::static_pointer_cast<ImportSource>(sl.p);
            out += "(importsource " + dq(is->url()) + " " + dq(is->id()) + ")";
            break;
        }
        case Kind::Empty: break;
        }
        out += "}";
    }
    return out;
}

using SvcHandler = std::function<std::string(Interp &, Services &, Interp::Args &)>;

inline std::string rbool(bool b)
{
    return b ? "true" : "false";
}

inline const std::map<std::string, SvcHandler> &svcCommands()
{
    using namespace libcellml;
    static std::map<std::string, SvcHandler> m;
    if (!m.empty()) {
        return m;
    }
    auto anyItem = [](Interp &in, const AnyCellmlElementPtr &it) -> std::string {
        if (it == nullptr) {
            return "null";
        }
        return "item" + std::to_string(int(it->type()));
    };
    auto et = [](Interp::Args &a, size_t i) { return static_cast<CellmlElementType>(a.integer(i)); };

    m["svc"] = [](Interp &, Services &s, Interp::Args &) {
        s.ann = Annotator::create();
        s.imp = Importer::create();
        s.an = Analyser::create();
        s.val = Validator::create();
        s.pr = Printer::create();
        s.gen = Generator::create();
        s.prof = GeneratorProfile::create();
        return std::string("-");
    };
    m["ann_setmodel"] = [](Interp &, Services &s, Interp::Args &a) { s.last = s.ann; auto x = a.mq(1); s.ann->setModel(x); return std::string("-"); };
    m["an_analyse"] = [](Interp &, Services &s, Interp::Args &a) {
        s.last = s.an;
        auto x = a.mq(1);
        s.an->analyseModel(x);
        s.am = s.an->model();
        if (s.am == nullptr) {
            return std::string("null");
        }
        return std::string("type") + std::to_string(int(s.am->type()));
    };
    m["ev_create"] = [](Interp &, Services &s, Interp::Args &a) {
        auto v = a.vq(1);
        s.ev = AnalyserExternalVariable::create(v);
        return std::string(s.ev == nullptr ? "null" : "-");
    };
    m["an_addext"] = [](Interp &, Services &s, Interp::Args &) { s.last = s.an; return rbool(s.an->addExternalVariable(s.ev)); };

    // ---- Annotator getters by id
    auto reg2 = [&](const std::string &name, std::function<std::string(Interp &, Services &, const std::string &)> f1,
                    std::function<std::string(Interp &, Services &, const std::string &, size_t)> f2) {
        m["ann_" + name] = [f1, f2](Interp &in, Services &s, Interp::Args &a) {
            s.last = s.ann;
            std::string id = a.str(1);
            return a.has(2) ? f2(in, s, id, a.size(2)) : f1(in, s, id);
        };
    };
    reg2("item", [anyItem](Interp &in, Services &s, const std::string &id) { return anyItem(in, s.ann->item(id)); },
         [anyItem](Interp &in, Services &s, const std::string &id, size_t i) { return anyItem(in, s.ann->item(id, i)); });
#define C09_GETTER(NAME, METHOD)                                                                                        \
    reg2(NAME, [](Interp &in, Services &s, const std::string &id) { return in.ref(s.ann->METHOD(id)); },               \
         [](Interp &in, Services &s, const std::string &id, size_t i) { return in.ref(s.ann->METHOD(id, i)); })
    C09_GETTER("component", component);
    C09_GETTER("componentencapsulation", componentEncapsulation);
    C09_GETTER("encapsulation", encapsulation);
    C09_GETTER("variable", variable);
    C09_GETTER("reset", reset);
    C09_GETTER("model", model);
    C09_GETTER("importsource", importSource);
    C09_GETTER("units", units);
    C09_GETTER("testvalue", testValue);
    C09_GETTER("resetvalue", resetValue);
#undef C09_GETTER
    auto pairTok = [](const VariablePairPtr &p) { return std::string(p == nullptr ? "null" : (p->isValid() ? "pair" : "invalidpair")); };
    reg2("mapvariables", [pairTok](Interp &, Services &s, const std::string &id) { return pairTok(s.ann->mapVariables(id)); },
         [pairTok](Interp &, Services &s, const std::string &id, size_t i) { return pairTok(s.ann->mapVariables(id, i)); });
    reg2("connection", [pairTok](Interp &, Services &s, const std::string &id) { return pairTok(s.ann->connection(id)); },
         [pairTok](Interp &, Services &s, const std::string &id, size_t i) { return pairTok(s.ann->connection(id, i)); });
    auto uiTok = [](const UnitsItemPtr &p) { return std::string(p == nullptr ? "null" : (p->isValid() ? "unitsitem" : "invalidunitsitem")); };
    reg2("unitsitem", [uiTok](Interp &, Services &s, const std::string &id) { return uiTok(s.ann->unitsItem(id)); },
         [uiTok](Interp &, Services &s, const std::string &id, size_t i) { return uiTok(s.ann->unitsItem(id, i)); });

    m["ann_assignallids"] = [](Interp &, Services &s, Interp::Args &a) { s.last = s.ann; auto x = a.mq(1); return rbool(s.ann->assignAllIds(x)); };
    m["ann_clearallids"] = [](Interp &, Services &s, Interp::Args &a) { s.last = s.ann; auto x = a.mq(1); s.ann->clearAllIds(x); return std::string("-"); };
    m["ann_isunique"] = [](Interp &, Services &s, Interp::Args &a) { s.last = s.ann; return rbool(s.ann->isUnique(a.str(1))); };
    m["ann_items"] = [](Interp &, Services &s, Interp::Args &a) { s.last = s.ann; return std::to_string(s.ann->items(a.str(1)).size()); };
    m["ann_itemcount"] = [](Interp &, Services &s, Interp::Args &a) { s.last = s.ann; return std::to_string(s.ann->itemCount(a.str(1))); };
    m["ann_ids"] = [](Interp &, Services &s, Interp::Args &) { s.last = s.ann; return std::to_string(s.ann->ids().size()); };
    m["ann_duplicateids"] = [](Interp &, Services &s, Interp::Args &) { s.last = s.ann; return std::to_string(s.ann->duplicateIds().size()); };
    m["ann_assignid_model"] = [et](Interp &, Services &s, Interp::Args &a) { s.last = s.ann; auto x = a.mq(1); return Interp::rs(s.ann->assignId(x, et(a, 2))); };
    m["ann_assignid_component"] = [et](Interp &, Services &s, Interp::Args &a) { s.last = s.ann; auto x = a.cq(1); return Interp::rs(s.ann->assignId(x, et(a, 2))); };
    m["ann_assignid_importsource"] = [](Interp &, Services &s, Interp::Args &a) { s.last = s.ann; auto x = a.iq(1); return Interp::rs(s.ann->assignId(x)); };
    m["ann_assignid_reset"] = [et](Interp &, Services &s, Interp::Args &a) { s.last = s.ann; auto x = a.rq(1); return Interp::rs(s.ann->assignId(x, et(a, 2))); };
    m["ann_assignid_units"] = [](Interp &, Services &s, Interp::Args &a) { s.last = s.ann; auto x = a.uq(1); return Interp::rs(s.ann->assignId(x)); };
    m["ann_assignid_unitsitem"] = [](Interp &, Services &s, Interp::Args &a) {
        s.last = s.ann;
        auto x = a.uq(1);
        auto it = UnitsItem::create(x, a.size(2));
        return Interp::rs(s.ann->assignId(it));
    };
    m["ann_assignid_unitsitem_null"] = [](Interp &, Services &s, Interp::Args &) { s.last = s.ann; return Interp::rs(s.ann->assignId(UnitsItemPtr())); };
    m["ann_assignid_variable"] = [](Interp &, Services &s, Interp::Args &a) { s.last = s.ann; auto x = a.vq(1); return Interp::rs(s.ann->assignId(x)); };
    m["ann_assignid_pair"] = [et](Interp &, Services &s, Interp::Args &a) {
        s.last = s.ann;
        auto v = a.vq(1);
        auto w = a.vq(2);
        auto p = VariablePair::create(v, w);
        return Interp::rs(s.ann->assignId(p, et(a, 3)));
    };
    m["ann_assignid_pair_null"] = [et](Interp &, Services &s, Interp::Args &a) { s.last = s.ann; return Interp::rs(s.ann->assignId(VariablePairPtr(), et(a, 1))); };
    m["ann_assignid_vv"] = [et](Interp &, Services &s, Interp::Args &a) { s.last = s.ann; auto v = a.vq(1); auto w = a.vq(2); return Interp::rs(s.ann->assignId(v, w, et(a, 3))); };
    m["ann_assignid_unit"] = [](Interp &, Services &s, Interp::Args &a) { s.last = s.ann; auto x = a.uq(1); return Interp::rs(s.ann->assignId(x, a.size(2))); };
    m["ann_assignid_any_null"] = [](Interp &, Services &s, Interp::Args &) { s.last = s.ann; return Interp::rs(s.ann->assignId(AnyCellmlElementPtr())); };
    m["ann_assignid_any_item"] = [](Interp &, Services &s, Interp::Args &a) {
        // the item currently found under an id, handed back to assignId
        s.last = s.ann;
        auto it = s.ann->item(a.str(1));
        return Interp::rs(s.ann->assignId(it));
    };

    // ---- Importer
    m["imp_flatten"] = [](Interp &in, Services &s, Interp::Args &a) { s.last = s.imp; auto x = a.mq(1); return in.ref(s.imp->flattenModel(x)); };
    m["imp_resolve"] = [](Interp &, Services &s, Interp::Args &a) { s.last = s.imp; auto x = a.mq(1); return rbool(s.imp->resolveImports(x, a.str(2))); };
    m["imp_library_n"] = [](Interp &in, Services &s, Interp::Args &a) { s.last = s.imp; return in.ref(s.imp->library(a.str(1))); };
    m["imp_library_i"] = [](Interp &in, Services &s, Interp::Args &a) { s.last = s.imp; return in.ref(s.imp->library(a.size(1))); };
    m["imp_key"] = [](Interp &, Services &s, Interp::Args &a) { s.last = s.imp; return Interp::rs(s.imp->key(a.size(1))); };
    m["imp_addmodel"] = [](Interp &, Services &s, Interp::Args &a) { s.last = s.imp; auto x = a.mq(1); return rbool(s.imp->addModel(x, a.str(2))); };
    m["imp_replacemodel"] = [](Interp &, Services &s, Interp::Args &a) { s.last = s.imp; auto x = a.mq(1); return rbool(s.imp->replaceModel(x, a.str(2))); };
    m["imp_clearimports"] = [](Interp &, Services &s, Interp::Args &a) { s.last = s.imp; auto x = a.mq(1); s.imp->clearImports(x); return std::string("-"); };
    m["imp_addimportsource"] = [](Interp &, Services &s, Interp::Args &a) { s.last = s.imp; auto x = a.iq(1); return rbool(s.imp->addImportSource(x)); };
    m["imp_importsource"] = [](Interp &in, Services &s, Interp::Args &a) { s.last = s.imp; return in.ref(s.imp->importSource(a.size(1))); };
    m["imp_removeimportsource_i"] = [](Interp &, Services &s, Interp::Args &a) { s.last = s.imp; return rbool(s.imp->removeImportSource(a.size(1))); };
    m["imp_removeimportsource_p"] = [](Interp &, Services &s, Interp::Args &a) { s.last = s.imp; auto x = a.iq(1); return rbool(s.imp->removeImportSource(x)); };
    m["imp_hasimportsource"] = [](Interp &, Services &s, Interp::Args &a) { s.last = s.imp; auto x = a.iq(1); return rbool(s.imp->hasImportSource(x)); };

    // ---- Analyser and its external variables
    auto evTok = [](const AnalyserExternalVariablePtr &p) { return std::string(p == nullptr ? "null" : "extvar"); };
    m["an_addext_null"] = [](Interp &, Services &s, Interp::Args &) { s.last = s.an; return rbool(s.an->addExternalVariable(nullptr)); };
    m["an_addext_v"] = [](Interp &, Services &s, Interp::Args &a) {
        s.last = s.an;
        auto v = a.vq(1);
        return rbool(s.an->addExternalVariable(AnalyserExternalVariable::create(v)));
    };
    m["an_removeext_i"] = [](Interp &, Services &s, Interp::Args &a) { s.last = s.an; return rbool(s.an->removeExternalVariable(a.size(1))); };
    m["an_removeext_m"] = [](Interp &, Services &s, Interp::Args &a) { s.last = s.an; auto x = a.mq(1); return rbool(s.an->removeExternalVariable(x, a.str(2), a.str(3))); };
    m["an_removeext_p"] = [](Interp &, Services &s, Interp::Args &a) {
        s.last = s.an;
        auto v = a.vq(1);
        return rbool(s.an->removeExternalVariable(v == nullptr ? nullptr : AnalyserExternalVariable::create(v)));
    };
    m["an_containsext_m"] = [](Interp &, Services &s, Interp::Args &a) { s.last = s.an; auto x = a.mq(1); return rbool(s.an->containsExternalVariable(x, a.str(2), a.str(3))); };
    m["an_containsext_p"] = [](Interp &, Services &s, Interp::Args &a) {
        s.last = s.an;
        auto v = a.vq(1);
        return rbool(s.an->containsExternalVariable(v == nullptr ? nullptr : AnalyserExternalVariable::create(v)));
    };
    m["an_ext_i"] = [evTok](Interp &, Services &s, Interp::Args &a) { s.last = s.an; return evTok(s.an->externalVariable(a.size(1))); };
    m["an_ext_m"] = [evTok](Interp &, Services &s, Interp::Args &a) { s.last = s.an; auto x = a.mq(1); return evTok(s.an->externalVariable(x, a.str(2), a.str(3))); };
    m["ev_create_tmp"] = [](Interp &, Services &s, Interp::Args &a) {
        auto v = a.vq(1);
        auto e = AnalyserExternalVariable::create(v);
        if (e == nullptr) {
            return std::string("null");
        }
        return std::string(e->variable() == nullptr ? "extvar(null)" : "extvar");
    };
    m["ev_adddep"] = [](Interp &, Services &s, Interp::Args &a) { auto v = a.vq(1); return rbool(s.ev->addDependency(v)); };
    m["ev_removedep_i"] = [](Interp &, Services &s, Interp::Args &a) { return rbool(s.ev->removeDependency(a.size(1))); };
    m["ev_removedep_m"] = [](Interp &, Services &s, Interp::Args &a) { auto x = a.mq(1); return rbool(s.ev->removeDependency(x, a.str(2), a.str(3))); };
    m["ev_removedep_p"] = [](Interp &, Services &s, Interp::Args &a) { auto v = a.vq(1); return rbool(s.ev->removeDependency(v)); };
    m["ev_containsdep_m"] = [](Interp &, Services &s, Interp::Args &a) { auto x = a.mq(1); return rbool(s.ev->containsDependency(x, a.str(2), a.str(3))); };
    m["ev_containsdep_p"] = [](Interp &, Services &s, Interp::Args &a) { auto v = a.vq(1); return rbool(s.ev->containsDependency(v)); };
    m["ev_dep_i"] = [](Interp &in, Services &s, Interp::Args &a) { return in.ref(s.ev->dependency(a.size(1))); };
    m["ev_dep_m"] = [](Interp &in, Services &s, Interp::Args &a) { auto x = a.mq(1); return in.ref(s.ev->dependency(x, a.str(2), a.str(3))); };

    // ---- AnalyserModel queries
    auto nn = [](const void *p) { return std::string(p == nullptr ? "null" : "obj"); };
    m["am_state"] = [nn](Interp &, Services &s, Interp::Args &a) { return nn(s.am->state(a.size(1)).get()); };
    m["am_variable"] = [nn](Interp &, Services &s, Interp::Args &a) { return nn(s.am->variable(a.size(1)).get()); };
    m["am_equation"] = [nn](Interp &, Services &s, Interp::Args &a) { return nn(s.am->equation(a.size(1)).get()); };
    m["am_areequivalent"] = [](Interp &, Services &s, Interp::Args &a) { auto v = a.vq(1); auto w = a.vq(2); return rbool(s.am->areEquivalentVariables(v, w)); };
    m["aeq_dependency"] = [nn](Interp &, Services &s, Interp::Args &a) { return nn(s.am->equation(0)->dependency(a.size(1)).get()); };
    m["aeq_nlasibling"] = [nn](Interp &, Services &s, Interp::Args &a) { return nn(s.am->equation(0)->nlaSibling(a.size(1)).get()); };
    m["aeq_variable"] = [nn](Interp &, Services &s, Interp::Args &a) { return nn(s.am->equation(0)->variable(a.size(1)).get()); };
    m["avar_equation"] = [nn](Interp &, Services &s, Interp::Args &a) { return nn(s.am->state(0)->equation(a.size(1)).get()); };

    // ---- Generator setters
    m["gen_setprofile_null"] = [](Interp &, Services &s, Interp::Args &) { s.gen->setProfile(nullptr); return Interp::rs(s.gen->implementationCode()).substr(0, 1); };
    m["gen_setmodel_null"] = [](Interp &, Services &s, Interp::Args &) { s.gen->setModel(nullptr); return Interp::rs(s.gen->implementationCode()).substr(0, 1); };
    m["gen_setmodel_am"] = [](Interp &, Services &s, Interp::Args &) { s.gen->setModel(s.am); return std::string(s.gen->implementationCode().empty() ? "s" : "code"); };
    m["gen_equationcode_null"] = [](Interp &, Services &, Interp::Args &) { return Interp::rs(Generator::equationCode(nullptr)); };
    m["gen_equationcode_null2"] = [](Interp &, Services &, Interp::Args &) { return Interp::rs(Generator::equationCode(nullptr, nullptr)); };

    // ---- value classes built from entities
    m["unitsitem_create_null"] = [](Interp &, Services &, Interp::Args &a) { auto it = UnitsItem::create(nullptr, a.size(1)); return rbool(it != nullptr && it->isValid()); };
    m["unitsitem_create"] = [](Interp &, Services &, Interp::Args &a) { auto u = a.uq(1); auto it = UnitsItem::create(u, a.size(2)); return rbool(it != nullptr && it->isValid()); };
    m["variablepair_create"] = [](Interp &, Services &, Interp::Args &a) { auto v = a.vq(1); auto w = a.vq(2); auto p = VariablePair::create(v, w); return rbool(p != nullptr && p->isValid()); };
    m["ast_setleft_null"] = [](Interp &, Services &, Interp::Args &) { auto t = AnalyserEquationAst::create(); t->setLeftChild(nullptr); return std::string(t->leftChild() == nullptr ? "null" : "obj"); };
    m["ast_setright_null"] = [](Interp &, Services &, Interp::Args &) { auto t = AnalyserEquationAst::create(); t->setRightChild(nullptr); return std::string(t->rightChild() == nullptr ? "null" : "obj"); };
    m["ast_setparent_null"] = [](Interp &, Services &, Interp::Args &) { auto t = AnalyserEquationAst::create(); t->setParent(nullptr); return std::string(t->parent() == nullptr ? "null" : "obj"); };
    m["ast_setvariable"] = [](Interp &in, Services &, Interp::Args &a) { auto t = AnalyserEquationAst::create(); auto v = a.vq(1); t->setVariable(v); return in.ref(t->variable()); };
    m["ast_swap_null"] = [](Interp &, Services &, Interp::Args &) { auto t = AnalyserEquationAst::create(); t->swapLeftAndRightChildren(); return std::string("-"); };

    // ---- Validator, Printer, Logger
    m["val_validate"] = [](Interp &, Services &s, Interp::Args &a) { s.last = s.val; auto x = a.mq(1); s.val->validateModel(x); return std::to_string(s.val->issueCount()); };
    m["pr_print"] = [](Interp &, Services &s, Interp::Args &a) { s.last = s.pr; auto x = a.mq(1); return std::string(s.pr->printModel(x).empty() ? "s" : "text"); };
    m["log_issue"] = [nn](Interp &, Services &s, Interp::Args &a) { return nn(s.val->issue(a.size(1)).get()); };
    m["log_issue_an"] = [nn](Interp &, Services &s, Interp::Args &a) { return nn(s.an->issue(a.size(1)).get()); };
    m["log_error"] = [nn](Interp &, Services &s, Interp::Args &a) { return nn(s.val->error(a.size(1)).get()); };
    m["log_warning"] = [nn](Interp &, Services &s, Interp::Args &a) { return nn(s.val->warning(a.size(1)).get()); };
    m["log_message"] = [nn](Interp &, Services &s, Interp::Args &a) { return nn(s.val->message(a.size(1)).get()); };
    return m;
}

inline std::string execAny(Interp &in, Services &svc, const std::string &line)
{
    Interp::Args a {in, {}};
    std::string cur;
    for (char c : line) {
        if (c == ' ' || c == '\t') {
            if (!cur.empty()) {
                a.t.push_back(cur);
                cur.clear();
            }
        } else {
            cur.push_back(c);
        }
    }
    if (!cur.empty()) {
        a.t.push_back(cur);
    }
    if (a.t.empty()) {
        return "ERR(empty-line)";
    }
    const auto &tab = svcCommands();
    auto it = tab.find(a.t[0]);
    if (it == tab.end()) {
        return in.exec(line);
    }
    try {
        return it->second(in, svc, a);
    } catch (const ScriptError &e) {
        return "ERR(" + e.why + ")";
    } catch (const std::exception &e) {
        return std::string("THROW(") + typeid(e).name() + ")";
    }
}

// the call part of a case, from the state the set-up left in (in, svc)
inline std::string runCall(Interp &in, Services &svc, const std::string &call)
{
    svc.last = nullptr;
    auto issueText = [](const libcellml::LoggerPtr &l) {
        std::string t;
        if (l != nullptr) {
            for (size_t i = 0; i < l->issueCount(); ++i) {
                t += l->issue(i)->description() + "\n";
            }
        }
        return t;
    };
    std::vector<libcellml::LoggerPtr> loggers {svc.ann, svc.imp, svc.an, svc.val, svc.pr};
    std::vector<std::string> issuesBefore;
    for (const auto &l : loggers) {
        issuesBefore.push_back(issueText(l));
    }
    std::string before = fullDump(in);
    size_t slotsBefore = in.slots.size();
    std::string ret = execAny(in, svc, call);
    // objects a call returned are adopted into new slots: leave them out of the comparison
    in.slots.resize(slotsBefore);
    std::string after = fullDump(in);
    // issues=<n>: the service the call went to holds n issues AND they are not the ones it held before the call
    std::string issues = "-";
    if (svc.last != nullptr) {
        size_t n = svc.last->issueCount();
        for (size_t i = 0; i < loggers.size(); ++i) {
            if (loggers[i] == svc.last && issueText(svc.last) == issuesBefore[i]) {
                n = 0;
            }
        }
        issues = std::to_string(n);
    }
    return ret + " " + (before == after ? "same" : "CHANGED") + " issues=" + issues;
}

inline std::string runSetup(Interp &in, Services &svc, const std::string &setup)
{
    for (const auto &cmd : splitws(setup, ';')) {
        if (!cmd.empty()) {
            std::string r = execAny(in, svc, cmd);
            if (r.rfind("ERR", 0) == 0) {
                return "ERR(setup:" + cmd + ":" + r + ")";
            }
        }
    }
    return "";
}

inline std::string runBadArgCase(const std::string &line)
{
    auto bar = line.find('|');
    if (bar == std::string::npos) {
        return "ERR(no-call)";
    }
    Interp in;
    Services svc;
    std::string e = runSetup(in, svc, line.substr(0, bar));
    if (!e.empty()) {
        return e;
    }
    return runCall(in, svc, line.substr(bar + 1));
}

inline std::vector<std::string> listCommands()
{
    std::vector<std::string> out;
    for (const auto &kv : svcCommands()) {
        out.push_back(kv.first);
    }
    return out;
}

// Consecutive cases with the same set-up share it: a group process runs the set-up once and forks one child per call
// (copy-on-write: every call starts from the same state), so a crash, an ASan report or a hang costs only that call.
inline int runBadArg(const std::vector<std::string> &lines)
{
    size_t i = 0;
    const size_t n = lines.size();
    while (i < n) {
        auto bar = lines[i].find('|');
        std::string setup = bar == std::string::npos ? std::string() : lines[i].substr(0, bar);
        size_t j = i;
        while (j < n && lines[j].compare(0, setup.size() + 1, setup + "|") == 0) {
            ++j;
        }
        if (j == i) {
            printf("ERR(no-call)\n");
            ++i;
            continue;
        }
        fflush(stdout);
        pid_t group = fork();
        if (group == 0) {
            struct rlimit rl;
            rl.rlim_cur = rl.rlim_max = 16 * 1024 * 1024;
            setrlimit(RLIMIT_STACK, &rl);
            Interp in;
            Services svc;
            alarm(120);
            std::string e = runSetup(in, svc, setup);
            alarm(0);
            for (size_t k = i; k < j; ++k) {
                if (!e.empty()) {
                    printf("%s\n", e.c_str());
                    continue;
                }
                int fds[2];
                if (pipe(fds) != 0) {
                    _exit(3);
                }
                fflush(stdout);
                pid_t c = fork();
                if (c == 0) {
                    close(fds[0]);
                    alarm(30);
                    std::string r;
                    try {
                        r = runCall(in, svc, lines[k].substr(setup.size() + 1));
                    } catch (const std::exception &ex) {
                        r = std::string("THROW(") + typeid(ex).name() + ")";
                    } catch (...) {
                        r = "THROW(unknown)";
                    }
                    r += "\n";
                    ssize_t w = write(fds[1], r.data(), r.size());
                    (void)w;
                    _exit(0);
                }
                close(fds[1]);
                std::string got;
                char buf[4096];
                ssize_t m;
                while ((m = read(fds[0], buf, sizeof buf)) > 0) {
                    got.append(buf, size_t(m));
                }
                close(fds[0]);
                int status = 0;
                waitpid(c, &status, 0);
                if (!got.empty() && got.back() == '\n') {
                    fputs(got.c_str(), stdout);
                } else if (WIFSIGNALED(status)) {
                    if (WTERMSIG(status) == SIGALRM) {
                        printf("TIMEOUT\n");
                    } else {
                        printf("CRASH(%d)\n", WTERMSIG(status));
                    }
                } else {
                    printf("CRASH(exit%d)\n", WEXITSTATUS(status));
                }
            }
            fflush(stdout);
            _exit(0);
        }
        int status = 0;
        waitpid(group, &status, 0);
        if (!(WIFEXITED(status) && WEXITSTATUS(status) == 0)) {
            // the set-up itself died: run the cases of the group one by one so that each gets its own line
            std::vector<std::string> part(lines.begin() + long(i), lines.begin() + long(j));
            runCases(part, [](const std::string &c) { return runBadArgCase(c); }, 60, 16);
        }
        i = j;
    }
    fflush(stdout);
    return 0;
}

} // namespace c09
} // namespace verif
