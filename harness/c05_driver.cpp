// C05 driver.  argv[1] = case file: one hex-encoded CellML 2.0 document per line (rendered by
// gen/abstract_systems.py).  For each: Parser (strict) -> Analyser::analyseModel -> one canonical line.
//
// Canonical naming (independent of the names used in the document):
//   variable  = "<c>.<v>"  c = index of its component in depth-first document order, v = index in the component
//   equation  = the value of the single <cn> the renderer puts in every equation (its id)
// Line:  T=<model type> I=<issues, sorted: level:rule:item> VOI=<primary|->
//        S=<primary>:<index>:<initialising|->:<equation ids '+'>;...      (AnalyserModel::states(), in order)
//        V=<primary>:<type>:<index>:<initialising|->:<equation ids>;...   (AnalyserModel::variables(), in order)
//        E=<id>:<type>:<computed variables '+'>:<dependencies '+'>:<nla system index|->:<nla siblings '+'>;...
// Only public API is used.
#include <algorithm>
#include <map>
#include <sstream>

#include <libcellml>

#include "forkrun.hpp"

using namespace verif;

static std::map<libcellml::Variable *, std::string> gVarIds;

static void indexComponent(const libcellml::ComponentPtr &c, size_t &n)
{
    size_t me = n++;
    for (size_t i = 0; i < c->variableCount(); ++i) {
        gVarIds[c->variable(i).get()] = std::to_string(me) + "." + std::to_string(i);
    }
    for (size_t i = 0; i < c->componentCount(); ++i) {
        indexComponent(c->component(i), n);
    }
}

static std::string vid(const libcellml::VariablePtr &v)
{
    if (v == nullptr) {
        return "-";
    }
    auto it = gVarIds.find(v.get());
    return (it == gVarIds.end()) ? std::string("?") : it->second;
}

static void findCn(const libcellml::AnalyserEquationAstPtr &ast, std::vector<std::string> &out)
{
    if (ast == nullptr) {
        return;
    }
    if (ast->type() == libcellml::AnalyserEquationAst::Type::CN) {
        out.push_back(ast->value());
    }
    findCn(ast->leftChild(), out);
    findCn(ast->rightChild(), out);
}

static std::string eid(const libcellml::AnalyserEquationPtr &e)
{
    if (e == nullptr) {
        return "null";
    }
    std::vector<std::string> cns;
    findCn(e->ast(), cns);
    if (cns.size() != 1) {
        return "cn" + std::to_string(cns.size());
    }
    return cns[0];
}

static std::string eids(const std::vector<libcellml::AnalyserEquationPtr> &es)
{
    std::string r;
    for (size_t i = 0; i < es.size(); ++i) {
        r += (i ? "+" : "") + eid(es[i]);
    }
    return r;
}

static const char *levelName(libcellml::Issue::Level l)
{
    switch (l) {
    case libcellml::Issue::Level::ERROR: return "E";
    case libcellml::Issue::Level::WARNING: return "W";
    default: return "M";
    }
}

static std::string ruleName(libcellml::Issue::ReferenceRule r)
{
    using R = libcellml::Issue::ReferenceRule;
    switch (r) {
    case R::ANALYSER_EQUATION_NOT_EQUALITY_STATEMENT: return "NOT_EQUALITY";
    case R::ANALYSER_UNITS: return "UNITS";
    case R::ANALYSER_UNLINKED_UNITS: return "UNLINKED_UNITS";
    case R::ANALYSER_VARIABLE_INITIALISED_MORE_THAN_ONCE: return "INIT_TWICE";
    case R::ANALYSER_VARIABLE_NON_CONSTANT_INITIALISATION: return "NON_CONST_INIT";
    case R::ANALYSER_VOI_INITIALISED: return "VOI_INIT";
    case R::ANALYSER_VOI_SEVERAL: return "VOI_SEVERAL";
    case R::ANALYSER_ODE_NOT_FIRST_ORDER: return "ODE_ORDER";
    case R::ANALYSER_VARIABLE_UNUSED: return "UNUSED";
    case R::ANALYSER_STATE_NOT_INITIALISED: return "STATE_NOT_INIT";
    case R::ANALYSER_STATE_RATE_AS_ALGEBRAIC: return "STATE_RATE_ALG";
    case R::ANALYSER_VARIABLE_COMPUTED_MORE_THAN_ONCE: return "COMPUTED_TWICE";
    default: return "RULE" + std::to_string(int(r));
    }
}

static std::string analyse(const std::string &hex)
{
    std::string text = hexdecode(hex);
    gVarIds.clear();
    auto parser = libcellml::Parser::create(true);
    auto model = parser->parseModel(text);
    std::ostringstream o;
    if (parser->errorCount() != 0) {
        o << "PARSE_ERROR " << parser->error(0)->description();
        std::string s = o.str();
        std::replace(s.begin(), s.end(), '\n', ' ');
        return s;
    }
    size_t n = 0;
    for (size_t i = 0; i < model->componentCount(); ++i) {
        indexComponent(model->component(i), n);
    }
    auto analyser = libcellml::Analyser::create();
    analyser->analyseModel(model);
    auto am = analyser->model();

    o << "T=" << libcellml::AnalyserModel::typeAsString(am->type());

    std::vector<std::string> issues;
    for (size_t i = 0; i < analyser->issueCount(); ++i) {
        auto is = analyser->issue(i);
        std::string item = "-";
        if (is->item() != nullptr && is->item()->type() == libcellml::CellmlElementType::VARIABLE) {
            item = vid(is->item()->variable());
        }
        issues.push_back(std::string(levelName(is->level())) + ":" + ruleName(is->referenceRule()) + ":" + item);
    }
    std::sort(issues.begin(), issues.end());
    o << " I=";
    for (size_t i = 0; i < issues.size(); ++i) {
        o << (i ? "," : "") << issues[i];
    }

    o << " VOI=" << ((am->voi() != nullptr) ? vid(am->voi()->variable()) : std::string("-"));

    o << " S=";
    for (const auto &v : am->states()) {
        o << vid(v->variable()) << ":" << v->index() << ":" << vid(v->initialisingVariable()) << ":" << eids(v->equations()) << ";";
    }
    o << " V=";
    for (const auto &v : am->variables()) {
        o << vid(v->variable()) << ":" << libcellml::AnalyserVariable::typeAsString(v->type()) << ":" << v->index() << ":"
          << vid(v->initialisingVariable()) << ":" << eids(v->equations()) << ";";
    }
    o << " E=";
    for (const auto &e : am->equations()) {
        o << eid(e) << ":" << libcellml::AnalyserEquation::typeAsString(e->type()) << ":";
        auto vars = e->variables();
        for (size_t i = 0; i < vars.size(); ++i) {
            o << (i ? "+" : "") << ((vars[i] != nullptr) ? vid(vars[i]->variable()) : std::string("null"));
        }
        o << ":" << eids(e->dependencies()) << ":";
        if (e->nlaSystemIndex() == size_t(-1)) {
            o << "-";
        } else {
            o << e->nlaSystemIndex();
        }
        o << ":" << eids(e->nlaSiblings()) << ";";
    }
    return o.str();
}

int main(int argc, char **argv)
{
    if (argc < 2) {
        fprintf(stderr, "usage: c05_driver <case file>\n");
        return 2;
    }
    return runCases(readLines(argv[1]), analyse, 20);
}
