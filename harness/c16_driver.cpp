// C16 driver.  argv[1] = mode (direct | pos), argv[2] = case file: one hex-encoded string per line.
// direct: calls the internal recognisers / conversions (static link).
// pos:    puts the text in every public position where a number is expected and runs
//         Parser -> Validator (-> Analyser for accepted models).
#include <cmath>
#include <cstdio>
#include <sstream>

#include <libcellml>

#include "utilities.h"

#include "forkrun.hpp"

using namespace verif;

static std::string fmtDouble(bool ok, double v)
{
    if (!ok) {
        return "no";
    }
    char buf[64];
    snprintf(buf, sizeof buf, "%.17g", v);
    return buf;
}

static std::string direct(const std::string &hex)
{
    std::string s = hexdecode(hex);
    std::ostringstream o;
    o << libcellml::isCellMLInteger(s) << ' ' << libcellml::isCellMLBasicReal(s) << ' ' << libcellml::isCellMLReal(s) << ' '
      << libcellml::isNonNegativeCellMLInteger(s);
    int i = 0;
    bool okI = libcellml::convertToInt(s, i);
    o << " int=" << (okI ? std::to_string(i) : std::string("no"));
    double d = 0.0;
    bool okD = libcellml::convertToDouble(s, d);
    o << " dbl=" << fmtDouble(okD, d);
    o << " bdbl=" << libcellml::canConvertToBasicDouble(s);
    bool okP = false;
    int p = libcellml::convertPrefixToInt(s, &okP);
    o << " pre=" << (okP ? std::to_string(p) : std::string("no"));
    // printer side: what convertToString writes for the converted value is read back
    if (okD && std::isfinite(d)) {
        std::string t = libcellml::convertToString(d, true);
        double back = 0.0;
        bool okB = libcellml::convertToDouble(t, back);
        char b15a[64];
        char b15b[64];
        snprintf(b15a, sizeof b15a, "%.15g", d);
        snprintf(b15b, sizeof b15b, "%.15g", back);
        o << " rt=" << (okB && std::string(b15a) == std::string(b15b) ? "ok" : "BAD:" + t);
    } else {
        o << " rt=na";
    }
    return o.str();
}

// ---- public positions ----------------------------------------------------------------------

static std::string xmlEscape(const std::string &s)
{
    std::string o;
    for (char c : s) {
        switch (c) {
        case '&': o += "&amp;"; break;
        case '<': o += "&lt;"; break;
        case '>': o += "&gt;"; break;
        case '"': o += "&quot;"; break;
        default: o.push_back(c);
        }
    }
    return o;
}

static const char *HEAD = "<?xml version=\"1.0\" encoding=\"UTF-8\"?>\n<model xmlns=\"http://www.cellml.org/cellml/2.0#\" name=\"m\">\n";

static std::string doc(const std::string &pos, const std::string &v)
{
    std::string e = xmlEscape(v);
    std::string s = HEAD;
    if (pos == "exponent") {
        s += "<units name=\"u\"><unit units=\"metre\" exponent=\"" + e + "\"/></units>";
    } else if (pos == "multiplier") {
        s += "<units name=\"u\"><unit units=\"metre\" multiplier=\"" + e + "\"/></units>";
    } else if (pos == "prefix") {
        s += "<units name=\"u\"><unit units=\"metre\" prefix=\"" + e + "\"/></units>";
    } else if (pos == "order") {
        s += "<component name=\"c\"><variable name=\"x\" units=\"second\" initial_value=\"1\"/><variable name=\"y\" units=\"second\"/>"
             "<reset variable=\"x\" test_variable=\"y\" order=\""
             + e + "\"><test_value><math xmlns=\"http://www.w3.org/1998/Math/MathML\" xmlns:cellml=\"http://www.cellml.org/cellml/2.0#\"><cn cellml:units=\"second\">1</cn></math></test_value>"
                   "<reset_value><math xmlns=\"http://www.w3.org/1998/Math/MathML\" xmlns:cellml=\"http://www.cellml.org/cellml/2.0#\"><cn cellml:units=\"second\">1</cn></math></reset_value></reset></component>";
    } else if (pos == "initial") {
        s += "<component name=\"c\"><variable name=\"x\" units=\"second\" initial_value=\"" + e + "\"/></component>";
    } else if (pos == "cn") {
        s += "<component name=\"c\"><variable name=\"x\" units=\"second\"/><math xmlns=\"http://www.w3.org/1998/Math/MathML\" xmlns:cellml=\"http://www.cellml.org/cellml/2.0#\"><apply><eq/><ci>x</ci><cn cellml:units=\"second\">"
             + e + "</cn></apply></math></component>";
    } else if (pos == "cne_m") { // e-notation mantissa
        s += "<component name=\"c\"><variable name=\"x\" units=\"second\"/><math xmlns=\"http://www.w3.org/1998/Math/MathML\" xmlns:cellml=\"http://www.cellml.org/cellml/2.0#\"><apply><eq/><ci>x</ci><cn cellml:units=\"second\" type=\"e-notation\">"
             + e + "<sep/>2</cn></apply></math></component>";
    } else if (pos == "cne_e") { // e-notation exponent
        s += "<component name=\"c\"><variable name=\"x\" units=\"second\"/><math xmlns=\"http://www.w3.org/1998/Math/MathML\" xmlns:cellml=\"http://www.cellml.org/cellml/2.0#\"><apply><eq/><ci>x</ci><cn cellml:units=\"second\" type=\"e-notation\">1.5<sep/>"
             + e + "</cn></apply></math></component>";
    }
    s += "\n</model>\n";
    return s;
}

static const char *POSITIONS[] = {"exponent", "multiplier", "prefix", "order", "initial", "cn", "cne_m", "cne_e"};

static std::string positions(const std::string &hex)
{
    std::string v = hexdecode(hex);
    std::ostringstream o;
    for (const char *pos : POSITIONS) {
        std::string res;
        try {
            auto parser = libcellml::Parser::create(true);
            auto model = parser->parseModel(doc(pos, v));
            auto validator = libcellml::Validator::create();
            validator->validateModel(model);
            size_t pe = parser->issueCount();
            size_t ve = validator->issueCount();
            std::string an = "-";
            std::string code = "-";
            if (pe == 0 && ve == 0) {
                auto analyser = libcellml::Analyser::create();
                analyser->analyseModel(model);
                an = std::to_string(analyser->errorCount());
                if (analyser->errorCount() == 0) {
                    auto gen = libcellml::Generator::create();
                    gen->setModel(analyser->model());
                    std::string c = gen->implementationCode();
                    code = c.empty() ? "empty" : "code";
                    auto printer = libcellml::Printer::create();
                    std::string out = printer->printModel(model);
                    auto p2 = libcellml::Parser::create(true);
                    auto m2 = p2->parseModel(out);
                    code += (p2->issueCount() == 0 && m2 != nullptr) ? "+rt" : "+RTBAD";
                }
            }
            res = std::string(pe == 0 && ve == 0 ? "acc" : "rej") + "(p" + std::to_string(pe) + ",v" + std::to_string(ve) + ",a" + an + "," + code + ")";
        } catch (const std::exception &e) {
            res = std::string("THROW(") + typeid(e).name() + ")";
        }
        o << pos << '=' << res << ' ';
    }
    return o.str();
}

int main(int argc, char **argv)
{
    if (argc < 3) {
        fprintf(stderr, "usage: %s direct|pos cases\n", argv[0]);
        return 2;
    }
    std::string mode = argv[1];
    auto cases = readLines(argv[2]);
    if (mode == "direct") {
        return runCases(cases, direct, 10);
    }
    return runCases(cases, positions, 20);
}
