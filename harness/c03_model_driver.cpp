// C03 whole-model pipeline driver.  argv[1] = mode ("gen"), argv[2] = case file.
//
// mode "gen": one path of a .cellml file per line.  For each file:
//     Parser (strict) -> Validator -> Analyser -> Generator, C profile (interfaceCode + implementationCode) and
//     Python profile (implementationCode).
//   Files written:  <path>.h  <path>.c  <path>.py   (the C implementation's `#include "model.h"` is kept as the
//   profile prints it; lib/coderun.py stores the pair as model.h / model.c in a directory of its own).
//   Output, ONE line per case (no JSON, tabs/newlines never appear inside a field):
//     OK type=<ode|algebraic|nla|dae> states=<n> variables=<n> voi=<component.name:units|-> warnings=<n> vars=<list>
//        <list> = comma separated "index:type:component.name:units:initcomponent.initname" for the states (array
//        order) then the variables (array order); type = AnalyserVariable::typeAsString (state, constant,
//        computed_constant, algebraic, external); the last field is "-" when there is no initialising variable.
//        After vars= comes  eqs=<list>  with "type/nlaSystemIndex/var+var" per AnalyserEquation (model order).
//     ISSUES parser=<n> validator=<n> analyser=<n> type=<analyser model type or -> first=<first issue description>
//   Also written: <path>.dump, what the analyser hands to the generator (public getters only), one record per line:
//     T <model type>
//     S <index> <first equation position|->                      one per state, array order
//     V <index> <type> <has initialising variable 0|1> <first equation position|->     one per variable, array order
//     E <position> <type> <nla system index|-> <vars: kind:index,...> <deps: positions,...|-> <nla siblings: positions,...|-> <isStateRateBased 0|1>
//     A <position> <TAB> <AST of the equation in prefix form: TYPE VAL left right, VAL = "-" or "=" text, "_" = null>
//   (position = index in AnalyserModel::equations(); the AST is AnalyserEquation::ast() as analysed, i.e. after unit scaling)
//   Only ERROR-level issues are counted for the analyser (unit warnings / messages do not make a model invalid);
//   the count of analyser warnings is given on the OK line.
//   Crashes / uncaught exceptions / hangs become CRASH(sig) / THROW(type) / TIMEOUT through forkrun.hpp.
#include <cstdio>
#include <fstream>
#include <sstream>
#include <string>

#include <libcellml>

#include "forkrun.hpp"

using namespace verif;

static std::string clean(std::string s)
{
    for (auto &c : s) {
        if (c == '\t' || c == '\n' || c == '\r') {
            c = ' ';
        }
    }
    return s;
}

static std::string slurp(const std::string &path)
{
    std::ifstream in(path, std::ios::binary);
    if (!in) {
        throw std::runtime_error("cannot read " + path);
    }
    std::ostringstream ss;
    ss << in.rdbuf();
    return ss.str();
}

static void spit(const std::string &path, const std::string &text)
{
    std::ofstream out(path, std::ios::binary);
    out << text;
}

static std::string modelType(libcellml::AnalyserModel::Type t)
{
    return libcellml::AnalyserModel::typeAsString(t);
}

static std::string varName(const libcellml::VariablePtr &v)
{
    if (v == nullptr) {
        return "-";
    }
    auto parent = std::dynamic_pointer_cast<libcellml::Component>(v->parent());
    return (parent ? parent->name() : std::string("?")) + "." + v->name();
}

static std::string varEntry(const libcellml::AnalyserVariablePtr &av)
{
    auto v = av->variable();
    auto u = v->units();
    return std::to_string(av->index()) + ":" + libcellml::AnalyserVariable::typeAsString(av->type()) + ":" + varName(v) + ":"
           + (u ? u->name() : std::string("?")) + ":" + varName(av->initialisingVariable());
}

static std::string astLine(const libcellml::AnalyserEquationAstPtr &a)
{
    if (a == nullptr) {
        return "_";
    }
    std::string t = libcellml::AnalyserEquationAst::typeAsString(a->type());
    for (auto &c : t) {
        c = char(toupper(c));
    }
    std::string val = "-";
    if (a->type() == libcellml::AnalyserEquationAst::Type::CI) {
        val = "=" + (a->variable() ? a->variable()->name() : std::string("?"));
    } else if (a->type() == libcellml::AnalyserEquationAst::Type::CN) {
        val = "=" + a->value();
    }
    return t + " " + val + " " + astLine(a->leftChild()) + " " + astLine(a->rightChild());
}

static std::string dumpModel(const libcellml::AnalyserModelPtr &am)
{
    std::ostringstream o;
    auto eqs = am->equations();
    auto posOf = [&](const libcellml::AnalyserEquationPtr &e) -> std::string {
        for (size_t i = 0; i < eqs.size(); ++i) {
            if (eqs[i] == e) {
                return std::to_string(i);
            }
        }
        return "-";
    };
    o << "T " << libcellml::AnalyserModel::typeAsString(am->type()) << "\n";
    for (size_t i = 0; i < am->stateCount(); ++i) {
        auto v = am->state(i);
        o << "S " << v->index() << " " << (v->equationCount() > 0 ? posOf(v->equation(0)) : std::string("-")) << "\n";
    }
    for (size_t i = 0; i < am->variableCount(); ++i) {
        auto v = am->variable(i);
        o << "V " << v->index() << " " << libcellml::AnalyserVariable::typeAsString(v->type()) << " "
          << (v->initialisingVariable() != nullptr ? 1 : 0) << " " << (v->equationCount() > 0 ? posOf(v->equation(0)) : std::string("-")) << "\n";
    }
    for (size_t i = 0; i < eqs.size(); ++i) {
        auto e = eqs[i];
        o << "E " << i << " " << libcellml::AnalyserEquation::typeAsString(e->type()) << " ";
        if (e->type() == libcellml::AnalyserEquation::Type::NLA) {
            o << e->nlaSystemIndex();
        } else {
            o << "-";
        }
        o << " ";
        for (size_t j = 0; j < e->variableCount(); ++j) {
            auto v = e->variable(j);
            o << (j ? "," : "") << libcellml::AnalyserVariable::typeAsString(v->type()) << ":" << v->index();
        }
        if (e->variableCount() == 0) {
            o << "-";
        }
        o << " ";
        for (size_t j = 0; j < e->dependencyCount(); ++j) {
            o << (j ? "," : "") << posOf(e->dependency(j));
        }
        if (e->dependencyCount() == 0) {
            o << "-";
        }
        o << " ";
        for (size_t j = 0; j < e->nlaSiblingCount(); ++j) {
            o << (j ? "," : "") << posOf(e->nlaSibling(j));
        }
        if (e->nlaSiblingCount() == 0) {
            o << "-";
        }
        o << " " << (e->isStateRateBased() ? 1 : 0) << "\n";
    }
    for (size_t i = 0; i < eqs.size(); ++i) {
        o << "A " << i << "\t" << astLine(eqs[i]->ast()) << "\n";
    }
    return o.str();
}

static std::string genCase(const std::string &path)
{
    auto text = slurp(path);
    auto parser = libcellml::Parser::create(true);
    auto model = parser->parseModel(text);
    size_t np = parser->errorCount();
    std::string first;
    if (np > 0) {
        first = parser->error(0)->description();
    }
    size_t nv = 0;
    size_t na = 0;
    std::string atype = "-";
    libcellml::AnalyserPtr analyser;
    if (np == 0 && model != nullptr) {
        auto validator = libcellml::Validator::create();
        validator->validateModel(model);
        nv = validator->errorCount();
        if (nv > 0) {
            first = validator->error(0)->description();
        } else {
            analyser = libcellml::Analyser::create();
            analyser->analyseModel(model);
            na = analyser->errorCount();
            atype = modelType(analyser->model()->type());
            if (na > 0) {
                first = analyser->error(0)->description();
            }
        }
    }
    if (np + nv + na > 0 || analyser == nullptr || !analyser->model()->isValid()) {
        return "ISSUES parser=" + std::to_string(np) + " validator=" + std::to_string(nv) + " analyser=" + std::to_string(na)
               + " type=" + atype + " first=" + clean(first);
    }
    auto am = analyser->model();

    spit(path + ".dump", dumpModel(am));

    auto gen = libcellml::Generator::create();
    gen->setModel(am);
    spit(path + ".h", gen->interfaceCode());
    spit(path + ".c", gen->implementationCode());
    gen->setProfile(libcellml::GeneratorProfile::create(libcellml::GeneratorProfile::Profile::PYTHON));
    spit(path + ".py", gen->implementationCode());

    std::string vars;
    for (size_t i = 0; i < am->stateCount(); ++i) {
        vars += (vars.empty() ? "" : ",") + varEntry(am->state(i));
    }
    for (size_t i = 0; i < am->variableCount(); ++i) {
        vars += (vars.empty() ? "" : ",") + varEntry(am->variable(i));
    }
    std::string eqs;
    for (size_t i = 0; i < am->equationCount(); ++i) {
        auto eq = am->equation(i);
        std::string vs;
        for (size_t j = 0; j < eq->variableCount(); ++j) {
            vs += (j ? "+" : "") + varName(eq->variable(j)->variable());
        }
        auto idx = eq->nlaSystemIndex();
        eqs += (eqs.empty() ? "" : ",") + libcellml::AnalyserEquation::typeAsString(eq->type()) + "/"
               + (eq->type() == libcellml::AnalyserEquation::Type::NLA ? std::to_string(idx) : std::string("-")) + "/" + vs;
    }
    std::string voi = "-";
    if (am->voi() != nullptr) {
        auto v = am->voi()->variable();
        voi = varName(v) + ":" + (v->units() ? v->units()->name() : std::string("?"));
    }
    return "OK type=" + atype + " states=" + std::to_string(am->stateCount()) + " variables=" + std::to_string(am->variableCount())
           + " voi=" + clean(voi) + " warnings=" + std::to_string(analyser->warningCount()) + " vars=" + clean(vars) + " eqs=" + clean(eqs);
}

int main(int argc, char **argv)
{
    if (argc < 3) {
        fprintf(stderr, "usage: %s gen <case file>\n", argv[0]);
        return 2;
    }
    std::string mode = argv[1];
    auto cases = readLines(argv[2]);
    if (mode == "gen") {
        return runCases(cases, genCase, 30);
    }
    fprintf(stderr, "unknown mode %s\n", mode.c_str());
    return 2;
}
