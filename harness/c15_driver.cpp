// C15 driver — issue reporting is coherent across all services.
//
//   c15_driver <mode> <case file>      one output line per input line
//
// modes
//   rules   "R <int>"                       issue with that ReferenceRule value -> referenceHeading(), url()
//   holder  "H <setter 0..17> <null 0|1> <type 0..14>" | "H init"
//                                           AnyCellmlElementImpl setter -> type(), stored C++ type, the 8 accessors
//   ops     "O <op> <op> ..."               op = a{E|W|M}<id> | c | r<index>   applied to a real LoggerImpl
//   svc     "S <steps> <hex document>"      steps over {P,Q,V,A,R,N}: strict parser, permissive parser, validator,
//                                           analyser, printer, annotator scenarios
//   imp     "I <strict 0|1> <dir> <main file> <script>"   importer scenarios on files written by the check
//   hist    "Y <service> <strict> <input>..." | "Z <strict> <dir> <main>..."   ONE service instance over several inputs
//
// The driver is linked with  -Wl,--wrap=  on LoggerImpl::addIssue / removeAllIssues / removeError, so every
// primitive logger operation performed by any service is recorded (per LoggerImpl object).  After each service
// call the coherence predicate of the property is evaluated through the PUBLIC accessors, and the recorded
// trace plus the canonical logger state are printed; the check replays the trace through the extracted model.
//
// Compiled with -fno-access-control (the library is linked statically; private pimpl members are read directly).
#include <any>
#include <cstdio>
#include <fstream>
#include <map>
#include <sstream>
#include <typeindex>

#include <libcellml>

#include "anycellmlelement_p.h"
#include "issue_p.h"
#include "logger_p.h"

#include "forkrun.hpp"

using namespace verif;
using namespace libcellml;

// ------------------------------------------------------------------------------------------------ tracing

struct Rec
{
    std::vector<std::string> ops;
    std::map<const void *, size_t> ids;
    std::vector<IssuePtr> keep; // keeps addresses unique for the life of the record
    size_t idOf(const IssuePtr &i)
    {
        auto it = ids.find(i.get());
        if (it != ids.end()) {
            return it->second;
        }
        size_t id = ids.size();
        ids[i.get()] = id;
        keep.push_back(i);
        return id;
    }
};

static std::map<const void *, Rec> gTrace;

#define SYM_ADD _ZN9libcellml6Logger10LoggerImpl8addIssueERKSt10shared_ptrINS_5IssueEE
#define SYM_CLR _ZN9libcellml6Logger10LoggerImpl15removeAllIssuesEv
#define SYM_REM _ZN9libcellml6Logger10LoggerImpl11removeErrorEm
#define CAT2(a, b) a##b
#define CAT(a, b) CAT2(a, b)

extern "C" {
void CAT(__real_, SYM_ADD)(void *self, const IssuePtr &issue);
void CAT(__real_, SYM_CLR)(void *self);
void CAT(__real_, SYM_REM)(void *self, size_t index);

void CAT(__wrap_, SYM_ADD)(void *self, const IssuePtr &issue)
{
    if (issue != nullptr) {
        auto &r = gTrace[self];
        size_t id = r.idOf(issue);
        int lv = int(issue->level());
        char c = lv == 0 ? 'E' : (lv == 1 ? 'W' : 'M'); // addIssue: default branch = message
        r.ops.push_back(std::string("a") + c + std::to_string(id));
    }
    CAT(__real_, SYM_ADD)(self, issue);
}

void CAT(__wrap_, SYM_CLR)(void *self)
{
    gTrace[self].ops.push_back("c");
    CAT(__real_, SYM_CLR)(self);
}

void CAT(__wrap_, SYM_REM)(void *self, size_t index)
{
    gTrace[self].ops.push_back("r" + std::to_string(index));
    CAT(__real_, SYM_REM)(self, index);
}
}

// The trace since (and including) the last removeAllIssues: what precedes a clear cannot matter.
static std::string joinOps(const std::vector<std::string> &v)
{
    size_t from = 0;
    for (size_t i = 0; i < v.size(); ++i) {
        if (v[i] == "c") {
            from = i;
        }
    }
    std::string s;
    for (size_t i = from; i < v.size(); ++i) {
        s += (i > from ? "," : "") + v[i];
    }
    return s.empty() ? "-" : s;
}

// a new service object may be allocated where a dead one was: forget that one's trace
template<typename T>
static T fresh(T svc)
{
    gTrace.erase(static_cast<Logger *>(svc.get())->pFunc());
    return svc;
}

// ------------------------------------------------------------------------------------------------ canonical state

static std::string idList(const std::vector<size_t> &v)
{
    std::string s;
    for (size_t i = 0; i < v.size(); ++i) {
        s += (i ? "," : "") + std::to_string(v[i]);
    }
    return s.empty() ? "-" : s;
}

// State of a real logger: level sequence, identity sequence, the three index vectors (read from the pimpl),
// then what the PUBLIC accessors return for index 0..count (count itself must give null).
static std::string canonicalState(Logger *logger)
{
    Logger::LoggerImpl *p = logger->pFunc();
    Rec &rec = gTrace[p];
    std::string lv;
    std::vector<size_t> ids;
    for (const auto &i : p->mIssues) {
        int l = int(i->level());
        lv += l == 0 ? 'E' : (l == 1 ? 'W' : 'M');
        ids.push_back(rec.idOf(i));
    }
    std::ostringstream o;
    o << "lv=" << (lv.empty() ? "-" : lv) << " ids=" << idList(ids) << " E=" << idList(p->mErrors) << " W=" << idList(p->mWarnings)
      << " M=" << idList(p->mMessages);
    auto probe = [&](const char *name, size_t count, const std::function<IssuePtr(size_t)> &get) {
        o << " " << name << "=";
        size_t lim = count < 40 ? count : 40;
        for (size_t i = 0; i <= lim; ++i) {
            size_t idx = (i == lim) ? count : i;
            std::string r;
            try {
                IssuePtr x = get(idx);
                r = x == nullptr ? "n" : std::to_string(rec.idOf(x));
            } catch (const std::out_of_range &) {
                r = "T";
            }
            o << (i ? "," : "") << r;
        }
    };
    o << " cnt=" << logger->issueCount() << "," << logger->errorCount() << "," << logger->warningCount() << "," << logger->messageCount();
    probe("i", logger->issueCount(), [&](size_t i) { return logger->issue(i); });
    probe("e", logger->errorCount(), [&](size_t i) { return logger->error(i); });
    probe("w", logger->warningCount(), [&](size_t i) { return logger->warning(i); });
    probe("m", logger->messageCount(), [&](size_t i) { return logger->message(i); });
    return o.str();
}

// ------------------------------------------------------------------------------------------------ the coherence predicate (public API only, except the any type)

static const char *expectedAnyType(CellmlElementType t, bool &known)
{
    known = true;
    switch (t) {
    case CellmlElementType::COMPONENT:
    case CellmlElementType::COMPONENT_REF:
    case CellmlElementType::MATH:
        return typeid(ComponentPtr).name();
    case CellmlElementType::CONNECTION:
    case CellmlElementType::MAP_VARIABLES:
        return typeid(VariablePairPtr).name();
    case CellmlElementType::ENCAPSULATION:
    case CellmlElementType::MODEL:
        return typeid(ModelPtr).name();
    case CellmlElementType::IMPORT:
        return typeid(ImportSourcePtr).name();
    case CellmlElementType::RESET:
    case CellmlElementType::RESET_VALUE:
    case CellmlElementType::TEST_VALUE:
        return typeid(ResetPtr).name();
    case CellmlElementType::UNDEFINED:
        return typeid(std::nullptr_t).name();
    case CellmlElementType::UNIT:
        return typeid(UnitsItemPtr).name();
    case CellmlElementType::UNITS:
        return typeid(UnitsPtr).name();
    case CellmlElementType::VARIABLE:
        return typeid(VariablePtr).name();
    }
    known = false;
    return "";
}

struct Coh
{
    std::string bad; // empty = coherent
    size_t mathItems = 0; // issues whose item has type MATH
    size_t mathUnreachable = 0; // ... and component() gives nullptr although a component is stored
    size_t nullPayload = 0;
    std::string rules; // rule values seen
    std::string urlMismatch; // rules whose url does not end in "?issue=<own name>" are decided by the check (it has the table)
    std::string headings;
};

// accessor index -> result pointer (as void*) for an item
static std::vector<const void *> readAll(const AnyCellmlElementPtr &a)
{
    return {a->component().get(), a->importSource().get(), a->model().get(), a->reset().get(),
            a->units().get(), a->unitsItem().get(), a->variable().get(), a->variablePair().get()};
}

static int accessorFor(CellmlElementType t)
{
    switch (t) {
    case CellmlElementType::COMPONENT:
    case CellmlElementType::COMPONENT_REF:
        return 0;
    case CellmlElementType::IMPORT:
        return 1;
    case CellmlElementType::ENCAPSULATION:
    case CellmlElementType::MODEL:
        return 2;
    case CellmlElementType::RESET:
    case CellmlElementType::RESET_VALUE:
    case CellmlElementType::TEST_VALUE:
        return 3;
    case CellmlElementType::UNITS:
        return 4;
    case CellmlElementType::UNIT:
        return 5;
    case CellmlElementType::VARIABLE:
        return 6;
    case CellmlElementType::CONNECTION:
    case CellmlElementType::MAP_VARIABLES:
        return 7;
    default:
        return -1;
    }
}

static Coh checkLoggerCoherent(Logger *logger)
{
    Coh c;
    std::ostringstream bad;
    try {
        size_t n = logger->issueCount();
        size_t ne = logger->errorCount();
        size_t nw = logger->warningCount();
        size_t nm = logger->messageCount();
        if (n != ne + nw + nm) {
            bad << "counts:" << n << "!=" << ne << "+" << nw << "+" << nm << ";";
        }
        std::vector<IssuePtr> byLevel[3];
        std::map<int, bool> rulesSeen;
        for (size_t i = 0; i < n; ++i) {
            IssuePtr x = logger->issue(i);
            if (x == nullptr) {
                bad << "issue(" << i << ")=null;";
                continue;
            }
            int lv = int(x->level());
            if (lv < 0 || lv > 2) {
                bad << "issue(" << i << ").level=" << lv << ";";
                continue;
            }
            byLevel[lv].push_back(x);
            if (x->description().empty()) {
                bad << "issue(" << i << ").description-empty;";
            }
            int rr = int(x->referenceRule());
            rulesSeen[rr] = true;
            try {
                std::string h = x->referenceHeading();
                std::string u = x->url();
                (void)h;
                if (rr != 0 && u.empty()) {
                    bad << "issue(" << i << ").url-empty;";
                }
            } catch (const std::exception &e) {
                bad << "issue(" << i << ").rule=" << rr << ":heading/url-throws;";
            }
            AnyCellmlElementPtr item = x->item();
            if (item == nullptr) {
                bad << "issue(" << i << ").item=null;";
                continue;
            }
            bool known = false;
            CellmlElementType t = item->type();
            const char *exp = expectedAnyType(t, known);
            if (!known) {
                bad << "issue(" << i << ").item.type=" << int(t) << ":invalid;";
                continue;
            }
            if (std::string(item->mPimpl->mItem.type().name()) != exp) {
                bad << "issue(" << i << ").item:type=" << cellmlElementTypeAsString(t) << "-stores-another-kind;";
            }
            auto r = readAll(item);
            int own = accessorFor(t);
            for (int k = 0; k < 8; ++k) {
                if (t == CellmlElementType::MATH && k == 0) {
                    continue; // component() of a MATH item: nullptr (unchanged tree, finding) or the stored component (repaired); checked below
                }
                if (k != own && r[size_t(k)] != nullptr) {
                    bad << "issue(" << i << ").item:type=" << cellmlElementTypeAsString(t) << "-answers-accessor-" << k << ";";
                }
            }
            if (t == CellmlElementType::MATH) {
                ++c.mathItems;
                ComponentPtr stored;
                try {
                    stored = std::any_cast<ComponentPtr>(item->mPimpl->mItem);
                } catch (const std::bad_any_cast &) {
                }
                if (stored == nullptr) {
                    ++c.nullPayload;
                    bad << "issue(" << i << ").item:type=math-holds-no-object;";
                } else if (item->component() == nullptr) {
                    ++c.mathUnreachable;
                } else if (item->component() != stored) {
                    bad << "issue(" << i << ").item:type=math-component()-is-not-the-stored-component;";
                }
            } else if (own >= 0 && r[size_t(own)] == nullptr) {
                // the stated type is not UNDEFINED but no object is stored: "matches its stated element type or is undefined" fails
                ++c.nullPayload;
                bad << "issue(" << i << ").item:type=" << cellmlElementTypeAsString(t) << "-holds-no-object;";
            }
        }
        const char *nm3[3] = {"error", "warning", "message"};
        for (int lv = 0; lv < 3; ++lv) {
            size_t cnt = lv == 0 ? ne : (lv == 1 ? nw : nm);
            auto get = [&](size_t i) { return lv == 0 ? logger->error(i) : (lv == 1 ? logger->warning(i) : logger->message(i)); };
            if (cnt != byLevel[lv].size()) {
                bad << nm3[lv] << "Count=" << cnt << "-but-" << byLevel[lv].size() << "-issues-of-that-level;";
            }
            for (size_t i = 0; i < cnt; ++i) {
                IssuePtr x = get(i);
                if (x == nullptr) {
                    bad << nm3[lv] << "(" << i << ")=null-below-" << nm3[lv] << "Count;";
                    break;
                }
                if (int(x->level()) != lv) {
                    bad << nm3[lv] << "(" << i << ")-has-level-" << int(x->level()) << ";";
                    break;
                }
                if (i >= byLevel[lv].size() || x != byLevel[lv][i]) {
                    bad << nm3[lv] << "(" << i << ")-is-not-the-" << i << "th-" << nm3[lv] << ";";
                    break;
                }
            }
            if (get(cnt) != nullptr || get(cnt + 7) != nullptr || get(size_t(-1)) != nullptr) {
                bad << nm3[lv] << "(out-of-range)!=null;";
            }
        }
        if (logger->issue(n) != nullptr || logger->issue(n + 3) != nullptr || logger->issue(size_t(-1)) != nullptr) {
            bad << "issue(out-of-range)!=null;";
        }
        std::string rs;
        for (auto &kv : rulesSeen) {
            rs += (rs.empty() ? "" : ",") + std::to_string(kv.first);
        }
        c.rules = rs.empty() ? "-" : rs;
    } catch (const std::exception &e) {
        bad << "accessor-throws:" << typeid(e).name() << ";";
    }
    c.bad = bad.str();
    return c;
}

// one record of the output line
static std::string record(const std::string &svc, const std::string &call, const std::string &res, Logger *logger, const std::string &explained)
{
    Coh c = checkLoggerCoherent(logger);
    std::ostringstream o;
    o << svc << "." << call << " res=" << res << " coh=" << (c.bad.empty() ? "ok" : "BAD:" + c.bad) << " expl=" << explained
      << " math=" << c.mathItems << "/" << c.mathUnreachable << " nullp=" << c.nullPayload << " rules=" << (c.rules.empty() ? "-" : c.rules)
      << " tr=" << joinOps(gTrace[logger->pFunc()].ops) << " " << canonicalState(logger);
    return o.str();
}

static std::string explainedIf(bool failing, Logger *logger)
{
    if (!failing) {
        return "na";
    }
    return logger->issueCount() > 0 ? "ok" : "MISSING";
}

// With C15_ANNOUNCE set, every service call is named on stderr before it is made (the check re-runs a crashed
// case this way to say which call did not return).
static void announce(const std::string &what)
{
    static const bool on = getenv("C15_ANNOUNCE") != nullptr;
    if (on) {
        fprintf(stderr, "CALL %s\n", what.c_str());
        fflush(stderr);
    }
}

// ------------------------------------------------------------------------------------------------ mode rules

static std::string modeRules(const std::string &line)
{
    auto t = splitws(line);
    long v = std::stol(t.at(1));
    auto issue = Issue::IssueImpl::create();
    issue->mPimpl->setReferenceRule(static_cast<Issue::ReferenceRule>(v));
    std::string h;
    std::string u;
    try {
        h = "s" + hexencode(issue->referenceHeading());
    } catch (const std::out_of_range &) {
        h = "THROW";
    }
    try {
        u = "s" + hexencode(issue->url());
    } catch (const std::out_of_range &) {
        u = "THROW";
    }
    return "R " + std::to_string(v) + " rr=" + std::to_string(long(issue->referenceRule())) + " h=" + h + " u=" + u;
}

// ------------------------------------------------------------------------------------------------ mode holder

static const char *anyKindName(const std::any &a)
{
    const std::type_info &t = a.type();
    if (t == typeid(std::nullptr_t)) return "nullptr_t";
    if (t == typeid(ComponentPtr)) return "ComponentPtr";
    if (t == typeid(ImportSourcePtr)) return "ImportSourcePtr";
    if (t == typeid(ModelPtr)) return "ModelPtr";
    if (t == typeid(ResetPtr)) return "ResetPtr";
    if (t == typeid(UnitsPtr)) return "UnitsPtr";
    if (t == typeid(UnitsItemPtr)) return "UnitsItemPtr";
    if (t == typeid(VariablePtr)) return "VariablePtr";
    if (t == typeid(VariablePairPtr)) return "VariablePairPtr";
    return "other";
}

static std::string modeHolder(const std::string &line)
{
    auto t = splitws(line);
    auto h = AnyCellmlElement::AnyCellmlElementImpl::create();
    const void *stored = nullptr;
    bool pairForm = false;
    VariablePtr v1;
    VariablePtr v2;
    if (t.at(1) != "init") {
        int s = std::stoi(t.at(1));
        bool isNull = t.at(2) == "1";
        auto type = static_cast<CellmlElementType>(std::stoi(t.at(3)));
        ComponentPtr comp = isNull ? nullptr : Component::create("c");
        ModelPtr model = isNull ? nullptr : Model::create("m");
        ResetPtr reset = isNull ? nullptr : Reset::create();
        UnitsPtr units = isNull ? nullptr : Units::create("u");
        UnitsItemPtr unitsItem = isNull ? nullptr : UnitsItem::create(Units::create("uu"), 0);
        VariablePtr var = isNull ? nullptr : Variable::create("v");
        v1 = isNull ? nullptr : Variable::create("v1");
        v2 = isNull ? nullptr : Variable::create("v2");
        VariablePairPtr pair = isNull ? nullptr : VariablePair::create(Variable::create("a"), Variable::create("b"));
        ImportSourcePtr imp = isNull ? nullptr : ImportSource::create();
        auto *p = h->mPimpl;
        switch (s) {
        case 0: p->setComponent(comp, type); stored = comp.get(); break;
        case 1: p->setComponentRef(comp); stored = comp.get(); break;
        case 2: p->setConnection(pair); stored = pair.get(); break;
        case 3: p->setConnection(v1, v2); pairForm = true; break;
        case 4: p->setEncapsulation(model); stored = model.get(); break;
        case 5: p->setImportSource(imp); stored = imp.get(); break;
        case 6: p->setMapVariables(pair); stored = pair.get(); break;
        case 7: p->setMapVariables(v1, v2); pairForm = true; break;
        case 8: p->setMath(comp); stored = comp.get(); break;
        case 9: p->setModel(model, type); stored = model.get(); break;
        case 10: p->setReset(reset, type); stored = reset.get(); break;
        case 11: p->setResetValue(reset); stored = reset.get(); break;
        case 12: p->setTestValue(reset); stored = reset.get(); break;
        case 13: p->setUnits(units); stored = units.get(); break;
        case 14: p->setUnitsItem(unitsItem); stored = unitsItem.get(); break;
        case 15: p->setVariable(var); stored = var.get(); break;
        case 16: p->setVariablePair(pair, type); stored = pair.get(); break;
        case 17: p->setVariablePair(v1, v2, type); pairForm = true; break;
        default: return "BADCASE";
        }
    }
    std::string acc;
    auto r = readAll(h);
    for (size_t k = 0; k < 8; ++k) {
        if (r[k] == nullptr) {
            acc += '0';
        } else if (pairForm && k == 7) {
            auto pr = h->variablePair();
            acc += (pr->variable1() == v1 && pr->variable2() == v2) ? '1' : 'X';
        } else {
            acc += (r[k] == stored) ? '1' : 'X';
        }
    }
    return "H t=" + std::to_string(int(h->type())) + " any=" + anyKindName(h->mPimpl->mItem) + " acc=" + acc;
}

// ------------------------------------------------------------------------------------------------ mode ops

class TestLogger: public Logger
{
public:
    TestLogger()
        : Logger(new Logger::LoggerImpl())
    {
    }
    ~TestLogger() override
    {
        delete pFunc();
    }
};

static std::string modeOps(const std::string &line)
{
    auto t = splitws(line);
    TestLogger logger;
    Logger::LoggerImpl *p = logger.pFunc();
    Rec &rec = gTrace[p];
    size_t done = 0;
    std::string status = "OK";
    for (size_t k = 1; k < t.size(); ++k) {
        const std::string &op = t[k];
        if (op.empty()) {
            continue;
        }
        if (op[0] == 'a') {
            auto issue = Issue::IssueImpl::create();
            issue->mPimpl->setDescription("d");
            issue->mPimpl->setLevel(op[1] == 'E' ? Issue::Level::ERROR : (op[1] == 'W' ? Issue::Level::WARNING : Issue::Level::MESSAGE));
            size_t id = std::stoul(op.substr(2));
            rec.ids[issue.get()] = id;
            rec.keep.push_back(issue);
            p->addIssue(issue);
        } else if (op[0] == 'c') {
            p->removeAllIssues();
        } else if (op[0] == 'r') {
            size_t idx = std::stoul(op.substr(1));
            if (idx < p->mErrors.size() && p->mErrors[idx] >= p->mIssues.size()) {
                status = "UB"; // erase past the end: not executed
                break;
            }
            try {
                p->removeError(idx);
            } catch (const std::out_of_range &) {
                status = "THROW";
                break;
            }
        } else {
            return "BADCASE";
        }
        ++done;
    }
    return "O n=" + std::to_string(done) + " st=" + status + " " + canonicalState(&logger);
}

// ------------------------------------------------------------------------------------------------ mode svc

static std::string typeName(AnalyserModel::Type t)
{
    return AnalyserModel::typeAsString(t);
}

static std::string analyserResult(const AnalyserPtr &analyser, bool &failing);

static void annotatorScenarios(const ModelPtr &model, std::vector<std::string> &out)
{
    auto ann = fresh(Annotator::create());
    Logger *lg = ann.get();
    auto rec = [&](const std::string &call, const std::string &res, bool failing) {
        out.push_back(record("annotator", call, res, lg, explainedIf(failing, lg)));
    };
    // no model stored
    {
        ModelPtr nullModel0;
        bool b0 = ann->assignAllIds(nullModel0); // on a fresh annotator: nothing logged before
        rec("assignAllIds_nullmodel_fresh", b0 ? "1" : "0", !b0);
        auto it = ann->item("x");
        rec("item_nomodel", it->type() == CellmlElementType::UNDEFINED ? "undef" : "found", it->type() == CellmlElementType::UNDEFINED);
        bool b = ann->assignAllIds();
        rec("assignAllIds_nomodel", b ? "1" : "0", !b);
        b = ann->assignIds(CellmlElementType::COMPONENT);
        rec("assignIds_nomodel", b ? "1" : "0", !b);
        std::string s = ann->assignId(Component::create("zz"));
        rec("assignId_nomodel", s.empty() ? "empty" : "id", s.empty());
        ann->clearAllIds();
        rec("clearAllIds_nomodel", "-", true);
        ModelPtr nullModel;
        b = ann->assignAllIds(nullModel);
        rec("assignAllIds_nullmodel", b ? "1" : "0", !b);
    }
    if (model == nullptr) {
        return;
    }
    ann->setModel(model);
    rec("setModel", "-", false);
    auto ids = ann->ids();
    auto dups = ann->duplicateIds();
    rec("ids", std::to_string(ids.size()) + "/" + std::to_string(dups.size()), false);
    // lookups
    size_t shown = 0;
    for (const auto &id : ids) {
        if (shown++ >= 6) {
            break;
        }
        size_t cnt = ann->itemCount(id);
        auto it = ann->item(id);
        bool undef = it->type() == CellmlElementType::UNDEFINED;
        rec(cnt > 1 ? "item_dup" : "item_found", undef ? "undef" : cellmlElementTypeAsString(it->type()), undef);
        auto it0 = ann->item(id, 0);
        rec("item_idx0", it0->type() == CellmlElementType::UNDEFINED ? "undef" : "found", it0->type() == CellmlElementType::UNDEFINED);
        if (cnt > 1) {
            auto itn = ann->item(id, cnt); // one past the end; (with cnt == 1 this call crashes: separate case 'X')
            rec("item_idx_past", itn->type() == CellmlElementType::UNDEFINED ? "undef" : "found", itn->type() == CellmlElementType::UNDEFINED);
        }
        // typed lookups: the one matching the item's type and one that does not
        if (!undef) {
            bool isComp = it->type() == CellmlElementType::COMPONENT;
            bool isVar = it->type() == CellmlElementType::VARIABLE;
            auto c = ann->component(id);
            rec(isComp ? "component_right" : "component_wrongtype", c ? "ptr" : "null", c == nullptr);
            auto v = ann->variable(id);
            rec(isVar ? "variable_right" : "variable_wrongtype", v ? "ptr" : "null", v == nullptr);
            auto u = ann->units(id);
            rec(it->type() == CellmlElementType::UNITS ? "units_right" : "units_wrongtype", u ? "ptr" : "null", u == nullptr);
        }
    }
    {
        auto it = ann->item("no_such_id_q");
        rec("item_missing", it->type() == CellmlElementType::UNDEFINED ? "undef" : "found", it->type() == CellmlElementType::UNDEFINED);
        auto c = ann->component("no_such_id_q");
        rec("component_missing", c ? "ptr" : "null", c == nullptr);
        auto r = ann->reset("no_such_id_q", 2);
        rec("reset_missing_idx", r ? "ptr" : "null", r == nullptr);
        auto m = ann->model("no_such_id_q");
        rec("model_missing", m ? "ptr" : "null", m == nullptr);
    }
    // assignments
    {
        ann->ids();
        std::string s = ann->assignId(ComponentPtr());
        rec("assignId_nullcomponent", s.empty() ? "empty" : "id", s.empty());
        s = ann->assignId(VariablePtr());
        rec("assignId_nullvariable", s.empty() ? "empty" : "id", s.empty());
        ann->ids(); // clears the issue list (update()), so that a silent failure is not masked by older issues
        s = ann->assignId(Component::create("foreign"));
        rec("assignId_foreign", s.empty() ? "empty" : "id", s.empty());
        ann->ids();
        s = ann->assignId(model, CellmlElementType::VARIABLE); // tag does not fit the object
        rec("assignId_inconsistent", s.empty() ? "empty" : "id", s.empty());
        s = ann->assignId(model);
        rec("assignId_model", s.empty() ? "empty" : "id", s.empty());
        if (model->componentCount() > 0) {
            s = ann->assignId(model->component(0));
            rec("assignId_component", s.empty() ? "empty" : "id", s.empty());
            s = ann->assignId(model->component(0), CellmlElementType::COMPONENT_REF);
            rec("assignId_componentref", s.empty() ? "empty" : "id", s.empty());
        }
        if (model->unitsCount() > 0) {
            s = ann->assignId(model->units(0), 99); // unit index past the end
            rec("assignId_unit_past", s.empty() ? "empty" : "id", s.empty());
        }
        for (int k = 0; k < 15; ++k) {
            bool b = ann->assignIds(static_cast<CellmlElementType>(k));
            rec("assignIds_" + std::to_string(k), b ? "1" : "0", false); // false = nothing left to assign: not a failure
        }
        bool b = ann->assignAllIds();
        rec("assignAllIds", b ? "1" : "0", false);
        ModelPtr m2 = model;
        b = ann->assignAllIds(m2);
        rec("assignAllIds_model", b ? "1" : "0", false);
        ann->clearAllIds();
        rec("clearAllIds", "-", false);
    }
}

static std::string modeSvc(const std::string &line)
{
    auto t = splitws(line);
    const std::string steps = t.at(1);
    const std::string doc = hexdecode(t.at(2));
    std::vector<std::string> out;
    ModelPtr strictModel;
    ModelPtr model;
    for (char st : steps) {
        if (st == 'P' || st == 'Q') {
            auto parser = fresh(Parser::create(st == 'P'));
            announce("parser.parseModel");
            auto m = parser->parseModel(doc);
            out.push_back(record(st == 'P' ? "parser_strict" : "parser_permissive", "parseModel", m ? "model" : "null", parser.get(),
                                 explainedIf(m == nullptr, parser.get())));
            // a second document through the same parser: issues of the first call must be gone
            auto m2 = parser->parseModel("<?xml version=\"1.0\"?><model xmlns=\"http://www.cellml.org/cellml/2.0#\" name=\"ok\"/>");
            out.push_back(record(st == 'P' ? "parser_strict" : "parser_permissive", "parseModel_again", m2 ? "model" : "null", parser.get(),
                                 explainedIf(m2 == nullptr, parser.get())));
            if (m != nullptr && (model == nullptr || st == 'Q')) {
                model = m;
            }
        } else if (st == 'V') {
            auto validator = fresh(Validator::create());
            announce("validator.validateModel");
            validator->validateModel(model);
            out.push_back(record("validator", "validateModel", std::to_string(validator->errorCount()), validator.get(), "na"));
            validator->validateModel(model);
            out.push_back(record("validator", "validateModel_again", std::to_string(validator->errorCount()), validator.get(), "na"));
        } else if (st == 'A') {
            if (model == nullptr) {
                continue;
            }
            auto analyser = fresh(Analyser::create());
            announce("analyser.analyseModel");
            analyser->analyseModel(model);
            auto am = analyser->model();
            auto ty = am ? am->type() : AnalyserModel::Type::UNKNOWN;
            bool failing = ty == AnalyserModel::Type::INVALID || ty == AnalyserModel::Type::UNDERCONSTRAINED
                           || ty == AnalyserModel::Type::OVERCONSTRAINED || ty == AnalyserModel::Type::UNSUITABLY_CONSTRAINED;
            out.push_back(record("analyser", "analyseModel", typeName(ty), analyser.get(), explainedIf(failing, analyser.get())));
        } else if (st == 'E') {
            // analysis with external variables: one of the model, one of another model
            if (model == nullptr) {
                continue;
            }
            VariablePtr own;
            std::function<void(const ComponentPtr &)> findVar = [&](const ComponentPtr &c) {
                if (own == nullptr && c->variableCount() > 0) {
                    own = c->variable(c->variableCount() - 1);
                }
                for (size_t i = 0; own == nullptr && i < c->componentCount(); ++i) {
                    findVar(c->component(i));
                }
            };
            for (size_t i = 0; own == nullptr && i < model->componentCount(); ++i) {
                findVar(model->component(i));
            }
            auto analyser = fresh(Analyser::create());
            auto otherModel = Model::create("other");
            auto otherComponent = Component::create("oc");
            auto otherVariable = Variable::create("ov");
            otherModel->addComponent(otherComponent);
            otherComponent->addVariable(otherVariable);
            analyser->addExternalVariable(AnalyserExternalVariable::create(otherVariable));
            if (own != nullptr) {
                analyser->addExternalVariable(AnalyserExternalVariable::create(own));
                for (size_t i = 0; i < own->equivalentVariableCount(); ++i) {
                    analyser->addExternalVariable(AnalyserExternalVariable::create(own->equivalentVariable(i)));
                }
            }
            announce("analyser.analyseModel(external variables)");
            analyser->analyseModel(model);
            bool failing = false;
            std::string res = analyserResult(analyser, failing);
            out.push_back(record("analyser", "analyseModel_external", res, analyser.get(), explainedIf(failing, analyser.get())));
        } else if (st == 'M') {
            // a math string that the parser would never store (set through the API), then validation
            if (model == nullptr || model->componentCount() == 0) {
                continue;
            }
            auto c = model->component(0);
            const char *maths[] = {"<apply xmlns=\"http://www.w3.org/1998/Math/MathML\"/>", "<math", ""};
            for (const char *mstr : maths) {
                c->setMath(mstr);
                auto validator = fresh(Validator::create());
                announce("validator.validateModel(api math)");
                validator->validateModel(model);
                out.push_back(record("validator", "validateModel_apimath", std::to_string(validator->errorCount()), validator.get(), "na"));
            }
        } else if (st == 'R') {
            auto printer = fresh(Printer::create());
            announce("printer.printModel");
            std::string s = printer->printModel(model);
            out.push_back(record("printer", "printModel", s.empty() ? "empty" : "text", printer.get(), "na"));
            s = printer->printModel(model, true);
            out.push_back(record("printer", "printModel_autoids", s.empty() ? "empty" : "text", printer.get(), "na"));
        } else if (st == 'N') {
            announce("annotator.scenarios");
            annotatorScenarios(model, out);
        } else if (st == 'X') {
            // Annotator::item(id, index) with exactly one item of that id and index >= 1
            if (model == nullptr) {
                continue;
            }
            auto ann = fresh(Annotator::create());
            ann->setModel(model);
            for (const auto &id : ann->ids()) {
                if (ann->itemCount(id) == 1) {
                    announce("annotator.item(id,1)");
                    auto it = ann->item(id, 1);
                    out.push_back(record("annotator", "item_idx_past_single", it->type() == CellmlElementType::UNDEFINED ? "undef" : "found", ann.get(),
                                         explainedIf(it->type() == CellmlElementType::UNDEFINED, ann.get())));
                    break;
                }
            }
        }
    }
    std::string s;
    for (size_t i = 0; i < out.size(); ++i) {
        s += (i ? " ; " : "") + out[i];
    }
    return s.empty() ? "-" : s;
}

// ------------------------------------------------------------------------------------------------ mode imp

static std::string slurp(const std::string &path)
{
    std::ifstream f(path);
    std::stringstream b;
    b << f.rdbuf();
    return b.str();
}

// script: sequence of letters
//   r  resolveImports(model, dir)          f  flattenModel(model)           n  resolveImports(null) / flattenModel(null)
//   c  clearImports + removeAllModels      u  flattenModel before resolving (unresolved imports)
static std::string modeImp(const std::string &line)
{
    auto t = splitws(line);
    bool strict = t.at(1) == "1";
    std::string dir = t.at(2);
    std::string mainFile = t.at(3);
    std::string script = t.at(4);
    std::vector<std::string> out;
    auto parser = fresh(Parser::create(strict));
    announce("parser.parseModel(main)");
    auto model = parser->parseModel(slurp(dir + "/" + mainFile));
    out.push_back(record(strict ? "parser_strict" : "parser_permissive", "parseModel", model ? "model" : "null", parser.get(),
                         explainedIf(model == nullptr, parser.get())));
    auto importer = fresh(Importer::create(strict));
    Logger *lg = importer.get();
    for (char st : script) {
        if (st == 'r') {
            if (model == nullptr) {
                continue;
            }
            announce("importer.resolveImports");
            bool ok = importer->resolveImports(model, dir + "/");
            announce(std::string("-> resolveImports=") + (ok ? "1" : "0"));
            out.push_back(record("importer", "resolveImports", ok ? "1" : "0", lg, explainedIf(!ok, lg)));
        } else if (st == 'f' || st == 'u') {
            if (model == nullptr) {
                continue;
            }
            announce("importer.flattenModel");
            auto flat = importer->flattenModel(model);
            out.push_back(record("importer", st == 'f' ? "flattenModel" : "flattenModel_unresolved", flat ? "model" : "null", lg,
                                 explainedIf(flat == nullptr, lg)));
        } else if (st == 'n') {
            ModelPtr nullModel;
            announce("importer.resolveImports(null)");
            bool ok = importer->resolveImports(nullModel, dir + "/");
            out.push_back(record("importer", "resolveImports_null", ok ? "1" : "0", lg, explainedIf(!ok, lg)));
            auto flat = importer->flattenModel(nullModel);
            out.push_back(record("importer", "flattenModel_null", flat ? "model" : "null", lg, explainedIf(flat == nullptr, lg)));
        } else if (st == 'v') {
            if (model == nullptr) {
                continue;
            }
            auto validator = fresh(Validator::create());
            announce("validator.validateModel(after resolve)");
            validator->validateModel(model);
            out.push_back(record("validator", "validateModel_importing", std::to_string(validator->errorCount()), validator.get(), "na"));
        } else if (st == 'c') {
            if (model != nullptr) {
                importer->clearImports(model);
            }
            importer->removeAllModels();
            out.push_back(record("importer", "clear", "-", lg, "na"));
        }
    }
    std::string s;
    for (size_t i = 0; i < out.size(); ++i) {
        s += (i ? " ; " : "") + out[i];
    }
    return s.empty() ? "-" : s;
}

// ------------------------------------------------------------------------------------------------ mode hist
// "Y <service> <strict 0|1> <input> <input> ..."   input = hex document | NULL
//   ONE instance of the service is used for the whole sequence of inputs.
//   service: P parser   V validator   A analyser   R printer   N annotator   I importer (documents without files)
// "Z <strict 0|1> <dir> <main> <dir> <main> ..."   ONE importer resolves and flattens several import graphs in turn.

static ModelPtr parseInput(const std::string &tok)
{
    if (tok == "NULL") {
        return nullptr;
    }
    auto p = Parser::create(false);
    return p->parseModel(hexdecode(tok));
}

static std::string analyserResult(const AnalyserPtr &analyser, bool &failing)
{
    auto am = analyser->model();
    auto ty = am ? am->type() : AnalyserModel::Type::UNKNOWN;
    failing = ty == AnalyserModel::Type::INVALID || ty == AnalyserModel::Type::UNDERCONSTRAINED
              || ty == AnalyserModel::Type::OVERCONSTRAINED || ty == AnalyserModel::Type::UNSUITABLY_CONSTRAINED;
    return typeName(ty);
}

static std::string joinRecords(const std::vector<std::string> &out)
{
    std::string s;
    for (size_t i = 0; i < out.size(); ++i) {
        s += (i ? " ; " : "") + out[i];
    }
    return s.empty() ? "-" : s;
}

static std::string modeHist(const std::string &line)
{
    auto t = splitws(line);
    std::vector<std::string> out;
    if (t.at(0) == "Z") {
        bool strict = t.at(1) == "1";
        auto importer = fresh(Importer::create(strict));
        Logger *lg = importer.get();
        for (size_t k = 2; k + 1 < t.size(); k += 2) {
            std::string n = std::to_string((k - 2) / 2);
            auto parser = fresh(Parser::create(strict));
            auto model = parser->parseModel(slurp(t[k] + "/" + t[k + 1]));
            if (model == nullptr) {
                continue;
            }
            announce("importer.resolveImports#" + n);
            bool ok = importer->resolveImports(model, t[k] + "/");
            announce(std::string("-> resolveImports=") + (ok ? "1" : "0"));
            out.push_back(record("importer", "resolveImports#" + n, ok ? "1" : "0", lg, explainedIf(!ok, lg)));
            if (ok) {
                announce("importer.flattenModel#" + n);
                auto flat = importer->flattenModel(model);
                out.push_back(record("importer", "flattenModel#" + n, flat ? "model" : "null", lg, explainedIf(flat == nullptr, lg)));
            }
        }
        return joinRecords(out);
    }
    const char svc = t.at(1).at(0);
    const bool strict = t.at(2) == "1";
    ParserPtr parser;
    ValidatorPtr validator;
    AnalyserPtr analyser;
    PrinterPtr printer;
    AnnotatorPtr annotator;
    ImporterPtr importer;
    switch (svc) {
    case 'P': parser = fresh(Parser::create(strict)); break;
    case 'V': validator = fresh(Validator::create()); break;
    case 'A': analyser = fresh(Analyser::create()); break;
    case 'R': printer = fresh(Printer::create()); break;
    case 'N': annotator = fresh(Annotator::create()); break;
    case 'I': importer = fresh(Importer::create(strict)); break;
    default: return "BADCASE";
    }
    for (size_t k = 3; k < t.size(); ++k) {
        if (t[k].empty()) {
            continue;
        }
        const std::string n = "#" + std::to_string(k - 3);
        if (svc == 'P') {
            announce("parser.parseModel" + n);
            auto m = parser->parseModel(t[k] == "NULL" ? std::string() : hexdecode(t[k]));
            out.push_back(record(strict ? "parser_strict" : "parser_permissive", "parseModel" + n, m ? "model" : "null", parser.get(),
                                 explainedIf(m == nullptr, parser.get())));
            continue;
        }
        ModelPtr m = parseInput(t[k]);
        const std::string in = m ? "model" : "nullmodel";
        if (svc == 'V') {
            announce("validator.validateModel" + n);
            validator->validateModel(m);
            out.push_back(record("validator", "validateModel" + n, in + ":" + std::to_string(validator->errorCount()), validator.get(),
                                 explainedIf(m == nullptr, validator.get())));
        } else if (svc == 'A') {
            announce("analyser.analyseModel" + n);
            analyser->analyseModel(m);
            bool failing = false;
            std::string res = analyserResult(analyser, failing);
            out.push_back(record("analyser", "analyseModel" + n, in + ":" + res, analyser.get(), explainedIf(failing || m == nullptr, analyser.get())));
        } else if (svc == 'R') {
            announce("printer.printModel" + n);
            std::string s = printer->printModel(m, (k % 2) == 0);
            out.push_back(record("printer", "printModel" + n, in + ":" + (s.empty() ? "empty" : "text"), printer.get(), "na"));
        } else if (svc == 'N') {
            announce("annotator.calls" + n);
            Logger *lg = annotator.get();
            ModelPtr mm = m;
            bool b = annotator->assignAllIds(mm);
            out.push_back(record("annotator", std::string(m ? "assignAllIds_model" : "assignAllIds_nullmodel") + n, b ? "1" : "0", lg,
                                 explainedIf(m == nullptr, lg)));
            annotator->setModel(m);
            out.push_back(record("annotator", "setModel" + n, in, lg, "na"));
            auto ids = annotator->ids();
            auto it = annotator->item(ids.empty() ? std::string("none") : ids.front());
            bool undef = it->type() == CellmlElementType::UNDEFINED;
            out.push_back(record("annotator", "item" + n, undef ? "undef" : "found", lg, explainedIf(undef, lg)));
            auto it2 = annotator->item("no_such_id_q", 1);
            out.push_back(record("annotator", "item_missing" + n, it2->type() == CellmlElementType::UNDEFINED ? "undef" : "found", lg,
                                 explainedIf(it2->type() == CellmlElementType::UNDEFINED, lg)));
            annotator->ids();
            std::string sid = annotator->assignId(m);
            out.push_back(record("annotator", "assignId_model" + n, sid.empty() ? "empty" : "id", lg, explainedIf(sid.empty(), lg)));
            bool c = annotator->assignIds(CellmlElementType::VARIABLE);
            out.push_back(record("annotator", "assignIds" + n, c ? "1" : "0", lg, explainedIf(m == nullptr, lg)));
            annotator->clearAllIds(mm);
            out.push_back(record("annotator", "clearAllIds" + n, in, lg, explainedIf(m == nullptr, lg)));
        } else if (svc == 'I') {
            Logger *lg = importer.get();
            announce("importer.resolveImports" + n);
            bool ok = importer->resolveImports(m, "/nonexistent-dir-c15/");
            announce(std::string("-> resolveImports=") + (ok ? "1" : "0"));
            out.push_back(record("importer", "resolveImports" + n, in + ":" + (ok ? "1" : "0"), lg, explainedIf(!ok, lg)));
            // flattening is only asked of null or validator-accepted models: flattenModel on invalid import-free models
            // (e.g. a used units definition that references a missing units) crashes, which is a defect of the flattening
            // preconditions (C06 / C01), not of issue reporting
            bool acceptable = m == nullptr;
            if (m != nullptr && ok) {
                auto v = Validator::create();
                v->validateModel(m);
                acceptable = v->errorCount() == 0;
            }
            if (acceptable) {
                announce("importer.flattenModel" + n);
                auto flat = importer->flattenModel(m);
                out.push_back(record("importer", "flattenModel" + n, in + ":" + (flat ? "model" : "null"), lg, explainedIf(flat == nullptr, lg)));
            }
        }
    }
    return joinRecords(out);
}

int main(int argc, char **argv)
{
    if (argc < 3) {
        fprintf(stderr, "usage: %s rules|holder|ops|svc|imp|hist <case file>\n", argv[0]);
        return 2;
    }
    std::string mode = argv[1];
    auto cases = readLines(argv[2]);
    if (mode == "rules") {
        return runCases(cases, modeRules, 10);
    }
    if (mode == "holder") {
        return runCases(cases, modeHolder, 10);
    }
    if (mode == "ops") {
        return runCases(cases, [](const std::string &l) { gTrace.clear(); return modeOps(l); }, 10);
    }
    if (mode == "svc") {
        return runCases(cases, [](const std::string &l) { gTrace.clear(); return modeSvc(l); }, 30);
    }
    if (mode == "imp") {
        return runCases(cases, [](const std::string &l) { gTrace.clear(); return modeImp(l); }, 30);
    }
    if (mode == "hist") {
        return runCases(cases, [](const std::string &l) { gTrace.clear(); return modeHist(l); }, 60);
    }
    fprintf(stderr, "unknown mode %s\n", mode.c_str());
    return 2;
}
