// C19 driver.  argv[1] = case file: one API script per line (commands separated by ';', see common/script.hpp).
// The script builds a model in slot 0 (plus whatever other objects it needs in other slots).
//
// For every case the script is executed three times in fresh interpreters and ONE helper is run on each copy:
//   run A: Model::fixVariableInterfaces(), then (units taken off every variable so that the units-equivalence
//          check stays silent) Validator::validateModel()
//   run B: Model::hasUnlinkedUnits(), Model::linkUnits(), Model::hasUnlinkedUnits()
//   run C: Model::clean()
// A script may contain the pseudo-command `ops`: the commands after it are the PRE-HISTORY (calls of the units /
// ownership API: addunits removeunits_* removeallunits takeunits_* replaceunits_* release setunits_p); their results
// are recorded one by one and the state is dumped before (P0) and after (S0) them.
// Output: one line per case, TAB separated fields
//   P0 <state>            state after the build part, before the pre-history
//   OPS <r1,r2,...|->     results of the pre-history calls
//   S0 <state>            identity-based state before the helpers (format below; equal in the three runs, else NONDET)
//   FIX <ret> <state>
//   VAL <issues>          issues with rule MAP_VARIABLES_ELEMENT / MAP_VARIABLES_VARIABLE1_ATTRIBUTE in logger order:
//                         I<v> (ELEMENT, item = variable v), U<v>.<e> (ELEMENT, item = pair), N<v>.<e> (VARIABLE1_ATTRIBUTE)
//   LINK <ret> <hasUnlinked before> <hasUnlinked after> <state>
//   CLEAN <state>
//   D0 / DFIX / DLINK / DCLEAN <dump.hpp dumpModel text before / after each helper>   (for the frame oracle)
//
// State format (tokens separated by one space; objects are named by slot number = identity tag):
//   M <mtag> H <n> {<tag> <name> <id> <unitCount> <isImport> <owner|->}      every Units object held in a slot
//   L <n> {<tag>}                                                            model->units(i)
//   C <n> {comp}   comp = c <tag> <name> <id> <math> <resetCount> <isImport> <nvars> {var} <nkids> {comp}
//                  var  = v <tag> <interfaceType> <neqs> {<tag>} <units tag|->
//   X <n> {<vtag> <component tag|-> <tag of that component's parent|->}      equivalent variables outside the tree
//   O <n> {<mtag> <k> {<tag>}}                                               the other live models in slots: units lists
//   Q <n> {<tag> <class>}                                                    Units::equals as classes (smallest equal slot)
//   strings are s<hex>.
#include <algorithm>
#include <set>
#include <sstream>
#include <string>
#include <vector>

#include <libcellml>

#include "dump.hpp"
#include "forkrun.hpp"
#include "script.hpp"

using namespace verif;

static std::string tagOf(Interp &in, const libcellml::EntityPtr &p)
{
    if (p == nullptr) {
        return "-";
    }
    return std::to_string(in.adopt(p));
}

static void walkAdopt(Interp &in, const libcellml::ComponentPtr &c, std::vector<libcellml::VariablePtr> &treeVars, size_t depth)
{
    if (c == nullptr || depth > 200) {
        return;
    }
    in.adopt(c);
    for (size_t i = 0; i < c->variableCount(); ++i) {
        auto v = c->variable(i);
        in.adopt(v);
        treeVars.push_back(v);
    }
    for (size_t i = 0; i < c->componentCount(); ++i) {
        walkAdopt(in, c->component(i), treeVars, depth + 1);
    }
}

// puts every object the state mentions into a slot (deterministic order)
static void adoptEverything(Interp &in, const libcellml::ModelPtr &m, std::vector<libcellml::VariablePtr> &treeVars)
{
    in.adopt(m);
    for (size_t i = 0; i < m->unitsCount(); ++i) {
        in.adopt(m->units(i));
    }
    for (size_t i = 0; i < m->componentCount(); ++i) {
        walkAdopt(in, m->component(i), treeVars, 0);
    }
    for (const auto &v : treeVars) {
        auto u = v->units();
        if (u != nullptr) {
            in.adopt(u);
        }
        for (size_t i = 0; i < v->equivalentVariableCount(); ++i) {
            auto e = v->equivalentVariable(i);
            in.adopt(e);
            auto ec = e->parent();
            if (ec != nullptr) {
                in.adopt(ec);
                auto ep = std::dynamic_pointer_cast<libcellml::ParentedEntity>(ec)->parent();
                if (ep != nullptr) {
                    in.adopt(ep);
                }
            }
        }
    }
    // owners of all units objects
    for (size_t s = 0; s < in.slots.size(); ++s) {
        if (in.slots[s].kind == Kind::Units) {
            auto u = std::static_pointer_cast<libcellml::Units>(in.slots[s].p);
            auto up = u->parent();
            if (up != nullptr) {
                in.adopt(up);
            }
        }
    }
}

static void stateComp(Interp &in, const libcellml::ComponentPtr &c, std::ostringstream &o, size_t depth)
{
    o << " c " << tagOf(in, c) << ' ' << strToken(c->name()) << ' ' << strToken(c->id()) << ' ' << strToken(c->math()) << ' '
      << c->resetCount() << ' ' << (c->isImport() ? 1 : 0) << ' ' << c->variableCount();
    for (size_t i = 0; i < c->variableCount(); ++i) {
        auto v = c->variable(i);
        o << " v " << tagOf(in, v) << ' ' << strToken(v->interfaceType()) << ' ' << v->equivalentVariableCount();
        for (size_t k = 0; k < v->equivalentVariableCount(); ++k) {
            o << ' ' << tagOf(in, v->equivalentVariable(k));
        }
        o << ' ' << tagOf(in, v->units());
    }
    o << ' ' << c->componentCount();
    if (depth > 200) {
        return;
    }
    for (size_t i = 0; i < c->componentCount(); ++i) {
        stateComp(in, c->component(i), o, depth + 1);
    }
}

static std::string stateOf(Interp &in, const libcellml::ModelPtr &m)
{
    std::vector<libcellml::VariablePtr> treeVars;
    adoptEverything(in, m, treeVars);
    std::ostringstream o;
    o << "M " << tagOf(in, m);
    std::vector<size_t> us;
    for (size_t s = 0; s < in.slots.size(); ++s) {
        if (in.slots[s].kind == Kind::Units) {
            us.push_back(s);
        }
    }
    o << " H " << us.size();
    for (size_t s : us) {
        auto u = std::static_pointer_cast<libcellml::Units>(in.slots[s].p);
        o << ' ' << s << ' ' << strToken(u->name()) << ' ' << strToken(u->id()) << ' ' << u->unitCount() << ' ' << (u->isImport() ? 1 : 0) << ' '
          << tagOf(in, std::dynamic_pointer_cast<libcellml::Model>(u->parent()));
    }
    o << " L " << m->unitsCount();
    for (size_t i = 0; i < m->unitsCount(); ++i) {
        o << ' ' << tagOf(in, m->units(i));
    }
    o << " C " << m->componentCount();
    for (size_t i = 0; i < m->componentCount(); ++i) {
        stateComp(in, m->component(i), o, 0);
    }
    std::set<const libcellml::Variable *> inTree;
    for (const auto &v : treeVars) {
        inTree.insert(v.get());
    }
    std::set<long> extSlots;
    for (const auto &v : treeVars) {
        for (size_t i = 0; i < v->equivalentVariableCount(); ++i) {
            auto e = v->equivalentVariable(i);
            if (inTree.count(e.get()) == 0) {
                extSlots.insert(in.adopt(e));
            }
        }
    }
    o << " X " << extSlots.size();
    for (long s : extSlots) {
        auto e = std::static_pointer_cast<libcellml::Variable>(in.slots[size_t(s)].p);
        auto ec = e->parent();
        o << ' ' << s << ' ' << tagOf(in, ec) << ' ';
        if (ec == nullptr) {
            o << '-';
        } else {
            o << tagOf(in, std::dynamic_pointer_cast<libcellml::ParentedEntity>(ec)->parent());
        }
    }
    std::vector<size_t> others;
    for (size_t sl = 0; sl < in.slots.size(); ++sl) {
        if (in.slots[sl].kind == Kind::Model && in.slots[sl].p.get() != static_cast<libcellml::Entity *>(m.get())) {
            others.push_back(sl);
        }
    }
    o << " O " << others.size();
    for (size_t sl : others) {
        auto om = std::static_pointer_cast<libcellml::Model>(in.slots[sl].p);
        o << ' ' << sl << ' ' << om->unitsCount();
        for (size_t i = 0; i < om->unitsCount(); ++i) {
            o << ' ' << tagOf(in, om->units(i));
        }
    }
    o << " Q " << us.size();
    for (size_t a = 0; a < us.size(); ++a) {
        auto ua = std::static_pointer_cast<libcellml::Units>(in.slots[us[a]].p);
        size_t cls = us[a];
        for (size_t b = 0; b < a; ++b) {
            auto ub = std::static_pointer_cast<libcellml::Units>(in.slots[us[b]].p);
            if (ub->equals(ua)) {
                cls = us[b];
                break;
            }
        }
        o << ' ' << us[a] << ' ' << cls;
    }
    return o.str();
}

static bool blankCmd(const std::string &cmd)
{
    for (char c : cmd) {
        if (c != ' ' && c != '\t' && c != '\r') {
            return false;
        }
    }
    return true;
}

// runs the build part, then (when withOps) the pre-history; `mid` is called between the two
static std::string buildCase(Interp &in, const std::string &script, std::string *opsResults = nullptr,
                             const std::function<void()> &mid = nullptr)
{
    bool inOps = false;
    std::string res;
    bool midDone = false;
    for (const auto &cmd : splitws(script, ';')) {
        if (blankCmd(cmd)) {
            continue;
        }
        std::string t = cmd;
        while (!t.empty() && t.front() == ' ') {
            t.erase(t.begin());
        }
        while (!t.empty() && t.back() == ' ') {
            t.pop_back();
        }
        if (t == "ops") {
            inOps = true;
            if (mid) {
                mid();
                midDone = true;
            }
            continue;
        }
        std::string r = in.exec(cmd);
        if (r.rfind("ERR(", 0) == 0 || r.rfind("THROW(", 0) == 0) {
            return r + " at: " + cmd;
        }
        if (inOps) {
            res += (res.empty() ? "" : ",") + r;
        }
    }
    if (mid && !midDone) {
        mid();
    }
    if (opsResults != nullptr) {
        *opsResults = res.empty() ? std::string("-") : res;
    }
    return "";
}

static std::string issuesOf(Interp &in, const libcellml::ModelPtr &m)
{
    auto val = libcellml::Validator::create();
    val->validateModel(m);
    std::string o;
    for (size_t i = 0; i < val->issueCount(); ++i) {
        auto is = val->issue(i);
        auto rule = is->referenceRule();
        bool elem = rule == libcellml::Issue::ReferenceRule::MAP_VARIABLES_ELEMENT;
        bool v1 = rule == libcellml::Issue::ReferenceRule::MAP_VARIABLES_VARIABLE1_ATTRIBUTE;
        if (!elem && !v1) {
            continue;
        }
        auto item = is->item();
        std::string t;
        if (item != nullptr && item->type() == libcellml::CellmlElementType::VARIABLE && elem) {
            t = "I" + tagOf(in, item->variable());
        } else if (item != nullptr && item->type() == libcellml::CellmlElementType::MAP_VARIABLES && item->variablePair() != nullptr) {
            auto p = item->variablePair();
            t = std::string(elem ? "U" : "N") + tagOf(in, p->variable1()) + "." + tagOf(in, p->variable2());
        } else {
            t = std::string("?") + (elem ? "E" : "N") + std::to_string(item != nullptr ? int(item->type()) : -1);
        }
        o += (o.empty() ? "" : " ") + t;
    }
    return o.empty() ? "none" : o;
}

static std::string runCase(const std::string &script)
{
    std::string out;
    // ---- run A: fix + validate
    std::string s0;
    {
        Interp in;
        std::string p0;
        std::string opsRes;
        std::string e = buildCase(in, script, &opsRes, [&in, &p0]() {
            auto m0 = in.model(0);
            if (m0 != nullptr) {
                p0 = stateOf(in, m0);
            }
        });
        if (!e.empty()) {
            return "SCRIPT-ERROR " + e;
        }
        auto m = in.model(0);
        if (m == nullptr) {
            return "SCRIPT-ERROR slot 0 is not a model";
        }
        s0 = stateOf(in, m);
        out += "P0 " + p0 + "\tOPS " + opsRes + "\t";
        std::string d0 = dumpModel(m, false, false);
        bool ret = m->fixVariableInterfaces();
        std::string s1 = stateOf(in, m);
        std::string d1 = dumpModel(m, false, false);
        for (auto &sl : in.slots) {
            if (sl.kind == Kind::Variable) {
                std::static_pointer_cast<libcellml::Variable>(sl.p)->removeUnits();
            }
        }
        // Validator::validateModel dereferences owningModel(units) of every listed units: not run on a model that
        // lists a units object whose parent is not the model (reachable only by re-adding units to their model).
        bool ownedAll = true;
        for (size_t i = 0; i < m->unitsCount(); ++i) {
            if (m->units(i)->parent().get() != static_cast<libcellml::ParentedEntity *>(m.get())) {
                ownedAll = false;
            }
        }
        std::string iss = ownedAll ? issuesOf(in, m) : std::string("skipped(listed-units-without-parent)");
        out += "S0 " + s0 + "\tFIX " + (ret ? "true " : "false ") + s1 + "\tVAL " + iss;
        out += "\tD0 " + d0 + "\tDFIX " + d1;
    }
    // ---- run B: link
    {
        Interp in;
        buildCase(in, script, nullptr, [&in]() {
            auto m0 = in.model(0);
            if (m0 != nullptr) {
                stateOf(in, m0); // same adoption order as run A
            }
        });
        auto m = in.model(0);
        if (stateOf(in, m) != s0) {
            return "NONDET (run B starts from a different state)";
        }
        bool hu0 = m->hasUnlinkedUnits();
        bool ret = m->linkUnits();
        bool hu1 = m->hasUnlinkedUnits();
        out += std::string("\tLINK ") + (ret ? "true " : "false ") + (hu0 ? "true " : "false ") + (hu1 ? "true " : "false ") + stateOf(in, m);
        out += "\tDLINK " + dumpModel(m, false, false);
    }
    // ---- run C: clean
    {
        Interp in;
        buildCase(in, script, nullptr, [&in]() {
            auto m0 = in.model(0);
            if (m0 != nullptr) {
                stateOf(in, m0); // same adoption order as run A
            }
        });
        auto m = in.model(0);
        if (stateOf(in, m) != s0) {
            return "NONDET (run C starts from a different state)";
        }
        m->clean();
        out += "\tCLEAN " + stateOf(in, m);
        out += "\tDCLEAN " + dumpModel(m, false, false);
    }
    return out;
}

int main(int argc, char **argv)
{
    if (argc < 2) {
        fprintf(stderr, "usage: %s cases\n", argv[0]);
        return 2;
    }
    return runCases(readLines(argv[1]), runCase, 20);
}
