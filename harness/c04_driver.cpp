// c04_driver — C04: run Validator::validateModel on models built through the public API.
//
// usage: c04_driver run|describe|names|seq <cases>
//   cases: one API script per line (commands separated by ';', see common/script.hpp); the model to validate is
//          the one in slot 0.
//   run:      one line per case:
//               issues=<dumpIssues(validator)> dtd=<n> xml=<n> err=<script errors>
//             dumpIssues is the canonical multiset (level, reference rule, item type) of common/issues.hpp;
//             dtd = number of MATH_MATHML issues raised by the W3C DTD pass (description starts with
//             "W3C MathML DTD error: "; that pass is assumed, not modelled), xml = number of issues whose rule is
//             XML (libxml2 parse errors; not modelled); err = number of script lines answered ERR(..)/THROW(..).
//   describe: the same followed by " | <rule int>:<description hex>" for every issue (replays only).
//   seq:      ONE Validator instance validates a sequence: the case is "step|step|...", a step is "@<slot>;<script>"; the
//             steps run in ONE interpreter (so a later step can rebuild the model object of an earlier one in place) and
//             after each step validator->validateModel(model in <slot>) is called on the SAME validator; the output is
//             the `run` text of every step joined by " || ".
//   names:    cases are hex-encoded byte strings; one line "<isValidXmlName> <isCellmlIdentifier>" (0/1) per string
//             (the two functions are defined in validator.cpp without a header: re-declared here, static link).
// A crash / hang of the library becomes CRASH(sig) / TIMEOUT (common/forkrun.hpp).
#include <cstdio>
#include <string>
#include <vector>

#include <libcellml>

#include "forkrun.hpp"
#include "issues.hpp"
#include "script.hpp"

namespace libcellml {
bool isValidXmlName(const std::string &name);
bool isCellmlIdentifier(const std::string &name);
} // namespace libcellml

using namespace verif;

static bool gDescribe = false;

static std::string namesCase(const std::string &hex)
{
    std::string s = hexdecode(hex == "-" ? std::string() : hex);
    return std::string(libcellml::isValidXmlName(s) ? "1" : "0") + " " + (libcellml::isCellmlIdentifier(s) ? "1" : "0");
}

static std::string report(const libcellml::ValidatorPtr &v, size_t errs)
{
    size_t dtd = 0;
    size_t xml = 0;
    static const std::string dtdPrefix = "W3C MathML DTD error: ";
    std::string tail;
    for (size_t i = 0; i < v->issueCount(); ++i) {
        auto is = v->issue(i);
        if (is->referenceRule() == libcellml::Issue::ReferenceRule::MATH_MATHML
            && is->description().compare(0, dtdPrefix.size(), dtdPrefix) == 0) {
            ++dtd;
        }
        if (is->referenceRule() == libcellml::Issue::ReferenceRule::XML) {
            ++xml;
        }
        if (gDescribe) {
            tail += " | " + std::to_string(int(is->referenceRule())) + ":" + hexencode(is->description());
        }
    }
    return "issues=" + dumpIssues(v) + " dtd=" + std::to_string(dtd) + " xml=" + std::to_string(xml)
           + " err=" + std::to_string(errs) + tail;
}

static size_t execAll(Interp &in, const std::string &script)
{
    size_t errs = 0;
    for (const auto &cmd : splitws(script, ';')) {
        bool blank = true;
        for (char c : cmd) {
            if (c != ' ' && c != '\t' && c != '\r') {
                blank = false;
            }
        }
        if (blank) {
            continue;
        }
        auto r = in.exec(cmd);
        if (r.rfind("ERR(", 0) == 0 || r.rfind("THROW(", 0) == 0) {
            ++errs;
        }
    }
    return errs;
}

static std::string seqCase(const std::string &text)
{
    Interp in;
    auto v = libcellml::Validator::create();
    std::string out;
    for (const auto &step : splitws(text, '|')) {
        if (step.empty() || step[0] != '@') {
            return "badstep";
        }
        auto semi = step.find(';');
        size_t slot = size_t(std::stoul(step.substr(1, semi - 1)));
        size_t errs = execAll(in, semi == std::string::npos ? std::string() : step.substr(semi + 1));
        auto m = in.model(slot);
        if (!out.empty()) {
            out += " || ";
        }
        if (m == nullptr) {
            out += "nomodel";
            continue;
        }
        v->validateModel(m);
        out += report(v, errs);
    }
    return out;
}

static std::string runCase(const std::string &script)
{
    Interp in;
    size_t errs = execAll(in, script);
    auto m = in.model(0);
    if (m == nullptr) {
        return "nomodel";
    }
    auto v = libcellml::Validator::create();
    v->validateModel(m);
    return report(v, errs);
}

int main(int argc, char **argv)
{
    if (argc < 3) {
        fprintf(stderr, "usage: %s run|describe cases\n", argv[0]);
        return 2;
    }
    gDescribe = std::string(argv[1]) == "describe";
    auto cases = readLines(argv[2]);
    if (std::string(argv[1]) == "names") {
        return runCases(cases, namesCase, 30);
    }
    if (std::string(argv[1]) == "seq" || std::string(argv[1]) == "seqdescribe") {
        gDescribe = std::string(argv[1]) == "seqdescribe";
        return runCases(cases, seqCase, 60);
    }
    return runCases(cases, runCase, 30);
}
