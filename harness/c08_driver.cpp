// C08 driver.  argv[1] = case file; one case per line (format: see ocaml/units/driver.ml).
//   mode P: every ordered pair of the world's units objects (and nullptr): Units::compatible / equivalent /
//           scalingFactor; per units: isDefined, isBaseUnit, defineUnitsMap (internal), updateUnitMultiplier (internal);
//           every ordered pair of names of model 0 (and parent-less standard units): unitsAreEquivalent (internal, validator.cpp)
//   mode V: public route of the validator: two connected variables carrying the two units, Validator::validateModel,
//           the MAP_VARIABLES units issue and its "multiplication factor" hint
//   modes VB / AB: the two public routes batched over every ordered pair of names (see modeVB, modeAB)
//   mode A: public route of the analyser: "x = y" (units warning) and the scale the analyser puts in front of a
//           connected variable (AnalyserEquationAst)
#include <cmath>
#include <cstdio>
#include <map>
#include <sstream>

#include <libcellml>

#include "utilities.h"

#include "forkrun.hpp"

namespace libcellml {
// defined (non-static) in units.cpp / validator.cpp, not declared in a header
using UnitsMapT = std::map<std::string, double>;
UnitsMapT defineUnitsMap(const UnitsPtr &units);
bool updateUnitMultiplier(const UnitsPtr &units, int direction, double &multiplier);
bool unitsAreEquivalent(const ModelPtr &model, const VariablePtr &v1, const VariablePtr &v2, std::string &hints, double &multiplier);
} // namespace libcellml

using namespace verif;
using namespace libcellml;

struct Tok
{
    std::vector<std::string> t;
    size_t i = 0;
    std::string next()
    {
        if (i >= t.size()) {
            throw std::runtime_error("short case");
        }
        return t[i++];
    }
    long nextInt()
    {
        return std::stol(next());
    }
    bool more() const
    {
        return i < t.size();
    }
};

struct World
{
    std::vector<ModelPtr> models;
    std::vector<bool> loose;
    std::vector<UnitsPtr> tops; // every units object, in the order of the case
    std::vector<size_t> topModel;
    std::vector<ImportSourcePtr> sources; // keep alive
};

static std::string g17(double v)
{
    char buf[64];
    snprintf(buf, sizeof buf, "%.17g", v);
    return buf;
}

static double pow10Exact(long mn, long md)
{
    if (md == 1) {
        char buf[32];
        snprintf(buf, sizeof buf, "1e%ld", mn);
        return strtod(buf, nullptr); // correctly rounded power of ten
    }
    return std::pow(10.0, double(mn) / double(md));
}

static World build(Tok &tk)
{
    World w;
    long nm = tk.nextInt();
    struct Imp
    {
        UnitsPtr u;
        long mj;
        std::string ref;
    };
    std::vector<Imp> imports;
    for (long mi = 0; mi < nm; ++mi) {
        std::string kind = tk.next();
        bool loose = kind == "L";
        auto model = Model::create("m" + std::to_string(mi));
        w.models.push_back(model);
        w.loose.push_back(loose);
        long nu = tk.nextInt();
        for (long k = 0; k < nu; ++k) {
            std::string name = tk.next();
            auto u = Units::create(name);
            std::string what = tk.next();
            if (what == "D") {
                long nc = tk.nextInt();
                for (long c = 0; c < nc; ++c) {
                    std::string ref = tk.next();
                    std::string pre = tk.next();
                    long en = tk.nextInt();
                    long ed = tk.nextInt();
                    long mn = tk.nextInt();
                    long md = tk.nextInt();
                    u->addUnit(ref, pre == "-" ? std::string() : pre, double(en) / double(ed), pow10Exact(mn, md));
                }
            } else {
                long mj = tk.nextInt();
                std::string ref = tk.next();
                imports.push_back({u, mj, ref});
            }
            if (!loose) {
                model->addUnits(u);
            }
            w.tops.push_back(u);
            w.topModel.push_back(size_t(mi));
        }
    }
    for (auto &im : imports) {
        auto is = ImportSource::create();
        is->setUrl("m" + std::to_string(im.mj) + ".cellml");
        if (im.mj >= 0 && size_t(im.mj) < w.models.size()) {
            is->setModel(w.models[size_t(im.mj)]);
        }
        im.u->setSourceUnits(is, im.ref);
        w.sources.push_back(is);
    }
    return w;
}

static UnitsPtr findByName(const World &w, const std::string &n)
{
    for (size_t i = 0; i < w.tops.size(); ++i) {
        if ((w.topModel[i] == 0 || w.loose[w.topModel[i]]) && w.tops[i]->name() == n) {
            return w.tops[i];
        }
    }
    return nullptr;
}

static void setUnitsOf(const World &w, const VariablePtr &v, const std::string &n)
{
    auto u = findByName(w, n);
    if (u != nullptr) {
        v->setUnits(u);
    } else {
        v->setUnits(n);
    }
}

static std::string modeP(World &w)
{
    std::ostringstream o;
    std::vector<UnitsPtr> opts = w.tops;
    opts.push_back(nullptr);
    for (auto &a : opts) {
        for (auto &b : opts) {
            o << Units::compatible(a, b) << ',' << Units::equivalent(a, b) << ',' << g17(Units::scalingFactor(a, b)) << ' ';
        }
    }
    o << "| ";
    for (auto &u : w.tops) {
        bool d = u->isDefined();
        o << 'd' << d << 'b' << u->isBaseUnit() << ';';
        if (d) {
            auto m = defineUnitsMap(u);
            if (m.empty()) {
                o << "{}";
            }
            bool first = true;
            for (auto &kv : m) {
                o << (first ? "" : ",") << kv.first << '=' << g17(kv.second);
                first = false;
            }
        } else {
            o << '-';
        }
        double mult = 0.0;
        bool ok = updateUnitMultiplier(u, 1, mult);
        o << ';' << (ok ? g17(mult) : std::string("N")) << ' ';
    }
    o << "| ";
    std::vector<std::string> names;
    for (size_t i = 0; i < w.tops.size(); ++i) {
        if (w.topModel[i] == 0 || w.loose[w.topModel[i]]) {
            names.push_back(w.tops[i]->name());
        }
    }
    if (!w.models.empty()) {
        auto model = w.models[0];
        for (auto &n1 : names) {
            for (auto &n2 : names) {
                auto v1 = Variable::create("v1");
                auto v2 = Variable::create("v2");
                setUnitsOf(w, v1, n1);
                setUnitsOf(w, v2, n2);
                std::string hints;
                double mult = 0.0;
                bool st = unitsAreEquivalent(model, v1, v2, hints, mult);
                o << st << ',' << g17(mult) << ' ';
            }
        }
    }
    return o.str();
}

static const char *MATH_HEAD = "<math xmlns=\"http://www.w3.org/1998/Math/MathML\">";

static std::string modeV(World &w, const std::string &n1, const std::string &n2)
{
    auto model = w.models.at(0);
    auto c1 = Component::create("c1");
    auto c2 = Component::create("c2");
    auto v1 = Variable::create("v1");
    auto v2 = Variable::create("v2");
    setUnitsOf(w, v1, n1);
    setUnitsOf(w, v2, n2);
    v1->setInterfaceType("public");
    v2->setInterfaceType("public");
    c1->addVariable(v1);
    c2->addVariable(v2);
    model->addComponent(c1);
    model->addComponent(c2);
    Variable::addEquivalence(v1, v2);
    auto val = Validator::create();
    val->validateModel(model);
    size_t mism = 0;
    std::string hint = "none";
    for (size_t i = 0; i < val->issueCount(); ++i) {
        auto is = val->issue(i);
        if (is->referenceRule() == Issue::ReferenceRule::MAP_VARIABLES_ELEMENT && is->item()->type() == CellmlElementType::MAP_VARIABLES) {
            ++mism;
            std::string d = is->description();
            auto p = d.find("multiplication factor of 10^");
            if (p != std::string::npos) {
                hint = g17(strtod(d.c_str() + p + 28, nullptr));
            }
        }
    }
    return "mismatch=" + std::to_string(mism) + " hint=" + hint;
}

static void collectScale(const AnalyserEquationAstPtr &ast, std::vector<std::string> &out)
{
    if (ast == nullptr) {
        return;
    }
    if (ast->type() == AnalyserEquationAst::Type::CN) {
        out.push_back(ast->value());
    }
    collectScale(ast->leftChild(), out);
    collectScale(ast->rightChild(), out);
}

static std::string modeA(World &w, const std::string &n1, const std::string &n2)
{
    auto model = w.models.at(0);
    // (a) x = y in one component: units warning iff the analyser's own maps / multipliers differ
    auto c3 = Component::create("c3");
    auto x = Variable::create("x");
    auto y = Variable::create("y");
    setUnitsOf(w, x, n1);
    setUnitsOf(w, y, n2);
    y->setInitialValue(1.0);
    c3->addVariable(x);
    c3->addVariable(y);
    c3->setMath(std::string(MATH_HEAD) + "<apply><eq/><ci>x</ci><ci>y</ci></apply></math>");
    model->addComponent(c3);
    auto an = Analyser::create();
    an->analyseModel(model);
    size_t unitsIssues = 0;
    size_t errors = 0;
    for (size_t i = 0; i < an->issueCount(); ++i) {
        auto is = an->issue(i);
        if (is->referenceRule() == Issue::ReferenceRule::ANALYSER_UNITS) {
            ++unitsIssues;
        }
        if (is->level() == Issue::Level::ERROR) {
            ++errors;
        }
    }
    std::string r = "errors=" + std::to_string(errors) + " unitswarn=" + std::to_string(unitsIssues);
    model->removeComponent(c3);
    // (b) v1 (n1, initialised) ~ v2 (n2);  v3 = v2 : the analyser scales v2 by Units::scalingFactor(n2, n1)
    auto c1 = Component::create("c1");
    auto c2 = Component::create("c2");
    auto v1 = Variable::create("v1");
    auto v2 = Variable::create("v2");
    auto v3 = Variable::create("v3");
    setUnitsOf(w, v1, n1);
    setUnitsOf(w, v2, n2);
    setUnitsOf(w, v3, n2);
    v1->setInitialValue(1.0);
    v1->setInterfaceType("public");
    v2->setInterfaceType("public");
    c1->addVariable(v1);
    c2->addVariable(v2);
    c2->addVariable(v3);
    c2->setMath(std::string(MATH_HEAD) + "<apply><eq/><ci>v3</ci><ci>v2</ci></apply></math>");
    model->addComponent(c1);
    model->addComponent(c2);
    Variable::addEquivalence(v1, v2);
    auto an2 = Analyser::create();
    an2->analyseModel(model);
    size_t errors2 = 0;
    for (size_t i = 0; i < an2->issueCount(); ++i) {
        if (an2->issue(i)->level() == Issue::Level::ERROR) {
            ++errors2;
        }
    }
    r += " errors2=" + std::to_string(errors2);
    std::vector<std::string> cns;
    auto am = an2->model();
    if (am != nullptr) {
        for (size_t e = 0; e < am->equationCount(); ++e) {
            collectScale(am->equation(e)->ast(), cns);
        }
        r += " eqs=" + std::to_string(am->equationCount());
    }
    r += " scale=";
    if (cns.empty()) {
        r += "none";
    }
    for (size_t i = 0; i < cns.size(); ++i) {
        r += (i ? "," : "") + cns[i];
    }
    return r;
}

// ---- batched public routes: every ordered pair of the names of model 0 (and the parent-less standard units) at once

static std::vector<std::string> pairNames(const World &w)
{
    std::vector<std::string> names;
    for (size_t i = 0; i < w.tops.size(); ++i) {
        if (w.topModel[i] == 0 || w.loose[w.topModel[i]]) {
            names.push_back(w.tops[i]->name());
        }
    }
    return names;
}

// VB: c1 holds v_i_j (units i), c2 holds w_i_j (units j), v_i_j ~ w_i_j; one Validator::validateModel call.
// Output: one record "i_j:hint" per MAP_VARIABLES units issue (hint = the number after "multiplication factor of 10^", or none).
static std::string modeVB(World &w)
{
    auto model = w.models.at(0);
    auto names = pairNames(w);
    auto c1 = Component::create("c1");
    auto c2 = Component::create("c2");
    model->addComponent(c1);
    model->addComponent(c2);
    for (size_t i = 0; i < names.size(); ++i) {
        for (size_t j = 0; j < names.size(); ++j) {
            std::string id = std::to_string(i) + "_" + std::to_string(j);
            auto v = Variable::create("v_" + id);
            auto x = Variable::create("w_" + id);
            setUnitsOf(w, v, names[i]);
            setUnitsOf(w, x, names[j]);
            v->setInterfaceType("public");
            x->setInterfaceType("public");
            c1->addVariable(v);
            c2->addVariable(x);
            Variable::addEquivalence(v, x);
        }
    }
    auto val = Validator::create();
    val->validateModel(model);
    std::string r = "n=" + std::to_string(names.size());
    for (size_t k = 0; k < val->issueCount(); ++k) {
        auto is = val->issue(k);
        if (is->referenceRule() == Issue::ReferenceRule::MAP_VARIABLES_ELEMENT && is->item()->type() == CellmlElementType::MAP_VARIABLES) {
            auto pair = is->item()->variablePair();
            std::string n1 = pair->variable1()->name();
            std::string hint = "none";
            std::string d = is->description();
            auto p = d.find("multiplication factor of 10^");
            if (p != std::string::npos) {
                hint = g17(strtod(d.c_str() + p + 28, nullptr));
            }
            r += " " + n1.substr(2) + ":" + hint;
        }
    }
    return r;
}

// AB: one component with a_i_j (units i) = b_i_j (units j, initialised) for every ordered pair, plus a_i_r = b_i_r against a
// fresh base unit (so that every units' own reduction is printed); one Analyser::analyseModel call.
// Output: "errors=E n=N" and one record ";id#lhs#rhs" per units warning (the two halves of the description around " while ").
static std::string modeAB(World &w)
{
    auto model = w.models.at(0);
    auto names = pairNames(w);
    auto ref = Units::create("zzref");
    model->addUnits(ref);
    auto c = Component::create("c");
    model->addComponent(c);
    std::string math = MATH_HEAD;
    auto addEq = [&](const std::string &id, const std::string &n1, const std::string &n2) {
        auto a = Variable::create("a_" + id);
        auto b = Variable::create("b_" + id);
        setUnitsOf(w, a, n1);
        if (n2 == "zzref") {
            b->setUnits(ref);
        } else {
            setUnitsOf(w, b, n2);
        }
        b->setInitialValue(1.0);
        c->addVariable(a);
        c->addVariable(b);
        math += "<apply><eq/><ci>a_" + id + "</ci><ci>b_" + id + "</ci></apply>";
    };
    for (size_t i = 0; i < names.size(); ++i) {
        for (size_t j = 0; j < names.size(); ++j) {
            addEq(std::to_string(i) + "_" + std::to_string(j), names[i], names[j]);
        }
        addEq(std::to_string(i) + "_r", names[i], "zzref");
    }
    math += "</math>";
    c->setMath(math);
    auto an = Analyser::create();
    an->analyseModel(model);
    size_t errors = 0;
    std::string recs;
    for (size_t k = 0; k < an->issueCount(); ++k) {
        auto is = an->issue(k);
        if (is->level() == Issue::Level::ERROR) {
            ++errors;
        }
        if (is->referenceRule() == Issue::ReferenceRule::ANALYSER_UNITS) {
            std::string d = is->description();
            auto p = d.find("'a_");
            auto q = d.find(" = b_", p);
            auto e = d.find(" are not equivalent. ");
            auto wh = d.find(" while ", e);
            if (p == std::string::npos || q == std::string::npos || e == std::string::npos || wh == std::string::npos) {
                recs += ";?#" + d;
                continue;
            }
            recs += ";" + d.substr(p + 3, q - p - 3) + "#" + d.substr(e + 21, wh - e - 21) + "#" + d.substr(wh + 7);
        }
    }
    return "errors=" + std::to_string(errors) + " n=" + std::to_string(names.size()) + recs;
}

static std::string runCase(const std::string &line)
{
    Tok tk;
    tk.t = splitws(line);
    while (!tk.t.empty() && tk.t.back().empty()) {
        tk.t.pop_back();
    }
    std::string mode = tk.next();
    World w = build(tk);
    if (mode == "P") {
        return modeP(w);
    }
    if (mode == "VB") {
        return modeVB(w);
    }
    if (mode == "AB") {
        return modeAB(w);
    }
    tk.next(); // "@"
    std::string n1 = tk.next();
    std::string n2 = tk.next();
    if (mode == "V") {
        return modeV(w, n1, n2);
    }
    return modeA(w, n1, n2);
}

int main(int argc, char **argv)
{
    if (argc < 2) {
        fprintf(stderr, "usage: c08_driver <case file>\n");
        return 2;
    }
    return runCases(readLines(argv[1]), runCase, 20);
}
