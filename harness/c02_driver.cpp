// c02_driver — C++ side of the C02 (print then parse) correspondence and oracle.
//
// usage: c02_driver <case file>      (compile with -fno-access-control: the per-direction mapping / connection ids
//                                     of an equivalence are read from Variable::VariableImpl, as in c11_driver)
// One case per line:  <script, commands of harness/common/script.hpp separated by ';'>   (the model is slot 0)
//            or:      TEXT <hex of a document>      (parser-only case: fields 1-5 are "-", the text plays P1)
// Output: TAB separated fields
//   0  "ok" | "nomodel" | "cyclic-units" (then field 1 = PRINTCRASH(<signal>): the model's units reference each other
//      in a cycle and Printer::printModel, tried in a forked grandchild, died; nothing else is run)
//   1  ENT0  value-level description of the original model (grammar below), or OOS(<reason>) when the model is
//            outside the scope of the entity model (an equivalent variable outside the model, ...)
//   2  V=<validator issue count on the original>  (-1: the Validator, run in a forked grandchild, died)
//   3  D0    dump.hpp dumpModel(original, sorted=true)
//   4  P1    s<hex> of Printer::printModel(original)
//   5  PI=<printer issue count>
//   6  I1    parser issues on P1, strict:  n=<count> then <level letter>:<rule int> ... (in order)   | "-" when P1 is empty
//   7  ENT1  description of the re-parsed model
//   8  D1    dumpModel(re-parsed, sorted=true)
//   9  P2    s<hex> of printModel(re-parsed)
//   10 I2    parser issues on P2
//   11 ENT2  description of the model parsed from P2
//   12 D2    dumpModel(parsed from P2, sorted=true)
// ENT grammar (tokens separated by single spaces; strings s<hex>; doubles n<%.17g>):
//   (M name id encid ( U* ) ( C* ) ( E* ))
//   U = (U name id SRC ref ( D* ))         SRC = - | (I tag url id)      tag: number of the ImportSource object
//   D = (D ref prefix exp mult id)
//   C = (C name id encid SRC ref math ( V* ) ( R* ) ( C* ))
//   V = (V name id UNITS init iface)       UNITS = - | s<hex>
//   R = (R id ORDER VAR VAR tv tvid rv rvid)   ORDER = - | int     VAR = - | S s<hex> | O s<hex>   (same / other component)
//   E = (E path var path var mid cid pubcid)   path = dotted child indices; mid/cid: the ids stored with the edge
//            (both directions agree, else OOS); pubcid: what Variable::equivalenceConnectionId answers.
//       The E list is ONE order compatible with every variable's own order of equivalent variables.
#include <cstdio>
#include <functional>
#include <sys/wait.h>
#include <unistd.h>
#include <map>
#include <string>
#include <vector>

#include <libcellml>

#include "variable_p.h"

#include "dump.hpp"
#include "forkrun.hpp"
#include "issues.hpp"
#include "script.hpp"

using namespace verif;
using namespace libcellml;

static std::string hx(const std::string &s)
{
    return "s" + hexencode(s);
}

struct Ent
{
    std::vector<const ImportSource *> sources;
    std::string oos;

    std::string src(const ImportSourcePtr &i)
    {
        if (i == nullptr) {
            return "-";
        }
        size_t k = 0;
        for (; k < sources.size(); ++k) {
            if (sources[k] == i.get()) {
                break;
            }
        }
        if (k == sources.size()) {
            sources.push_back(i.get());
        }
        return "(I " + std::to_string(k) + " " + hx(i->url()) + " " + hx(i->id()) + ")";
    }

    std::string units(const UnitsPtr &u)
    {
        std::string o = "(U " + hx(u->name()) + " " + hx(u->id()) + " " + src(u->importSource()) + " " + hx(u->importReference()) + " (";
        for (size_t k = 0; k < u->unitCount(); ++k) {
            std::string r;
            std::string p;
            std::string id;
            double e = 0.0;
            double m = 0.0;
            u->unitAttributes(k, r, p, e, m, id);
            o += " (D " + hx(r) + " " + hx(p) + " n" + dnum(e) + " n" + dnum(m) + " " + hx(id) + ")";
        }
        return o + " ))";
    }

    std::string variable(const VariablePtr &v)
    {
        auto u = v->units();
        return "(V " + hx(v->name()) + " " + hx(v->id()) + " " + (u == nullptr ? std::string("-") : hx(u->name())) + " " + hx(v->initialValue()) + " " + hx(v->interfaceType()) + ")";
    }

    std::string vref(const VariablePtr &v, const ComponentPtr &owner)
    {
        if (v == nullptr) {
            return "-";
        }
        auto p = v->parent();
        return std::string((p != nullptr && p.get() == static_cast<ParentedEntity *>(owner.get())) ? "S " : "O ") + hx(v->name());
    }

    std::string reset(const ResetPtr &r, const ComponentPtr &owner)
    {
        return "(R " + hx(r->id()) + " " + (r->isOrderSet() ? std::to_string(r->order()) : std::string("-")) + " " + vref(r->variable(), owner) + " " + vref(r->testVariable(), owner)
               + " " + hx(r->testValue()) + " " + hx(r->testValueId()) + " " + hx(r->resetValue()) + " " + hx(r->resetValueId()) + ")";
    }

    std::string component(const ComponentPtr &c, size_t depth)
    {
        if (depth > 200) {
            oos = "too-deep";
            return "-";
        }
        std::string o = "(C " + hx(c->name()) + " " + hx(c->id()) + " " + hx(c->encapsulationId()) + " " + src(c->importSource()) + " " + hx(c->importReference()) + " " + hx(c->math()) + " (";
        for (size_t i = 0; i < c->variableCount(); ++i) {
            o += " " + variable(c->variable(i));
        }
        o += " ) (";
        for (size_t i = 0; i < c->resetCount(); ++i) {
            o += " " + reset(c->reset(i), c);
        }
        o += " ) (";
        for (size_t i = 0; i < c->componentCount(); ++i) {
            o += " " + component(c->component(i), depth + 1);
        }
        return o + " ))";
    }

    struct VarInfo
    {
        VariablePtr v;
        std::string path;
        size_t index;
        std::vector<Variable *> queue; // remaining equivalent variables, in the variable's own order
        size_t head = 0;
    };

    void collect(const ComponentEntityPtr &e, const std::string &path, std::vector<VarInfo> &out, size_t depth)
    {
        if (depth > 200) {
            return;
        }
        if (auto c = std::dynamic_pointer_cast<Component>(e)) {
            for (size_t i = 0; i < c->variableCount(); ++i) {
                VarInfo vi;
                vi.v = c->variable(i);
                vi.path = path;
                vi.index = i;
                out.push_back(vi);
            }
        }
        for (size_t i = 0; i < e->componentCount(); ++i) {
            collect(e->component(i), path.empty() ? std::to_string(i) : path + "." + std::to_string(i), out, depth + 1);
        }
    }

    std::string equivalences(const ModelPtr &m)
    {
        std::vector<VarInfo> vars;
        collect(m, "", vars, 0);
        std::map<Variable *, size_t> idx;
        for (size_t k = 0; k < vars.size(); ++k) {
            if (idx.count(vars[k].v.get()) != 0) {
                oos = "variable-listed-twice";
                return "";
            }
            idx[vars[k].v.get()] = k;
        }
        size_t remaining = 0;
        for (auto &vi : vars) {
            for (size_t j = 0; j < vi.v->equivalentVariableCount(); ++j) {
                auto w = vi.v->equivalentVariable(j);
                if (idx.count(w.get()) == 0) {
                    oos = "equivalent-variable-outside-model";
                    return "";
                }
                vi.queue.push_back(w.get());
                ++remaining;
            }
        }
        std::string o;
        while (remaining > 0) {
            bool progress = false;
            for (size_t k = 0; k < vars.size() && !progress; ++k) {
                auto &a = vars[k];
                if (a.head >= a.queue.size()) {
                    continue;
                }
                auto &b = vars[idx[a.queue[a.head]]];
                if (&a == &b) {
                    oos = "self-equivalence";
                    return "";
                }
                if (b.head < b.queue.size() && b.queue[b.head] == a.v.get()) {
                    std::string mab = a.v->pFunc()->equivalentMappingId(b.v);
                    std::string mba = b.v->pFunc()->equivalentMappingId(a.v);
                    std::string cab = a.v->pFunc()->equivalentConnectionId(b.v);
                    std::string cba = b.v->pFunc()->equivalentConnectionId(a.v);
                    if (mab != mba || cab != cba) {
                        oos = "ids-differ-by-direction";
                        return "";
                    }
                    o += " (E " + (a.path.empty() ? std::string("-") : a.path) + " " + std::to_string(a.index) + " " + (b.path.empty() ? std::string("-") : b.path) + " " + std::to_string(b.index)
                         + " " + hx(mab) + " " + hx(cab) + " " + hx(Variable::equivalenceConnectionId(a.v, b.v)) + ")";
                    ++a.head;
                    ++b.head;
                    remaining -= 2;
                    progress = true;
                }
            }
            if (!progress) {
                oos = "no-global-equivalence-order";
                return "";
            }
        }
        return o;
    }

    std::string model(const ModelPtr &m)
    {
        std::string o = "(M " + hx(m->name()) + " " + hx(m->id()) + " " + hx(m->encapsulationId()) + " (";
        // import sources are numbered in the order the PRINTER meets them is irrelevant: any injective numbering will do
        for (size_t i = 0; i < m->unitsCount(); ++i) {
            o += " " + units(m->units(i));
        }
        o += " ) (";
        for (size_t i = 0; i < m->componentCount(); ++i) {
            o += " " + component(m->component(i), 0);
        }
        o += " ) (" + equivalences(m) + " ))";
        if (!oos.empty()) {
            return "OOS(" + oos + ")";
        }
        return o;
    }
};

static std::string ent(const ModelPtr &m)
{
    if (m == nullptr) {
        return "OOS(null)";
    }
    Ent e;
    return e.model(m);
}

static std::string issueList(const LoggerPtr &l)
{
    std::string o = "n=" + std::to_string(l->issueCount());
    for (size_t i = 0; i < l->issueCount(); ++i) {
        auto is = l->issue(i);
        o += " " + issueLevelLetter(is->level()) + ":" + std::to_string(int(is->referenceRule()));
    }
    return o;
}

static void parseStage(const std::string &text, std::string &out, ModelPtr &model)
{
    auto parser = Parser::create(true);
    model = parser->parseModel(text);
    out += "\t" + issueList(parser);
    out += "\t" + ent(model);
    out += "\t" + (model != nullptr ? dumpModel(model, true) : std::string("-"));
}

static long validateCount(const ModelPtr &m)
{
    int fds[2];
    if (pipe(fds) != 0) {
        return -1;
    }
    fflush(stdout);
    pid_t pid = fork();
    if (pid == 0) {
        close(fds[0]);
        alarm(5); // the Validator can also loop for a very long time on such models
        auto v = Validator::create();
        v->validateModel(m);
        long n = long(v->issueCount());
        ssize_t w = write(fds[1], &n, sizeof n);
        _exit(w == ssize_t(sizeof n) ? 0 : 1);
    }
    close(fds[1]);
    long n = -1;
    ssize_t r = read(fds[0], &n, sizeof n);
    close(fds[0]);
    int status = 0;
    waitpid(pid, &status, 0);
    if (r != ssize_t(sizeof n) || !WIFEXITED(status) || WEXITSTATUS(status) != 0) {
        return -1;
    }
    return n;
}

// a cycle in the "units child references units of the model by name" graph
static bool unitsCycle(const ModelPtr &m)
{
    size_t n = m->unitsCount();
    std::vector<int> state(n, 0); // 0 new, 1 on the path, 2 done
    std::function<bool(size_t)> visit = [&](size_t i) -> bool {
        if (state[i] == 1) {
            return true;
        }
        if (state[i] == 2) {
            return false;
        }
        state[i] = 1;
        auto u = m->units(i);
        for (size_t k = 0; k < u->unitCount(); ++k) {
            std::string ref = u->unitAttributeReference(k);
            // (also the empty name: the Validator follows it, Model::hasImports does not)
            if (!m->hasUnits(ref)) {
                continue;
            }
            // Model::units(name) is the first units with that name
            auto target = m->units(ref);
            for (size_t j = 0; j < n; ++j) {
                if (m->units(j) == target) {
                    if (visit(j)) {
                        return true;
                    }
                    break;
                }
            }
        }
        state[i] = 2;
        return false;
    };
    for (size_t i = 0; i < n; ++i) {
        if (visit(i)) {
            return true;
        }
    }
    return false;
}

static std::string runCase(const std::string &line)
{
    std::string out;
    std::string p1;
    if (line.compare(0, 5, "TEXT ") == 0) {
        p1 = hexdecode(line.substr(5));
        out = "ok\t-\t-\t-\t" + hx(p1) + "\t-";
    } else {
        Interp in;
        for (const auto &cmd : splitws(line, ';')) {
            if (!cmd.empty()) {
                in.exec(cmd);
            }
        }
        auto m = in.model(0);
        if (m == nullptr) {
            return "nomodel";
        }
        out = "ok\t" + ent(m);
        bool cyclic = unitsCycle(m);
        // The Validator runs in a forked grandchild: it is not the subject here, and on models outside its own domain
        // (units cycles, ownership corrupted by look-alike removals: findings of C01 / C09) it can die.
        // V=-1: validator died (the model then does not count as validator-accepted).
        out += "\tV=" + std::to_string(validateCount(m));
        out += "\t" + dumpModel(m, true);
        if (cyclic) {
            // Model::hasImports (called by printModel) recurses without end on a units reference cycle (finding K3):
            // try the print in a grandchild first so that the crash is observed, not suffered
            fflush(stdout);
            pid_t pid = fork();
            if (pid == 0) {
                alarm(10);
                auto pr = Printer::create();
                std::string t = pr->printModel(m);
                _exit(t.empty() ? 3 : 0);
            }
            int status = 0;
            waitpid(pid, &status, 0);
            if (WIFSIGNALED(status)) {
                return "cyclic-units\tPRINTCRASH(" + std::to_string(WTERMSIG(status)) + ")";
            }
        }
        auto printer = Printer::create();
        p1 = printer->printModel(m);
        out += "\t" + hx(p1);
        out += "\tPI=" + std::to_string(printer->issueCount());
    }
    if (p1.empty()) {
        return out + "\t-\t-\t-\t-\t-\t-\t-";
    }
    ModelPtr m1;
    parseStage(p1, out, m1);
    std::string p2;
    if (m1 != nullptr) {
        auto printer2 = Printer::create();
        p2 = printer2->printModel(m1);
    }
    out += "\t" + hx(p2);
    if (p2.empty()) {
        return out + "\t-\t-\t-";
    }
    ModelPtr m2;
    parseStage(p2, out, m2);
    return out;
}

int main(int argc, char **argv)
{
    if (argc < 2) {
        fprintf(stderr, "usage: %s cases\n", argv[0]);
        return 2;
    }
    return runCases(readLines(argv[1]), runCase, 20);
}
