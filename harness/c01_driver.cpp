// C01 driver — the whole processing pipeline on one input per forked child (ASan+UBSan build).
//
//   c01_driver pipe <list>      each line of <list>:  <path-of-input-file> TAB <base-dir-for-imports>
//                               -> one line of stage tokens per input
//   c01_driver math <cases>     each line: hex of the XML text of the children of one <math> element; the text
//                               is wrapped in a fixed valid model and taken through Parser -> Validator ->
//                               (0 issues) Analyser -> Generator.  Used for the model/implementation
//                               correspondence of MathDefs.v (val_math / ana_node).
//   c01_driver describe <list>  same list format as pipe; prints, from the *parsed* model(s) and through
//                               non-recursive public getters only, the units reference graph and the math strings
//                               (JSON).  Used by the known-finding matchers (K3: units cycle, K33: MathML shape).
//   c01_driver pow <cases>      each line: hex(initial_value of y) SPACE hex(xml of the exponent operand);
//                               model  x = pow(a, <operand>)  with mismatching units so that the analyser's
//                               power-exponent evaluation (analyser.cpp: powerValue -> std::stod) runs.
//
// Output protocol of one case: the child writes "<stage>=" before entering a stage and the stage's result after it,
// so when the child dies the line ends in "<stage>=CRASH(...)" / "<stage>=TIMEOUT".  A sanitizer report written
// by the dying child is summarised in a trailing  "!kind=<...> !frames=<f1;f2;...>"  (libcellml frames only).
#include <csignal>
#include <ctime>
#include <cstdio>
#include <cstdlib>
#include <cstring>
#include <fstream>
#include <functional>
#include <iostream>
#include <set>
#include <sstream>
#include <string>
#include <vector>
#include <fcntl.h>
#include <sys/resource.h>
#include <sys/stat.h>
#include <sys/wait.h>
#include <unistd.h>

#include <libcellml>

#include "utilities.h"

#include "forkrun.hpp"

using namespace verif;

// ------------------------------------------------------------------------------------------------ fork with stages

static FILE *g_out = nullptr; // child: pipe to the parent

// Stack of the child.  8 MiB (the usual default of a process) unless C01_STACK_MB says otherwise: a larger stack hides
// recursion whose depth grows with the input (one frame per character of a 60 KiB text node), which is a crash for a
// client of the library.  Unbounded recursion (unit cycles) exhausts any stack.
static unsigned long stackBytes()
{
    const char *e = getenv("C01_STACK_MB");
    unsigned long mb = (e != nullptr) ? strtoul(e, nullptr, 10) : 8;
    return (mb == 0 ? 8 : mb) * 1024UL * 1024UL;
}

static void tok(const std::string &s)
{
    fputs(s.c_str(), g_out);
    fflush(g_out);
}

static std::set<std::string> g_skip; // stages not to run (4th field of a pipe case): used to look behind a known crash

static double nowMs()
{
    struct timespec ts;
    clock_gettime(CLOCK_MONOTONIC, &ts);
    return ts.tv_sec * 1000.0 + ts.tv_nsec / 1e6;
}

static bool stage(const char *name)
{
    static double last = nowMs();
    if (getenv("C01_TIMES") != nullptr) { // diagnostic only: time spent since the previous stage marker
        double t = nowMs();
        tok("~" + std::to_string(long(t - last)));
        last = t;
    }
    if (g_skip.count(name) != 0) {
        tok(std::string(" ") + name + "=skipped");
        return false;
    }
    tok(std::string(" ") + name + "=");
    return true;
}

static std::string summariseReport(const std::string &rep)
{
    // kind
    std::string kind = "none";
    const char *kinds[] = {"stack-overflow", "heap-use-after-free", "heap-buffer-overflow", "stack-buffer-overflow",
                           "global-buffer-overflow", "stack-use-after-return", "stack-use-after-scope", "double-free",
                           "attempting free", "alloc-dealloc-mismatch", "allocation-size-too-big", "out-of-memory",
                           "requested allocation size", "negative-size-param", "memcpy-param-overlap", "SEGV", "FPE", "ABRT",
                           "runtime error", "terminate called"};
    for (const char *k : kinds) {
        if (rep.find(k) != std::string::npos) {
            kind = k;
            break;
        }
    }
    if (kind == "SEGV") {
        // null-page or wild?
        size_t p = rep.find("SEGV on unknown address ");
        if (p != std::string::npos) {
            std::string a = rep.substr(p + 24, std::min<size_t>(18, rep.size() - p - 24));
            unsigned long long v = strtoull(a.c_str(), nullptr, 16);
            kind = v < 4096 ? "SEGV-null" : "SEGV-wild";
        }
    }
    if (kind == "runtime error") {
        size_t p = rep.find("runtime error: ");
        size_t e = rep.find('\n', p);
        std::string w = rep.substr(p + 15, (e == std::string::npos ? rep.size() : e) - p - 15);
        for (auto &c : w) {
            if (c == ' ' || c == '\t') {
                c = '_';
            }
        }
        kind = "UB:" + w.substr(0, 80);
    }
    if (kind == "terminate called") {
        size_t p = rep.find("terminate called after throwing an instance of '");
        if (p != std::string::npos) {
            size_t e = rep.find('\'', p + 48);
            kind = "THROW:" + rep.substr(p + 48, e - p - 48);
        }
    }
    for (auto &c : kind) {
        if (c == ' ') {
            c = '_';
        }
    }
    // frames: "#n 0x... in <function> <file>:line" — keep the libcellml ones, distinct, in order, at most 6
    std::vector<std::string> frames;
    std::set<std::string> seen;
    std::istringstream in(rep);
    std::string l;
    while (std::getline(in, l) && frames.size() < 6) {
        size_t p = l.find(" in ");
        if (l.find("    #") != 0 || p == std::string::npos) {
            continue;
        }
        std::string f = l.substr(p + 4);
        if (f.find("libcellml::") == std::string::npos) {
            continue;
        }
        // strip argument list and file
        size_t par = f.find('(');
        if (par != std::string::npos) {
            f = f.substr(0, par);
        }
        size_t sp = f.find(' ');
        if (sp != std::string::npos) {
            f = f.substr(0, sp);
        }
        size_t ns = f.find("libcellml::");
        if (ns == std::string::npos) {
            continue; // libcellml:: only occurred inside the argument list
        }
        f = f.substr(ns + 11);
        if (seen.insert(f).second) {
            frames.push_back(f);
        }
    }
    std::string fr;
    for (size_t i = 0; i < frames.size(); ++i) {
        fr += (i ? ";" : "") + frames[i];
    }
    // functions of interest anywhere in the report (a deep recursion shows its innermost frames first)
    std::string has;
    for (const char *f : {"transferUnitsRenamingIfRequired", "checkUnitsForCycles", "fetchUnits", "flattenUnitsImports", "flattenComponent",
                          "retrieveUnitsDependencies"}) {
        if (rep.find(f) != std::string::npos) {
            has += (has.empty() ? "" : ",") + std::string(f);
        }
    }
    return " !kind=" + kind + " !frames=" + (fr.empty() ? "-" : fr) + " !has=" + (has.empty() ? "-" : has);
}

static std::string slurp(const std::string &path)
{
    std::ifstream in(path, std::ios::binary);
    std::ostringstream o;
    o << in.rdbuf();
    return o.str();
}

// Runs fn(caseText) in a forked child. Prints exactly one line.
static void runOne(const std::string &c, const std::function<void(const std::string &)> &fn, unsigned seconds, const std::string &errPath)
{
    int fds[2];
    if (pipe(fds) != 0) {
        perror("pipe");
        exit(2);
    }
    fflush(stdout);
    pid_t pid = fork();
    if (pid == 0) {
        close(fds[0]);
        struct rlimit rl;
        rl.rlim_cur = rl.rlim_max = stackBytes();
        setrlimit(RLIMIT_STACK, &rl);
        int efd = open(errPath.c_str(), O_WRONLY | O_CREAT | O_TRUNC, 0600);
        if (efd >= 0) {
            dup2(efd, 2);
            close(efd);
        }
        g_out = fdopen(fds[1], "w");
        alarm(seconds);
        try {
            fn(c);
        } catch (const std::exception &e) {
            tok(std::string("THROW(") + typeid(e).name() + ")");
        } catch (...) {
            tok("THROW(unknown)");
        }
        alarm(0);
        tok(" END");
        fclose(g_out);
        _exit(0);
    }
    close(fds[1]);
    std::string line;
    char buf[65536];
    ssize_t n;
    while ((n = read(fds[0], buf, sizeof buf)) > 0) {
        line.append(buf, size_t(n));
    }
    close(fds[0]);
    int status = 0;
    waitpid(pid, &status, 0);
    bool ended = line.size() >= 4 && line.compare(line.size() - 4, 4, " END") == 0;
    if (!ended) {
        if (WIFSIGNALED(status)) {
            int sig = WTERMSIG(status);
            line += (sig == SIGALRM) ? "TIMEOUT" : "CRASH(" + std::to_string(sig) + ")";
        } else {
            line += "CRASH(exit" + std::to_string(WEXITSTATUS(status)) + ")";
        }
        std::string rep = slurp(errPath);
        line += summariseReport(rep);
    }
    for (auto &ch : line) {
        if (ch == '\n' || ch == '\r') {
            ch = ' ';
        }
    }
    puts(line.c_str() + (line.size() && line[0] == ' ' ? 1 : 0));
    fflush(stdout);
}

// Batch variant (math / pow modes: the cases are independent of process-global state): the child runs cases until
// it dies; the parent restarts behind the dead case.  One line per case, same token protocol.
static void runBatch(const std::vector<std::string> &cases, const std::function<void(const std::string &)> &fn, unsigned seconds,
                     const std::string &errPath)
{
    size_t next = 0;
    const size_t n = cases.size();
    while (next < n) {
        int fds[2];
        if (pipe(fds) != 0) {
            perror("pipe");
            exit(2);
        }
        fflush(stdout);
        pid_t pid = fork();
        if (pid == 0) {
            close(fds[0]);
            struct rlimit rl;
            rl.rlim_cur = rl.rlim_max = stackBytes();
            setrlimit(RLIMIT_STACK, &rl);
            int efd = open(errPath.c_str(), O_WRONLY | O_CREAT | O_TRUNC, 0600);
            if (efd >= 0) {
                dup2(efd, 2);
                close(efd);
            }
            g_out = fdopen(fds[1], "w");
            for (size_t i = next; i < n; ++i) {
                alarm(seconds);
                try {
                    fn(cases[i]);
                } catch (const std::exception &e) {
                    tok(std::string("THROW(") + typeid(e).name() + ")");
                } catch (...) {
                    tok("THROW(unknown)");
                }
                alarm(0);
                tok(" END\n");
            }
            fclose(g_out);
            _exit(0);
        }
        close(fds[1]);
        std::string buf;
        char tmp[65536];
        ssize_t k;
        while ((k = read(fds[0], tmp, sizeof tmp)) > 0) {
            buf.append(tmp, size_t(k));
        }
        close(fds[0]);
        int status = 0;
        waitpid(pid, &status, 0);
        size_t start = 0;
        while (true) {
            size_t nl = buf.find('\n', start);
            if (nl == std::string::npos) {
                break;
            }
            std::string line = buf.substr(start, nl - start);
            puts(line.c_str() + (line.size() && line[0] == ' ' ? 1 : 0));
            ++next;
            start = nl + 1;
        }
        if (next < n) {
            std::string line = buf.substr(start);
            if (WIFSIGNALED(status)) {
                int sig = WTERMSIG(status);
                line += (sig == SIGALRM) ? "TIMEOUT" : "CRASH(" + std::to_string(sig) + ")";
            } else {
                line += "CRASH(exit" + std::to_string(WEXITSTATUS(status)) + ")";
            }
            line += summariseReport(slurp(errPath));
            for (auto &ch : line) {
                if (ch == '\n' || ch == '\r') {
                    ch = ' ';
                }
            }
            puts(line.c_str() + (line.size() && line[0] == ' ' ? 1 : 0));
            ++next;
        }
        fflush(stdout);
    }
}

// one-off initialisations of the library (the MathML DTD is decompressed on first use) are done before forking
static void warmUp()
{
    auto parser = libcellml::Parser::create(true);
    auto model = parser->parseModel(
        "<?xml version=\"1.0\" encoding=\"UTF-8\"?>\n<model xmlns=\"http://www.cellml.org/cellml/2.0#\" name=\"m\"><component name=\"c\">"
        "<variable name=\"x\" units=\"dimensionless\"/><math xmlns=\"http://www.w3.org/1998/Math/MathML\" "
        "xmlns:cellml=\"http://www.cellml.org/cellml/2.0#\"><apply><eq/><ci>x</ci><cn cellml:units=\"dimensionless\">1</cn></apply></math>"
        "</component></model>");
    auto validator = libcellml::Validator::create();
    validator->validateModel(model);
    auto analyser = libcellml::Analyser::create();
    analyser->analyseModel(model);
    auto g = libcellml::Generator::create();
    g->setModel(analyser->model());
    g->implementationCode();
}

// ------------------------------------------------------------------------------------------------ pipeline

static const size_t MAX_UNITS_PAIRS = 10; // units-level queries between all pairs of the first 10 units

static void unitsLevel(const libcellml::ModelPtr &m)
{
    size_t n = std::min(m->unitsCount(), MAX_UNITS_PAIRS);
    size_t acc = 0;
    if (stage("Ud")) {
        for (size_t i = 0; i < n; ++i) {
            auto u = m->units(i);
            acc += u->isDefined() + 2 * u->isBaseUnit() + 4 * u->isResolved();
        }
        tok(std::to_string(acc));
    }
    if (stage("Ur")) {
        acc = 0;
        for (size_t i = 0; i < n; ++i) {
            acc += m->units(i)->requiresImports();
        }
        tok(std::to_string(acc));
    }
    if (stage("Uc")) {
        acc = 0;
        for (size_t i = 0; i < n; ++i) {
            for (size_t j = 0; j < n; ++j) {
                acc += libcellml::Units::compatible(m->units(i), m->units(j));
            }
        }
        tok(std::to_string(acc));
    }
    if (stage("Us")) {
        acc = 0;
        for (size_t i = 0; i < n; ++i) {
            for (size_t j = 0; j < n; ++j) {
                double f = libcellml::Units::scalingFactor(m->units(i), m->units(j));
                acc += (f != 0.0) + libcellml::Units::equivalent(m->units(i), m->units(j));
            }
        }
        tok(std::to_string(acc));
    }
    if (stage("Un")) { // scalingFactor without the compatibility check
        acc = 0;
        for (size_t i = 0; i < n; ++i) {
            for (size_t j = 0; j < n; ++j) {
                acc += libcellml::Units::scalingFactor(m->units(i), m->units(j), false) != 0.0;
            }
        }
        tok(std::to_string(acc));
    }
}

static void componentsLevel(const libcellml::ComponentEntityPtr &e, size_t &acc, size_t &budget)
{
    for (size_t i = 0; i < e->componentCount() && budget > 0; ++i) {
        auto c = e->component(i);
        --budget;
        acc += c->isDefined() + 2 * c->requiresImports() + 4 * c->isResolved();
        componentsLevel(c, acc, budget);
    }
}

static void analyseAndGenerate(const libcellml::ModelPtr &m, const char *a, const char *gc, const char *gp)
{
    if (!stage(a)) {
        return;
    }
    auto analyser = libcellml::Analyser::create();
    analyser->analyseModel(m);
    auto am = analyser->model();
    tok("e" + std::to_string(analyser->errorCount()) + "i" + std::to_string(analyser->issueCount()) + "t"
        + (am ? libcellml::AnalyserModel::typeAsString(am->type()).substr(0, 4) : std::string("null")));
    if (stage(gc)) {
        auto g = libcellml::Generator::create();
        g->setModel(am);
        std::string i = g->interfaceCode();
        std::string c = g->implementationCode();
        tok(std::string(i.empty() ? "0" : "h") + (c.empty() ? "0" : "c"));
    }
    if (stage(gp)) {
        auto g = libcellml::Generator::create();
        g->setProfile(libcellml::GeneratorProfile::create(libcellml::GeneratorProfile::Profile::PYTHON));
        g->setModel(am);
        std::string i = g->interfaceCode();
        std::string c = g->implementationCode();
        tok(std::string(i.empty() ? "0" : "h") + (c.empty() ? "0" : "c"));
    }
}

static unsigned g_seconds = 20; // alarm per parser mode of a pipe case

static void pipelineOne(const std::string &text, const std::string &base, bool strict)
{
    alarm(g_seconds); // the time limit applies to the strict and to the permissive run separately
    tok(std::string(" [") + (strict ? "s" : "p") + "]");
    stage("P");
    auto parser = libcellml::Parser::create(strict);
    auto model = parser->parseModel(text);
    tok("i" + std::to_string(parser->issueCount()) + (model ? "" : "null"));
    if (model == nullptr) {
        return;
    }
    if (stage("V")) {
        auto validator = libcellml::Validator::create();
        validator->validateModel(model);
        tok("i" + std::to_string(validator->issueCount()));
    }
    auto printer = libcellml::Printer::create();
    if (stage("R")) {
        std::string printed = printer->printModel(model);
        tok(printed.empty() ? "empty" : "ok");
    }
    if (stage("Qi")) {
        tok(std::to_string(model->hasImports() + 2 * model->hasUnresolvedImports() + 8 * model->hasUnlinkedUnits()));
    }
    if (stage("Qd")) {
        tok(std::to_string(model->isDefined()));
    }
    unitsLevel(model);
    if (stage("C")) {
        size_t acc = 0;
        size_t budget = 200;
        componentsLevel(model, acc, budget);
        tok(std::to_string(acc));
    }
    analyseAndGenerate(model, "A", "Gc", "Gp");
    // the stages behind import resolution repeat earlier ones on the resolved / flattened model; without imports the
    // flattened model is a clone of the original, so they are only run when the model has imports
    bool hadImports = model->hasImports();
    auto importer = libcellml::Importer::create(strict);
    if (stage("I")) {
        bool ok = importer->resolveImports(model, base);
        tok(std::string(ok ? "t" : "f") + "i" + std::to_string(importer->issueCount()) + "l" + std::to_string(importer->libraryCount()));
    }
    if (hadImports) {
        if (stage("Q2")) {
            tok(std::to_string(model->hasImports() + 2 * model->hasUnresolvedImports()));
        }
        if (stage("Qd2")) {
            tok(std::to_string(model->isDefined()));
        }
        if (stage("V2")) {
            auto v2 = libcellml::Validator::create();
            v2->validateModel(model);
            tok("i" + std::to_string(v2->issueCount()));
        }
    }
    libcellml::ModelPtr flat;
    if (stage("F")) {
        flat = importer->flattenModel(model);
        tok(std::string(flat ? "ok" : "null") + "i" + std::to_string(importer->issueCount()));
    }
    if (flat != nullptr) {
        if (stage("FR")) {
            tok(printer->printModel(flat).empty() ? "empty" : "ok");
        }
        if (hadImports) {
            if (stage("FV")) {
                auto v3 = libcellml::Validator::create();
                v3->validateModel(flat);
                tok("i" + std::to_string(v3->issueCount()));
            }
            analyseAndGenerate(flat, "FA", "FGc", "FGp");
        }
    }
}

static std::vector<std::string> splitTab(const std::string &s)
{
    return splitws(s, '\t');
}

// case: <path> TAB <base dir> TAB <s|p> TAB <comma separated stages to skip>
static void pipeCase(const std::string &c)
{
    auto f = splitTab(c);
    std::string text = slurp(f[0]);
    std::string base = f.size() > 1 ? f[1] : std::string("/nonexistent/");
    std::string modes = f.size() > 2 ? f[2] : std::string("sp");
    if (f.size() > 3) {
        for (const auto &s : splitws(f[3], ',')) {
            g_skip.insert(s);
        }
    }
    for (char m : modes) {
        pipelineOne(text, base, m == 's');
    }
}

// ------------------------------------------------------------------------------------------------ math mode

static const char *MATH_HEAD =
    "<?xml version=\"1.0\" encoding=\"UTF-8\"?>\n<model xmlns=\"http://www.cellml.org/cellml/2.0#\" name=\"m\">"
    "<component name=\"c\">"
    // t, y, z are initialised so that "x = f(t, y, z)" is a complete model and code is generated for it
    "<variable name=\"t\" units=\"dimensionless\" initial_value=\"0\"/><variable name=\"x\" units=\"dimensionless\"/>"
    "<variable name=\"y\" units=\"dimensionless\" initial_value=\"1\"/><variable name=\"z\" units=\"dimensionless\" initial_value=\"2\"/>"
    "<math xmlns=\"http://www.w3.org/1998/Math/MathML\" xmlns:cellml=\"http://www.cellml.org/cellml/2.0#\">";
static const char *MATH_TAIL = "</math></component></model>\n";

static void mathCase(const std::string &hex)
{
    std::string body = hexdecode(hex);
    std::string text = std::string(MATH_HEAD) + body + MATH_TAIL;
    stage("P");
    auto parser = libcellml::Parser::create(true);
    auto model = parser->parseModel(text);
    tok(std::to_string(parser->issueCount()));
    stage("V");
    auto validator = libcellml::Validator::create();
    validator->validateModel(model);
    size_t dtd = 0;
    size_t structural = 0;
    size_t other = 0;
    std::string rules;
    for (size_t i = 0; i < validator->issueCount(); ++i) {
        auto is = validator->issue(i);
        std::string d = is->description();
        if (d.rfind("W3C MathML DTD error", 0) == 0) {
            ++dtd;
        } else if (d.rfind("LibXml2 error", 0) == 0) {
            ++other;
        } else {
            ++structural;
            using R = libcellml::Issue::ReferenceRule;
            std::string n;
            switch (is->referenceRule()) {
            case R::MATH_MATHML: n = "MATH_MATHML"; break;
            case R::MATH_CHILD: n = "MATH_CHILD"; break;
            case R::MATH_ELEMENT: n = "MATH_ELEMENT"; break;
            case R::MATH_CI_VARIABLE_REFERENCE: n = "MATH_CI_VARIABLE_REFERENCE"; break;
            case R::MATH_CN_UNITS_ATTRIBUTE: n = "MATH_CN_UNITS_ATTRIBUTE"; break;
            case R::MATH_CN_UNITS_ATTRIBUTE_REFERENCE: n = "MATH_CN_UNITS_ATTRIBUTE_REFERENCE"; break;
            case R::MATH_CN_BASE10: n = "MATH_CN_BASE10"; break;
            case R::MATH_CN_FORMAT: n = "MATH_CN_FORMAT"; break;
            default: n = "OTHER" + std::to_string(int(is->referenceRule())); break;
            }
            rules += (rules.empty() ? "" : ",") + n;
        }
    }
    tok("s" + std::to_string(structural) + "d" + std::to_string(dtd) + "o" + std::to_string(other) + ":" + (rules.empty() ? "-" : rules));
    if (parser->issueCount() == 0 && validator->issueCount() == 0) {
        stage("A");
        auto analyser = libcellml::Analyser::create();
        analyser->analyseModel(model);
        tok("ok");
        stage("G");
        auto g = libcellml::Generator::create();
        g->setModel(analyser->model());
        g->implementationCode();
        g->setProfile(libcellml::GeneratorProfile::create(libcellml::GeneratorProfile::Profile::PYTHON));
        g->implementationCode();
        tok("ok");
    }
}

// ------------------------------------------------------------------------------------------------ pow mode

static void powCase(const std::string &c)
{
    auto f = splitws(c, ' ');
    std::string init = hexdecode(f[0]);
    std::string operand = f.size() > 1 ? hexdecode(f[1]) : std::string("<ci>y</ci>");
    std::string text =
        "<?xml version=\"1.0\" encoding=\"UTF-8\"?>\n<model xmlns=\"http://www.cellml.org/cellml/2.0#\" name=\"m\">"
        "<component name=\"c\">"
        "<variable name=\"x\" units=\"second\"/><variable name=\"a\" units=\"metre\" initial_value=\"2\"/>"
        "<variable name=\"z\" units=\"dimensionless\" initial_value=\"3\"/>"
        "<variable name=\"y\" units=\"dimensionless\" initial_value=\""
        + init + "\"/>"
                 "<math xmlns=\"http://www.w3.org/1998/Math/MathML\" xmlns:cellml=\"http://www.cellml.org/cellml/2.0#\">"
                 "<apply><eq/><ci>x</ci><apply><power/><ci>a</ci>"
        + operand + "</apply></apply></math></component></model>\n";
    stage("P");
    auto parser = libcellml::Parser::create(true);
    auto model = parser->parseModel(text);
    tok(std::to_string(parser->issueCount()));
    stage("V");
    auto validator = libcellml::Validator::create();
    validator->validateModel(model);
    tok(std::to_string(validator->issueCount()));
    stage("A");
    auto analyser = libcellml::Analyser::create();
    analyser->analyseModel(model);
    tok("e" + std::to_string(analyser->errorCount()) + "i" + std::to_string(analyser->issueCount()));
    stage("G");
    auto g = libcellml::Generator::create();
    g->setModel(analyser->model());
    tok(g->implementationCode().empty() ? "0" : "c");
}

// ------------------------------------------------------------------------------------------------ describe mode

static std::string jstr(const std::string &s)
{
    return "\"" + hexencode(s) + "\""; // hex: the python side decodes; avoids any escaping question
}

static void describeModel(const libcellml::ModelPtr &m, const char *label)
{
    std::ostringstream o;
    o << " {\"label\":\"" << label << "\",\"units\":[";
    for (size_t i = 0; i < m->unitsCount(); ++i) {
        auto u = m->units(i);
        o << (i ? "," : "") << "{\"name\":" << jstr(u->name()) << ",\"import\":" << (u->isImport() ? 1 : 0)
          << ",\"importref\":" << jstr(u->isImport() ? u->importReference() : std::string()) << ",\"refs\":[";
        for (size_t k = 0; k < u->unitCount(); ++k) {
            o << (k ? "," : "") << jstr(u->unitAttributeReference(k));
        }
        o << "],\"dangling\":[";   // references that are neither a standard unit name nor a units of this model
        bool firstD = true;
        for (size_t k = 0; k < u->unitCount(); ++k) {
            std::string ref = u->unitAttributeReference(k);
            if (!libcellml::isStandardUnitName(ref) && !m->hasUnits(ref)) {
                o << (firstD ? "" : ",") << jstr(ref);
                firstD = false;
            }
        }
        o << "]}";
    }
    o << "],\"imports\":[";   // (name, import reference, url) of every imported units / component
    {
        bool firstI = true;
        auto emit = [&](const std::string &name, const libcellml::ImportedEntityPtr &e) {
            if (e->isImport() && e->importSource() != nullptr) {
                o << (firstI ? "" : ",") << "[" << jstr(name) << "," << jstr(e->importReference()) << "," << jstr(e->importSource()->url()) << "]";
                firstI = false;
            }
        };
        for (size_t i = 0; i < m->unitsCount(); ++i) {
            emit(m->units(i)->name(), m->units(i));
        }
        std::function<void(const libcellml::ComponentEntityPtr &, size_t)> walkI = [&](const libcellml::ComponentEntityPtr &e, size_t depth) {
            for (size_t i = 0; i < e->componentCount(); ++i) {
                emit(e->component(i)->name(), e->component(i));
                if (depth < 2000) {
                    walkI(e->component(i), depth + 1);
                }
            }
        };
        walkI(m, 0);
    }
    o << "],\"math\":[";
    std::ostringstream vars; // parallel to "math": the (name, initial_value) pairs of the owning component
    bool first = true;
    std::function<void(const libcellml::ComponentEntityPtr &, size_t)> walk = [&](const libcellml::ComponentEntityPtr &e, size_t depth) {
        for (size_t i = 0; i < e->componentCount(); ++i) {
            auto c = e->component(i);
            std::vector<std::string> docs;
            if (!c->math().empty()) {
                docs.push_back(c->math());
            }
            for (size_t r = 0; r < c->resetCount(); ++r) {
                auto rs = c->reset(r);
                for (const std::string &s : {rs->testValue(), rs->resetValue()}) {
                    if (!s.empty()) {
                        docs.push_back(s);
                    }
                }
            }
            if (!docs.empty()) {
                std::string vs = "[";
                for (size_t k = 0; k < c->variableCount() && k < 300; ++k) {
                    auto v = c->variable(k);
                    vs += std::string(k ? "," : "") + "[" + jstr(v->name()) + "," + jstr(v->initialValue()) + "]";
                }
                vs += "]";
                for (const auto &s : docs) {
                    o << (first ? "" : ",") << jstr(s);
                    vars << (first ? "" : ",") << vs;
                    first = false;
                }
            }
            if (depth < 2000) {
                walk(c, depth + 1);
            }
        }
    };
    walk(m, 0);
    o << "],\"vars\":[" << vars.str() << "]}";
    tok(o.str());
}

static void describeCase(const std::string &c)
{
    auto f = splitTab(c);
    std::string text = slurp(f[0]);
    std::string base = f.size() > 1 ? f[1] : std::string("/nonexistent/");
    for (int strict = 1; strict >= 0; --strict) {
        auto parser = libcellml::Parser::create(strict != 0);
        auto model = parser->parseModel(text);
        if (model == nullptr) {
            continue;
        }
        describeModel(model, strict ? "s" : "p");
        auto importer = libcellml::Importer::create(strict != 0);
        tok(" ");
        importer->resolveImports(model, base);
        for (size_t i = 0; i < importer->libraryCount(); ++i) {
            describeModel(importer->library(i), strict ? "s-lib" : "p-lib");
        }
    }
}

int main(int argc, char **argv)
{
    if (argc < 3) {
        fprintf(stderr, "usage: %s pipe|math|describe|pow <file>\n", argv[0]);
        return 2;
    }
    std::string mode = argv[1];
    auto cases = readLines(argv[2]);
    std::string errPath = std::string(argv[2]) + ".stderr." + std::to_string(getpid());
    std::function<void(const std::string &)> fn;
    unsigned seconds = 20;
    if (mode == "pipe") {
        fn = pipeCase;
    } else if (mode == "math") {
        fn = mathCase;
    } else if (mode == "describe") {
        fn = describeCase;
    } else if (mode == "pow") {
        fn = powCase;
    } else {
        return 2;
    }
    if (getenv("C01_SECONDS") != nullptr) {
        seconds = unsigned(atoi(getenv("C01_SECONDS")));
    }
    g_seconds = seconds;
    warmUp();
    if (mode == "math" || mode == "pow") {
        runBatch(cases, fn, seconds, errPath);
    } else {
        for (const auto &c : cases) {
            runOne(c, fn, seconds, errPath);
        }
    }
    unlink(errPath.c_str());
    return 0;
}
