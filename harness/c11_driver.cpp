// c11_driver — C++ side of the C11 (clone) correspondence and oracle.
//
// usage: c11_driver <case file>          (compile with -fno-access-control: the per-direction mapping / connection
//                                          ids of an equivalence are read from Variable::VariableImpl)
// One case per line:   <n0>|<world script, commands separated by ';'>|<target slot>|<mutation script or empty>[|noconn]
//   (noconn: dump.hpp texts without connection ids -- for worlds whose connection ids are not uniform per component pair)
//   The world script (harness/common/script.hpp commands) creates every object explicitly in the slots 0..n0-1.
//   The target is cloned.  Every object reachable from the clone that is in no slot is put into a new slot
//   (n0, n0+1, ... in traversal order).  In the mutation script the token $k stands for the k-th distinct slot
//   number >= n0 in the text of the clone's identity dump (field 2 below); objects it creates use slots >= 5000.
// Output: TAB separated fields
//   0 "ok"
//   1 identity dump of the original      2 identity dump of the clone         (format: see idump* below)
//   3 e<equals(o,c)><equals(c,o)> p<clone has no parent> w<printModel(o)==printModel(c) up to the order of map_variables /
//     connection elements, models only, else ->
//   4 dump.hpp text of the original      5 dump.hpp text of the clone
//   with a mutation script additionally:
//   6,7 identity dumps after the mutation   8,9 dump.hpp texts after the mutation   10 exec results joined by ','
//   11 e<equals(o,c)><equals(c,o)> after the mutation
// A crash / exception / hang anywhere gives the single token CRASH(sig) / THROW(type) / TIMEOUT (forkrun.hpp).
#include <algorithm>
#include <cstdio>
#include <cstring>
#include <string>
#include <vector>

#include <libcellml>

#include "variable_p.h"

#include "dump.hpp"
#include "forkrun.hpp"
#include "script.hpp"

using namespace verif;
using namespace libcellml;

static std::string hx(const std::string &s)
{
    return "s" + hexencode(s);
}

struct IDump
{
    Interp &in;
    bool adopt; // put unslotted objects into new slots (pre-pass)

    std::string lab(const EntityPtr &p)
    {
        if (p == nullptr) {
            return "-";
        }
        long i = in.find(p.get());
        if (i < 0 && adopt) {
            i = in.adopt(p);
        }
        return i < 0 ? std::string("ext") : "@" + std::to_string(i);
    }

    // a reference that is never adopted (weak links: equivalent variables, model of an import source)
    std::string ref(const EntityPtr &p)
    {
        if (p == nullptr) {
            return "-";
        }
        long i = in.find(p.get());
        return i < 0 ? std::string("ext") : "@" + std::to_string(i);
    }

    std::string isrc(const ImportSourcePtr &i)
    {
        if (i == nullptr) {
            return "-";
        }
        return "(i " + lab(i) + " " + hx(i->url()) + " " + hx(i->id()) + " " + ref(i->model()) + ")";
    }

    std::string units(const UnitsPtr &u)
    {
        if (u == nullptr) {
            return "-";
        }
        std::string o = "(u " + lab(u) + " " + ref(u->parent()) + " " + hx(u->id()) + " " + hx(u->name()) + " " + isrc(u->importSource()) + " " + hx(u->importReference());
        for (size_t k = 0; k < u->unitCount(); ++k) {
            std::string r;
            std::string p;
            std::string id;
            double e = 0.0;
            double m = 0.0;
            u->unitAttributes(k, r, p, e, m, id);
            o += " (d " + hx(r) + " " + hx(p) + " " + dnum(e) + " " + dnum(m) + " " + hx(id) + ")";
        }
        return o + ")";
    }

    std::string variable(const VariablePtr &v)
    {
        if (v == nullptr) {
            return "-";
        }
        std::string o = "(v " + lab(v) + " " + ref(v->parent()) + " " + hx(v->id()) + " " + hx(v->name()) + " " + hx(v->initialValue()) + " " + hx(v->interfaceType()) + " " + units(v->units());
        for (size_t k = 0; k < v->equivalentVariableCount(); ++k) {
            auto w = v->equivalentVariable(k);
            o += " (e " + ref(w) + " " + hx(v->pFunc()->equivalentMappingId(w)) + " " + hx(v->pFunc()->equivalentConnectionId(w)) + ")";
        }
        return o + ")";
    }

    std::string reset(const ResetPtr &r)
    {
        if (r == nullptr) {
            return "-";
        }
        return "(r " + lab(r) + " " + ref(r->parent()) + " " + hx(r->id()) + " " + std::to_string(r->order()) + " " + (r->isOrderSet() ? "1" : "0")
               + " " + variable(r->variable()) + " " + variable(r->testVariable())
               + " " + hx(r->testValue()) + " " + hx(r->testValueId()) + " " + hx(r->resetValue()) + " " + hx(r->resetValueId()) + ")";
    }

    std::string component(const ComponentPtr &c, size_t depth = 0)
    {
        if (c == nullptr || depth > 200) {
            return "-";
        }
        std::string o = "(c " + lab(c) + " " + ref(c->parent()) + " " + hx(c->id()) + " " + hx(c->name()) + " " + hx(c->encapsulationId()) + " " + hx(c->math())
                        + " " + isrc(c->importSource()) + " " + hx(c->importReference()) + " (";
        for (size_t k = 0; k < c->variableCount(); ++k) {
            o += (k ? " " : "") + variable(c->variable(k));
        }
        o += ") (";
        for (size_t k = 0; k < c->resetCount(); ++k) {
            o += (k ? " " : "") + reset(c->reset(k));
        }
        o += ") (";
        for (size_t k = 0; k < c->componentCount(); ++k) {
            o += (k ? " " : "") + component(c->component(k), depth + 1);
        }
        return o + "))";
    }

    std::string model(const ModelPtr &m)
    {
        if (m == nullptr) {
            return "-";
        }
        std::string o = "(m " + lab(m) + " " + hx(m->id()) + " " + hx(m->name()) + " " + hx(m->encapsulationId()) + " (";
        for (size_t k = 0; k < m->unitsCount(); ++k) {
            o += (k ? " " : "") + units(m->units(k));
        }
        o += ") (";
        for (size_t k = 0; k < m->componentCount(); ++k) {
            o += (k ? " " : "") + component(m->component(k));
        }
        return o + "))";
    }

    std::string entity(const EntityPtr &p)
    {
        switch (kindOf(p)) {
        case Kind::Model: return model(std::static_pointer_cast<Model>(p));
        case Kind::Component: return component(std::static_pointer_cast<Component>(p));
        case Kind::Variable: return variable(std::static_pointer_cast<Variable>(p));
        case Kind::Units: return units(std::static_pointer_cast<Units>(p));
        case Kind::Reset: return reset(std::static_pointer_cast<Reset>(p));
        case Kind::ImportSource: return isrc(std::static_pointer_cast<ImportSource>(p));
        case Kind::Empty: break;
        }
        return "-";
    }
};

static std::string idump(Interp &in, const EntityPtr &p, bool adopt)
{
    IDump d {in, adopt};
    if (adopt) {
        d.entity(p); // pre-pass: slots for the new objects, so that every later reference finds them
        d.adopt = false;
    }
    return d.entity(p);
}

static std::string plainDump(const EntityPtr &p, bool withConn)
{
    switch (kindOf(p)) {
    case Kind::Model: return dumpModel(std::static_pointer_cast<Model>(p), false, withConn);
    case Kind::Component: return dumpComponent(std::static_pointer_cast<Component>(p), false, nullptr);
    case Kind::Variable: return dumpVariable(std::static_pointer_cast<Variable>(p));
    case Kind::Units: return dumpUnits(std::static_pointer_cast<Units>(p), false);
    case Kind::Reset: return dumpReset(std::static_pointer_cast<Reset>(p));
    case Kind::ImportSource: {
        auto i = std::static_pointer_cast<ImportSource>(p);
        return "(importsource (url " + dq(i->url()) + ") (id " + dq(i->id()) + ") (hasmodel " + (i->hasModel() ? "true" : "false") + "))";
    }
    case Kind::Empty: break;
    }
    return "-";
}

// Printer text with the unordered parts in a canonical order: map_variables lines sorted inside each connection
// element, connection elements sorted (the clone re-creates equivalences in index-stack order, so the ORDER of
// these elements may differ from the original's while the set is the same).
static std::string canonicalPrint(const std::string &text)
{
    std::vector<std::string> lines;
    std::string cur;
    for (char c : text) {
        if (c == '\n') {
            lines.push_back(cur);
            cur.clear();
        } else {
            cur.push_back(c);
        }
    }
    lines.push_back(cur);
    auto starts = [](const std::string &l, const char *what) {
        size_t i = l.find_first_not_of(' ');
        return i != std::string::npos && l.compare(i, strlen(what), what) == 0;
    };
    std::vector<std::string> out;
    std::vector<std::string> blocks;
    size_t firstBlockAt = std::string::npos;
    for (size_t i = 0; i < lines.size(); ++i) {
        if (starts(lines[i], "<connection")) {
            std::vector<std::string> maps;
            std::string block = lines[i] + "\n";
            size_t j = i + 1;
            for (; j < lines.size() && !starts(lines[j], "</connection>"); ++j) {
                maps.push_back(lines[j]);
            }
            std::sort(maps.begin(), maps.end());
            for (const auto &m : maps) {
                block += m + "\n";
            }
            if (j < lines.size()) {
                block += lines[j];
            }
            if (firstBlockAt == std::string::npos) {
                firstBlockAt = out.size();
            }
            blocks.push_back(block);
            i = j;
        } else {
            out.push_back(lines[i]);
        }
    }
    std::sort(blocks.begin(), blocks.end());
    std::string r;
    for (size_t i = 0; i < out.size(); ++i) {
        if (i == firstBlockAt) {
            for (const auto &b : blocks) {
                r += b + "\n";
            }
        }
        r += out[i] + "\n";
    }
    if (firstBlockAt == out.size()) {
        for (const auto &b : blocks) {
            r += b + "\n";
        }
    }
    return r;
}

static std::vector<std::string> newSlotsInTextOrder(const std::string &text, size_t n0)
{
    std::vector<std::string> out;
    for (size_t i = 0; i < text.size(); ++i) {
        if (text[i] != '@') {
            continue;
        }
        size_t j = i + 1;
        while (j < text.size() && text[j] >= '0' && text[j] <= '9') {
            ++j;
        }
        std::string num = text.substr(i + 1, j - i - 1);
        size_t v = std::stoul(num);
        if (v >= n0 && v < 5000) {
            bool seen = false;
            for (const auto &x : out) {
                if (x == num) {
                    seen = true;
                }
            }
            if (!seen) {
                out.push_back(num);
            }
        }
        i = j - 1;
    }
    return out;
}

static bool gConn = true;

static std::string runCase(const std::string &line)
{
    auto parts = splitws(line, '|');
    if (parts.size() < 4) {
        return "ERR(case)";
    }
    size_t n0 = std::stoul(parts[0]);
    gConn = !(parts.size() > 4 && parts[4] == "noconn");
    Interp in;
    for (const auto &cmd : splitws(parts[1], ';')) {
        if (cmd.empty()) {
            continue;
        }
        std::string r = in.exec(cmd);
        if (r.rfind("ERR(", 0) == 0 || r.rfind("THROW(", 0) == 0) {
            return "ERR(world:" + cmd + ":" + r + ")";
        }
    }
    if (in.slots.size() > n0) {
        return "ERR(world uses slots beyond n0)";
    }
    in.slots.resize(n0);
    size_t t = std::stoul(parts[2]);
    if (t >= n0 || in.slots[t].p == nullptr) {
        return "ERR(target)";
    }
    EntityPtr orig = in.slots[t].p;
    std::string o0 = idump(in, orig, false);
    std::string d0 = plainDump(orig, gConn);
    std::string r = in.exec("clone " + std::to_string(t) + " " + std::to_string(n0));
    if (r != "-") {
        return "ERR(clone:" + r + ")";
    }
    EntityPtr cl = in.slots[n0].p;
    std::string c0 = idump(in, cl, true);
    std::string d1 = plainDump(cl, gConn);
    std::string fl = "e";
    fl += orig->equals(cl) ? "1" : "0";
    fl += cl->equals(orig) ? "1" : "0";
    fl += " p";
    auto pe = std::dynamic_pointer_cast<ParentedEntity>(cl);
    fl += pe == nullptr ? "-" : (pe->parent() == nullptr ? "1" : "0");
    fl += " w";
    if (kindOf(orig) == Kind::Model) {
        auto pr = Printer::create();
        fl += canonicalPrint(pr->printModel(std::static_pointer_cast<Model>(orig))) == canonicalPrint(pr->printModel(std::static_pointer_cast<Model>(cl))) ? "1" : "0";
    } else {
        fl += "-";
    }
    std::string out = "ok\t" + o0 + "\t" + c0 + "\t" + fl + "\t" + d0 + "\t" + d1;
    if (!parts[3].empty()) {
        auto news = newSlotsInTextOrder(c0, n0);
        std::string res;
        for (const auto &cmd0 : splitws(parts[3], ';')) {
            if (cmd0.empty()) {
                continue;
            }
            std::string cmd;
            for (size_t i = 0; i < cmd0.size(); ++i) {
                if (cmd0[i] == '$') {
                    size_t j = i + 1;
                    while (j < cmd0.size() && cmd0[j] >= '0' && cmd0[j] <= '9') {
                        ++j;
                    }
                    size_t k = std::stoul(cmd0.substr(i + 1, j - i - 1));
                    cmd += k < news.size() ? news[k] : std::string("4999");
                    i = j - 1;
                } else {
                    cmd.push_back(cmd0[i]);
                }
            }
            res += (res.empty() ? "" : ",") + in.exec(cmd);
        }
        out += "\t" + idump(in, orig, false) + "\t" + idump(in, cl, false) + "\t" + plainDump(orig, gConn) + "\t" + plainDump(cl, gConn) + "\t" + res;
        out += std::string("\te") + (orig->equals(cl) ? "1" : "0") + (cl->equals(orig) ? "1" : "0");
    }
    return out;
}

int main(int argc, char **argv)
{
    const char *file = argc > 1 ? argv[1] : nullptr;
    if (file == nullptr) {
        fprintf(stderr, "usage: %s cases\n", argv[0]);
        return 2;
    }
    return runCases(readLines(file), runCase, 20);
}
