// C17 pipeline driver: Parser -> Analyser (with external variables) -> Generator, both built-in profiles, plus a
// dump of every AnalyserModel accessor the generated code is supposed to reflect.
//
//   c17_driver gen <case file>
//       one case per line:   <path of a .cellml file> TAB <externals> [TAB <profile history>]
//       <profile history> = "-" or "<C|PY>:<i,j,k,...>": the profile object handed to the Generator is NOT a fresh built-in
//       one: it is created with the given tag, customised through the public setters number i, j, k, ... of the table
//       generated from the members of GeneratorProfileImpl (checks/c17.py writes it, macro C17_SETTERS_INC; strings are set
//       to a marker text, flags are flipped), and then reset with setProfile(C) resp. setProfile(PYTHON).  The JSON then
//       carries "hist":{"c_iface":b,"c_impl":b,"py_iface":b,"py_impl":b} = the text equals the one of a fresh profile.
//       <externals> = "-" or a comma separated list of "component.variable" handed to Analyser::addExternalVariable
//       (through AnalyserExternalVariable::create(variable)) before analyseModel.
//       Files written:  <path>.h  <path>.c  (C profile: interfaceCode / implementationCode)
//                       <path>.py           (Python profile: implementationCode)
//       Output, ONE line per case, a JSON object (strings escaped):
//         {"ok":true, "type":..., "ext":bool, "version": versionString(),
//          "stateCount":n, "variableCount":n, "equationCount":n,
//          "voi": null | {"index","type","name","units","component"},
//          "states":[...same record...], "variables":[...],
//          "equations":[{"type","nla":index or -1,"sibs":[positions in equations()],"vars":[[type,index],...],
//                        "ast": prefix text or "_"}],
//          "need":"<24 chars 0/1>"   (AnalyserModel::need*Function() in the order of NEED below),
//          "py_iface_len":n, "c_iface_len":n, "c_impl_len":n, "py_impl_len":n,
//          "parser":n,"validator":n,"analyser_errors":n,"warnings":n}
//         A model the analyser does not accept gives {"ok":false,"type":...,"c_iface_len":..,...,"first":...}:
//         the four code strings are still requested from the Generator (they must be empty).
//       AST prefix text: "TYPE value left right", value "-" when empty else "=" + text (CI: the variable's name),
//       "_" for a null child (same format as harness/c03_driver.cpp).
//   c17_driver guards <case file>
//       one line per case: "nomodel" | "noprofile <path>" | "model <path>" ; prints the lengths of
//       interfaceCode()/implementationCode() for the C and the Python profile and the analyser model type:
//         type=<t> valid=<0|1> c_iface=<n> c_impl=<n> py_iface=<n> py_impl=<n>
//   Crashes / uncaught exceptions / hangs become CRASH(sig) / THROW(type) / TIMEOUT through forkrun.hpp.
#include <cctype>
#include <cstdio>
#include <fstream>
#include <sstream>
#include <string>

#include <libcellml>

#include "forkrun.hpp"

using namespace verif;

static std::string slurp(const std::string &path)
{
    std::ifstream in(path, std::ios::binary);
    if (!in) {
        throw std::runtime_error("cannot read " + path);
    }
    std::ostringstream ss;
    ss << in.rdbuf();
    return ss.str();
}

static void spit(const std::string &path, const std::string &text)
{
    std::ofstream out(path, std::ios::binary);
    out << text;
}

static std::string js(const std::string &s)
{
    std::string o = "\"";
    for (unsigned char c : s) {
        switch (c) {
        case '"':
            o += "\\\"";
            break;
        case '\\':
            o += "\\\\";
            break;
        case '\n':
            o += "\\n";
            break;
        case '\t':
            o += "\\t";
            break;
        case '\r':
            o += "\\r";
            break;
        default:
            if (c < 0x20) {
                char b[8];
                snprintf(b, sizeof b, "\\u%04x", c);
                o += b;
            } else {
                o.push_back(char(c));
            }
        }
    }
    return o + "\"";
}

static std::string componentName(const libcellml::VariablePtr &v)
{
    auto parent = std::dynamic_pointer_cast<libcellml::Component>(v->parent());
    return parent ? parent->name() : std::string("?");
}

static std::string varRecord(const libcellml::AnalyserVariablePtr &av)
{
    if (av == nullptr) {
        return "null";
    }
    auto v = av->variable();
    auto u = v->units();
    return "{\"index\":" + std::to_string(av->index()) + ",\"type\":" + js(libcellml::AnalyserVariable::typeAsString(av->type()))
           + ",\"name\":" + js(v->name()) + ",\"units\":" + js(u ? u->name() : std::string("?")) + ",\"component\":"
           + js(componentName(v)) + "}";
}

static void astText(const libcellml::AnalyserEquationAstPtr &a, std::string &out)
{
    if (a == nullptr) {
        out += "_";
        return;
    }
    // typeAsString gives the enumerator's name in lower case; the model reads the enumerator itself
    for (char ch : libcellml::AnalyserEquationAst::typeAsString(a->type())) {
        out.push_back(char(std::toupper(static_cast<unsigned char>(ch))));
    }
    std::string v = a->value();
    if (a->variable() != nullptr) {
        v = a->variable()->name();
    }
    for (auto &c : v) {
        if (c == ' ' || c == '\t' || c == '\n') {
            c = '~';
        }
    }
    out += v.empty() ? " -" : " =" + v;
    out += " ";
    astText(a->leftChild(), out);
    out += " ";
    astText(a->rightChild(), out);
}

static std::string needFlags(const libcellml::AnalyserModelPtr &am)
{
    // order: eq neq lt leq gt geq and or xor not min max sec csc cot sech csch coth asec acsc acot asech acsch acoth
    bool f[24] = {am->needEqFunction(), am->needNeqFunction(), am->needLtFunction(), am->needLeqFunction(), am->needGtFunction(),
                  am->needGeqFunction(), am->needAndFunction(), am->needOrFunction(), am->needXorFunction(), am->needNotFunction(),
                  am->needMinFunction(), am->needMaxFunction(), am->needSecFunction(), am->needCscFunction(), am->needCotFunction(),
                  am->needSechFunction(), am->needCschFunction(), am->needCothFunction(), am->needAsecFunction(), am->needAcscFunction(),
                  am->needAcotFunction(), am->needAsechFunction(), am->needAcschFunction(), am->needAcothFunction()};
    std::string s;
    for (bool b : f) {
        s.push_back(b ? '1' : '0');
    }
    return s;
}

#ifdef C17_SETTERS_INC
struct ProfileSetter
{
    const char *member;
    void (*apply)(const libcellml::GeneratorProfilePtr &);
};
static const std::string MARK = "@@C17-MARKER@@";
static const ProfileSetter PROFILE_SETTERS[] = {
#    include C17_SETTERS_INC
};
static const size_t PROFILE_SETTER_COUNT = sizeof(PROFILE_SETTERS) / sizeof(PROFILE_SETTERS[0]);
#else
static const size_t PROFILE_SETTER_COUNT = 0;
#endif

// a profile object with a history: created with `init`, customised, then reset to `final` through setProfile()
static libcellml::GeneratorProfilePtr historyProfile(const std::string &history, libcellml::GeneratorProfile::Profile final)
{
    auto colon = history.find(':');
    auto init = (history.substr(0, colon) == "PY") ? libcellml::GeneratorProfile::Profile::PYTHON : libcellml::GeneratorProfile::Profile::C;
    auto profile = libcellml::GeneratorProfile::create(init);
#ifdef C17_SETTERS_INC
    for (const auto &t : splitws(history.substr(colon + 1), ',')) {
        if (t.empty()) {
            continue;
        }
        size_t i = std::stoul(t);
        if (i >= PROFILE_SETTER_COUNT) {
            throw std::runtime_error("no such setter " + t);
        }
        PROFILE_SETTERS[i].apply(profile);
    }
#endif
    profile->setProfile(final);
    return profile;
}

struct Analysed
{
    libcellml::ModelPtr model;
    libcellml::AnalyserPtr analyser;
    size_t np = 0, nv = 0, na = 0;
    std::string first;
};

static Analysed analyse(const std::string &path, const std::string &externals)
{
    Analysed r;
    auto parser = libcellml::Parser::create(true);
    r.model = parser->parseModel(slurp(path));
    r.np = parser->errorCount();
    if (r.np > 0) {
        r.first = parser->error(0)->description();
    }
    if (r.model == nullptr) {
        return r;
    }
    auto validator = libcellml::Validator::create();
    validator->validateModel(r.model);
    r.nv = validator->errorCount();
    if (r.nv > 0 && r.first.empty()) {
        r.first = validator->error(0)->description();
    }
    r.analyser = libcellml::Analyser::create();
    if (externals != "-" && !externals.empty()) {
        for (const auto &e : splitws(externals, ',')) {
            auto dot = e.find('.');
            if (dot == std::string::npos) {
                throw std::runtime_error("bad external " + e);
            }
            auto comp = r.model->component(e.substr(0, dot), true);
            auto var = comp ? comp->variable(e.substr(dot + 1)) : nullptr;
            if (var == nullptr) {
                throw std::runtime_error("no such variable " + e);
            }
            r.analyser->addExternalVariable(libcellml::AnalyserExternalVariable::create(var));
        }
    }
    r.analyser->analyseModel(r.model);
    r.na = r.analyser->errorCount();
    if (r.na > 0 && r.first.empty()) {
        r.first = r.analyser->error(0)->description();
    }
    return r;
}

static std::string genCase(const std::string &line)
{
    auto fields = splitws(line, '\t');
    const std::string path = fields[0];
    const std::string externals = fields.size() > 1 ? fields[1] : "-";
    const std::string history = fields.size() > 2 ? fields[2] : "-";
    auto a = analyse(path, externals);
    libcellml::AnalyserModelPtr am = a.analyser ? a.analyser->model() : nullptr;

    auto gen = libcellml::Generator::create();
    if (am != nullptr) {
        gen->setModel(am);
    }
    std::string cIface = gen->interfaceCode();
    std::string cImpl = gen->implementationCode();
    gen->setProfile(libcellml::GeneratorProfile::create(libcellml::GeneratorProfile::Profile::PYTHON));
    std::string pyIface = gen->interfaceCode();
    std::string pyImpl = gen->implementationCode();
    std::string hist;
    if (history != "-" && !history.empty()) {
        // the same again with profile objects that have a history; THESE texts are the ones that are written and judged
        auto hgen = libcellml::Generator::create();
        if (am != nullptr) {
            hgen->setModel(am);
        }
        hgen->setProfile(historyProfile(history, libcellml::GeneratorProfile::Profile::C));
        auto hCIface = hgen->interfaceCode();
        auto hCImpl = hgen->implementationCode();
        hgen->setProfile(historyProfile(history, libcellml::GeneratorProfile::Profile::PYTHON));
        auto hPyIface = hgen->interfaceCode();
        auto hPyImpl = hgen->implementationCode();
        hist = std::string(",\"hist\":{\"c_iface\":") + (hCIface == cIface ? "true" : "false") + ",\"c_impl\":" + (hCImpl == cImpl ? "true" : "false")
               + ",\"py_iface\":" + (hPyIface == pyIface ? "true" : "false") + ",\"py_impl\":" + (hPyImpl == pyImpl ? "true" : "false") + "}";
        cIface = hCIface;
        cImpl = hCImpl;
        pyIface = hPyIface;
        pyImpl = hPyImpl;
    }

    std::string lens = "\"c_iface_len\":" + std::to_string(cIface.size()) + ",\"c_impl_len\":" + std::to_string(cImpl.size())
                       + ",\"py_iface_len\":" + std::to_string(pyIface.size()) + ",\"py_impl_len\":" + std::to_string(pyImpl.size());
    std::string counts = "\"parser\":" + std::to_string(a.np) + ",\"validator\":" + std::to_string(a.nv) + ",\"analyser_errors\":"
                         + std::to_string(a.na) + ",\"warnings\":" + std::to_string(a.analyser ? a.analyser->warningCount() : 0);
    std::string type = am ? libcellml::AnalyserModel::typeAsString(am->type()) : std::string("-");
    if (am == nullptr || !am->isValid()) {
        return "{\"ok\":false,\"type\":" + js(type) + "," + lens + "," + counts + ",\"first\":" + js(a.first) + "}";
    }
    spit(path + ".h", cIface);
    spit(path + ".c", cImpl);
    spit(path + ".py", pyImpl);

    std::string states;
    for (size_t i = 0; i < am->stateCount(); ++i) {
        states += (i ? "," : "") + varRecord(am->state(i));
    }
    std::string variables;
    for (size_t i = 0; i < am->variableCount(); ++i) {
        variables += (i ? "," : "") + varRecord(am->variable(i));
    }
    auto equations = am->equations();
    std::string eqs;
    for (size_t i = 0; i < equations.size(); ++i) {
        auto eq = equations[i];
        std::string sibs;
        for (const auto &s : eq->nlaSiblings()) {
            size_t pos = 0;
            while (pos < equations.size() && equations[pos] != s) {
                ++pos;
            }
            sibs += (sibs.empty() ? "" : ",") + std::to_string(pos);
        }
        std::string vars;
        for (const auto &v : eq->variables()) {
            vars += (vars.empty() ? "" : ",") + std::string("[") + js(libcellml::AnalyserVariable::typeAsString(v->type())) + ","
                    + std::to_string(v->index()) + "]";
        }
        std::string ast;
        astText(eq->ast(), ast);
        bool isNla = eq->type() == libcellml::AnalyserEquation::Type::NLA;
        eqs += std::string(i ? "," : "") + "{\"type\":" + js(libcellml::AnalyserEquation::typeAsString(eq->type())) + ",\"nla\":"
               + (isNla ? std::to_string(eq->nlaSystemIndex()) : std::string("-1")) + ",\"sibs\":[" + sibs + "],\"vars\":[" + vars
               + "],\"ast\":" + js(ast) + "}";
    }
    return "{\"ok\":true,\"type\":" + js(type) + ",\"ext\":" + (am->hasExternalVariables() ? "true" : "false") + ",\"version\":"
           + js(libcellml::versionString()) + ",\"stateCount\":" + std::to_string(am->stateCount()) + ",\"variableCount\":"
           + std::to_string(am->variableCount()) + ",\"equationCount\":" + std::to_string(am->equationCount()) + ",\"voi\":"
           + varRecord(am->voi()) + ",\"states\":[" + states + "],\"variables\":[" + variables + "],\"equations\":[" + eqs
           + "],\"need\":" + js(needFlags(am)) + "," + lens + "," + counts + hist + "}";
}

static std::string guardCase(const std::string &line)
{
    auto fields = splitws(line, ' ');
    auto gen = libcellml::Generator::create();
    std::string type = "-";
    bool valid = false;
    if (fields[0] != "nomodel") {
        auto a = analyse(fields.at(1), fields.size() > 2 ? fields[2] : "-");
        if (a.analyser == nullptr) {
            return "PARSEFAIL";
        }
        auto am = a.analyser->model();
        type = libcellml::AnalyserModel::typeAsString(am->type());
        valid = am->isValid();
        gen->setModel(am);
    }
    if (fields[0] == "noprofile") {
        gen->setProfile(nullptr);
        auto i = gen->interfaceCode();
        auto c = gen->implementationCode();
        return "type=" + type + " valid=" + (valid ? "1" : "0") + " c_iface=" + std::to_string(i.size()) + " c_impl="
               + std::to_string(c.size()) + " py_iface=" + std::to_string(i.size()) + " py_impl=" + std::to_string(c.size());
    }
    auto ci = gen->interfaceCode();
    auto cc = gen->implementationCode();
    gen->setProfile(libcellml::GeneratorProfile::create(libcellml::GeneratorProfile::Profile::PYTHON));
    auto pi = gen->interfaceCode();
    auto pc = gen->implementationCode();
    return "type=" + type + " valid=" + (valid ? "1" : "0") + " c_iface=" + std::to_string(ci.size()) + " c_impl="
           + std::to_string(cc.size()) + " py_iface=" + std::to_string(pi.size()) + " py_impl=" + std::to_string(pc.size());
}

int main(int argc, char **argv)
{
    if (argc < 3) {
        fprintf(stderr, "usage: %s gen|guards <case file>\n", argv[0]);
        return 2;
    }
    std::string mode = argv[1];
    auto cases = readLines(argv[2]);
    if (mode == "gen") {
        return runCases(cases, genCase, 30);
    }
    if (mode == "guards") {
        return runCases(cases, guardCase, 30);
    }
    if (mode == "setters") {
        printf("%zu\n", PROFILE_SETTER_COUNT);
        return 0;
    }
    fprintf(stderr, "unknown mode %s\n", mode.c_str());
    return 2;
}
