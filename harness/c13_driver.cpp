// C13 driver — identifier assignment is complete, unique and non-destructive.
//
//   c13_driver <case file>        one output line per input line
//
// case line:   <script> | <slot table> | <structure> | <ops>
//   script      script.hpp commands joined by ';' that build the model in slot 0 (script.hpp is wrapped, not edited)
//   slot table  ','-joined descriptors of every id-carrying position, position = index in the table ("id-slot"):
//                 m:<M> e:<M> u:<U> ui:<U>:<index> i:<I> c:<C> cr:<C> v:<V> r:<R> tv:<R> rv:<R>
//                 mp:<V1>:<V2> cn:<V1>:<V2> ma:<C>:<k>          (<X> = script slot numbers; k = 0: id on <math>, 1: on <apply>)
//   structure   for the model driver only
//   ops         ';'-joined annotator / edit commands on one libcellml::Annotator object:
//                 S                       setModel(model)
//                 E <idslot> s<hex>       the public setter of that position (setId, setEncapsulationId, setUnitId,
//                                         setTestValueId, setResetValueId, setEquivalenceMappingId,
//                                         setEquivalenceConnectionId, setMath for ids inside MathML)
//                 A                       assignAllIds()                     -> b0|b1 @ snapshot
//                 T <kind>                assignIds(type)                    -> b0|b1 @ snapshot
//                 I <kind> <idslot> <a> <b> <variant>   assignId(...)        -> s<hex> @ snapshot
//                 C                       clearAllIds()                      -> - @ snapshot
//                 i s<hex> | x s<hex> <n> | l s<hex>     item(id) | item(id, n) | items(id)
//                 u s<hex> | n s<hex> | d | D            isUnique | itemCount | ids() | duplicateIds()
//                 t <class> s<hex>        component(id) / connection(id) / model(id) / importSource(id) / reset(id) /
//                                         units(id) / unitsItem(id) / variable(id) (and their synonyms by variant)
//                 P                       Printer::printModel(model, true): ids of all elements, purity of the model
//   snapshot = the id read back through the public getter of every position of the slot table ("independent
//   traversal": it is driven by the table the generator wrote, not by the library).
// Items are printed as <kind>:<idslot>:<a>:<b> (a, b = id-slots of variable1/2 for connections and mappings).
#include <cstdio>
#include <map>
#include <sstream>
#include <string>
#include <vector>

#include <libcellml>

#include "dump.hpp"
#include "forkrun.hpp"
#include "script.hpp"

using namespace verif;
using namespace libcellml;

struct Desc
{
    std::string k;
    size_t a = 0;
    size_t b = 0;
};

struct Case
{
    Interp in;
    std::vector<Desc> table;
    ModelPtr model;
    AnnotatorPtr annotator;
    std::map<size_t, std::vector<std::string>> mathIds; // component script slot -> ids on <math>, <apply>

    ComponentPtr comp(size_t s) { return in.get<Component>(s); }
    VariablePtr var(size_t s) { return in.get<Variable>(s); }
    UnitsPtr units(size_t s) { return in.get<Units>(s); }
    ResetPtr reset(size_t s) { return in.get<Reset>(s); }
    ImportSourcePtr import(size_t s) { return in.get<ImportSource>(s); }

    static std::string attrOfTag(const std::string &text, const std::string &tag)
    {
        auto p = text.find(tag);
        if (p == std::string::npos) {
            return "";
        }
        auto end = text.find('>', p);
        auto q = text.find(" id=\"", p);
        if (q == std::string::npos || q > end) {
            return "";
        }
        auto r = text.find('"', q + 5);
        return text.substr(q + 5, r - (q + 5));
    }

    void writeMath(size_t c)
    {
        auto &ids = mathIds[c];
        std::string m = "<math xmlns=\"http://www.w3.org/1998/Math/MathML\"";
        if (!ids[0].empty()) {
            m += " id=\"" + ids[0] + "\"";
        }
        m += "><apply";
        if (ids.size() > 1 && !ids[1].empty()) {
            m += " id=\"" + ids[1] + "\"";
        }
        m += "><eq/><cn xmlns:cellml=\"http://www.cellml.org/cellml/2.0#\" cellml:units=\"dimensionless\">1</cn>"
             "<cn xmlns:cellml=\"http://www.cellml.org/cellml/2.0#\" cellml:units=\"dimensionless\">1</cn></apply></math>";
        comp(c)->setMath(m);
    }

    std::string getId(const Desc &d)
    {
        const std::string &k = d.k;
        if (k == "m") return model->id();
        if (k == "e") return model->encapsulationId();
        if (k == "u") return units(d.a)->id();
        if (k == "ui") return units(d.a)->unitId(d.b);
        if (k == "i") return import(d.a)->id();
        if (k == "c") return comp(d.a)->id();
        if (k == "cr") return comp(d.a)->encapsulationId();
        if (k == "v") return var(d.a)->id();
        if (k == "r") return reset(d.a)->id();
        if (k == "tv") return reset(d.a)->testValueId();
        if (k == "rv") return reset(d.a)->resetValueId();
        if (k == "mp") return Variable::equivalenceMappingId(var(d.a), var(d.b));
        if (k == "cn") return Variable::equivalenceConnectionId(var(d.a), var(d.b));
        if (k == "ma") return attrOfTag(comp(d.a)->math(), d.b == 0 ? "<math" : "<apply");
        return "?";
    }

    void setId(const Desc &d, const std::string &id)
    {
        const std::string &k = d.k;
        if (k == "m") model->setId(id);
        else if (k == "e") model->setEncapsulationId(id);
        else if (k == "u") units(d.a)->setId(id);
        else if (k == "ui") units(d.a)->setUnitId(d.b, id);
        else if (k == "i") import(d.a)->setId(id);
        else if (k == "c") comp(d.a)->setId(id);
        else if (k == "cr") comp(d.a)->setEncapsulationId(id);
        else if (k == "v") var(d.a)->setId(id);
        else if (k == "r") reset(d.a)->setId(id);
        else if (k == "tv") reset(d.a)->setTestValueId(id);
        else if (k == "rv") reset(d.a)->setResetValueId(id);
        else if (k == "mp") Variable::setEquivalenceMappingId(var(d.a), var(d.b), id);
        else if (k == "cn") Variable::setEquivalenceConnectionId(var(d.a), var(d.b), id);
        else if (k == "ma") {
            mathIds[d.a][d.b] = id;
            writeMath(d.a);
        }
    }

    std::string snapshot()
    {
        std::string o;
        for (size_t i = 0; i < table.size(); ++i) {
            if (i > 0) {
                o += ",";
            }
            o += strToken(getId(table[i]));
        }
        return o;
    }

    long slotOf(const std::string &k, long a, long b = -1)
    {
        for (size_t i = 0; i < table.size(); ++i) {
            if (table[i].k == k && long(table[i].a) == a && (b < 0 || long(table[i].b) == b)) {
                return long(i);
            }
        }
        return -1;
    }

    std::string entryStr(const AnyCellmlElementPtr &it)
    {
        if (it == nullptr) {
            return "nullitem";
        }
        auto fmt = [](const std::string &k, long s, long a = 0, long b = 0) {
            return k + ":" + std::to_string(s) + ":" + std::to_string(a) + ":" + std::to_string(b);
        };
        switch (it->type()) {
        case CellmlElementType::COMPONENT: return fmt("comp", slotOf("c", in.find(it->component())));
        case CellmlElementType::COMPONENT_REF: return fmt("compref", slotOf("cr", in.find(it->component())));
        case CellmlElementType::MODEL: return fmt("model", slotOf("m", in.find(it->model())));
        case CellmlElementType::ENCAPSULATION: return fmt("enc", slotOf("e", in.find(it->model())));
        case CellmlElementType::IMPORT: return fmt("import", slotOf("i", in.find(it->importSource())));
        case CellmlElementType::UNITS: return fmt("units", slotOf("u", in.find(it->units())));
        case CellmlElementType::UNIT: {
            auto ui = it->unitsItem();
            if (ui == nullptr) {
                return "unit:null";
            }
            return fmt("unit", slotOf("ui", in.find(ui->units()), long(ui->index())));
        }
        case CellmlElementType::VARIABLE: return fmt("var", slotOf("v", in.find(it->variable())));
        case CellmlElementType::RESET: return fmt("reset", slotOf("r", in.find(it->reset())));
        case CellmlElementType::TEST_VALUE: return fmt("tv", slotOf("tv", in.find(it->reset())));
        case CellmlElementType::RESET_VALUE: return fmt("rv", slotOf("rv", in.find(it->reset())));
        case CellmlElementType::MAP_VARIABLES:
        case CellmlElementType::CONNECTION: {
            auto p = it->variablePair();
            if (p == nullptr || p->variable1() == nullptr || p->variable2() == nullptr) {
                return "pair:null";
            }
            long s1 = in.find(p->variable1());
            long s2 = in.find(p->variable2());
            long a = slotOf("v", s1);
            long b = slotOf("v", s2);
            long s = -1;
            bool isMap = it->type() == CellmlElementType::MAP_VARIABLES;
            for (size_t i = 0; i < table.size() && s < 0; ++i) {
                if (isMap && table[i].k == "mp"
                    && ((long(table[i].a) == s1 && long(table[i].b) == s2) || (long(table[i].a) == s2 && long(table[i].b) == s1))) {
                    s = long(i);
                }
                if (!isMap && table[i].k == "cn") {
                    auto p1 = var(table[i].a)->parent();
                    auto p2 = var(table[i].b)->parent();
                    auto q1 = p->variable1()->parent();
                    auto q2 = p->variable2()->parent();
                    if ((p1 == q1 && p2 == q2) || (p1 == q2 && p2 == q1)) {
                        s = long(i);
                    }
                }
            }
            return fmt(isMap ? "map" : "conn", s, a, b);
        }
        default:
            return "undef";
        }
    }

    static std::string strs(const std::vector<std::string> &v)
    {
        std::string o = "[";
        for (size_t i = 0; i < v.size(); ++i) {
            o += (i > 0 ? "," : "") + strToken(v[i]);
        }
        return o + "]";
    }

    template<class T>
    std::string objStr(const std::shared_ptr<T> &p)
    {
        if (p == nullptr) {
            return "null";
        }
        return "o:" + std::to_string(in.find(p));
    }

    CellmlElementType typeOf(const std::string &k)
    {
        static const std::map<std::string, CellmlElementType> m = {
            {"model", CellmlElementType::MODEL}, {"enc", CellmlElementType::ENCAPSULATION}, {"import", CellmlElementType::IMPORT},
            {"units", CellmlElementType::UNITS}, {"unit", CellmlElementType::UNIT}, {"comp", CellmlElementType::COMPONENT},
            {"compref", CellmlElementType::COMPONENT_REF}, {"var", CellmlElementType::VARIABLE}, {"reset", CellmlElementType::RESET},
            {"tv", CellmlElementType::TEST_VALUE}, {"rv", CellmlElementType::RESET_VALUE}, {"conn", CellmlElementType::CONNECTION},
            {"map", CellmlElementType::MAP_VARIABLES}, {"math", CellmlElementType::MATH}, {"undefined", CellmlElementType::UNDEFINED}};
        return m.at(k);
    }

    std::string assignItem(const std::string &k, size_t slot, size_t a, size_t b, int variant)
    {
        const Desc &d = table.at(slot);
        if (k == "model") return annotator->assignId(model, CellmlElementType::MODEL);
        if (k == "enc") return annotator->assignId(model, CellmlElementType::ENCAPSULATION);
        if (k == "import") return annotator->assignId(import(d.a));
        if (k == "units") return annotator->assignId(units(d.a));
        if (k == "unit") {
            return variant == 0 ? annotator->assignId(units(d.a), d.b) : annotator->assignId(UnitsItem::create(units(d.a), d.b));
        }
        if (k == "comp") return variant == 0 ? annotator->assignId(comp(d.a)) : annotator->assignId(comp(d.a), CellmlElementType::COMPONENT);
        if (k == "compref") return annotator->assignId(comp(d.a), CellmlElementType::COMPONENT_REF);
        if (k == "var") return annotator->assignId(var(d.a));
        if (k == "reset") return variant == 0 ? annotator->assignId(reset(d.a)) : annotator->assignId(reset(d.a), CellmlElementType::RESET);
        if (k == "tv") return annotator->assignId(reset(d.a), CellmlElementType::TEST_VALUE);
        if (k == "rv") return annotator->assignId(reset(d.a), CellmlElementType::RESET_VALUE);
        if (k == "conn" || k == "map") {
            auto v1 = var(table.at(a).a);
            auto v2 = var(table.at(b).a);
            auto t = k == "conn" ? CellmlElementType::CONNECTION : CellmlElementType::MAP_VARIABLES;
            return variant == 0 ? annotator->assignId(v1, v2, t) : annotator->assignId(VariablePair::create(v1, v2), t);
        }
        return "?";
    }

    std::string typed(const std::string &cls, const std::string &id, int variant)
    {
        if (cls == "comp") return objStr(variant == 0 ? annotator->component(id) : annotator->componentEncapsulation(id));
        if (cls == "model") return objStr(variant == 0 ? annotator->model(id) : annotator->encapsulation(id));
        if (cls == "import") return objStr(annotator->importSource(id));
        if (cls == "reset") {
            return objStr(variant == 0 ? annotator->reset(id) : (variant == 1 ? annotator->testValue(id) : annotator->resetValue(id)));
        }
        if (cls == "units") return objStr(annotator->units(id));
        if (cls == "var") return objStr(annotator->variable(id));
        if (cls == "unit") {
            auto ui = annotator->unitsItem(id);
            if (ui == nullptr) {
                return "null";
            }
            return "o:" + std::to_string(in.find(ui->units())) + "." + std::to_string(ui->index());
        }
        if (cls == "pair") {
            auto p = variant == 0 ? annotator->connection(id) : annotator->mapVariables(id);
            if (p == nullptr) {
                return "null";
            }
            return "o:" + std::to_string(in.find(p->variable1())) + "-" + std::to_string(in.find(p->variable2()));
        }
        return "?";
    }

    // ids of all elements of the printed document that are outside MathML: sorted s-tokens; elements without id
    std::string printOp()
    {
        std::string before = dumpModel(model, false);
        auto printer = Printer::create();
        std::string text = printer->printModel(model, true);
        std::string after = dumpModel(model, false);
        std::vector<std::string> ids;
        size_t missing = 0;
        size_t pos = 0;
        int mathDepth = 0;
        while ((pos = text.find('<', pos)) != std::string::npos) {
            size_t end = text.find('>', pos);
            if (end == std::string::npos) {
                break;
            }
            std::string tag = text.substr(pos, end - pos + 1);
            pos = end + 1;
            if (tag[1] == '?' || tag[1] == '!') {
                continue;
            }
            bool closing = tag[1] == '/';
            std::string name;
            for (size_t i = closing ? 2 : 1; i < tag.size() && tag[i] != ' ' && tag[i] != '>' && tag[i] != '/'; ++i) {
                name.push_back(tag[i]);
            }
            bool selfClosing = tag.size() >= 2 && tag[tag.size() - 2] == '/';
            if (name == "math") {
                if (closing) {
                    --mathDepth;
                } else if (!selfClosing) {
                    ++mathDepth;
                }
                continue;
            }
            if (mathDepth > 0 || closing) {
                continue;
            }
            auto q = tag.find(" id=\"");
            if (q == std::string::npos) {
                ++missing;
            } else {
                auto r = tag.find('"', q + 5);
                ids.push_back(strToken(tag.substr(q + 5, r - (q + 5))));
            }
        }
        std::sort(ids.begin(), ids.end());
        std::string o = "p";
        for (size_t i = 0; i < ids.size(); ++i) {
            o += (i > 0 ? "," : "") + ids[i];
        }
        if (missing > 0) {
            o += "!missing=" + std::to_string(missing);
        }
        if (before != after) {
            o += "!impure";
        }
        if (text.empty()) {
            o += "!empty";
        }
        return o;
    }
};

static std::string runCase(const std::string &line)
{
    auto secs = splitws(line, '|');
    if (secs.size() != 4) {
        return "BAD-CASE";
    }
    Case cs;
    for (const auto &cmd : splitws(secs[0], ';')) {
        if (cmd.find_first_not_of(" \t\r") == std::string::npos) {
            continue;
        }
        std::string r = cs.in.exec(cmd);
        if (r.rfind("ERR(", 0) == 0 || r.rfind("THROW(", 0) == 0) {
            return "SCRIPT-" + r + " at " + cmd;
        }
    }
    cs.model = cs.in.model(0);
    if (cs.model == nullptr) {
        return "SCRIPT-NO-MODEL";
    }
    for (const auto &t : splitws(secs[1], ',')) {
        std::string tt;
        for (char c : t) {
            if (c != ' ') {
                tt.push_back(c);
            }
        }
        if (tt.empty()) {
            continue;
        }
        auto f = splitws(tt, ':');
        Desc d;
        d.k = f[0];
        d.a = f.size() > 1 ? std::stoul(f[1]) : 0;
        d.b = f.size() > 2 ? std::stoul(f[2]) : 0;
        cs.table.push_back(d);
        if (d.k == "ma") {
            auto &v = cs.mathIds[d.a];
            if (v.size() < d.b + 1) {
                v.resize(d.b + 1);
            }
        }
    }
    for (auto &kv : cs.mathIds) {
        cs.writeMath(kv.first);
    }
    cs.annotator = Annotator::create();
    std::string out;
    bool first = true;
    for (const auto &cmd : splitws(secs[3], ';')) {
        std::vector<std::string> w;
        for (const auto &x : splitws(cmd, ' ')) {
            if (!x.empty()) {
                w.push_back(x);
            }
        }
        if (w.empty()) {
            continue;
        }
        std::string r;
        std::string s;
        const std::string &c = w[0];
        if (w.size() > 1 && w.back().size() > 0 && w.back()[0] == 's') {
            parseStrToken(w.back(), s);
        }
        auto strArg = [&](size_t i) {
            std::string v;
            parseStrToken(w.at(i), v);
            return v;
        };
        if (c == "S") {
            cs.annotator->setModel(cs.model);
            r = "-";
        } else if (c == "E") {
            cs.setId(cs.table.at(std::stoul(w.at(1))), strArg(2));
            r = "-";
        } else if (c == "A") {
            bool ok = cs.annotator->assignAllIds();
            r = std::string(ok ? "b1" : "b0") + "@" + cs.snapshot();
        } else if (c == "T") {
            bool ok = cs.annotator->assignIds(cs.typeOf(w.at(1)));
            r = std::string(ok ? "b1" : "b0") + "@" + cs.snapshot();
        } else if (c == "I") {
            std::string id = cs.assignItem(w.at(1), std::stoul(w.at(2)), std::stoul(w.at(3)), std::stoul(w.at(4)), w.size() > 5 ? std::stoi(w[5]) : 0);
            r = strToken(id) + "@" + cs.snapshot();
        } else if (c == "C") {
            cs.annotator->clearAllIds();
            r = "-@" + cs.snapshot();
        } else if (c == "i") {
            r = cs.entryStr(cs.annotator->item(strArg(1)));
        } else if (c == "x") {
            r = cs.entryStr(cs.annotator->item(strArg(1), std::stoul(w.at(2))));
        } else if (c == "l") {
            auto items = cs.annotator->items(strArg(1));
            r = "[";
            for (size_t i = 0; i < items.size(); ++i) {
                r += (i > 0 ? "," : "") + cs.entryStr(items[i]);
            }
            r += "]";
        } else if (c == "u") {
            r = cs.annotator->isUnique(strArg(1)) ? "b1" : "b0";
        } else if (c == "n") {
            r = std::to_string(cs.annotator->itemCount(strArg(1)));
        } else if (c == "d") {
            r = Case::strs(cs.annotator->ids());
        } else if (c == "D") {
            r = Case::strs(cs.annotator->duplicateIds());
        } else if (c == "t") {
            r = cs.typed(w.at(1), strArg(2), w.size() > 3 ? std::stoi(w[3]) : 0);
        } else if (c == "P") {
            r = cs.printOp();
        } else {
            r = "BAD-OP";
        }
        out += (first ? "" : ";") + r;
        first = false;
    }
    out += " # final=" + cs.snapshot();
    return out;
}

int main(int argc, char **argv)
{
    if (argc < 2) {
        fprintf(stderr, "usage: %s cases\n", argv[0]);
        return 2;
    }
    return runCases(readLines(argv[1]), runCase, 20);
}
