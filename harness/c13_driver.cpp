// C13 driver — identifier assignment is complete, unique and non-destructive.
//
//   c13_driver <case file>        one output line per input line
//
// case line:   <script> | <slot tables> | <structures> | <ops>
//   script      script.hpp commands joined by ';' that build the models (script.hpp is wrapped, not edited)
//   slot tables one table per model, '/'-separated; a table is `clone:<j>` (the model is models[j]->clone(), made before
//               any id is set; its table is derived from table j by position) or the
//               ','-joined descriptors of every id-carrying position, position = index in the table ("id-slot"):
//                 m:<M> e:<M> u:<U> ui:<U>:<index> i:<I> c:<C> cr:<C> v:<V> r:<R> tv:<R> rv:<R>
//                 mp:<V1>:<V2> cn:<V1>:<V2> ma:<C>:<k>          (<X> = script slot numbers; k = 0: id on <math>, 1: on <apply>)
//                 ov:<V>   a variable OUTSIDE the model (of another model, of a removed component, without parent) that is the
//                          other end of an equivalence: its own id is not an id of the model, the position only names the object
//   structure   for the model driver only
//   ops         ';'-joined annotator / edit commands on one libcellml::Annotator object:
//                 S [k]                   setModel(model k)            (several models are handed to ONE annotator in turn)
//                 X                       the last reference to the model the annotator holds is dropped
//                 R <k> <alt> <script command>   a structural edit of model k through script.hpp (removecomponent_p, takecomponent_i,
//                                         removevariable_p, ...); <alt> tells the model driver which structure the model has now
//                 E <idslot> s<hex> [k]   on model k: the public setter of that position (setId, setEncapsulationId, setUnitId,
//                                         setTestValueId, setResetValueId, setEquivalenceMappingId,
//                                         setEquivalenceConnectionId, setMath for ids inside MathML)
//                 A                       assignAllIds()                     -> b0|b1 @ snapshot
//                 T <kind>                assignIds(type)                    -> b0|b1 @ snapshot
//                 I <kind> <idslot> <a> <b> <variant>   assignId(...)        -> s<hex> @ snapshot
//                 C                       clearAllIds()                      -> - @ snapshot
//                 i s<hex> | x s<hex> <n> | l s<hex>     item(id) | item(id, n) | items(id)
//                 u s<hex> | n s<hex> | d | D            isUnique | itemCount | ids() | duplicateIds()
//                 t <class> s<hex>        component(id) / connection(id) / model(id) / importSource(id) / reset(id) /
//                                         units(id) / unitsItem(id) / variable(id) (and their synonyms by variant)
//                 P                       printModel(model, true) on the ONE Printer object of the case: ids of all elements, purity
//   snapshot = the id read back through the public getter of every position of the slot table ("independent
//   traversal": it is driven by the table the generator wrote, not by the library).
// Items are printed as <model>.<kind>:<idslot>:<a>:<b>: the model whose OBJECT was returned (pointer identity against the
// objects of every model of the case), its position, and a, b = id-slots of variable1/2 for connections and mappings.
#include <cstdio>
#include <map>
#include <sstream>
#include <string>
#include <vector>

#include <libcellml>

#include "dump.hpp"
#include "forkrun.hpp"
#include "script.hpp"

using namespace verif;
using namespace libcellml;

struct Desc
{
    std::string k;
    size_t a = 0;
    size_t b = 0;
};

struct Case
{
    Interp in;
    std::vector<std::vector<Desc>> tables; // one per model
    std::vector<ModelPtr> models;          // null once destroyed
    std::vector<Desc> table;               // table of the model the annotator holds (tables[cur])
    ModelPtr model;                        // models[cur]
    size_t cur = 0;
    AnnotatorPtr annotator;
    PrinterPtr printer = Printer::create(); // one printer for the whole history
    std::map<size_t, std::vector<std::string>> mathIds; // component script slot -> ids on <math>, <apply>

    ComponentPtr comp(size_t s) { return in.get<Component>(s); }
    VariablePtr var(size_t s) { return in.get<Variable>(s); }
    UnitsPtr units(size_t s) { return in.get<Units>(s); }
    ResetPtr reset(size_t s) { return in.get<Reset>(s); }
    ImportSourcePtr import(size_t s) { return in.get<ImportSource>(s); }

    static std::string attrOfTag(const std::string &text, const std::string &tag)
    {
        auto p = text.find(tag);
        if (p == std::string::npos) {
            return "";
        }
        auto end = text.find('>', p);
        auto q = text.find(" id=\"", p);
        if (q == std::string::npos || q > end) {
            return "";
        }
        auto r = text.find('"', q + 5);
        return text.substr(q + 5, r - (q + 5));
    }

    void writeMath(size_t c)
    {
        auto &ids = mathIds[c];
        std::string m = "<math xmlns=\"http://www.w3.org/1998/Math/MathML\"";
        if (!ids[0].empty()) {
            m += " id=\"" + ids[0] + "\"";
        }
        m += "><apply";
        if (ids.size() > 1 && !ids[1].empty()) {
            m += " id=\"" + ids[1] + "\"";
        }
        m += "><eq/><cn xmlns:cellml=\"http://www.cellml.org/cellml/2.0#\" cellml:units=\"dimensionless\">1</cn>"
             "<cn xmlns:cellml=\"http://www.cellml.org/cellml/2.0#\" cellml:units=\"dimensionless\">1</cn></apply></math>";
        comp(c)->setMath(m);
    }

    void select(size_t k)
    {
        cur = k;
        table = tables.at(k);
        model = models.at(k);
    }

    // ---- clone support: the object of `clone` at the same position as `e` in `orig`
    static std::vector<size_t> pathOf(const ComponentPtr &c)
    {
        std::vector<size_t> path;
        ComponentPtr x = c;
        while (x != nullptr) {
            auto parent = std::dynamic_pointer_cast<ComponentEntity>(x->parent());
            if (parent == nullptr) {
                break;
            }
            size_t i = 0;
            for (; i < parent->componentCount(); ++i) {
                if (parent->component(i) == x) {
                    break;
                }
            }
            path.insert(path.begin(), i);
            x = std::dynamic_pointer_cast<Component>(parent);
        }
        return path;
    }
    static ComponentPtr compAt(const ModelPtr &m, const std::vector<size_t> &path)
    {
        ComponentEntityPtr e = m;
        ComponentPtr c;
        for (size_t i : path) {
            c = e->component(i);
            e = c;
        }
        return c;
    }
    static ImportSourcePtr importOf(const ModelPtr &orig, const ModelPtr &clone, const ImportSourcePtr &is)
    {
        for (size_t i = 0; i < orig->unitsCount(); ++i) {
            if (orig->units(i)->importSource() == is) {
                return clone->units(i)->importSource();
            }
        }
        std::vector<ComponentPtr> todo;
        for (size_t i = 0; i < orig->componentCount(); ++i) {
            todo.push_back(orig->component(i));
        }
        while (!todo.empty()) {
            auto c = todo.back();
            todo.pop_back();
            if (c->importSource() == is) {
                return compAt(clone, pathOf(c))->importSource();
            }
            for (size_t i = 0; i < c->componentCount(); ++i) {
                todo.push_back(c->component(i));
            }
        }
        return nullptr;
    }
    EntityPtr mapped(const ModelPtr &orig, const ModelPtr &clone, const EntityPtr &e)
    {
        if (auto m = std::dynamic_pointer_cast<Model>(e)) {
            return clone;
        }
        if (auto u = std::dynamic_pointer_cast<Units>(e)) {
            for (size_t i = 0; i < orig->unitsCount(); ++i) {
                if (orig->units(i) == u) {
                    return clone->units(i);
                }
            }
        }
        if (auto c = std::dynamic_pointer_cast<Component>(e)) {
            return compAt(clone, pathOf(c));
        }
        if (auto v = std::dynamic_pointer_cast<Variable>(e)) {
            auto c = std::dynamic_pointer_cast<Component>(v->parent());
            for (size_t i = 0; i < c->variableCount(); ++i) {
                if (c->variable(i) == v) {
                    return compAt(clone, pathOf(c))->variable(i);
                }
            }
        }
        if (auto r = std::dynamic_pointer_cast<Reset>(e)) {
            auto c = std::dynamic_pointer_cast<Component>(r->parent());
            for (size_t i = 0; i < c->resetCount(); ++i) {
                if (c->reset(i) == r) {
                    return compAt(clone, pathOf(c))->reset(i);
                }
            }
        }
        if (auto is = std::dynamic_pointer_cast<ImportSource>(e)) {
            return importOf(orig, clone, is);
        }
        return nullptr;
    }
    std::vector<Desc> cloneTable(size_t j, const ModelPtr &clone)
    {
        std::vector<Desc> out;
        auto orig = models.at(j);
        auto slotOfMapped = [&](size_t s) {
            auto e = mapped(orig, clone, in.slots.at(s).p);
            return size_t(in.adopt(e));
        };
        for (const auto &d : tables.at(j)) {
            Desc n = d;
            n.a = slotOfMapped(d.a);
            if (d.k == "mp" || d.k == "cn") {
                n.b = slotOfMapped(d.b);
            }
            out.push_back(n);
        }
        return out;
    }

    std::string getId(const Desc &d)
    {
        const std::string &k = d.k;
        if (k == "m") return in.model(d.a)->id();
        if (k == "e") return in.model(d.a)->encapsulationId();
        if (k == "u") return units(d.a)->id();
        if (k == "ui") return units(d.a)->unitId(d.b);
        if (k == "i") return import(d.a)->id();
        if (k == "c") return comp(d.a)->id();
        if (k == "cr") return comp(d.a)->encapsulationId();
        if (k == "v" || k == "ov") return var(d.a)->id();
        if (k == "r") return reset(d.a)->id();
        if (k == "tv") return reset(d.a)->testValueId();
        if (k == "rv") return reset(d.a)->resetValueId();
        if (k == "mp") return Variable::equivalenceMappingId(var(d.a), var(d.b));
        if (k == "cn") return Variable::equivalenceConnectionId(var(d.a), var(d.b));
        if (k == "ma") return attrOfTag(comp(d.a)->math(), d.b == 0 ? "<math" : "<apply");
        return "?";
    }

    void setId(const Desc &d, const std::string &id)
    {
        const std::string &k = d.k;
        if (k == "m") in.model(d.a)->setId(id);
        else if (k == "e") in.model(d.a)->setEncapsulationId(id);
        else if (k == "u") units(d.a)->setId(id);
        else if (k == "ui") units(d.a)->setUnitId(d.b, id);
        else if (k == "i") import(d.a)->setId(id);
        else if (k == "c") comp(d.a)->setId(id);
        else if (k == "cr") comp(d.a)->setEncapsulationId(id);
        else if (k == "v" || k == "ov") var(d.a)->setId(id);
        else if (k == "r") reset(d.a)->setId(id);
        else if (k == "tv") reset(d.a)->setTestValueId(id);
        else if (k == "rv") reset(d.a)->setResetValueId(id);
        else if (k == "mp") Variable::setEquivalenceMappingId(var(d.a), var(d.b), id);
        else if (k == "cn") Variable::setEquivalenceConnectionId(var(d.a), var(d.b), id);
        else if (k == "ma") {
            mathIds[d.a][d.b] = id;
            writeMath(d.a);
        }
    }

    std::string snapshot()
    {
        if (model == nullptr) {
            return "-";
        }
        std::string o;
        for (size_t i = 0; i < table.size(); ++i) {
            if (i > 0) {
                o += ",";
            }
            o += strToken(getId(table[i]));
        }
        return o;
    }

    long slotOf(const std::string &k, long a, long b = -1)
    {
        for (size_t i = 0; i < table.size(); ++i) {
            if (table[i].k == k && long(table[i].a) == a && (b < 0 || long(table[i].b) == b)) {
                return long(i);
            }
        }
        return -1;
    }

    // the item, named by the model whose object it is: every table is searched (pointer identity via script slots)
    std::string entryStr(const AnyCellmlElementPtr &it)
    {
        std::vector<Desc> saved = table;
        std::string r = "?." + entryStrIn(it);
        for (size_t k = 0; k < tables.size(); ++k) {
            table = tables[k];
            std::string e = entryStrIn(it);
            if (e == "undef" || e == "nullitem") {
                r = e;
                break;
            }
            if (e.find(":-1:") == std::string::npos && e.find("null") == std::string::npos) {
                r = std::to_string(k) + "." + e;
                break;
            }
        }
        table = saved;
        return r;
    }

    std::string entryStrIn(const AnyCellmlElementPtr &it)
    {
        if (it == nullptr) {
            return "nullitem";
        }
        auto fmt = [](const std::string &k, long s, long a = 0, long b = 0) {
            return k + ":" + std::to_string(s) + ":" + std::to_string(a) + ":" + std::to_string(b);
        };
        switch (it->type()) {
        case CellmlElementType::COMPONENT: return fmt("comp", slotOf("c", in.find(it->component())));
        case CellmlElementType::COMPONENT_REF: return fmt("compref", slotOf("cr", in.find(it->component())));
        case CellmlElementType::MODEL: return fmt("model", slotOf("m", in.find(it->model())));
        case CellmlElementType::ENCAPSULATION: return fmt("enc", slotOf("e", in.find(it->model())));
        case CellmlElementType::IMPORT: return fmt("import", slotOf("i", in.find(it->importSource())));
        case CellmlElementType::UNITS: return fmt("units", slotOf("u", in.find(it->units())));
        case CellmlElementType::UNIT: {
            auto ui = it->unitsItem();
            if (ui == nullptr) {
                return "unit:null";
            }
            return fmt("unit", slotOf("ui", in.find(ui->units()), long(ui->index())));
        }
        case CellmlElementType::VARIABLE: return fmt("var", slotOf("v", in.find(it->variable())));
        case CellmlElementType::RESET: return fmt("reset", slotOf("r", in.find(it->reset())));
        case CellmlElementType::TEST_VALUE: return fmt("tv", slotOf("tv", in.find(it->reset())));
        case CellmlElementType::RESET_VALUE: return fmt("rv", slotOf("rv", in.find(it->reset())));
        case CellmlElementType::MAP_VARIABLES:
        case CellmlElementType::CONNECTION: {
            auto p = it->variablePair();
            if (p == nullptr || p->variable1() == nullptr || p->variable2() == nullptr) {
                return "pair:null";
            }
            long s1 = in.find(p->variable1());
            long s2 = in.find(p->variable2());
            long a = slotOf("v", s1) >= 0 ? slotOf("v", s1) : slotOf("ov", s1);
            long b = slotOf("v", s2) >= 0 ? slotOf("v", s2) : slotOf("ov", s2);
            long s = -1;
            bool isMap = it->type() == CellmlElementType::MAP_VARIABLES;
            for (size_t i = 0; i < table.size() && s < 0; ++i) {
                if (isMap && table[i].k == "mp"
                    && ((long(table[i].a) == s1 && long(table[i].b) == s2) || (long(table[i].a) == s2 && long(table[i].b) == s1))) {
                    s = long(i);
                }
                if (!isMap && table[i].k == "cn") {
                    auto p1 = var(table[i].a)->parent();
                    auto p2 = var(table[i].b)->parent();
                    auto q1 = p->variable1()->parent();
                    auto q2 = p->variable2()->parent();
                    if ((p1 == q1 && p2 == q2) || (p1 == q2 && p2 == q1)) {
                        s = long(i);
                    }
                }
            }
            return fmt(isMap ? "map" : "conn", s, a, b);
        }
        default:
            return "undef";
        }
    }

    static std::string strs(const std::vector<std::string> &v)
    {
        std::string o = "[";
        for (size_t i = 0; i < v.size(); ++i) {
            o += (i > 0 ? "," : "") + strToken(v[i]);
        }
        return o + "]";
    }

    // the object, named by the model it belongs to and the position of its primary descriptor
    std::string objKey(const std::string &k, long a, long b = -1)
    {
        if (a < 0) {
            return "?.o:-1";
        }
        for (size_t m = 0; m < tables.size(); ++m) {
            for (size_t i = 0; i < tables[m].size(); ++i) {
                const Desc &d = tables[m][i];
                if (d.k == k && long(d.a) == a && (b < 0 || long(d.b) == b)) {
                    return std::to_string(m) + ".o:" + std::to_string(i);
                }
            }
        }
        return "?.o:-1";
    }
    template<class T>
    std::string objStr(const std::string &k, const std::shared_ptr<T> &p)
    {
        if (p == nullptr) {
            return "null";
        }
        return objKey(k, in.find(p));
    }

    CellmlElementType typeOf(const std::string &k)
    {
        static const std::map<std::string, CellmlElementType> m = {
            {"model", CellmlElementType::MODEL}, {"enc", CellmlElementType::ENCAPSULATION}, {"import", CellmlElementType::IMPORT},
            {"units", CellmlElementType::UNITS}, {"unit", CellmlElementType::UNIT}, {"comp", CellmlElementType::COMPONENT},
            {"compref", CellmlElementType::COMPONENT_REF}, {"var", CellmlElementType::VARIABLE}, {"reset", CellmlElementType::RESET},
            {"tv", CellmlElementType::TEST_VALUE}, {"rv", CellmlElementType::RESET_VALUE}, {"conn", CellmlElementType::CONNECTION},
            {"map", CellmlElementType::MAP_VARIABLES}, {"math", CellmlElementType::MATH}, {"undefined", CellmlElementType::UNDEFINED}};
        return m.at(k);
    }

    std::string assignItem(const std::string &k, size_t slot, size_t a, size_t b, int variant)
    {
        const Desc &d = table.at(slot);
        if (k == "model") return annotator->assignId(model, CellmlElementType::MODEL);
        if (k == "enc") return annotator->assignId(model, CellmlElementType::ENCAPSULATION);
        if (k == "import") return annotator->assignId(import(d.a));
        if (k == "units") return annotator->assignId(units(d.a));
        if (k == "unit") {
            return variant == 0 ? annotator->assignId(units(d.a), d.b) : annotator->assignId(UnitsItem::create(units(d.a), d.b));
        }
        if (k == "comp") return variant == 0 ? annotator->assignId(comp(d.a)) : annotator->assignId(comp(d.a), CellmlElementType::COMPONENT);
        if (k == "compref") return annotator->assignId(comp(d.a), CellmlElementType::COMPONENT_REF);
        if (k == "var") return annotator->assignId(var(d.a));
        if (k == "reset") return variant == 0 ? annotator->assignId(reset(d.a)) : annotator->assignId(reset(d.a), CellmlElementType::RESET);
        if (k == "tv") return annotator->assignId(reset(d.a), CellmlElementType::TEST_VALUE);
        if (k == "rv") return annotator->assignId(reset(d.a), CellmlElementType::RESET_VALUE);
        if (k == "conn" || k == "map") {
            auto v1 = var(table.at(a).a);
            auto v2 = var(table.at(b).a);
            auto t = k == "conn" ? CellmlElementType::CONNECTION : CellmlElementType::MAP_VARIABLES;
            return variant == 0 ? annotator->assignId(v1, v2, t) : annotator->assignId(VariablePair::create(v1, v2), t);
        }
        return "?";
    }

    std::string typed(const std::string &cls, const std::string &id, int variant)
    {
        if (cls == "comp") return objStr("c", variant == 0 ? annotator->component(id) : annotator->componentEncapsulation(id));
        if (cls == "model") return objStr("m", variant == 0 ? annotator->model(id) : annotator->encapsulation(id));
        if (cls == "import") return objStr("i", annotator->importSource(id));
        if (cls == "reset") {
            return objStr("r", variant == 0 ? annotator->reset(id) : (variant == 1 ? annotator->testValue(id) : annotator->resetValue(id)));
        }
        if (cls == "units") return objStr("u", annotator->units(id));
        if (cls == "var") return objStr("v", annotator->variable(id));
        if (cls == "unit") {
            auto ui = annotator->unitsItem(id);
            if (ui == nullptr) {
                return "null";
            }
            return objKey("ui", in.find(ui->units()), long(ui->index()));
        }
        if (cls == "pair") {
            auto p = variant == 0 ? annotator->connection(id) : annotator->mapVariables(id);
            if (p == nullptr) {
                return "null";
            }
            std::string k1 = objKey("v", in.find(p->variable1()));
            std::string k2 = objKey("v", in.find(p->variable2()));
            if (k1[0] == '?') {
                k1 = objKey("ov", in.find(p->variable1()));
            }
            if (k2[0] == '?') {
                k2 = objKey("ov", in.find(p->variable2()));
            }
            return k1 + "-" + k2.substr(k2.find(":") + 1);
        }
        return "?";
    }

    // ids of all elements of the printed document that are outside MathML: sorted s-tokens; elements without id
    std::string printOp()
    {
        std::string before = dumpModel(model, false);
        std::string text = printer->printModel(model, true);
        std::string after = dumpModel(model, false);
        std::vector<std::string> ids;
        size_t missing = 0;
        size_t pos = 0;
        int mathDepth = 0;
        while ((pos = text.find('<', pos)) != std::string::npos) {
            size_t end = text.find('>', pos);
            if (end == std::string::npos) {
                break;
            }
            std::string tag = text.substr(pos, end - pos + 1);
            pos = end + 1;
            if (tag[1] == '?' || tag[1] == '!') {
                continue;
            }
            bool closing = tag[1] == '/';
            std::string name;
            for (size_t i = closing ? 2 : 1; i < tag.size() && tag[i] != ' ' && tag[i] != '>' && tag[i] != '/'; ++i) {
                name.push_back(tag[i]);
            }
            bool selfClosing = tag.size() >= 2 && tag[tag.size() - 2] == '/';
            if (name == "math") {
                if (closing) {
                    --mathDepth;
                } else if (!selfClosing) {
                    ++mathDepth;
                }
                continue;
            }
            if (mathDepth > 0 || closing) {
                continue;
            }
            auto q = tag.find(" id=\"");
            if (q == std::string::npos) {
                ++missing;
            } else {
                auto r = tag.find('"', q + 5);
                ids.push_back(strToken(tag.substr(q + 5, r - (q + 5))));
            }
        }
        std::sort(ids.begin(), ids.end());
        std::string o = "p";
        for (size_t i = 0; i < ids.size(); ++i) {
            o += (i > 0 ? "," : "") + ids[i];
        }
        if (missing > 0) {
            o += "!missing=" + std::to_string(missing);
        }
        if (before != after) {
            o += "!impure";
        }
        if (text.empty()) {
            o += "!empty";
        }
        return o;
    }
};

static std::string runCase(const std::string &line)
{
    auto secs = splitws(line, '|');
    if (secs.size() != 4) {
        return "BAD-CASE";
    }
    Case cs;
    for (const auto &cmd : splitws(secs[0], ';')) {
        if (cmd.find_first_not_of(" \t\r") == std::string::npos) {
            continue;
        }
        std::string r = cs.in.exec(cmd);
        if (r.rfind("ERR(", 0) == 0 || r.rfind("THROW(", 0) == 0) {
            return "SCRIPT-" + r + " at " + cmd;
        }
    }
    auto parseTable = [](const std::string &text) {
        std::vector<Desc> table;
        for (const auto &t : splitws(text, ',')) {
            std::string tt;
            for (char c : t) {
                if (c != ' ') {
                    tt.push_back(c);
                }
            }
            if (tt.empty()) {
                continue;
            }
            auto f = splitws(tt, ':');
            Desc d;
            d.k = f[0];
            d.a = f.size() > 1 ? std::stoul(f[1]) : 0;
            d.b = f.size() > 2 ? std::stoul(f[2]) : 0;
            table.push_back(d);
        }
        return table;
    };
    auto tableTexts = splitws(secs[1], '/');
    cs.tables.resize(tableTexts.size());
    cs.models.resize(tableTexts.size());
    std::vector<long> cloneOf(tableTexts.size(), -1);
    for (size_t k = 0; k < tableTexts.size(); ++k) {
        std::string tt;
        for (char c : tableTexts[k]) {
            if (c != ' ') {
                tt.push_back(c);
            }
        }
        if (tt.rfind("clone:", 0) == 0) {
            cloneOf[k] = std::stol(tt.substr(6));
            continue;
        }
        cs.tables[k] = parseTable(tt);
        if (cs.tables[k].empty() || cs.tables[k][0].k != "m") {
            return "BAD-TABLE";
        }
        cs.models[k] = cs.in.model(cs.tables[k][0].a);
        if (cs.models[k] == nullptr) {
            return "SCRIPT-NO-MODEL";
        }
        for (const auto &d : cs.tables[k]) {
            if (d.k == "ma") {
                auto &v = cs.mathIds[d.a];
                if (v.size() < d.b + 1) {
                    v.resize(d.b + 1);
                }
            }
        }
    }
    for (auto &kv : cs.mathIds) {
        cs.writeMath(kv.first);
    }
    for (size_t k = 0; k < tableTexts.size(); ++k) {
        if (cloneOf[k] >= 0) {
            auto clone = cs.models.at(size_t(cloneOf[k]))->clone();
            cs.in.adopt(clone);
            cs.models[k] = clone;
            cs.tables[k] = cs.cloneTable(size_t(cloneOf[k]), clone);
            for (const auto &d : cs.tables[k]) {
                if (d.k == "ma") {
                    auto &v = cs.mathIds[d.a];
                    if (v.size() < d.b + 1) {
                        v.resize(d.b + 1);
                    }
                }
            }
        }
    }
    cs.select(0);
    cs.annotator = Annotator::create();
    std::string out;
    bool first = true;
    for (const auto &cmd : splitws(secs[3], ';')) {
        std::vector<std::string> w;
        for (const auto &x : splitws(cmd, ' ')) {
            if (!x.empty()) {
                w.push_back(x);
            }
        }
        if (w.empty()) {
            continue;
        }
        std::string r;
        std::string s;
        const std::string &c = w[0];
        if (w.size() > 1 && w.back().size() > 0 && w.back()[0] == 's') {
            parseStrToken(w.back(), s);
        }
        auto strArg = [&](size_t i) {
            std::string v;
            parseStrToken(w.at(i), v);
            return v;
        };
        if (c == "S") {
            cs.select(w.size() > 1 ? std::stoul(w[1]) : 0);
            cs.annotator->setModel(cs.model);
            r = "-";
        } else if (c == "X") {
            // drop every reference we hold to the model the annotator has: its weak pointer expires
            long slot = cs.in.find(cs.model);
            cs.model = nullptr;
            cs.models.at(cs.cur) = nullptr;
            if (slot >= 0) {
                cs.in.exec("release " + std::to_string(slot));
            }
            r = cs.annotator->hasModel() ? "STILL-ALIVE" : "-";
        } else if (c == "R") {
            std::string cmd;
            for (size_t i = 3; i < w.size(); ++i) {
                cmd += (i > 3 ? " " : "") + w[i];
            }
            std::string res = cs.in.exec(cmd);
            r = (res.rfind("ERR(", 0) == 0 || res.rfind("THROW(", 0) == 0 || res == "false") ? "R-" + res : "-";
        } else if (c == "E") {
            size_t k = w.size() > 3 ? std::stoul(w[3]) : 0;
            cs.setId(cs.tables.at(k).at(std::stoul(w.at(1))), strArg(2));
            r = "-";
        } else if (c == "A") {
            bool ok = cs.annotator->assignAllIds();
            r = std::string(ok ? "b1" : "b0") + "@" + cs.snapshot();
        } else if (c == "T") {
            bool ok = cs.annotator->assignIds(cs.typeOf(w.at(1)));
            r = std::string(ok ? "b1" : "b0") + "@" + cs.snapshot();
        } else if (c == "I") {
            std::string id = cs.assignItem(w.at(1), std::stoul(w.at(2)), std::stoul(w.at(3)), std::stoul(w.at(4)), w.size() > 5 ? std::stoi(w[5]) : 0);
            r = strToken(id) + "@" + cs.snapshot();
        } else if (c == "C") {
            cs.annotator->clearAllIds();
            r = "-@" + cs.snapshot();
        } else if (c == "i") {
            r = cs.entryStr(cs.annotator->item(strArg(1)));
        } else if (c == "x") {
            r = cs.entryStr(cs.annotator->item(strArg(1), std::stoul(w.at(2))));
        } else if (c == "l") {
            auto items = cs.annotator->items(strArg(1));
            r = "[";
            for (size_t i = 0; i < items.size(); ++i) {
                r += (i > 0 ? "," : "") + cs.entryStr(items[i]);
            }
            r += "]";
        } else if (c == "u") {
            r = cs.annotator->isUnique(strArg(1)) ? "b1" : "b0";
        } else if (c == "n") {
            r = std::to_string(cs.annotator->itemCount(strArg(1)));
        } else if (c == "d") {
            r = Case::strs(cs.annotator->ids());
        } else if (c == "D") {
            r = Case::strs(cs.annotator->duplicateIds());
        } else if (c == "t") {
            r = cs.typed(w.at(1), strArg(2), w.size() > 3 ? std::stoi(w[3]) : 0);
        } else if (c == "P") {
            r = cs.printOp();
        } else {
            r = "BAD-OP";
        }
        out += (first ? "" : ";") + r;
        first = false;
    }
    out += " # final=";
    for (size_t k = 0; k < cs.models.size(); ++k) {
        if (cs.models[k] != nullptr) {
            cs.select(k);
        } else {
            cs.model = nullptr;
        }
        out += (k > 0 ? "/" : "") + cs.snapshot();
    }
    return out;
}

int main(int argc, char **argv)
{
    if (argc < 2) {
        fprintf(stderr, "usage: %s cases\n", argv[0]);
        return 2;
    }
    return runCases(readLines(argv[1]), runCase, 20);
}
