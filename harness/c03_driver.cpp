// C03 driver (expression layer).  argv[1] = mode, argv[2] = case file.
//
// mode "ast": one AST per line in prefix form
//       node ::= "_" | TYPE VAL node node        VAL ::= "-" | "=" text        (tokens separated by one space)
//   e.g.  "PLUS - CI =a _ _ CN =-3 _ _".  The tree is built through the PUBLIC AnalyserEquationAst API only
//   (create, setType, setValue, setVariable, setParent, setLeftChild, setRightChild) and printed with the public
//   static Generator::equationCode(ast, profile) for the C and the Python built-in profiles.
//   Output line:  <C code> TAB <Python code>
#include <cmath>
#include <cstdio>
#include <map>
#include <sstream>

#include <libcellml>

#include "forkrun.hpp"

using namespace verif;
using Ast = libcellml::AnalyserEquationAst;

static std::map<std::string, Ast::Type> typeTable()
{
    std::map<std::string, Ast::Type> m;
    for (int i = 0; i < 1000; ++i) {
        std::string s;
        try {
            s = Ast::typeAsString(Ast::Type(i));
        } catch (const std::out_of_range &) {
            break;
        }
        for (auto &c : s) {
            c = char(toupper(c));
        }
        m[s] = Ast::Type(i);
    }
    return m;
}

static const std::map<std::string, Ast::Type> &types()
{
    static const auto t = typeTable();
    return t;
}

struct Reader
{
    std::vector<std::string> toks;
    size_t pos = 0;
    std::vector<libcellml::VariablePtr> keep; // variables are held weakly by nobody else

    libcellml::AnalyserEquationAstPtr node(const libcellml::AnalyserEquationAstPtr &parent)
    {
        if (pos >= toks.size()) {
            throw std::runtime_error("short case");
        }
        std::string t = toks[pos++];
        if (t == "_") {
            return nullptr;
        }
        auto it = types().find(t);
        if (it == types().end()) {
            throw std::runtime_error("unknown type " + t);
        }
        std::string val = toks.at(pos++);
        auto a = Ast::create();
        a->setType(it->second);
        if (parent != nullptr) {
            a->setParent(parent);
        }
        if (val != "-") {
            std::string text = val.substr(1);
            if (it->second == Ast::Type::CI) {
                auto v = libcellml::Variable::create(text);
                keep.push_back(v);
                a->setVariable(v);
            } else {
                a->setValue(text);
            }
        }
        auto l = node(a);
        auto r = node(a);
        if (l != nullptr) {
            a->setLeftChild(l);
        }
        if (r != nullptr) {
            a->setRightChild(r);
        }
        return a;
    }
};

static std::string oneLine(const std::string &s)
{
    std::string o;
    for (char c : s) {
        o += (c == '\n') ? std::string("\\n") : (c == '\t') ? std::string("\\t") : std::string(1, c);
    }
    return o;
}

static std::string astCase(const std::string &line)
{
    Reader rd;
    rd.toks = splitws(line);
    auto root = rd.node(nullptr);
    if (rd.pos != rd.toks.size()) {
        throw std::runtime_error("trailing tokens");
    }
    auto c = libcellml::GeneratorProfile::create(libcellml::GeneratorProfile::Profile::C);
    auto py = libcellml::GeneratorProfile::create(libcellml::GeneratorProfile::Profile::PYTHON);
    std::string sc = libcellml::Generator::equationCode(root, c);
    std::string sp = libcellml::Generator::equationCode(root, py);
    return oneLine(sc) + "\t" + oneLine(sp);
}

int main(int argc, char **argv)
{
    if (argc < 3) {
        fprintf(stderr, "usage: c03_driver ast <cases>\n");
        return 2;
    }
    std::string mode = argv[1];
    auto cases = readLines(argv[2]);
    if (mode == "ast") {
        if (types().count("PLUS") == 0 || types().count("NAN") == 0) {
            fprintf(stderr, "type table broken\n");
            return 2;
        }
        return runCases(cases, astCase, 20);
    }
    fprintf(stderr, "unknown mode\n");
    return 2;
}
