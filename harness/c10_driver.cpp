// c10_driver — C10: Entity::equals on real objects.
// usage: c10_driver [--dumps] <case file>
//   one case per line:   <script>|<root slots>|<queries>|<ignored: serialised trees for the model>
//     script   commands of harness/common/script.hpp separated by ';' (objects are built through the public API)
//     roots    slot numbers separated by ' ' : root k of the case lives in that slot
//     queries  "i,j" pairs of ROOT indices separated by ' ' : roots[i]->equals(roots[j])
//   output per case:     <one 0/1 per query> <per root: FNV-1a hash of its canonical dump, ','-separated> <per root: 0/1 of root->equals(nullptr)>
//   with --dumps the dumps themselves are printed instead of the hashes (';'-separated).
// The dump walks the objects through PUBLIC GETTERS only and has the format of gen/equals_gen.py: ser(), so
// the check can tell that the script built exactly the tree that the model is given.
#include <cmath>
#include <cstdint>
#include <cstdio>
#include <string>
#include <vector>

#include <libcellml>

#include "forkrun.hpp"
#include "script.hpp"

using namespace verif;
using namespace libcellml;

static bool gDumps = false;

static std::string dbl(double d)
{
    // exact: m^e with d = m * 2^e, m odd (or 0^0)
    if (d == 0.0) {
        return "0^0";
    }
    if (std::isnan(d) || std::isinf(d)) {
        return "nan";
    }
    int x = 0;
    double f = std::frexp(d, &x);
    auto m = int64_t(std::ldexp(f, 53));
    int e = x - 53;
    while ((m % 2) == 0) {
        m /= 2;
        ++e;
    }
    return std::to_string(m) + "^" + std::to_string(e);
}

static std::string dumpImportSource(const ImportSourcePtr &i)
{
    if (i == nullptr) {
        return "-";
    }
    return "( I " + strToken(i->url()) + " " + strToken(i->id()) + " )";
}

static std::string dumpUnits(const UnitsPtr &u)
{
    if (u == nullptr) {
        return "-";
    }
    std::string s = "( U " + strToken(u->name()) + " " + strToken(u->id()) + " " + dumpImportSource(u->importSource())
                    + " " + strToken(u->importReference()) + " ( ";
    for (size_t k = 0; k < u->unitCount(); ++k) {
        std::string reference;
        std::string prefix;
        std::string id;
        double exponent = 0.0;
        double multiplier = 0.0;
        u->unitAttributes(k, reference, prefix, exponent, multiplier, id);
        s += "( D " + strToken(reference) + " " + strToken(prefix) + " " + dbl(exponent) + " " + dbl(multiplier) + " "
             + strToken(id) + " ) ";
    }
    return s + ") )";
}

static std::string dumpVariable(const VariablePtr &v)
{
    if (v == nullptr) {
        return "-";
    }
    return "( V " + strToken(v->name()) + " " + strToken(v->id()) + " " + dumpUnits(v->units()) + " "
           + strToken(v->initialValue()) + " " + strToken(v->interfaceType()) + " )";
}

static std::string dumpReset(const ResetPtr &r)
{
    if (r == nullptr) {
        return "-";
    }
    return "( R " + strToken(r->id()) + " " + std::to_string(r->order()) + " " + dumpVariable(r->variable()) + " "
           + dumpVariable(r->testVariable()) + " " + strToken(r->testValue()) + " " + strToken(r->testValueId()) + " "
           + strToken(r->resetValue()) + " " + strToken(r->resetValueId()) + " )";
}

static std::string dumpComponent(const ComponentPtr &c)
{
    if (c == nullptr) {
        return "-";
    }
    std::string s = "( C " + strToken(c->name()) + " " + strToken(c->id()) + " " + strToken(c->encapsulationId()) + " "
                    + strToken(c->math()) + " " + dumpImportSource(c->importSource()) + " "
                    + strToken(c->importReference()) + " ( ";
    for (size_t k = 0; k < c->variableCount(); ++k) {
        s += dumpVariable(c->variable(k)) + " ";
    }
    s += ") ( ";
    for (size_t k = 0; k < c->resetCount(); ++k) {
        s += dumpReset(c->reset(k)) + " ";
    }
    s += ") ( ";
    for (size_t k = 0; k < c->componentCount(); ++k) {
        s += dumpComponent(c->component(k)) + " ";
    }
    return s + ") )";
}

static std::string dumpModel(const ModelPtr &m)
{
    std::string s = "( M " + strToken(m->name()) + " " + strToken(m->id()) + " " + strToken(m->encapsulationId()) + " ( ";
    for (size_t k = 0; k < m->unitsCount(); ++k) {
        s += dumpUnits(m->units(k)) + " ";
    }
    s += ") ( ";
    for (size_t k = 0; k < m->componentCount(); ++k) {
        s += dumpComponent(m->component(k)) + " ";
    }
    return s + ") )";
}

static std::string dumpEntity(const EntityPtr &e)
{
    if (auto m = std::dynamic_pointer_cast<Model>(e)) {
        return dumpModel(m);
    }
    if (auto c = std::dynamic_pointer_cast<Component>(e)) {
        return dumpComponent(c);
    }
    if (auto v = std::dynamic_pointer_cast<Variable>(e)) {
        return dumpVariable(v);
    }
    if (auto u = std::dynamic_pointer_cast<Units>(e)) {
        return dumpUnits(u);
    }
    if (auto r = std::dynamic_pointer_cast<Reset>(e)) {
        return dumpReset(r);
    }
    if (auto i = std::dynamic_pointer_cast<ImportSource>(e)) {
        return dumpImportSource(i);
    }
    return "-";
}

static std::string fnv1a(const std::string &s)
{
    uint64_t h = 0xcbf29ce484222325ULL;
    for (unsigned char c : s) {
        h ^= c;
        h *= 0x100000001b3ULL;
    }
    char buf[32];
    snprintf(buf, sizeof buf, "%016llx", (unsigned long long)h);
    return buf;
}

static std::string runCase(const std::string &line)
{
    auto parts = splitws(line, '|');
    if (parts.size() < 3) {
        return "BADCASE";
    }
    Interp in;
    for (const auto &cmd : splitws(parts[0], ';')) {
        if (cmd.empty()) {
            continue;
        }
        std::string r = in.exec(cmd);
        if (r.rfind("ERR(", 0) == 0 || r.rfind("THROW(", 0) == 0) {
            return "SCRIPT:" + r + ":" + cmd;
        }
    }
    std::vector<EntityPtr> roots;
    for (const auto &t : splitws(parts[1], ' ')) {
        if (t.empty()) {
            continue;
        }
        size_t slot = std::stoul(t);
        if (slot >= in.slots.size() || in.slots[slot].p == nullptr) {
            return "BADROOT:" + t;
        }
        roots.push_back(in.slots[slot].p);
    }
    std::string bits;
    for (const auto &q : splitws(parts[2], ' ')) {
        if (q.empty()) {
            continue;
        }
        auto comma = q.find(',');
        size_t i = std::stoul(q.substr(0, comma));
        size_t j = std::stoul(q.substr(comma + 1));
        if (i >= roots.size() || j >= roots.size()) {
            return "BADQUERY:" + q;
        }
        bits.push_back(roots[i]->equals(roots[j]) ? '1' : '0');
    }
    if (bits.empty()) {
        bits = "-";
    }
    std::string tail;
    for (size_t k = 0; k < roots.size(); ++k) {
        if (k > 0) {
            tail += gDumps ? ";" : ",";
        }
        std::string d = dumpEntity(roots[k]);
        tail += gDumps ? d : fnv1a(d);
    }
    // x->equals(nullptr) must be false for every root
    std::string nulls;
    for (const auto &r : roots) {
        nulls.push_back(r->equals(nullptr) ? '1' : '0');
    }
    return bits + (gDumps ? "|" : " ") + tail + (gDumps ? "|" : " ") + nulls;
}

int main(int argc, char **argv)
{
    const char *file = nullptr;
    for (int i = 1; i < argc; ++i) {
        std::string a = argv[i];
        if (a == "--dumps") {
            gDumps = true;
        } else {
            file = argv[i];
        }
    }
    if (file == nullptr) {
        fprintf(stderr, "usage: %s [--dumps] cases\n", argv[0]);
        return 2;
    }
    return runCases(readLines(file), runCase, 60);
}
