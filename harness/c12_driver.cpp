// C12 driver: histories of service calls on one process, with libxml2's blank-handling flag read after every step.
//
//   c12_driver run <table> <cases> [--verbose]
//     table : one input per line:  <id> \t <kind> \t <hex>
//               kind doc    : bytes of an XML document (given to Parser::parseModel)
//               kind script : an API script (harness/common/script.hpp; commands separated by ';') building a model in slot 0
//               kind dir    : a directory (base path for resolveImports)
//     cases : one history per line; steps separated by single spaces, fields by ':'.  Object slots are named by the
//             case (any token); a service slot is created at first use.
//               G:<0|1>                      xmlKeepBlanksDefault(v): the flag value the history starts from
//               parse:<P>:<doc>:<M>[:m][:ms] parser slot P (name starting with 'q': non-strict) parses table doc into model slot M;
//                                            with :m the math strings are printed sorted (M=..), with :ms in the order
//                                            the validator reads them (MS=..)
//               build:<script>:<M>[:ms]      run the script; model slot M := its slot 0
//               print:<R>:<M>[:auto][:t]     Printer::printModel (with :t the text is printed as hex)
//               validate:<V>:<M>             Validator::validateModel
//               analyse:<A>:<M>              Analyser::analyseModel
//               generate:<G>:<A>:<c|py>      Generator (slot G) on the analyser model of A -> interface + implementation code
//               resolve:<I>:<M>:<dir>        Importer::resolveImports(model, dir)   (importer slot name starting with 'j': non-strict)
//               flatten:<I>:<M>:<F>          Importer::flattenModel -> model slot F
//               removeall:<I>                Importer::removeAllModels
//               annot:<N>:<M>:<ids|assign>   Annotator::setModel + ids()/duplicateIds()/itemCount, or assignAllIds (the latter edits the
//                                            model: a legitimate mutator; the dump of the model afterwards is part of the result)
//               extvar:<A>:<M>               Analyser::addExternalVariable(first variable of M): documented state of the analyser
//               clone:<M>:<M2>   equals:<M>:<M2>   dump:<M>   release:<M>
//               deep:<0|1>                   include hasUnresolvedImports() / isDefined() in the before / after status of models
//               touch                        a bare XmlNode::convertToString (internal)
//               set:<0|1>                    the application calls xmlKeepBlanksDefault itself
//               hset / hget                  install a structured error handler / report whether it is still installed
//     output: one line per case; per step  <name>{k=v ...}  with always g=<flag after the step>
//               H  = hash of dumpModel(m, unsorted)       Hn = same with every math / test value / reset value string
//                    whitespace-normalised (space after '>' and before '<' removed)      (null when there is no model)
//               I  = dumpIssues of the service, ID = hash of its sorted issue descriptions, LV = its by-level view (counts and error(i)/warning(i)/message(i) enumerations)
//                         U  = 1 iff the model given to the call (content AND object identities) is unchanged
//               UL = 1 iff every model reachable through import sources + every library model is unchanged
//               P  = 1 iff every AnalyserModel handed out earlier by this analyser still dumps the same
//             forkrun.hpp tokens (CRASH/THROW/TIMEOUT) replace the line when the whole case dies.
#include <algorithm>
#include <cstdio>
#include <cstring>
#include <map>
#include <set>
#include <sstream>

#include <libxml/parser.h>
#include <libxml/xmlerror.h>

#include <libcellml>

#include "xmldoc.h"
#include "xmlnode.h"

#include "dump.hpp"
#include "forkrun.hpp"
#include "issues.hpp"
#include "script.hpp"

using namespace verif;
using namespace libcellml;

static std::map<std::string, std::pair<std::string, std::string>> gTable; // id -> (kind, bytes)
static bool gVerbose = false;

static int readFlag()
{
    int v = xmlKeepBlanksDefault(1);
    xmlKeepBlanksDefault(v);
    return v;
}

static std::string h64(const std::string &s)
{
    unsigned long long h = 1469598103934665603ULL;
    for (unsigned char c : s) {
        h ^= c;
        h *= 1099511628211ULL;
    }
    char buf[32];
    snprintf(buf, sizeof buf, "%016llx", h);
    return buf;
}

// ---------------------------------------------------------------- math normalisation inside a dump
static std::string undq(const std::string &s, size_t &i)
{
    // s[i] == '"'; returns the decoded string, i after the closing quote
    std::string o;
    ++i;
    while (i < s.size() && s[i] != '"') {
        if (s[i] == '\\' && i + 1 < s.size()) {
            if (s[i + 1] == 'x' && i + 3 < s.size()) {
                o.push_back(char(std::stoi(s.substr(i + 2, 2), nullptr, 16)));
                i += 4;
            } else {
                o.push_back(s[i + 1]);
                i += 2;
            }
        } else {
            o.push_back(s[i++]);
        }
    }
    ++i;
    return o;
}

static std::string normWs(const std::string &w)
{
    // remove white space that follows '>' and white space that precedes '<'
    std::string a;
    bool skip = false;
    for (char c : w) {
        if (skip && isspace(static_cast<unsigned char>(c))) {
            continue;
        }
        a.push_back(c);
        skip = (c == '>');
    }
    std::string b;
    skip = false;
    for (size_t k = a.size(); k-- > 0;) {
        char c = a[k];
        if (skip && isspace(static_cast<unsigned char>(c))) {
            continue;
        }
        b.push_back(c);
        skip = (c == '<');
    }
    std::reverse(b.begin(), b.end());
    return b;
}

static std::string rewriteStringsInDump(const std::string &d, const std::vector<std::string> &keys,
                                        const std::function<std::string(const std::string &)> &fn);

static std::string normaliseMathInDump(const std::string &d)
{
    return rewriteStringsInDump(d, {"(math \"", "(testvalue \"", "(resetvalue \""}, normWs);
}

// the dump with every id (entity, encapsulation, unit, test / reset value, mapping) replaced by "?"
static std::string maskIdsInDump(const std::string &d)
{
    return rewriteStringsInDump(d, {"(id \"", "(encid \"", "(testvalueid \"", "(resetvalueid \"", "(mapid \""},
                                [](const std::string &) { return std::string("?"); });
}

static std::string rewriteStringsInDump(const std::string &d, const std::vector<std::string> &keys,
                                        const std::function<std::string(const std::string &)> &fn)
{
    std::string o;
    size_t i = 0;
    while (i < d.size()) {
        bool hit = false;
        for (const auto &k : keys) {
            size_t n = k.size();
            if (d.compare(i, n, k) == 0) {
                o.append(d, i, n - 1);
                size_t j = i + n - 1;
                std::string w = undq(d, j);
                o += dq(fn(w));
                i = j;
                hit = true;
                break;
            }
        }
        if (!hit) {
            if (d[i] == '"') { // skip other strings verbatim
                size_t j = i;
                undq(d, j);
                o.append(d, i, j - i);
                i = j;
            } else {
                o.push_back(d[i++]);
            }
        }
    }
    return o;
}

// ---------------------------------------------------------------- identity of the objects of a model
static void identComponent(const ComponentPtr &c, std::vector<const void *> &v, size_t depth)
{
    v.push_back(c.get());
    v.push_back(c->parent().get());
    v.push_back(c->importSource().get());
    for (size_t i = 0; i < c->variableCount(); ++i) {
        auto x = c->variable(i);
        v.push_back(x.get());
        v.push_back(x->parent().get());
        v.push_back(x->units().get());
        v.push_back(x->units() != nullptr ? x->units()->parent().get() : nullptr);
        for (size_t j = 0; j < x->equivalentVariableCount(); ++j) {
            v.push_back(x->equivalentVariable(j).get());
        }
    }
    for (size_t i = 0; i < c->resetCount(); ++i) {
        auto r = c->reset(i);
        v.push_back(r.get());
        v.push_back(r->parent().get());
        v.push_back(r->variable().get());
        v.push_back(r->testVariable().get());
    }
    if (depth < 200) {
        for (size_t i = 0; i < c->componentCount(); ++i) {
            identComponent(c->component(i), v, depth + 1);
        }
    }
}

static std::vector<const void *> identity(const ModelPtr &m)
{
    std::vector<const void *> v;
    if (m == nullptr) {
        return v;
    }
    v.push_back(m.get());
    for (size_t i = 0; i < m->unitsCount(); ++i) {
        v.push_back(m->units(i).get());
        v.push_back(m->units(i)->parent().get());
        v.push_back(m->units(i)->importSource().get());
    }
    for (size_t i = 0; i < m->componentCount(); ++i) {
        identComponent(m->component(i), v, 0);
    }
    return v;
}

// the "lazily fixable" status of a model: what a service might be tempted to repair in place
// (hasUnlinkedUnits / hasImports / use counts are cycle-safe; hasUnresolvedImports and isDefined recurse through units and are
// asked only when the model has imports, where the generators keep units acyclic)
static std::string statusOf(const ModelPtr &m, bool deep)
{
    if (m == nullptr) {
        return "null";
    }
    std::string s = "unlinked=" + std::to_string(m->hasUnlinkedUnits()) + ",imports=" + std::to_string(m->hasImports())
                    + ",units=" + std::to_string(m->unitsCount()) + ",comps=" + std::to_string(m->componentCount());
    if (deep) {
        // Model::isDefined() re-reads the math strings (utilities.cpp findCnUnitsNames -> multiRootXml -> convertToString): it is
        // itself a call that sets libxml2's flag; the observation must not disturb the history, so the flag is put back
        int saved = xmlKeepBlanksDefault(1);
        s += ",unresolved=" + std::to_string(m->hasUnresolvedImports()) + ",defined=" + std::to_string(m->isDefined());
        xmlKeepBlanksDefault(saved);
    }
    return s;
}

struct Snap
{
    std::string dump;
    std::string status;
    std::vector<const void *> ident;
    bool operator==(const Snap &o) const { return dump == o.dump && ident == o.ident && status == o.status; }
};

static bool gDeepStatus = false;

static Snap snap(const ModelPtr &m)
{
    Snap s;
    s.dump = m != nullptr ? dumpModel(m, false, false) : std::string("null");
    s.status = statusOf(m, gDeepStatus);
    s.ident = identity(m);
    return s;
}

// number of objects (entities, units held by variables, import sources) that two models have in common
static size_t sharedObjects(const ModelPtr &a, const ModelPtr &b)
{
    if (a == nullptr || b == nullptr) {
        return 0;
    }
    auto ia = identity(a);
    auto ib = identity(b);
    std::set<const void *> sa(ia.begin(), ia.end());
    sa.erase(nullptr);
    std::set<const void *> seen;
    size_t n = 0;
    for (const void *p : ib) {
        if (p != nullptr && sa.count(p) != 0 && seen.insert(p).second) {
            ++n;
        }
    }
    return n;
}

static std::string maskHasModel(std::string d)
{
    for (const char *k : {"(hasmodel true)", "(hasmodel false)"}) {
        size_t p = 0;
        while ((p = d.find(k, p)) != std::string::npos) {
            d.replace(p, strlen(k), "(hasmodel ?)");
        }
    }
    return d;
}

// models reachable through import sources (the importer's library included)
static void reachComponent(const ComponentPtr &c, std::vector<ModelPtr> &out, std::set<const void *> &seen, size_t depth);
static void reachModel(const ModelPtr &m, std::vector<ModelPtr> &out, std::set<const void *> &seen, size_t depth)
{
    if (m == nullptr || depth > 50) {
        return;
    }
    for (size_t i = 0; i < m->unitsCount(); ++i) {
        auto is = m->units(i)->importSource();
        if (is != nullptr && is->model() != nullptr && seen.insert(is->model().get()).second) {
            out.push_back(is->model());
            reachModel(is->model(), out, seen, depth + 1);
        }
    }
    for (size_t i = 0; i < m->componentCount(); ++i) {
        reachComponent(m->component(i), out, seen, depth);
    }
}
static void reachComponent(const ComponentPtr &c, std::vector<ModelPtr> &out, std::set<const void *> &seen, size_t depth)
{
    auto is = c->importSource();
    if (is != nullptr && is->model() != nullptr && seen.insert(is->model().get()).second) {
        out.push_back(is->model());
        reachModel(is->model(), out, seen, depth + 1);
    }
    if (depth < 200) {
        for (size_t i = 0; i < c->componentCount(); ++i) {
            reachComponent(c->component(i), out, seen, depth + 1);
        }
    }
}

// ---------------------------------------------------------------- analyser model dump
static std::string vname(const VariablePtr &v)
{
    if (v == nullptr) {
        return "-";
    }
    auto p = std::dynamic_pointer_cast<Component>(v->parent());
    return (p != nullptr ? p->name() : std::string("?")) + "." + v->name();
}

static std::string astStr(const AnalyserEquationAstPtr &a, size_t depth = 0)
{
    if (a == nullptr || depth > 400) {
        return "_";
    }
    std::string s = "(" + std::to_string(int(a->type())) + ":" + a->value() + ":" + vname(a->variable());
    s += astStr(a->leftChild(), depth + 1) + astStr(a->rightChild(), depth + 1) + ")";
    return s;
}

static std::string dumpAnalyserModel(const AnalyserModelPtr &am)
{
    if (am == nullptr) {
        return "null";
    }
    std::ostringstream o;
    o << "T=" << AnalyserModel::typeAsString(am->type()) << " valid=" << am->isValid();
    o << " voi=" << (am->voi() != nullptr ? vname(am->voi()->variable()) : std::string("-"));
    o << " S=";
    for (const auto &v : am->states()) {
        o << vname(v->variable()) << ":" << v->index() << ":" << vname(v->initialisingVariable()) << ";";
    }
    o << " V=";
    for (const auto &v : am->variables()) {
        o << vname(v->variable()) << ":" << AnalyserVariable::typeAsString(v->type()) << ":" << v->index() << ":" << vname(v->initialisingVariable()) << ";";
    }
    o << " E=";
    for (const auto &e : am->equations()) {
        o << AnalyserEquation::typeAsString(e->type()) << ":" << astStr(e->ast()) << ":" << e->dependencyCount() << ":" << e->variableCount() << ";";
    }
    o << " need=" << am->needEqFunction() << am->needAndFunction() << am->needMinFunction() << am->needSecFunction() << am->needAcothFunction();
    return o.str();
}

// ---------------------------------------------------------------- the history interpreter
struct World
{
    std::map<std::string, ModelPtr> models;
    std::map<std::string, ParserPtr> parsers;
    std::map<std::string, PrinterPtr> printers;
    std::map<std::string, ValidatorPtr> validators;
    std::map<std::string, AnalyserPtr> analysers;
    std::map<std::string, std::vector<std::pair<AnalyserModelPtr, std::string>>> handedOut;
    std::map<std::string, GeneratorPtr> generators;
    std::map<std::string, ImporterPtr> importers;
    std::map<std::string, AnnotatorPtr> annotators;
    std::vector<std::shared_ptr<Interp>> interps; // keep every scripted world alive: an ImportSource holds its model weakly
};

// the issues of a service as its caller sees them: dumpIssues (multiset over issue(i)) plus the by-level view
// LV=E<errorCount>[rule:type,...]W<warningCount>[...]M<messageCount>[...]x<levels counted over issue(i)>
// (the lists enumerate error(i) / warning(i) / message(i) for i < count; "null" when the accessor returns nullptr)
static std::string issuesView(const LoggerPtr &l)
{
    if (l == nullptr) {
        return "I={null} LV=-";
    }
    auto item = [](const IssuePtr &is) {
        if (is == nullptr) {
            return std::string("null");
        }
        auto it = is->item();
        return issueLevelLetter(is->level()) + std::to_string(int(is->referenceRule())) + ":" + std::to_string(it != nullptr ? int(it->type()) : -1);
    };
    std::string lv = "E" + std::to_string(l->errorCount()) + "[";
    for (size_t i = 0; i < l->errorCount() && i < 200; ++i) {
        lv += (i ? "," : "") + item(l->error(i));
    }
    lv += "]W" + std::to_string(l->warningCount()) + "[";
    for (size_t i = 0; i < l->warningCount() && i < 200; ++i) {
        lv += (i ? "," : "") + item(l->warning(i));
    }
    lv += "]M" + std::to_string(l->messageCount()) + "[";
    for (size_t i = 0; i < l->messageCount() && i < 200; ++i) {
        lv += (i ? "," : "") + item(l->message(i));
    }
    size_t e = 0, wn = 0, m = 0;
    for (size_t i = 0; i < l->issueCount(); ++i) {
        auto is = l->issue(i);
        if (is == nullptr) {
            continue;
        }
        e += is->level() == Issue::Level::ERROR;
        wn += is->level() == Issue::Level::WARNING;
        m += is->level() == Issue::Level::MESSAGE;
    }
    lv += "]x" + std::to_string(e) + "," + std::to_string(wn) + "," + std::to_string(m);
    // the texts too (sorted, hashed): two runs of the same call by the same build must word their issues identically
    std::vector<std::string> texts;
    for (size_t i = 0; i < l->issueCount(); ++i) {
        auto is = l->issue(i);
        texts.push_back(is != nullptr ? is->description() : std::string("null"));
    }
    std::sort(texts.begin(), texts.end());
    std::string all;
    for (const auto &t : texts) {
        all += t + "\n";
    }
    return "I=" + dumpIssues(l) + " LV=" + lv + " ID=" + h64(all);
}

static size_t countRule(const LoggerPtr &l, Issue::ReferenceRule r)
{
    size_t n = 0;
    for (size_t i = 0; i < l->issueCount(); ++i) {
        if (l->issue(i)->referenceRule() == r) {
            ++n;
        }
    }
    return n;
}

static void collectMaths(const ComponentPtr &c, std::vector<std::string> &out, size_t depth)
{
    if (!c->math().empty()) {
        out.push_back(c->math());
    }
    for (size_t i = 0; i < c->resetCount(); ++i) {
        auto r = c->reset(i);
        if (!r->testValue().empty()) {
            out.push_back(r->testValue());
        }
        if (!r->resetValue().empty()) {
            out.push_back(r->resetValue());
        }
    }
    if (depth < 200) {
        for (size_t i = 0; i < c->componentCount(); ++i) {
            collectMaths(c->component(i), out, depth + 1);
        }
    }
}

// the non-empty math strings in the order Validator::validateModel reads them: components in post-order
// (validateComponentTree), and per component the test value and reset value of each reset, then the math
static void validatorOrderMaths(const ComponentPtr &c, std::vector<std::string> &out, size_t depth)
{
    if (depth < 200) {
        for (size_t i = 0; i < c->componentCount(); ++i) {
            validatorOrderMaths(c->component(i), out, depth + 1);
        }
    }
    if (c->isImport()) {
        return;
    }
    for (size_t i = 0; i < c->resetCount(); ++i) {
        auto r = c->reset(i);
        if (!r->testValue().empty()) {
            out.push_back(r->testValue());
        }
        if (!r->resetValue().empty()) {
            out.push_back(r->resetValue());
        }
    }
    if (!c->math().empty()) {
        out.push_back(c->math());
    }
}

static std::string mathsField(const ModelPtr &m)
{
    std::vector<std::string> ms;
    if (m != nullptr) {
        for (size_t i = 0; i < m->componentCount(); ++i) {
            validatorOrderMaths(m->component(i), ms, 0);
        }
    }
    std::string r = " MS=";
    for (size_t i = 0; i < ms.size(); ++i) {
        r += (i ? "," : "") + hexencode(ms[i]);
    }
    return r;
}

static std::string modelHashes(const ModelPtr &m)
{
    if (m == nullptr) {
        return "H=null Hn=null";
    }
    std::string d = dumpModel(m, false, false);
    std::string r = "H=" + h64(d) + " Hn=" + h64(normaliseMathInDump(d));
    if (gVerbose) {
        r += " D=" + hexencode(d);
    }
    return r;
}

static void errHandler(void *, const xmlError *) {}

static std::string runCase(const std::string &line)
{
    World w;
    std::string out;
    gDeepStatus = false;
    for (const auto &step : splitws(line, ' ')) {
        if (step.empty()) {
            continue;
        }
        auto f = splitws(step, ':');
        const std::string &op = f[0];
        std::string r;
        auto arg = [&](size_t i) { return i < f.size() ? f[i] : std::string(); };
        auto has = [&](const std::string &x) { return std::find(f.begin() + 1, f.end(), x) != f.end(); };
        if (op == "deep") {
            gDeepStatus = arg(1) == "1";
        } else if (op == "G" || op == "set") {
            xmlKeepBlanksDefault(arg(1) == "1" ? 1 : 0);
        } else if (op == "parse") {
            auto &p = w.parsers[arg(1)];
            if (p == nullptr) {
                p = Parser::create(arg(1)[0] != 'q');
            }
            auto m = p->parseModel(gTable[arg(2)].second);
            w.models[arg(3)] = m;
            r = modelHashes(m) + " " + issuesView(p)
                + " xc=" + std::to_string(countRule(p, Issue::ReferenceRule::XML_UNEXPECTED_CHARACTER))
                + " xe=" + std::to_string(countRule(p, Issue::ReferenceRule::XML_UNEXPECTED_ELEMENT))
                + " ec=" + std::to_string(countRule(p, Issue::ReferenceRule::ENCAPSULATION_CHILD))
                + " ic=" + std::to_string(countRule(p, Issue::ReferenceRule::IMPORT_CHILD));
            if (has("ms")) {
                r += mathsField(m);
            }
            if (has("m") && m != nullptr) {
                std::vector<std::string> ms;
                for (size_t i = 0; i < m->componentCount(); ++i) {
                    collectMaths(m->component(i), ms, 0);
                }
                std::vector<std::string> hx;
                for (const auto &s : ms) {
                    hx.push_back(hexencode(s));
                }
                std::sort(hx.begin(), hx.end());
                r += " M=";
                for (size_t i = 0; i < hx.size(); ++i) {
                    r += (i ? "," : "") + hx[i];
                }
            }
        } else if (op == "build") {
            auto in = std::make_shared<Interp>();
            w.interps.push_back(in);
            for (const auto &cmd : splitws(gTable[arg(1)].second, ';')) {
                if (!cmd.empty()) {
                    in->exec(cmd);
                }
            }
            w.models[arg(2)] = in->model(0);
            r = modelHashes(in->model(0));
            if (has("ms")) {
                r += mathsField(in->model(0));
            }
        } else if (op == "print") {
            auto &p = w.printers[arg(1)];
            if (p == nullptr) {
                p = Printer::create();
            }
            auto m = w.models[arg(2)];
            Snap before = snap(m);
            std::string text = p->printModel(m, has("auto"));
            r = "T=" + h64(text) + " " + issuesView(p) + " U=" + std::to_string(before == snap(m));
            if (has("t") || gVerbose) {
                r += " X=" + hexencode(text);
            }
        } else if (op == "validate") {
            auto &v = w.validators[arg(1)];
            if (v == nullptr) {
                v = Validator::create();
            }
            auto m = w.models[arg(2)];
            Snap before = snap(m);
            v->validateModel(m);
            r = issuesView(v) + " U=" + std::to_string(before == snap(m))
                + " ci=" + std::to_string(countRule(v, Issue::ReferenceRule::MATH_CI_VARIABLE_REFERENCE))
                + " cn=" + std::to_string(countRule(v, Issue::ReferenceRule::MATH_CN_FORMAT));
        } else if (op == "analyse") {
            auto &a = w.analysers[arg(1)];
            if (a == nullptr) {
                a = Analyser::create();
            }
            auto m = w.models[arg(2)];
            Snap before = snap(m);
            a->analyseModel(m);
            bool prevOk = true;
            for (const auto &pr : w.handedOut[arg(1)]) {
                if (dumpAnalyserModel(pr.first) != pr.second) {
                    prevOk = false;
                }
            }
            std::string d = dumpAnalyserModel(a->model());
            w.handedOut[arg(1)].emplace_back(a->model(), d);
            r = issuesView(a) + " U=" + std::to_string(before == snap(m)) + " A=" + h64(d) + " P=" + std::to_string(prevOk)
                + " ty=" + (a->model() != nullptr ? AnalyserModel::typeAsString(a->model()->type()) : std::string("null"));
            if (gVerbose) {
                r += " AD=" + hexencode(d);
            }
        } else if (op == "extvar") {
            // Analyser::addExternalVariable(first variable of the first component that has one): documented state of the analyser
            auto &a = w.analysers[arg(1)];
            if (a == nullptr) {
                a = Analyser::create();
            }
            auto m = w.models[arg(2)];
            VariablePtr v;
            std::function<void(const ComponentPtr &)> find = [&](const ComponentPtr &c) {
                if (v == nullptr && c->variableCount() > 0) {
                    v = c->variable(0);
                }
                for (size_t i = 0; v == nullptr && i < c->componentCount(); ++i) {
                    find(c->component(i));
                }
            };
            for (size_t i = 0; m != nullptr && v == nullptr && i < m->componentCount(); ++i) {
                find(m->component(i));
            }
            r = "ok=" + std::to_string(v != nullptr ? a->addExternalVariable(AnalyserExternalVariable::create(v)) : false);
        } else if (op == "generate") {
            auto &g = w.generators[arg(1)];
            if (g == nullptr) {
                g = Generator::create();
            }
            auto a = w.analysers[arg(2)];
            auto am = a != nullptr ? a->model() : nullptr;
            std::string before = dumpAnalyserModel(am);
            g->setProfile(GeneratorProfile::create(arg(3) == "py" ? GeneratorProfile::Profile::PYTHON : GeneratorProfile::Profile::C));
            g->setModel(am);
            std::string code = g->interfaceCode() + "\n====\n" + g->implementationCode();
            r = "C=" + h64(code) + " n=" + std::to_string(code.size()) + " U=" + std::to_string(before == dumpAnalyserModel(am));
        } else if (op == "resolve") {
            auto &im = w.importers[arg(1)];
            if (im == nullptr) {
                im = Importer::create(arg(1)[0] != 'j');
            }
            auto m = w.models[arg(2)];
            Snap before = snap(m);
            size_t lib0 = im->libraryCount();
            bool ok = im->resolveImports(m, gTable[arg(3)].second);
            Snap after = snap(m);
            std::string lib;
            std::string libn;
            std::string keys;
            for (size_t i = 0; i < im->libraryCount(); ++i) {
                // the last two path components: <graph directory>/<file>
                std::string key = im->key(i);
                size_t cut = key.find_last_of('/');
                cut = (cut == std::string::npos || cut == 0) ? std::string::npos : key.find_last_of('/', cut - 1);
                std::string base = cut == std::string::npos ? key : key.substr(cut + 1);
                std::string d = dumpModel(im->library(i), false, false);
                lib += base + "=" + h64(d) + ";";
                libn += base + "=" + h64(normaliseMathInDump(d)) + ";";
                keys += (i ? "," : "") + base;
            }
            r = "R=" + std::to_string(ok) + " " + issuesView(im) + " L=" + std::to_string(im->libraryCount()) + " L0=" + std::to_string(lib0)
                + " LH=" + h64(lib) + " LHn=" + h64(libn) + " LK=" + keys
                + " U=" + std::to_string(maskHasModel(before.dump) == maskHasModel(after.dump) && before.ident == after.ident)
                + " U0=" + std::to_string(before == after);
            if (gVerbose) {
                r += " LIB=" + lib;
            }
        } else if (op == "flatten") {
            auto &im = w.importers[arg(1)];
            if (im == nullptr) {
                im = Importer::create(arg(1)[0] != 'j');
            }
            auto m = w.models[arg(2)];
            Snap before = snap(m);
            std::vector<ModelPtr> others;
            std::set<const void *> seen;
            reachModel(m, others, seen, 0);
            for (size_t i = 0; i < im->libraryCount(); ++i) {
                if (seen.insert(im->library(i).get()).second) {
                    others.push_back(im->library(i));
                }
            }
            std::vector<Snap> ob;
            for (const auto &x : others) {
                ob.push_back(snap(x));
            }
            auto flat = im->flattenModel(m);
            bool ul = true;
            for (size_t i = 0; i < others.size(); ++i) {
                if (!(ob[i] == snap(others[i]))) {
                    ul = false;
                }
            }
            w.models[arg(3)] = flat;
            std::string mh = modelHashes(flat);
            mh.replace(mh.find(" Hn="), 4, " Fn=");
            // RN: the result is another object than the input; RS: objects the result shares with the input
            r = "F" + mh.substr(1) + " " + issuesView(im) + " U=" + std::to_string(before == snap(m)) + " UL=" + std::to_string(ul)
                + " RN=" + (flat == nullptr ? std::string("-") : std::to_string(flat != m)) + " RS=" + std::to_string(sharedObjects(m, flat))
                + " st=" + before.status
                + " nl=" + std::to_string(others.size());
        } else if (op == "removeall") {
            auto &im = w.importers[arg(1)];
            if (im != nullptr) {
                im->removeAllModels();
            }
        } else if (op == "annot") {
            auto &an = w.annotators[arg(1)];
            if (an == nullptr) {
                an = Annotator::create();
            }
            auto m = w.models[arg(2)];
            an->setModel(m);
            if (arg(3) == "assign") {
                // a legitimate mutator of the model: the ids it assigns are part of the result
                bool ok = an->assignAllIds();
                r = "ok=" + std::to_string(ok) + " " + modelHashes(m)
                    + " Hi=" + (m != nullptr ? h64(maskIdsInDump(dumpModel(m, false, false))) : std::string("null"));
            } else {
                Snap before = snap(m);
                std::string ids;
                for (const auto &x : an->ids()) {
                    ids += x + ",";
                }
                r = "ids=" + h64(ids) + " dup=" + std::to_string(an->duplicateIds().size()) + " n=" + std::to_string(an->itemCount("nosuchid"))
                    + " U=" + std::to_string(before == snap(m));
            }
            r += " " + issuesView(an);
        } else if (op == "clone") {
            auto m = w.models[arg(1)];
            Snap before = snap(m);
            auto cl = m != nullptr ? m->clone() : nullptr;
            w.models[arg(2)] = cl;
            r = "U=" + std::to_string(before == snap(m)) + " RN=" + (cl == nullptr ? std::string("-") : std::to_string(cl != m));
        } else if (op == "equals") {
            auto a = w.models[arg(1)];
            auto b = w.models[arg(2)];
            r = "eq=" + ((a != nullptr && b != nullptr) ? std::to_string(a->equals(b)) : std::string("-"));
        } else if (op == "dump") {
            r = modelHashes(w.models[arg(1)]);
        } else if (op == "release") {
            w.models.erase(arg(1));
        } else if (op == "touch") {
            auto doc = std::make_shared<XmlDoc>();
            doc->parse("<a/>");
            r = "s=" + hexencode(doc->rootNode()->convertToString());
        } else if (op == "hset") {
            xmlSetStructuredErrorFunc(nullptr, reinterpret_cast<xmlStructuredErrorFunc>(errHandler));
        } else if (op == "hget") {
            r = "h=" + std::to_string(xmlStructuredError != nullptr);
        } else {
            r = "ERR(unknown-step)";
        }
        out += (out.empty() ? "" : " ") + op + "{" + (r.empty() ? "" : r + " ") + "g=" + std::to_string(readFlag()) + "}";
    }
    return out;
}

int main(int argc, char **argv)
{
    if (argc < 4 || std::string(argv[1]) != "run") {
        fprintf(stderr, "usage: c12_driver run <table> <cases> [--verbose]\n");
        return 2;
    }
    for (int i = 4; i < argc; ++i) {
        if (std::string(argv[i]) == "--verbose") {
            gVerbose = true;
        }
    }
    for (const auto &l : readLines(argv[2])) {
        auto f = splitws(l, '\t');
        if (f.size() >= 3) {
            gTable[f[0]] = std::make_pair(f[1], hexdecode(f[2]));
        }
    }
    return runCases(readLines(argv[3]), runCase, 60);
}
