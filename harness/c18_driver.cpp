// C18 driver.  argv[1] = case file, one case per line.
//
//   G <n> <layout>:<c0,c1,...> <ops> <queries>
//       n variables v0..v(n-1); variable k lives in component c_k (all components are children of
//       the model).  layout V: every variable gets units/interface so that the model can be valid,
//       and every third variable an equation, so that Analyser::analyseModel really runs and fills
//       the AnalyserModel cache on its own before the queries; layout J: bare variables (invalid
//       model), Analyser::analyseModel is still called; layout I: bare variables, the AnalyserModel
//       is the one a fresh Analyser holds (Validator::validateModel takes exponential time on dense
//       equivalence networks inside one component, so large invalid models are not analysed).
//       ops: comma separated, "a-b" = Variable::addEquivalence(va, vb), "xK" = destroy variable K
//       (removed from its component, last shared_ptr dropped); "-" = none.
//       queries: comma separated "a:b"; each is asked through Variable::hasEquivalentVariable(.., true),
//       hasEquivalentVariable(.., false) and AnalyserModel::areEquivalentVariables, in the given order.
//       output: "<t d c>,<t d c>,... adj=<live equivalentVariable(i) lists, sorted> cc=<BFS component labels> am=<type>"
//   H <n> <layout>:<c0,c1,...> <events>
//       a history: edits interleaved with questions.  events, comma separated: "a-b" addEquivalence,
//       "a/b" Variable::removeEquivalence, "rK" vK->removeAllEquivalences(), "xK" destroy variable K,
//       "?a:b" ask (va, vb) through hasEquivalentVariable(.., true), hasEquivalentVariable(.., false),
//       libcellml::areEquivalentVariables (utilities) and AnalyserModel::areEquivalentVariables on an
//       AnalyserModel obtained AFTER the last edit (it is documented as a snapshot), and compute the
//       driver's own BFS verdict over equivalentVariable(i) lists at that moment.
//       further events: "a=b" 4-argument addEquivalence(va, vb, mappingId, connectionId); "ma:b" / "ca:b"
//       Variable::setEquivalenceMappingId / setEquivalenceConnectionId(va, vb, id); "Ma:b" / "Ca:b"
//       removeEquivalenceMappingId / removeEquivalenceConnectionId; "P" print the model with Printer, parse the
//       text with Parser and go on with the objects of the parsed model; "A" take a new AnalyserModel now;
//       "!k:a:b" ask the k-th AnalyserModel taken so far (an OLD snapshot; only in keep mode).
//       optional 5th field "keep": ONE Analyser lives through the whole history and analyseModel is called
//       again on it after edits (otherwise a fresh Analyser is made each time and the old one released).
//       output: "<t d u c B>,... adj=<final lists> cc=<final labels> am=<number of AnalyserModels taken> old=<answers of the ! questions>"
//   K <hex a> <hex b>
//       the cache key computed by the library for the two addresses (guarded hook, no dereference).
//       output: "<hex first> <hex second>"
#include <algorithm>
#include <chrono>
#include <cstdint>
#include <cstdio>
#include <map>
#include <queue>
#include <sstream>

#include <libcellml>

#include "utilities.h"

#include "forkrun.hpp"

namespace libcellml {
// src/analysermodel.cpp, under LIBCELLML_VERIF: the key computation of AnalyserModel::areEquivalentVariables.
void verifEquivalentVariablesCacheKey(uintptr_t v1, uintptr_t v2, uintptr_t *out);
} // namespace libcellml

using namespace verif;

// A single question that takes longer than this is reported (token SLOW): the search is linear in the size of the
// connected part, a question on a model of a few thousand variables takes milliseconds.
static const double QUERY_BUDGET_SECONDS = 5.0;

struct Stopwatch
{
    std::chrono::steady_clock::time_point t0 = std::chrono::steady_clock::now();
    double seconds() const
    {
        return std::chrono::duration<double>(std::chrono::steady_clock::now() - t0).count();
    }
};

static std::string slowToken(const std::string &what, double s)
{
    char buf[160];
    snprintf(buf, sizeof buf, "SLOW(question %s took %.1f s, budget %.0f s)", what.c_str(), s, QUERY_BUDGET_SECONDS);
    return buf;
}

static std::string hex64(uint64_t v)
{
    char buf[32];
    snprintf(buf, sizeof buf, "%llx", static_cast<unsigned long long>(v));
    return buf;
}

static std::string keyCase(const std::vector<std::string> &f)
{
    if (f.size() < 3) {
        return "BADCASE";
    }
    uint64_t a = strtoull(f[1].c_str(), nullptr, 16);
    uint64_t b = strtoull(f[2].c_str(), nullptr, 16);
    uintptr_t out[2] = {0, 0};
    libcellml::verifEquivalentVariablesCacheKey(static_cast<uintptr_t>(a), static_cast<uintptr_t>(b), out);
    return hex64(out[0]) + " " + hex64(out[1]);
}

static const char *MATH_HEAD = "<math xmlns=\"http://www.w3.org/1998/Math/MathML\" xmlns:cellml=\"http://www.cellml.org/cellml/2.0#\">";

static std::string graphCase(const std::vector<std::string> &f)
{
    if (f.size() < 5) {
        return "BADCASE";
    }
    const size_t n = std::stoul(f[1]);
    const bool valid = f[2].size() > 1 && f[2][0] == 'V';
    std::vector<std::string> cs = splitws(f[2].substr(2), ',');
    if (cs.size() != n) {
        return "BADCASE";
    }
    auto model = libcellml::Model::create("m");
    std::vector<libcellml::ComponentPtr> comps;
    std::vector<size_t> compOf(n);
    std::vector<libcellml::VariablePtr> vars(n);
    for (size_t k = 0; k < n; ++k) {
        compOf[k] = std::stoul(cs[k]);
        while (comps.size() <= compOf[k]) {
            auto c = libcellml::Component::create("c" + std::to_string(comps.size()));
            model->addComponent(c);
            comps.push_back(c);
        }
    }
    for (size_t k = 0; k < n; ++k) {
        vars[k] = libcellml::Variable::create("v" + std::to_string(k));
        if (valid) {
            vars[k]->setUnits("dimensionless");
            vars[k]->setInterfaceType("public");
        }
        comps[compOf[k]]->addVariable(vars[k]);
    }
    // construction history
    if (f[3] != "-") {
        for (const auto &o : splitws(f[3], ',')) {
            if (o[0] == 'x') {
                size_t k = std::stoul(o.substr(1));
                if (vars[k] != nullptr) {
                    std::weak_ptr<libcellml::Variable> w = vars[k];
                    comps[compOf[k]]->removeVariable(vars[k]);
                    vars[k].reset();
                    if (!w.expired()) {
                        return "NOTEXPIRED";
                    }
                }
            } else {
                auto ab = splitws(o, '-');
                libcellml::Variable::addEquivalence(vars[std::stoul(ab[0])], vars[std::stoul(ab[1])]);
            }
        }
    }
    if (valid) {
        std::vector<std::string> math(comps.size());
        for (size_t k = 0; k < n; k += 3) {
            if (vars[k] != nullptr) {
                math[compOf[k]] += "<apply><eq/><ci>v" + std::to_string(k) + "</ci><cn cellml:units=\"dimensionless\">1</cn></apply>";
            }
        }
        for (size_t c = 0; c < comps.size(); ++c) {
            if (!math[c].empty()) {
                comps[c]->setMath(std::string(MATH_HEAD) + math[c] + "</math>");
            }
        }
    }
    auto analyser = libcellml::Analyser::create();
    if (f[2][0] != 'I') {
        analyser->analyseModel(model);
    }
    auto am = analyser->model();
    if (am == nullptr) {
        return "NOANALYSERMODEL";
    }
    // the queries, in the order of the case
    std::ostringstream o;
    bool first = true;
    if (f[4] != "-") {
        for (const auto &q : splitws(f[4], ',')) {
            auto ab = splitws(q, ':');
            const auto &va = vars[std::stoul(ab[0])];
            const auto &vb = vars[std::stoul(ab[1])];
            if (va == nullptr || vb == nullptr) {
                return "BADCASE(query on a destroyed variable)";
            }
            if (!first) {
                o << ',';
            }
            first = false;
            Stopwatch sw;
            o << (va->hasEquivalentVariable(vb, true) ? '1' : '0')
              << (va->hasEquivalentVariable(vb, false) ? '1' : '0')
              << (am->areEquivalentVariables(va, vb) ? '1' : '0');
            if (sw.seconds() > QUERY_BUDGET_SECONDS) {
                return slowToken(q, sw.seconds());
            }
        }
    }
    // observation of the connection graph through equivalentVariable(i) only
    std::map<const libcellml::Variable *, size_t> indexOf;
    for (size_t k = 0; k < n; ++k) {
        if (vars[k] != nullptr) {
            indexOf[vars[k].get()] = k;
        }
    }
    std::vector<std::vector<size_t>> adj(n);
    o << " adj=";
    for (size_t k = 0; k < n; ++k) {
        if (vars[k] == nullptr) {
            continue;
        }
        for (size_t i = 0; i < vars[k]->equivalentVariableCount(); ++i) {
            auto e = vars[k]->equivalentVariable(i);
            auto it = indexOf.find(e.get());
            if (e == nullptr || it == indexOf.end()) {
                return "FOREIGN(equivalentVariable returned null or an unknown object)";
            }
            adj[k].push_back(it->second);
        }
        std::sort(adj[k].begin(), adj[k].end());
        o << k << ':';
        for (size_t i = 0; i < adj[k].size(); ++i) {
            o << (i ? "." : "") << adj[k][i];
        }
        o << ';';
    }
    // independent oracle: BFS component labels over those lists
    std::vector<long> label(n, -1);
    for (size_t k = 0; k < n; ++k) {
        if (vars[k] == nullptr || label[k] >= 0) {
            continue;
        }
        std::queue<size_t> todo;
        todo.push(k);
        label[k] = long(k);
        while (!todo.empty()) {
            size_t x = todo.front();
            todo.pop();
            for (size_t y : adj[x]) {
                if (label[y] < 0) {
                    label[y] = long(k);
                    todo.push(y);
                }
            }
        }
    }
    o << " cc=";
    for (size_t k = 0; k < n; ++k) {
        o << (k ? "," : "");
        if (vars[k] == nullptr) {
            o << 'x';
        } else {
            o << label[k];
        }
    }
    o << " am=" << int(am->type());
    return o.str();
}

struct World
{
    size_t n = 0;
    char layout = 'I';
    libcellml::ModelPtr model;
    std::vector<libcellml::ComponentPtr> comps;
    std::vector<size_t> compOf;
    std::vector<libcellml::VariablePtr> vars;
};

static bool makeWorld(World &w, const std::string &ns, const std::string &layoutSpec)
{
    w.n = std::stoul(ns);
    w.layout = layoutSpec[0];
    std::vector<std::string> cs = splitws(layoutSpec.substr(2), ',');
    if (cs.size() != w.n) {
        return false;
    }
    w.model = libcellml::Model::create("m");
    w.compOf.resize(w.n);
    w.vars.resize(w.n);
    for (size_t k = 0; k < w.n; ++k) {
        w.compOf[k] = std::stoul(cs[k]);
        while (w.comps.size() <= w.compOf[k]) {
            auto c = libcellml::Component::create("c" + std::to_string(w.comps.size()));
            w.model->addComponent(c);
            w.comps.push_back(c);
        }
    }
    for (size_t k = 0; k < w.n; ++k) {
        w.vars[k] = libcellml::Variable::create("v" + std::to_string(k));
        if (w.layout == 'V') {
            w.vars[k]->setUnits("dimensionless");
            w.vars[k]->setInterfaceType("public");
        }
        w.comps[w.compOf[k]]->addVariable(w.vars[k]);
    }
    return true;
}

static void rebuildMath(World &w)
{
    if (w.layout != 'V') {
        return;
    }
    std::vector<std::string> math(w.comps.size());
    for (size_t k = 0; k < w.n; k += 3) {
        if (w.vars[k] != nullptr) {
            math[w.compOf[k]] += "<apply><eq/><ci>v" + std::to_string(k) + "</ci><cn cellml:units=\"dimensionless\">1</cn></apply>";
        }
    }
    for (size_t c = 0; c < w.comps.size(); ++c) {
        w.comps[c]->setMath(math[c].empty() ? std::string() : std::string(MATH_HEAD) + math[c] + "</math>");
    }
}

// BFS over equivalentVariable(i) lists, on raw object identity
static bool bfsConnected(const libcellml::VariablePtr &a, const libcellml::VariablePtr &b)
{
    std::vector<libcellml::VariablePtr> seen {a};
    for (size_t i = 0; i < seen.size(); ++i) {
        if (seen[i] == b) {
            return true;
        }
        for (size_t j = 0; j < seen[i]->equivalentVariableCount(); ++j) {
            auto e = seen[i]->equivalentVariable(j);
            if (e != nullptr && std::find(seen.begin(), seen.end(), e) == seen.end()) {
                seen.push_back(e);
            }
        }
    }
    return false;
}

static std::string finalDump(World &w, std::string &err)
{
    std::ostringstream o;
    std::map<const libcellml::Variable *, size_t> indexOf;
    for (size_t k = 0; k < w.n; ++k) {
        if (w.vars[k] != nullptr) {
            indexOf[w.vars[k].get()] = k;
        }
    }
    std::vector<std::vector<size_t>> adj(w.n);
    o << " adj=";
    for (size_t k = 0; k < w.n; ++k) {
        if (w.vars[k] == nullptr) {
            continue;
        }
        for (size_t i = 0; i < w.vars[k]->equivalentVariableCount(); ++i) {
            auto e = w.vars[k]->equivalentVariable(i);
            auto it = indexOf.find(e.get());
            if (e == nullptr || it == indexOf.end()) {
                err = "FOREIGN(equivalentVariable returned null or an unknown object)";
                return "";
            }
            adj[k].push_back(it->second);
        }
        std::sort(adj[k].begin(), adj[k].end());
        o << k << ':';
        for (size_t i = 0; i < adj[k].size(); ++i) {
            o << (i ? "." : "") << adj[k][i];
        }
        o << ';';
    }
    std::vector<long> label(w.n, -1);
    for (size_t k = 0; k < w.n; ++k) {
        if (w.vars[k] == nullptr || label[k] >= 0) {
            continue;
        }
        std::queue<size_t> todo;
        todo.push(k);
        label[k] = long(k);
        while (!todo.empty()) {
            size_t x = todo.front();
            todo.pop();
            for (size_t y : adj[x]) {
                if (label[y] < 0) {
                    label[y] = long(k);
                    todo.push(y);
                }
            }
        }
    }
    o << " cc=";
    for (size_t k = 0; k < w.n; ++k) {
        o << (k ? "," : "");
        if (w.vars[k] == nullptr) {
            o << 'x';
        } else {
            o << label[k];
        }
    }
    return o.str();
}

static std::string historyCase(const std::vector<std::string> &f)
{
    if (f.size() < 4) {
        return "BADCASE";
    }
    World w;
    if (!makeWorld(w, f[1], f[2])) {
        return "BADCASE";
    }
    const bool keep = f.size() > 4 && f[4] == "keep";
    libcellml::AnalyserPtr analyser;
    libcellml::AnalyserModelPtr am;
    std::vector<libcellml::AnalyserModelPtr> ams; // keep mode only: every AnalyserModel taken, in order
    bool dirty = true;
    size_t taken = 0;
    std::ostringstream o;
    std::string old;
    bool first = true;
    size_t evIndex = 0;
    auto takeAnalyserModel = [&]() -> bool {
        rebuildMath(w);
        if (!keep || analyser == nullptr) {
            analyser = libcellml::Analyser::create();
        }
        if (w.layout != 'I') {
            analyser->analyseModel(w.model); // keep mode: the SAME Analyser analyses the SAME Model object again
        }
        am = analyser->model();
        if (am == nullptr) {
            return false;
        }
        if (keep) {
            ams.push_back(am);
        }
        dirty = false;
        ++taken;
        return true;
    };
    if (f[3] != "-") {
        for (const auto &ev : splitws(f[3], ',')) {
            ++evIndex;
            if (ev[0] == '!') {
                auto kab = splitws(ev.substr(1), ':');
                size_t k = std::stoul(kab[0]);
                const auto &va = w.vars[std::stoul(kab[1])];
                const auto &vb = w.vars[std::stoul(kab[2])];
                if (k >= ams.size() || va == nullptr || vb == nullptr) {
                    return "BADCASE(old AnalyserModel question)";
                }
                old += ams[k]->areEquivalentVariables(va, vb) ? '1' : '0';
                continue;
            }
            if (ev[0] == 'A') {
                if (!keep) {
                    am.reset();
                    analyser.reset();
                }
                if (!takeAnalyserModel()) {
                    return "NOANALYSERMODEL";
                }
                continue;
            }
            if (ev[0] == '?') {
                auto ab = splitws(ev.substr(1), ':');
                const auto &va = w.vars[std::stoul(ab[0])];
                const auto &vb = w.vars[std::stoul(ab[1])];
                if (va == nullptr || vb == nullptr) {
                    return "BADCASE(query on a destroyed variable)";
                }
                if (dirty && !takeAnalyserModel()) {
                    return "NOANALYSERMODEL";
                }
                if (!first) {
                    o << ',';
                }
                first = false;
                Stopwatch sw;
                o << (va->hasEquivalentVariable(vb, true) ? '1' : '0')
                  << (va->hasEquivalentVariable(vb, false) ? '1' : '0')
                  << (libcellml::areEquivalentVariables(va, vb) ? '1' : '0')
                  << (am->areEquivalentVariables(va, vb) ? '1' : '0');
                if (sw.seconds() > QUERY_BUDGET_SECONDS) {
                    return slowToken(ev, sw.seconds());
                }
                o << (bfsConnected(va, vb) ? '1' : '0');
                continue;
            }
            dirty = true;
            // the previous Analyser (its issues, its AnalyserModel) may hold shared_ptrs to variables: let go of it
            if (!keep) {
                am.reset();
                analyser.reset();
            }
            const std::string idText = "id" + std::to_string(evIndex);
            if (ev[0] == 'P') {
                auto text = libcellml::Printer::create()->printModel(w.model);
                auto parser = libcellml::Parser::create();
                auto parsed = parser->parseModel(text);
                if (parsed == nullptr || parser->errorCount() > 0) {
                    return "REPARSE_FAILED(" + std::to_string(parser->errorCount()) + " errors)";
                }
                for (size_t c = 0; c < w.comps.size(); ++c) {
                    w.comps[c] = parsed->component("c" + std::to_string(c));
                    if (w.comps[c] == nullptr) {
                        return "REPARSE_FAILED(component lost)";
                    }
                }
                for (size_t k = 0; k < w.n; ++k) {
                    if (w.vars[k] != nullptr) {
                        w.vars[k] = w.comps[w.compOf[k]]->variable("v" + std::to_string(k));
                        if (w.vars[k] == nullptr) {
                            return "REPARSE_FAILED(variable lost)";
                        }
                    }
                }
                w.model = parsed;
            } else if (ev[0] == 'm' || ev[0] == 'c' || ev[0] == 'M' || ev[0] == 'C') {
                auto ab = splitws(ev.substr(1), ':');
                const auto &va = w.vars[std::stoul(ab[0])];
                const auto &vb = w.vars[std::stoul(ab[1])];
                switch (ev[0]) {
                case 'm': libcellml::Variable::setEquivalenceMappingId(va, vb, idText); break;
                case 'c': libcellml::Variable::setEquivalenceConnectionId(va, vb, idText); break;
                case 'M': libcellml::Variable::removeEquivalenceMappingId(va, vb); break;
                default: libcellml::Variable::removeEquivalenceConnectionId(va, vb); break;
                }
            } else if (ev.find('=') != std::string::npos) {
                auto ab = splitws(ev, '=');
                const auto &va = w.vars[std::stoul(ab[0])];
                const auto &vb = w.vars[std::stoul(ab[1])];
                if (va == nullptr || vb == nullptr) {
                    return "BADCASE(4-argument addEquivalence on a destroyed variable)";
                }
                libcellml::Variable::addEquivalence(va, vb, "map_" + idText, "con_" + idText);
            } else if (ev[0] == 'x') {
                size_t k = std::stoul(ev.substr(1));
                if (w.vars[k] != nullptr) {
                    std::weak_ptr<libcellml::Variable> wk = w.vars[k];
                    w.comps[w.compOf[k]]->removeVariable(w.vars[k]);
                    w.vars[k].reset();
                    if (!wk.expired()) {
                        return "NOTEXPIRED";
                    }
                }
            } else if (ev[0] == 'r') {
                size_t k = std::stoul(ev.substr(1));
                if (w.vars[k] != nullptr) {
                    w.vars[k]->removeAllEquivalences();
                }
            } else if (ev.find('/') != std::string::npos) {
                auto ab = splitws(ev, '/');
                libcellml::Variable::removeEquivalence(w.vars[std::stoul(ab[0])], w.vars[std::stoul(ab[1])]);
            } else {
                auto ab = splitws(ev, '-');
                libcellml::Variable::addEquivalence(w.vars[std::stoul(ab[0])], w.vars[std::stoul(ab[1])]);
            }
        }
    }
    std::string err;
    std::string dump = finalDump(w, err);
    if (!err.empty()) {
        return err;
    }
    o << dump << " am=" << taken << " old=" << old;
    return o.str();
}

static std::string oneCase(const std::string &line)
{
    auto f = splitws(line, ' ');
    if (f[0] == "K") {
        return keyCase(f);
    }
    if (f[0] == "G") {
        return graphCase(f);
    }
    if (f[0] == "H") {
        return historyCase(f);
    }
    return "BADCASE";
}

int main(int argc, char **argv)
{
    if (argc < 2) {
        fprintf(stderr, "usage: c18_driver <case file> [seconds per case]\n");
        return 2;
    }
    // argv[2]: seconds allowed for one case (default 30); a case of the quick tier takes well under 0.1 s
    unsigned perCase = argc > 2 ? unsigned(std::stoul(argv[2])) : 30;
    return runCases(readLines(argv[1]), oneCase, perCase, 16);
}
