// c14_driver — C++ side of the C14 (CellML 1.0 / 1.1 documents are transformed in permissive mode) correspondence and oracle.
//
// usage: c14_driver <case file>      (compile with -fno-access-control, as c02_driver: the per-direction ids of an
//                                     equivalence are read from Variable::VariableImpl)
// One case per line:
//   S <script>      commands of harness/common/script.hpp separated by ';' (the model is slot 0): the 2.0 ORIGINAL
//       -> cyclic-units   (the model's units reference each other in a cycle: printModel would die, finding K3 of C01 / C02)
//       -> ok <TAB> ENT0 <TAB> V=<validator issue count, -1: died> <TAB> D0 = dumpModel(sorted) <TAB> P1 = s<hex> of printModel
//          <TAB> PI=<printer issue count>
//   T <hex of a document>    a (1.0 / 1.1 / any) document: parsed permissively, then strictly
//       -> ok <TAB> IP <TAB> ENTP <TAB> DP <TAB> VP <TAB> IS <TAB> SM <TAB> DS
//          IP   issues of Parser::create(false)->parseModel:   n=<count> then <level letter>:<rule int> ... in order
//          ENTP value-level description of the model (grammar: harness/c02_driver.cpp), or OOS(..)
//          DP   dumpModel(sorted = true)
//          VP   Validator on the permissively parsed model (forked grandchild): n=<count> <level>:<rule> ... | DIED
//          IS   issues of the STRICT parser on the same text
//          SM   null | the ENT of the model the strict parser returned
//          DS   its dump ("-" for null)
#include <cstdio>
#include <functional>
#include <sys/wait.h>
#include <unistd.h>
#include <map>
#include <string>
#include <vector>

#include <libcellml>

#include "variable_p.h"

#include "dump.hpp"
#include "forkrun.hpp"
#include "issues.hpp"
#include "script.hpp"

using namespace verif;
using namespace libcellml;

static std::string hx(const std::string &s)
{
    return "s" + hexencode(s);
}

struct Ent
{
    std::vector<const ImportSource *> sources;
    std::string oos;

    std::string src(const ImportSourcePtr &i)
    {
        if (i == nullptr) {
            return "-";
        }
        size_t k = 0;
        for (; k < sources.size(); ++k) {
            if (sources[k] == i.get()) {
                break;
            }
        }
        if (k == sources.size()) {
            sources.push_back(i.get());
        }
        return "(I " + std::to_string(k) + " " + hx(i->url()) + " " + hx(i->id()) + ")";
    }

    std::string units(const UnitsPtr &u)
    {
        std::string o = "(U " + hx(u->name()) + " " + hx(u->id()) + " " + src(u->importSource()) + " " + hx(u->importReference()) + " (";
        for (size_t k = 0; k < u->unitCount(); ++k) {
            std::string r;
            std::string p;
            std::string id;
            double e = 0.0;
            double m = 0.0;
            u->unitAttributes(k, r, p, e, m, id);
            o += " (D " + hx(r) + " " + hx(p) + " n" + dnum(e) + " n" + dnum(m) + " " + hx(id) + ")";
        }
        return o + " ))";
    }

    std::string variable(const VariablePtr &v)
    {
        auto u = v->units();
        return "(V " + hx(v->name()) + " " + hx(v->id()) + " " + (u == nullptr ? std::string("-") : hx(u->name())) + " " + hx(v->initialValue()) + " " + hx(v->interfaceType()) + ")";
    }

    std::string vref(const VariablePtr &v, const ComponentPtr &owner)
    {
        if (v == nullptr) {
            return "-";
        }
        auto p = v->parent();
        return std::string((p != nullptr && p.get() == static_cast<ParentedEntity *>(owner.get())) ? "S " : "O ") + hx(v->name());
    }

    std::string reset(const ResetPtr &r, const ComponentPtr &owner)
    {
        return "(R " + hx(r->id()) + " " + (r->isOrderSet() ? std::to_string(r->order()) : std::string("-")) + " " + vref(r->variable(), owner) + " " + vref(r->testVariable(), owner)
               + " " + hx(r->testValue()) + " " + hx(r->testValueId()) + " " + hx(r->resetValue()) + " " + hx(r->resetValueId()) + ")";
    }

    std::string component(const ComponentPtr &c, size_t depth)
    {
        if (depth > 200) {
            oos = "too-deep";
            return "-";
        }
        std::string o = "(C " + hx(c->name()) + " " + hx(c->id()) + " " + hx(c->encapsulationId()) + " " + src(c->importSource()) + " " + hx(c->importReference()) + " " + hx(c->math()) + " (";
        for (size_t i = 0; i < c->variableCount(); ++i) {
            o += " " + variable(c->variable(i));
        }
        o += " ) (";
        for (size_t i = 0; i < c->resetCount(); ++i) {
            o += " " + reset(c->reset(i), c);
        }
        o += " ) (";
        for (size_t i = 0; i < c->componentCount(); ++i) {
            o += " " + component(c->component(i), depth + 1);
        }
        return o + " ))";
    }

    struct VarInfo
    {
        VariablePtr v;
        std::string path;
        size_t index;
        std::vector<Variable *> queue; // remaining equivalent variables, in the variable's own order
        size_t head = 0;
    };

    void collect(const ComponentEntityPtr &e, const std::string &path, std::vector<VarInfo> &out, size_t depth)
    {
        if (depth > 200) {
            return;
        }
        if (auto c = std::dynamic_pointer_cast<Component>(e)) {
            for (size_t i = 0; i < c->variableCount(); ++i) {
                VarInfo vi;
                vi.v = c->variable(i);
                vi.path = path;
                vi.index = i;
                out.push_back(vi);
            }
        }
        for (size_t i = 0; i < e->componentCount(); ++i) {
            collect(e->component(i), path.empty() ? std::to_string(i) : path + "." + std::to_string(i), out, depth + 1);
        }
    }

    std::string equivalences(const ModelPtr &m)
    {
        std::vector<VarInfo> vars;
        collect(m, "", vars, 0);
        std::map<Variable *, size_t> idx;
        for (size_t k = 0; k < vars.size(); ++k) {
            if (idx.count(vars[k].v.get()) != 0) {
                oos = "variable-listed-twice";
                return "";
            }
            idx[vars[k].v.get()] = k;
        }
        size_t remaining = 0;
        for (auto &vi : vars) {
            for (size_t j = 0; j < vi.v->equivalentVariableCount(); ++j) {
                auto w = vi.v->equivalentVariable(j);
                if (idx.count(w.get()) == 0) {
                    oos = "equivalent-variable-outside-model";
                    return "";
                }
                vi.queue.push_back(w.get());
                ++remaining;
            }
        }
        std::string o;
        while (remaining > 0) {
            bool progress = false;
            for (size_t k = 0; k < vars.size() && !progress; ++k) {
                auto &a = vars[k];
                if (a.head >= a.queue.size()) {
                    continue;
                }
                auto &b = vars[idx[a.queue[a.head]]];
                if (&a == &b) {
                    oos = "self-equivalence";
                    return "";
                }
                if (b.head < b.queue.size() && b.queue[b.head] == a.v.get()) {
                    std::string mab = a.v->pFunc()->equivalentMappingId(b.v);
                    std::string mba = b.v->pFunc()->equivalentMappingId(a.v);
                    std::string cab = a.v->pFunc()->equivalentConnectionId(b.v);
                    std::string cba = b.v->pFunc()->equivalentConnectionId(a.v);
                    if (mab != mba || cab != cba) {
                        oos = "ids-differ-by-direction";
                        return "";
                    }
                    o += " (E " + (a.path.empty() ? std::string("-") : a.path) + " " + std::to_string(a.index) + " " + (b.path.empty() ? std::string("-") : b.path) + " " + std::to_string(b.index)
                         + " " + hx(mab) + " " + hx(cab) + " " + hx(Variable::equivalenceConnectionId(a.v, b.v)) + ")";
                    ++a.head;
                    ++b.head;
                    remaining -= 2;
                    progress = true;
                }
            }
            if (!progress) {
                oos = "no-global-equivalence-order";
                return "";
            }
        }
        return o;
    }

    std::string model(const ModelPtr &m)
    {
        std::string o = "(M " + hx(m->name()) + " " + hx(m->id()) + " " + hx(m->encapsulationId()) + " (";
        // import sources are numbered in the order the PRINTER meets them is irrelevant: any injective numbering will do
        for (size_t i = 0; i < m->unitsCount(); ++i) {
            o += " " + units(m->units(i));
        }
        o += " ) (";
        for (size_t i = 0; i < m->componentCount(); ++i) {
            o += " " + component(m->component(i), 0);
        }
        o += " ) (" + equivalences(m) + " ))";
        if (!oos.empty()) {
            return "OOS(" + oos + ")";
        }
        return o;
    }
};

static std::string ent(const ModelPtr &m)
{
    if (m == nullptr) {
        return "OOS(null)";
    }
    Ent e;
    return e.model(m);
}

static std::string issueList(const LoggerPtr &l)
{
    std::string o = "n=" + std::to_string(l->issueCount());
    for (size_t i = 0; i < l->issueCount(); ++i) {
        auto is = l->issue(i);
        o += " " + issueLevelLetter(is->level()) + ":" + std::to_string(int(is->referenceRule()));
    }
    return o;
}

// the Validator runs in a forked grandchild: hand-shaped documents may yield models outside its own domain
// (units cycles: findings of C01) on which it can die or run for very long
static std::string validateIssues(const ModelPtr &m)
{
    if (m == nullptr) {
        return "n=0";
    }
    int fds[2];
    if (pipe(fds) != 0) {
        return "DIED";
    }
    fflush(stdout);
    pid_t pid = fork();
    if (pid == 0) {
        close(fds[0]);
        alarm(8);
        auto v = Validator::create();
        v->validateModel(m);
        std::string s = issueList(v);
        if (s.size() > 60000) {
            s.resize(60000);
        }
        ssize_t w = write(fds[1], s.data(), s.size());
        _exit(w == ssize_t(s.size()) ? 0 : 1);
    }
    close(fds[1]);
    std::string got;
    char buf[4096];
    ssize_t r;
    while ((r = read(fds[0], buf, sizeof buf)) > 0) {
        got.append(buf, size_t(r));
    }
    close(fds[0]);
    int status = 0;
    waitpid(pid, &status, 0);
    if (!WIFEXITED(status) || WEXITSTATUS(status) != 0) {
        return "DIED";
    }
    return got;
}

static long validateCount(const ModelPtr &m)
{
    std::string s = validateIssues(m);
    if (s == "DIED") {
        return -1;
    }
    return std::stol(s.substr(2));
}

// a cycle in the "units child references units of the model by name" graph
static bool unitsCycle(const ModelPtr &m)
{
    size_t n = m->unitsCount();
    std::vector<int> state(n, 0); // 0 new, 1 on the path, 2 done
    std::function<bool(size_t)> visit = [&](size_t i) -> bool {
        if (state[i] == 1) {
            return true;
        }
        if (state[i] == 2) {
            return false;
        }
        state[i] = 1;
        auto u = m->units(i);
        for (size_t k = 0; k < u->unitCount(); ++k) {
            std::string ref = u->unitAttributeReference(k);
            // (also the empty name: the Validator follows it, Model::hasImports does not)
            if (!m->hasUnits(ref)) {
                continue;
            }
            // Model::units(name) is the first units with that name
            auto target = m->units(ref);
            for (size_t j = 0; j < n; ++j) {
                if (m->units(j) == target) {
                    if (visit(j)) {
                        return true;
                    }
                    break;
                }
            }
        }
        state[i] = 2;
        return false;
    };
    for (size_t i = 0; i < n; ++i) {
        if (visit(i)) {
            return true;
        }
    }
    return false;
}

static std::string runCase(const std::string &line)
{
    if (line.compare(0, 2, "S ") == 0) {
        Interp in;
        for (const auto &cmd : splitws(line.substr(2), ';')) {
            if (!cmd.empty()) {
                in.exec(cmd);
            }
        }
        auto m = in.model(0);
        if (m == nullptr) {
            return "nomodel";
        }
        if (unitsCycle(m)) {
            // Printer::printModel -> Model::hasImports recurses without end on a units reference cycle (known finding of
            // C01 / C02: K3 family); there is no 2.0 print to rewrite
            return "cyclic-units";
        }
        std::string out = "ok\t" + ent(m);
        out += "\tV=" + std::to_string(validateCount(m));
        out += "\t" + dumpModel(m, true);
        auto printer = Printer::create();
        std::string p1 = printer->printModel(m);
        out += "\t" + hx(p1);
        out += "\tPI=" + std::to_string(printer->issueCount());
        return out;
    }
    if (line.compare(0, 2, "T ") == 0) {
        std::string text = hexdecode(line.substr(2));
        auto permissive = Parser::create(false);
        auto mp = permissive->parseModel(text);
        std::string out = "ok\t" + issueList(permissive);
        out += "\t" + ent(mp);
        out += "\t" + (mp != nullptr ? dumpModel(mp, true) : std::string("-"));
        out += "\t" + validateIssues(mp);
        auto strict = Parser::create(true);
        auto ms = strict->parseModel(text);
        out += "\t" + issueList(strict);
        out += "\t" + (ms != nullptr ? ent(ms) : std::string("null"));
        out += "\t" + (ms != nullptr ? dumpModel(ms, true) : std::string("-"));
        return out;
    }
    return "badcase";
}

int main(int argc, char **argv)
{
    if (argc < 2) {
        fprintf(stderr, "usage: %s cases\n", argv[0]);
        return 2;
    }
    return runCases(readLines(argv[1]), runCase, 30);
}
