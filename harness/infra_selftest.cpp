// infra_selftest — exercises harness/common/{script,dump,snapshot,issues}.hpp.
// usage: infra_selftest [--validate] [--sorted] <file>
//   file: one script per line, commands separated by ';'
//   output per script:  <exec results joined by ','> | <dumpModel(slot 0) or -> | <dumpStructure>
//   --validate appends:  | issues=<dumpIssues of Validator on slot 0> coherent=<ok or first incoherence>
//   --sorted   uses dumpModel(..., sorted=true)
#include <cstdio>
#include <string>
#include <vector>

#include <libcellml>

#include "dump.hpp"
#include "forkrun.hpp"
#include "issues.hpp"
#include "script.hpp"
#include "snapshot.hpp"

using namespace verif;

static bool gValidate = false;
static bool gSorted = false;

static std::string runScript(const std::string &script)
{
    Interp in;
    std::string out;
    bool first = true;
    for (const auto &cmd : splitws(script, ';')) {
        bool blank = true;
        for (char c : cmd) {
            if (c != ' ' && c != '\t' && c != '\r') {
                blank = false;
            }
        }
        if (blank) {
            continue;
        }
        if (!first) {
            out += ",";
        }
        first = false;
        out += in.exec(cmd);
    }
    auto m = in.model(0);
    out += " | ";
    out += m != nullptr ? dumpModel(m, gSorted) : std::string("-");
    out += " | ";
    out += dumpStructure(in);
    if (gValidate) {
        out += " | ";
        if (m != nullptr) {
            auto v = libcellml::Validator::create();
            v->validateModel(m);
            std::string co = checkLoggerCoherent(v);
            out += "issues=" + dumpIssues(v) + " coherent=" + (co.empty() ? std::string("ok") : co);
            if (v->issueCount() > 0) {
                out += " first=" + dq(v->issue(0)->description());
            }
        } else {
            out += "issues=- coherent=-";
        }
    }
    return out;
}

int main(int argc, char **argv)
{
    const char *file = nullptr;
    for (int i = 1; i < argc; ++i) {
        std::string a = argv[i];
        if (a == "--validate") {
            gValidate = true;
        } else if (a == "--sorted") {
            gSorted = true;
        } else {
            file = argv[i];
        }
    }
    if (file == nullptr) {
        fprintf(stderr, "usage: %s [--validate] [--sorted] scripts\n", argv[0]);
        return 2;
    }
    return runCases(readLines(file), runScript, 20);
}
