// snapshot.hpp — identity-based snapshot of ALL live slots of an Interp, for ownership / structure checks.
// Objects are named by slot number (pointer identity), so the text is address-free.
//
// One line; one bracketed record per live (non-Empty) slot, in slot order, separated by one space:
//
//   [<slot> <kind> "<name>" parent=<ref> <field>=... ...]
//
//   <ref>   = slot number | ext (object exists but is in no slot) | none (nullptr)
//   <child> = slot number | ?   (child object that is in no slot)
//   name    : "..." escaped as in dump.hpp; `-` for kinds without a name (reset, importsource)
//   parent  : parent() for model/component/variable/units/reset; `-` for importsource
//   fields by kind
//     model        comps=(<child>*) units=(<child>*)
//     component    comps=(<child>*) vars=(<child>*) resets=(<child>*) imp=<ref>
//     variable     eq=(<child>*) units=<ref>
//     units        imp=<ref>
//     reset        var=<ref> testvar=<ref>
//     importsource model=<ref>
//   Child lists are in API order (component(i), variable(i), reset(i), units(i), equivalentVariable(i)).
#pragma once

#include <string>

#include <libcellml>

#include "dump.hpp"
#include "script.hpp"

namespace verif {

inline std::string snapRef(const Interp &in, const libcellml::EntityPtr &p)
{
    if (p == nullptr) {
        return "none";
    }
    long i = in.find(p.get());
    return i < 0 ? std::string("ext") : std::to_string(i);
}

inline std::string snapChild(const Interp &in, const libcellml::EntityPtr &p)
{
    if (p == nullptr) {
        return "null"; // a getter returned nullptr for an index below the count: should not happen
    }
    long i = in.find(p.get());
    return i < 0 ? std::string("?") : std::to_string(i);
}

inline std::string dumpStructure(Interp &in)
{
    std::string out;
    for (size_t s = 0; s < in.slots.size(); ++s) {
        const Slot &sl = in.slots[s];
        if (sl.kind == Kind::Empty || sl.p == nullptr) {
            continue;
        }
        if (!out.empty()) {
            out += " ";
        }
        std::string o = "[" + std::to_string(s) + " " + kindName(sl.kind) + " ";
        auto named = std::dynamic_pointer_cast<libcellml::NamedEntity>(sl.p);
        o += named != nullptr ? dq(named->name()) : std::string("-");
        auto parented = std::dynamic_pointer_cast<libcellml::ParentedEntity>(sl.p);
        o += " parent=" + (parented != nullptr ? snapRef(in, parented->parent()) : std::string("-"));
        auto list = [&in](size_t n, const std::function<libcellml::EntityPtr(size_t)> &get) {
            std::string l = "(";
            for (size_t i = 0; i < n; ++i) {
                l += (i == 0 ? "" : " ") + snapChild(in, get(i));
            }
            return l + ")";
        };
        switch (sl.kind) {
        case Kind::Model: {
            auto m = std::static_pointer_cast<libcellml::Model>(sl.p);
            o += " comps=" + list(m->componentCount(), [&m](size_t i) { return m->component(i); });
            o += " units=" + list(m->unitsCount(), [&m](size_t i) { return m->units(i); });
            break;
        }
        case Kind::Component: {
            auto c = std::static_pointer_cast<libcellml::Component>(sl.p);
            o += " comps=" + list(c->componentCount(), [&c](size_t i) { return c->component(i); });
            o += " vars=" + list(c->variableCount(), [&c](size_t i) { return c->variable(i); });
            o += " resets=" + list(c->resetCount(), [&c](size_t i) { return c->reset(i); });
            o += " imp=" + snapRef(in, c->importSource());
            break;
        }
        case Kind::Variable: {
            auto v = std::static_pointer_cast<libcellml::Variable>(sl.p);
            o += " eq=" + list(v->equivalentVariableCount(), [&v](size_t i) { return v->equivalentVariable(i); });
            o += " units=" + snapRef(in, v->units());
            break;
        }
        case Kind::Units: {
            auto u = std::static_pointer_cast<libcellml::Units>(sl.p);
            o += " imp=" + snapRef(in, u->importSource());
            break;
        }
        case Kind::Reset: {
            auto r = std::static_pointer_cast<libcellml::Reset>(sl.p);
            o += " var=" + snapRef(in, r->variable());
            o += " testvar=" + snapRef(in, r->testVariable());
            break;
        }
        case Kind::ImportSource: {
            auto is = std::static_pointer_cast<libcellml::ImportSource>(sl.p);
            o += " model=" + snapRef(in, is->model());
            break;
        }
        case Kind::Empty:
            break;
        }
        out += o + "]";
    }
    return out;
}

} // namespace verif
