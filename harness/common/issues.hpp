// issues.hpp — canonical view of a Logger's issues and a coherence check of the Logger interface.
//
// dumpIssues(logger): the multiset of (level, referenceRule, item type), sorted, as
//     {n=<issueCount> E:<rule int>:<type int>*<multiplicity> W:... M:...}
//   level letter E/W/M (ERROR/WARNING/MESSAGE; `?<int>` for anything else); rule = int(Issue::ReferenceRule);
//   type = int(CellmlElementType) of issue->item() (-1 when item() is null).  No message wording.
//
// loggerIncoherences(logger): every violated condition as "<tag>: detail"; checkLoggerCoherent returns the
// first one or "".  Conditions (tags):
//   count-mismatch      issueCount() != errorCount()+warningCount()+messageCount()
//   null-issue          issue(i) is null for some i < issueCount()
//   level-enumeration   error(i)/warning(i)/message(i) do not enumerate exactly the issues of that level in
//                       issue() order (pointer identity), or the per-level count differs
//   end-index           issue/error/warning/message(count) is not nullptr
//   empty-description   an issue has an empty description
//   threw               description()/referenceHeading()/url()/item() threw
//   item-missing        issue->item() is null
//   item-null           the accessor that goes with item()->type() returns null (e.g. type MODEL but model()==nullptr)
//   item-type-mismatch  an accessor that does NOT go with the type returns non-null
//   Expected accessor by type (see /repo/src/types.cpp): COMPONENT, COMPONENT_REF -> component();
//   CONNECTION, MAP_VARIABLES -> variablePair(); ENCAPSULATION, MODEL -> model(); IMPORT -> importSource();
//   RESET, RESET_VALUE, TEST_VALUE -> reset(); UNITS -> units(); UNIT -> unitsItem(); VARIABLE -> variable();
//   MATH -> component() (the library stores the owning component under MATH; at this commit component() does not
//   hand it out for MATH, which is reported as item-null); UNDEFINED -> every accessor null.
#pragma once

#include <exception>
#include <map>
#include <string>
#include <tuple>
#include <typeinfo>
#include <vector>

#include <libcellml>

namespace verif {

inline std::string issueLevelLetter(libcellml::Issue::Level l)
{
    switch (l) {
    case libcellml::Issue::Level::ERROR: return "E";
    case libcellml::Issue::Level::WARNING: return "W";
    case libcellml::Issue::Level::MESSAGE: return "M";
    }
    return "?" + std::to_string(int(l));
}

inline std::string dumpIssues(const libcellml::LoggerPtr &logger)
{
    if (logger == nullptr) {
        return "{null}";
    }
    std::map<std::tuple<std::string, int, int>, size_t> ms;
    size_t n = logger->issueCount();
    for (size_t i = 0; i < n; ++i) {
        auto is = logger->issue(i);
        if (is == nullptr) {
            ms[std::make_tuple(std::string("null"), -1, -1)] += 1;
            continue;
        }
        auto item = is->item();
        int type = item != nullptr ? int(item->type()) : -1;
        ms[std::make_tuple(issueLevelLetter(is->level()), int(is->referenceRule()), type)] += 1;
    }
    std::string o = "{n=" + std::to_string(n);
    for (const auto &kv : ms) {
        o += " " + std::get<0>(kv.first) + ":" + std::to_string(std::get<1>(kv.first)) + ":" + std::to_string(std::get<2>(kv.first)) + "*" + std::to_string(kv.second);
    }
    return o + "}";
}

inline std::vector<std::string> loggerIncoherences(const libcellml::LoggerPtr &logger)
{
    using libcellml::CellmlElementType;
    using libcellml::Issue;
    std::vector<std::string> bad;
    if (logger == nullptr) {
        bad.push_back("null-logger: logger is null");
        return bad;
    }
    const size_t n = logger->issueCount();
    const size_t ne = logger->errorCount();
    const size_t nw = logger->warningCount();
    const size_t nm = logger->messageCount();
    if (n != ne + nw + nm) {
        bad.push_back("count-mismatch: issueCount=" + std::to_string(n) + " errors=" + std::to_string(ne) + " warnings=" + std::to_string(nw) + " messages=" + std::to_string(nm));
    }
    std::vector<libcellml::IssuePtr> all;
    std::vector<const Issue *> byLevel[3];
    for (size_t i = 0; i < n; ++i) {
        auto is = logger->issue(i);
        all.push_back(is);
        if (is == nullptr) {
            bad.push_back("null-issue: issue(" + std::to_string(i) + ") is null, issueCount=" + std::to_string(n));
            continue;
        }
        int l = int(is->level());
        if (l >= 0 && l < 3) {
            byLevel[l].push_back(is.get());
        } else {
            bad.push_back("level-enumeration: issue(" + std::to_string(i) + ") has level " + std::to_string(l));
        }
    }
    const char *lname[3] = {"error", "warning", "message"};
    const size_t lcount[3] = {ne, nw, nm};
    for (int l = 0; l < 3; ++l) {
        if (lcount[l] != byLevel[l].size()) {
            bad.push_back(std::string("level-enumeration: ") + lname[l] + "Count()=" + std::to_string(lcount[l]) + " but " + std::to_string(byLevel[l].size()) + " issues have that level");
        }
        for (size_t i = 0; i < lcount[l] && i < n + 1; ++i) {
            libcellml::IssuePtr p = l == 0 ? logger->error(i) : (l == 1 ? logger->warning(i) : logger->message(i));
            const Issue *want = i < byLevel[l].size() ? byLevel[l][i] : nullptr;
            if (p.get() != want) {
                bad.push_back(std::string("level-enumeration: ") + lname[l] + "(" + std::to_string(i) + ") is not the " + std::to_string(i) + "-th issue of that level in issue() order");
                break;
            }
            if (p != nullptr && int(p->level()) != l) {
                bad.push_back(std::string("level-enumeration: ") + lname[l] + "(" + std::to_string(i) + ") has level " + std::to_string(int(p->level())));
                break;
            }
        }
    }
    if (logger->issue(n) != nullptr) {
        bad.push_back("end-index: issue(issueCount()) is not null");
    }
    if (logger->error(ne) != nullptr) {
        bad.push_back("end-index: error(errorCount()) is not null");
    }
    if (logger->warning(nw) != nullptr) {
        bad.push_back("end-index: warning(warningCount()) is not null");
    }
    if (logger->message(nm) != nullptr) {
        bad.push_back("end-index: message(messageCount()) is not null");
    }
    for (size_t i = 0; i < all.size(); ++i) {
        const auto &is = all[i];
        if (is == nullptr) {
            continue;
        }
        const std::string at = "issue(" + std::to_string(i) + ") rule=" + std::to_string(int(is->referenceRule()));
        try {
            if (is->description().empty()) {
                bad.push_back("empty-description: " + at);
            }
            (void)is->referenceHeading();
            (void)is->url();
            auto item = is->item();
            if (item == nullptr) {
                bad.push_back("item-missing: " + at + " item() is null");
                continue;
            }
            CellmlElementType t = item->type();
            bool has[8] = {item->component() != nullptr, item->importSource() != nullptr, item->model() != nullptr,
                           item->reset() != nullptr, item->units() != nullptr, item->unitsItem() != nullptr,
                           item->variable() != nullptr, item->variablePair() != nullptr};
            const char *acc[8] = {"component", "importSource", "model", "reset", "units", "unitsItem", "variable", "variablePair"};
            int want = -1;
            switch (t) {
            case CellmlElementType::COMPONENT:
            case CellmlElementType::COMPONENT_REF:
            case CellmlElementType::MATH:
                want = 0;
                break;
            case CellmlElementType::IMPORT:
                want = 1;
                break;
            case CellmlElementType::ENCAPSULATION:
            case CellmlElementType::MODEL:
                want = 2;
                break;
            case CellmlElementType::RESET:
            case CellmlElementType::RESET_VALUE:
            case CellmlElementType::TEST_VALUE:
                want = 3;
                break;
            case CellmlElementType::UNITS:
                want = 4;
                break;
            case CellmlElementType::UNIT:
                want = 5;
                break;
            case CellmlElementType::VARIABLE:
                want = 6;
                break;
            case CellmlElementType::CONNECTION:
            case CellmlElementType::MAP_VARIABLES:
                want = 7;
                break;
            case CellmlElementType::UNDEFINED:
                want = -1;
                break;
            }
            const std::string ts = libcellml::cellmlElementTypeAsString(t);
            if (want >= 0 && !has[want]) {
                bad.push_back("item-null: " + at + " type=" + ts + " but " + acc[want] + "() is null");
            }
            for (int k = 0; k < 8; ++k) {
                if (k != want && has[k]) {
                    bad.push_back("item-type-mismatch: " + at + " type=" + ts + " but " + acc[k] + "() is non-null");
                }
            }
        } catch (const std::exception &e) {
            bad.push_back("threw: " + at + " " + typeid(e).name());
        }
    }
    return bad;
}

inline std::string checkLoggerCoherent(const libcellml::LoggerPtr &logger)
{
    auto bad = loggerIncoherences(logger);
    return bad.empty() ? std::string() : bad.front();
}

} // namespace verif
