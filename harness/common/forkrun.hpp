// forkrun.hpp — run one case per input line in a forked child so that a crash, an uncaught
// exception or a hang of the library becomes the token CRASH(sig) / THROW(type) / TIMEOUT on that
// case's output line instead of killing the driver.  Output: exactly one line per input line.
#pragma once
#include <cstdio>
#include <cstdlib>
#include <cstring>
#include <csignal>
#include <exception>
#include <fstream>
#include <functional>
#include <iostream>
#include <stdexcept>
#include <string>
#include <typeinfo>
#include <vector>
#include <sys/resource.h>
#include <sys/types.h>
#include <sys/wait.h>
#include <unistd.h>

namespace verif {

inline std::string hexdecode(const std::string &h)
{
    std::string out;
    for (size_t i = 0; i + 1 < h.size(); i += 2) {
        out.push_back(char(std::stoi(h.substr(i, 2), nullptr, 16)));
    }
    return out;
}

inline std::string hexencode(const std::string &s)
{
    static const char *d = "0123456789abcdef";
    std::string out;
    for (unsigned char c : s) {
        out.push_back(d[c >> 4]);
        out.push_back(d[c & 15]);
    }
    return out;
}

inline std::vector<std::string> splitws(const std::string &s, char sep = ' ')
{
    std::vector<std::string> r;
    std::string cur;
    for (char c : s) {
        if (c == sep) {
            r.push_back(cur);
            cur.clear();
        } else {
            cur.push_back(c);
        }
    }
    r.push_back(cur);
    return r;
}

inline std::vector<std::string> readLines(const char *path)
{
    std::vector<std::string> lines;
    std::ifstream in(path);
    std::string l;
    while (std::getline(in, l)) {
        lines.push_back(l);
    }
    return lines;
}

// fn: case text -> one-line result (must not contain '\n').
// perCaseSeconds: alarm for each case.  Results are printed to stdout in order.
inline int runCases(const std::vector<std::string> &cases, const std::function<std::string(const std::string &)> &fn,
                    unsigned perCaseSeconds = 20, size_t stackMiB = 64)
{
    size_t next = 0;
    const size_t n = cases.size();
    while (next < n) {
        int fds[2];
        if (pipe(fds) != 0) {
            perror("pipe");
            return 2;
        }
        fflush(stdout);
        pid_t pid = fork();
        if (pid == 0) {
            close(fds[0]);
            struct rlimit rl;
            rl.rlim_cur = rl.rlim_max = stackMiB * 1024 * 1024;
            setrlimit(RLIMIT_STACK, &rl);
            FILE *w = fdopen(fds[1], "w");
            for (size_t i = next; i < n; ++i) {
                alarm(perCaseSeconds);
                std::string r;
                try {
                    r = fn(cases[i]);
                } catch (const std::exception &e) {
                    r = std::string("THROW(") + typeid(e).name() + ")";
                } catch (...) {
                    r = "THROW(unknown)";
                }
                alarm(0);
                fprintf(w, "%zu\t%s\n", i, r.c_str());
                fflush(w);
            }
            fclose(w);
            _exit(0);
        }
        close(fds[1]);
        FILE *r = fdopen(fds[0], "r");
        char *line = nullptr;
        size_t cap = 0;
        ssize_t len;
        while ((len = getline(&line, &cap, r)) > 0) {
            char *tab = strchr(line, '\t');
            if (tab == nullptr) {
                continue;
            }
            size_t idx = strtoul(line, nullptr, 10);
            if (idx != next) {
                continue; // should not happen
            }
            fputs(tab + 1, stdout);
            ++next;
        }
        free(line);
        fclose(r);
        int status = 0;
        waitpid(pid, &status, 0);
        if (next < n) {
            // the child died while running case `next`
            if (WIFSIGNALED(status)) {
                int sig = WTERMSIG(status);
                if (sig == SIGALRM) {
                    printf("TIMEOUT\n");
                } else {
                    printf("CRASH(%d)\n", sig);
                }
            } else {
                printf("CRASH(exit%d)\n", WEXITSTATUS(status));
            }
            ++next;
        }
    }
    fflush(stdout);
    return 0;
}

} // namespace verif
