// script.hpp — header-only interpreter of "API scripts" for libcellml's entity classes.
//
// A script is a list of lines; each line is ONE public-API call on numbered object slots:
//
//     <command> <arg> <arg> ...            tokens separated by single spaces
//
// Token forms
//   object     slot number (0,1,2,...) or the word `null` (passes nullptr).  The receiver of a member
//              function (first argument, written X / M / C / V / U / R / I below) may not be null.
//   string     s<hex of the bytes>          empty string is just `s`      (S() in gen/script_gen.py)
//   size_t     decimal; `-1` gives SIZE_MAX
//   int        decimal (strtol), double: anything strtod takes (hex floats, inf, nan), printed back with %.17g
//   bool       true | false | 1 | 0
//   [x]        optional trailing argument; when absent the C++ default argument is used
//   <ref>      unit reference: s<hex> (std::string overload) or u<int> (Units::StandardUnit overload, any int is cast)
//   <prefix>   s<hex> (string overload), p<int> (Units::Prefix enum overload, any int is cast), or plain int (int overload)
//   <iface>    none | private | public | public_and_private | <int> (cast to Variable::InterfaceType)
//
// Result of exec(line) (one short canonical token, never contains ' ' ',' ';' '|' or a newline)
//   bool -> true/false     size_t,int -> decimal     double -> %.17g     string -> s<hex>     void -> -
//   pointer -> `null`, or the slot number if that object is already in a slot (pointer identity),
//              else the object is stored in a NEW slot appended at the end and `new<slot>` is returned
//   ERR(<reason>)    the line is malformed / slot of the wrong kind / unknown command; nothing was called
//   THROW(<type>)    the library threw a std::exception
//   (a crash of the library is not caught here: run scripts under forkrun.hpp's runCases)
//
// Receivers: X any entity; N named (model component variable units); P parented (N + reset);
//            E component-entity (model | component); J imported-entity (component | units);
//            M model, C component, V variable, U units, R reset, I import source.
//
// COMMAND TABLE                                              C++ call                                  result
//  -- slots
//   model <slot> [sname]      component|variable|units <slot> [sname]      T::create() / create(name) into slot   -
//   reset <slot> [order]                                     Reset::create() / create(int)              -
//   importsource <slot>                                      ImportSource::create()                     -
//       (the vector grows as needed; an occupied slot is overwritten = our reference dropped first)
//   release <slot>                                           drop our reference, slot becomes Empty     -
//   clone <src> <dst>                                        src->clone() stored in dst                 -
//   adoptall <slot>                                          every object reachable through getters from the
//                                                            object (children, units of variables, import sources
//                                                            and their models, reset variables, equivalent variables)
//                                                            is put in a slot if it is not in one yet      number of new slots
//   usecount <slot>                                          shared_ptr::use_count()                    int
//   kind <slot>                                              -                                          model|component|...|empty
//   parse <dst> <stext> [strict]                             Parser::create(strict)->parseModel(text)   issue count
//   print M [autoIds]                                        Printer::printModel                        string
//   validate M                                               Validator::validateModel                   issue count
//  -- Entity
//   setid X s | id X | removeid X | equals X Y
//  -- NamedEntity
//   setname N s | name N | removename N
//  -- ParentedEntity
//   parent P (ptr) | hasparent P | hasancestor P Q              (removeParent/setParent are not public)
//  -- ComponentEntity
//   addcomponent E C
//   removecomponent_i E idx | removecomponent_n E s [search] | removecomponent_p E C [search]
//   removeallcomponents E
//   containscomponent_n E s [search] | containscomponent_p E C [search]
//   component_i E idx (ptr) | component_n E s [search] (ptr)
//   takecomponent_i E idx (ptr) | takecomponent_n E s [search] (ptr)
//   replacecomponent_i E idx C | replacecomponent_n E s C [search] | replacecomponent_p E Cold Cnew [search]
//   componentcount E
//   setencapsulationid E s | encapsulationid E | removeencapsulationid E
//  -- Component
//   setsourcecomponent C I s
//   setmath C s | appendmath C s | removemath C | math C
//   addvariable C V | removevariable_i C idx | removevariable_n C s | removevariable_p C V | removeallvariables C
//   variable_i C idx (ptr) | variable_n C s (ptr) | takevariable_i C idx (ptr) | takevariable_n C s (ptr)
//   variablecount C | hasvariable_n C s | hasvariable_p C V
//   addreset C R | takereset C idx (ptr) | removereset_i C idx | removereset_p C R | removeallresets C
//   reset_i C idx (ptr) | resetcount C | hasreset C R
//   isdefined C|M|U | requiresimports C|U
//  -- Model
//   addunits M U | removeunits_i M idx | removeunits_n M s | removeunits_p M U | removeallunits M
//   hasunits_n M s | hasunits_p M U | units_i M idx (ptr) | units_n M s (ptr)
//   takeunits_i M idx (ptr) | takeunits_n M s (ptr)
//   replaceunits_i M idx U | replaceunits_n M s U | replaceunits_p M Uold Unew
//   unitscount M | linkunits M | hasunlinkedunits M | hasimports M | hasunresolvedimports M
//   fixvariableinterfaces M | clean M | importrequirements M  -> [s..:s..]
//  -- Variable
//   addequivalence V1 V2 | addequivalence_ids V1 V2 smap [sconn]          (static; V1,V2 may be null)
//   removeequivalence V1 V2
//   setequivalencemappingid V1 V2 s | setequivalenceconnectionid V1 V2 s
//   equivalencemappingid V1 V2 | equivalenceconnectionid V1 V2
//   removeequivalencemappingid V1 V2 | removeequivalenceconnectionid V1 V2
//   removeallequivalences V | equivalentvariable V idx (ptr) | equivalentvariablecount V
//   hasequivalentvariable V W [indirect]
//   setunits_n V s | setunits_p V U | getunits V (ptr) | removeunits V
//   setinitialvalue_s V s | setinitialvalue_d V dbl | setinitialvalue_v V W | initialvalue V | removeinitialvalue V
//   setinterfacetype_s V s | setinterfacetype_e V <iface> | interfacetype V | removeinterfacetype V
//   hasinterfacetype V <iface> | permitsinterfacetype V <iface>
//  -- Units
//   addunit U <ref> <prefix> [exp [mult [sid]]]   (for the int-prefix overload exp is mandatory)
//   addunit_exp U <ref> exp [sid]                 addUnit(reference, exponent, id)
//   addunit_ref U <ref>                           addUnit(reference)
//   unitattributes_i U idx | unitattributes_n U <ref>      -> ref:prefix:exp:mult:id  (strings s-encoded)
//   unitattributereference U idx | setunitattributereference U idx s
//   unitattributeprefix U idx | unitattributeexponent U idx | unitattributemultiplier U idx
//   removeunit_i U idx | removeunit_n U <ref> | removeallunits U | unitcount U
//   setunitid U idx s (bool) | unitid U idx | isbaseunit U
//   setsourceunits U I s
//   scalingfactor U1 U2 [check] | compatible U1 U2 | equivalent U1 U2      (static; may be null)
//  -- Reset
//   setorder R int | order R | removeorder R | isorderset R
//   setvariable R V | getvariable R (ptr) | settestvariable R V | testvariable R (ptr)
//   settestvalue R s | appendtestvalue R s | testvalue R | removetestvalue R
//   settestvalueid R s | testvalueid R | removetestvalueid R
//   setresetvalue R s | appendresetvalue R s | resetvalue R | removeresetvalue R
//   setresetvalueid R s | resetvalueid R | removeresetvalueid R
//  -- ImportSource
//   seturl I s | url I | setmodel I M | getmodel I (ptr) | removemodel I | hasmodel I
//  -- ImportedEntity (component | units)
//   setimportsource J I | getimportsource J (ptr) | setimportreference J s | importreference J
//   isimport J | isresolved J
//
// Names with a `get` prefix (getunits, getvariable, getmodel, getimportsource) are the plain getters whose
// natural name is taken by the creation command of the same name.
#pragma once

#include <cerrno>
#include <climits>
#include <cstdint>
#include <cstdio>
#include <cstdlib>
#include <exception>
#include <functional>
#include <memory>
#include <string>
#include <typeinfo>
#include <unordered_map>
#include <vector>

#include <libcellml>

namespace verif {

enum class Kind
{
    Empty,
    Model,
    Component,
    Variable,
    Units,
    Reset,
    ImportSource
};

inline const char *kindName(Kind k)
{
    switch (k) {
    case Kind::Empty: return "empty";
    case Kind::Model: return "model";
    case Kind::Component: return "component";
    case Kind::Variable: return "variable";
    case Kind::Units: return "units";
    case Kind::Reset: return "reset";
    case Kind::ImportSource: return "importsource";
    }
    return "?";
}

inline Kind kindOf(const libcellml::EntityPtr &p)
{
    if (p == nullptr) {
        return Kind::Empty;
    }
    const libcellml::Entity *e = p.get();
    if (dynamic_cast<const libcellml::Model *>(e) != nullptr) {
        return Kind::Model;
    }
    if (dynamic_cast<const libcellml::Component *>(e) != nullptr) {
        return Kind::Component;
    }
    if (dynamic_cast<const libcellml::Variable *>(e) != nullptr) {
        return Kind::Variable;
    }
    if (dynamic_cast<const libcellml::Units *>(e) != nullptr) {
        return Kind::Units;
    }
    if (dynamic_cast<const libcellml::Reset *>(e) != nullptr) {
        return Kind::Reset;
    }
    if (dynamic_cast<const libcellml::ImportSource *>(e) != nullptr) {
        return Kind::ImportSource;
    }
    return Kind::Empty;
}

struct Slot
{
    Kind kind = Kind::Empty;
    libcellml::EntityPtr p;
};

// "s" + lower-case hex of the bytes
inline std::string strToken(const std::string &s)
{
    static const char *d = "0123456789abcdef";
    std::string out = "s";
    out.reserve(1 + 2 * s.size());
    for (unsigned char c : s) {
        out.push_back(d[c >> 4]);
        out.push_back(d[c & 15]);
    }
    return out;
}

inline bool parseStrToken(const std::string &tok, std::string &out)
{
    auto hv = [](char c) -> int {
        if (c >= '0' && c <= '9') {
            return c - '0';
        }
        if (c >= 'a' && c <= 'f') {
            return c - 'a' + 10;
        }
        if (c >= 'A' && c <= 'F') {
            return c - 'A' + 10;
        }
        return -1;
    };
    out.clear();
    if (tok.empty() || tok[0] != 's' || (tok.size() % 2) != 1) {
        return false;
    }
    for (size_t i = 1; i + 1 < tok.size(); i += 2) {
        int a = hv(tok[i]);
        int b = hv(tok[i + 1]);
        if (a < 0 || b < 0) {
            return false;
        }
        out.push_back(char((a << 4) | b));
    }
    return true;
}

inline std::string fmtDouble17(double v)
{
    char buf[64];
    snprintf(buf, sizeof buf, "%.17g", v);
    return buf;
}

struct ScriptError
{
    std::string why;
};

struct Interp
{
    std::vector<Slot> slots;

    // ---- slot access for C++ users ------------------------------------------------------------
    long find(const libcellml::Entity *p) const
    {
        if (p == nullptr) {
            return -1;
        }
        for (size_t i = 0; i < slots.size(); ++i) {
            if (slots[i].p.get() == p) {
                return long(i);
            }
        }
        return -1;
    }

    template<class T>
    long find(const std::shared_ptr<T> &p) const
    {
        return find(static_cast<const libcellml::Entity *>(p.get()));
    }

    void put(size_t slot, const libcellml::EntityPtr &p)
    {
        if (slot >= slots.size()) {
            slots.resize(slot + 1);
        }
        slots[slot].p = p;
        slots[slot].kind = kindOf(p);
    }

    // slot of p, storing it in a new slot at the end when it is in none; -1 for nullptr
    long adopt(const libcellml::EntityPtr &p, bool *isNew = nullptr)
    {
        if (isNew != nullptr) {
            *isNew = false;
        }
        if (p == nullptr) {
            return -1;
        }
        long i = find(p.get());
        if (i >= 0) {
            return i;
        }
        put(slots.size(), p);
        if (isNew != nullptr) {
            *isNew = true;
        }
        return long(slots.size() - 1);
    }

    template<class T>
    std::shared_ptr<T> get(size_t slot) const
    {
        if (slot >= slots.size()) {
            return nullptr;
        }
        return std::dynamic_pointer_cast<T>(slots[slot].p);
    }

    libcellml::ModelPtr model(size_t slot) const
    {
        return get<libcellml::Model>(slot);
    }

    // canonical result for a returned pointer
    std::string ref(const libcellml::EntityPtr &p)
    {
        if (p == nullptr) {
            return "null";
        }
        bool isNew = false;
        long i = adopt(p, &isNew);
        return (isNew ? "new" : "") + std::to_string(i);
    }

    // put everything reachable from p through public getters into slots; returns the number of new slots
    size_t adoptAll(const libcellml::EntityPtr &root)
    {
        size_t added = 0;
        std::vector<libcellml::EntityPtr> todo {root};
        std::vector<const libcellml::Entity *> seen;
        auto push = [&](const libcellml::EntityPtr &q) {
            if (q == nullptr) {
                return;
            }
            for (auto *s : seen) {
                if (s == q.get()) {
                    return;
                }
            }
            seen.push_back(q.get());
            todo.push_back(q);
        };
        seen.push_back(root.get());
        while (!todo.empty()) {
            libcellml::EntityPtr e = todo.back();
            todo.pop_back();
            if (e == nullptr) {
                continue;
            }
            bool isNew = false;
            adopt(e, &isNew);
            if (isNew) {
                ++added;
            }
            if (auto m = std::dynamic_pointer_cast<libcellml::Model>(e)) {
                for (size_t i = 0; i < m->unitsCount(); ++i) {
                    push(m->units(i));
                }
            }
            if (auto ce = std::dynamic_pointer_cast<libcellml::ComponentEntity>(e)) {
                for (size_t i = 0; i < ce->componentCount(); ++i) {
                    push(ce->component(i));
                }
            }
            if (auto c = std::dynamic_pointer_cast<libcellml::Component>(e)) {
                for (size_t i = 0; i < c->variableCount(); ++i) {
                    push(c->variable(i));
                }
                for (size_t i = 0; i < c->resetCount(); ++i) {
                    push(c->reset(i));
                }
            }
            if (auto ie = std::dynamic_pointer_cast<libcellml::ImportedEntity>(e)) {
                push(ie->importSource());
            }
            if (auto v = std::dynamic_pointer_cast<libcellml::Variable>(e)) {
                push(v->units());
                for (size_t i = 0; i < v->equivalentVariableCount(); ++i) {
                    push(v->equivalentVariable(i));
                }
            }
            if (auto r = std::dynamic_pointer_cast<libcellml::Reset>(e)) {
                push(r->variable());
                push(r->testVariable());
            }
            if (auto is = std::dynamic_pointer_cast<libcellml::ImportSource>(e)) {
                push(is->model());
            }
        }
        return added;
    }

    // ---- argument cursor ----------------------------------------------------------------------
    struct Args
    {
        Interp &in;
        std::vector<std::string> t; // t[0] = command name

        size_t count() const
        {
            return t.size() - 1;
        }
        bool has(size_t i) const
        {
            return i < t.size();
        }
        const std::string &tok(size_t i) const
        {
            if (!has(i)) {
                throw ScriptError {"arg" + std::to_string(i) + ":missing"};
            }
            return t[i];
        }
        [[noreturn]] void bad(size_t i, const std::string &what) const
        {
            throw ScriptError {"arg" + std::to_string(i) + ":" + what};
        }
        size_t slotIndex(size_t i) const
        {
            const std::string &s = tok(i);
            if (s.empty() || s.size() > 9) {
                bad(i, "bad-slot");
            }
            size_t v = 0;
            for (char c : s) {
                if (c < '0' || c > '9') {
                    bad(i, "bad-slot");
                }
                v = v * 10 + size_t(c - '0');
            }
            if (v > 1000000) {
                bad(i, "bad-slot");
            }
            return v;
        }
        size_t size(size_t i) const
        {
            const std::string &s = tok(i);
            if (s == "-1") {
                return SIZE_MAX;
            }
            if (s.empty() || s[0] < '0' || s[0] > '9') {
                bad(i, "bad-size");
            }
            errno = 0;
            char *end = nullptr;
            unsigned long long v = strtoull(s.c_str(), &end, 10);
            if (errno != 0 || end == nullptr || *end != '\0') {
                bad(i, "bad-size");
            }
            return size_t(v);
        }
        int integer(size_t i) const
        {
            const std::string &s = tok(i);
            errno = 0;
            char *end = nullptr;
            long v = strtol(s.c_str(), &end, 10);
            if (s.empty() || errno != 0 || end == nullptr || *end != '\0' || v < INT_MIN || v > INT_MAX) {
                bad(i, "bad-int");
            }
            return int(v);
        }
        double dbl(size_t i) const
        {
            const std::string &s = tok(i);
            char *end = nullptr;
            double v = strtod(s.c_str(), &end);
            if (s.empty() || end == nullptr || *end != '\0') {
                bad(i, "bad-double");
            }
            return v;
        }
        bool boolean(size_t i) const
        {
            const std::string &s = tok(i);
            if (s == "true" || s == "1") {
                return true;
            }
            if (s == "false" || s == "0") {
                return false;
            }
            bad(i, "bad-bool");
        }
        std::string str(size_t i) const
        {
            std::string out;
            if (!parseStrToken(tok(i), out)) {
                bad(i, "bad-string");
            }
            return out;
        }
        bool isStr(size_t i) const
        {
            return has(i) && !t[i].empty() && t[i][0] == 's';
        }
        // object argument; nullable => `null` gives nullptr
        template<class T>
        std::shared_ptr<T> obj(size_t i, const char *want, bool nullable) const
        {
            const std::string &s = tok(i);
            if (s == "null") {
                if (nullable) {
                    return nullptr;
                }
                bad(i, "null-receiver");
            }
            size_t k = slotIndex(i);
            if (k >= in.slots.size()) {
                bad(i, "no-such-slot");
            }
            const Slot &sl = in.slots[k];
            if (sl.kind == Kind::Empty || sl.p == nullptr) {
                bad(i, "empty-slot");
            }
            auto p = std::dynamic_pointer_cast<T>(sl.p);
            if (p == nullptr) {
                bad(i, std::string("want-") + want + ":got-" + kindName(sl.kind));
            }
            return p;
        }
        Kind kindAt(size_t i) const
        {
            const std::string &s = tok(i);
            if (s == "null") {
                bad(i, "null-receiver");
            }
            size_t k = slotIndex(i);
            if (k >= in.slots.size()) {
                bad(i, "no-such-slot");
            }
            if (in.slots[k].kind == Kind::Empty) {
                bad(i, "empty-slot");
            }
            return in.slots[k].kind;
        }
        // receivers (non-null)
        libcellml::EntityPtr X(size_t i = 1) const { return obj<libcellml::Entity>(i, "entity", false); }
        std::shared_ptr<libcellml::NamedEntity> N(size_t i = 1) const { return obj<libcellml::NamedEntity>(i, "named", false); }
        libcellml::ParentedEntityPtr P(size_t i = 1) const { return obj<libcellml::ParentedEntity>(i, "parented", false); }
        libcellml::ComponentEntityPtr E(size_t i = 1) const { return obj<libcellml::ComponentEntity>(i, "componententity", false); }
        libcellml::ImportedEntityPtr J(size_t i = 1) const { return obj<libcellml::ImportedEntity>(i, "importedentity", false); }
        libcellml::ModelPtr M(size_t i = 1) const { return obj<libcellml::Model>(i, "model", false); }
        libcellml::ComponentPtr C(size_t i = 1) const { return obj<libcellml::Component>(i, "component", false); }
        libcellml::VariablePtr V(size_t i = 1) const { return obj<libcellml::Variable>(i, "variable", false); }
        libcellml::UnitsPtr U(size_t i = 1) const { return obj<libcellml::Units>(i, "units", false); }
        libcellml::ResetPtr R(size_t i = 1) const { return obj<libcellml::Reset>(i, "reset", false); }
        libcellml::ImportSourcePtr I(size_t i = 1) const { return obj<libcellml::ImportSource>(i, "importsource", false); }
        // pointer arguments (nullable)
        libcellml::EntityPtr xq(size_t i) const { return obj<libcellml::Entity>(i, "entity", true); }
        libcellml::ParentedEntityPtr pq(size_t i) const { return obj<libcellml::ParentedEntity>(i, "parented", true); }
        libcellml::ModelPtr mq(size_t i) const { return obj<libcellml::Model>(i, "model", true); }
        libcellml::ComponentPtr cq(size_t i) const { return obj<libcellml::Component>(i, "component", true); }
        libcellml::VariablePtr vq(size_t i) const { return obj<libcellml::Variable>(i, "variable", true); }
        libcellml::UnitsPtr uq(size_t i) const { return obj<libcellml::Units>(i, "units", true); }
        libcellml::ResetPtr rq(size_t i) const { return obj<libcellml::Reset>(i, "reset", true); }
        libcellml::ImportSourcePtr iq(size_t i) const { return obj<libcellml::ImportSource>(i, "importsource", true); }

        libcellml::Variable::InterfaceType iface(size_t i) const
        {
            const std::string &s = tok(i);
            using IT = libcellml::Variable::InterfaceType;
            if (s == "none") {
                return IT::NONE;
            }
            if (s == "private") {
                return IT::PRIVATE;
            }
            if (s == "public") {
                return IT::PUBLIC;
            }
            if (s == "public_and_private") {
                return IT::PUBLIC_AND_PRIVATE;
            }
            return static_cast<IT>(integer(i));
        }
        // <ref>: true => string form (out in str), false => standard unit (out in su)
        bool unitRef(size_t i, std::string &str_, libcellml::Units::StandardUnit &su) const
        {
            const std::string &s = tok(i);
            if (!s.empty() && s[0] == 'u') {
                Args tmp {in, {"", s.substr(1)}};
                int v = 0;
                try {
                    v = tmp.integer(1);
                } catch (const ScriptError &) {
                    bad(i, "bad-stdunit");
                }
                su = static_cast<libcellml::Units::StandardUnit>(v);
                return false;
            }
            str_ = str(i);
            return true;
        }
    };

    using Handler = std::function<std::string(Args &)>;
    struct Command
    {
        size_t minArgs;
        size_t maxArgs;
        Handler fn;
    };

    static std::string rb(bool b)
    {
        return b ? "true" : "false";
    }
    static std::string rn(size_t n)
    {
        return std::to_string(n);
    }
    static std::string ri(long n)
    {
        return std::to_string(n);
    }
    static std::string rd(double d)
    {
        return fmtDouble17(d);
    }
    static std::string rs(const std::string &s)
    {
        return strToken(s);
    }

    static const std::unordered_map<std::string, Command> &commands()
    {
        static const std::unordered_map<std::string, Command> table = buildCommands();
        return table;
    }

    std::string exec(const std::string &line)
    {
        Args a {*this, {}};
        {
            std::string cur;
            for (char c : line) {
                if (c == ' ' || c == '\t' || c == '\r' || c == '\n') {
                    if (!cur.empty()) {
                        a.t.push_back(cur);
                        cur.clear();
                    }
                } else {
                    cur.push_back(c);
                }
            }
            if (!cur.empty()) {
                a.t.push_back(cur);
            }
        }
        if (a.t.empty()) {
            return "ERR(empty-line)";
        }
        const auto &tab = commands();
        auto it = tab.find(a.t[0]);
        if (it == tab.end()) {
            return "ERR(unknown-command)";
        }
        if (a.count() < it->second.minArgs) {
            return "ERR(too-few-args)";
        }
        if (a.count() > it->second.maxArgs) {
            return "ERR(too-many-args)";
        }
        try {
            return it->second.fn(a);
        } catch (const ScriptError &e) {
            return "ERR(" + e.why + ")";
        } catch (const std::exception &e) {
            return std::string("THROW(") + typeid(e).name() + ")";
        }
    }

    std::vector<std::string> run(const std::vector<std::string> &lines)
    {
        std::vector<std::string> out;
        out.reserve(lines.size());
        for (const auto &l : lines) {
            out.push_back(exec(l));
        }
        return out;
    }

private:
    static std::unordered_map<std::string, Command> buildCommands()
    {
        using namespace libcellml;
        std::unordered_map<std::string, Command> m;
        auto reg = [&m](const char *name, size_t mn, size_t mx, Handler fn) {
            m[name] = Command {mn, mx, std::move(fn)};
        };
        const std::string V = "-";

        // ---- slots ----
        reg("model", 1, 2, [V](Args &a) {
            size_t s = a.slotIndex(1);
            ModelPtr p = a.has(2) ? Model::create(a.str(2)) : Model::create();
            a.in.put(s, p);
            return V;
        });
        reg("component", 1, 2, [V](Args &a) {
            size_t s = a.slotIndex(1);
            ComponentPtr p = a.has(2) ? Component::create(a.str(2)) : Component::create();
            a.in.put(s, p);
            return V;
        });
        reg("variable", 1, 2, [V](Args &a) {
            size_t s = a.slotIndex(1);
            VariablePtr p = a.has(2) ? Variable::create(a.str(2)) : Variable::create();
            a.in.put(s, p);
            return V;
        });
        reg("units", 1, 2, [V](Args &a) {
            size_t s = a.slotIndex(1);
            UnitsPtr p = a.has(2) ? Units::create(a.str(2)) : Units::create();
            a.in.put(s, p);
            return V;
        });
        reg("reset", 1, 2, [V](Args &a) {
            size_t s = a.slotIndex(1);
            ResetPtr p = a.has(2) ? Reset::create(a.integer(2)) : Reset::create();
            a.in.put(s, p);
            return V;
        });
        reg("importsource", 1, 1, [V](Args &a) {
            size_t s = a.slotIndex(1);
            a.in.put(s, ImportSource::create());
            return V;
        });
        reg("release", 1, 1, [V](Args &a) {
            size_t s = a.slotIndex(1);
            if (s >= a.in.slots.size()) {
                a.bad(1, "no-such-slot");
            }
            a.in.slots[s].p.reset();
            a.in.slots[s].kind = Kind::Empty;
            return V;
        });
        reg("clone", 2, 2, [V](Args &a) {
            Kind k = a.kindAt(1);
            size_t d = a.slotIndex(2);
            EntityPtr r;
            switch (k) {
            case Kind::Model: r = a.M()->clone(); break;
            case Kind::Component: r = a.C()->clone(); break;
            case Kind::Variable: r = a.V()->clone(); break;
            case Kind::Units: r = a.U()->clone(); break;
            case Kind::Reset: r = a.R()->clone(); break;
            case Kind::ImportSource: r = a.I()->clone(); break;
            case Kind::Empty: a.bad(1, "empty-slot");
            }
            if (r == nullptr) {
                return std::string("null");
            }
            a.in.put(d, r);
            return V;
        });
        reg("adoptall", 1, 1, [](Args &a) { return rn(a.in.adoptAll(a.X())); });
        reg("usecount", 1, 1, [](Args &a) {
            EntityPtr p = a.X();
            return ri(p.use_count() - 1); // minus our temporary
        });
        reg("kind", 1, 1, [](Args &a) {
            size_t s = a.slotIndex(1);
            if (s >= a.in.slots.size()) {
                a.bad(1, "no-such-slot");
            }
            return std::string(kindName(a.in.slots[s].kind));
        });
        reg("parse", 2, 3, [](Args &a) {
            size_t d = a.slotIndex(1);
            std::string text = a.str(2);
            bool strict = a.has(3) ? a.boolean(3) : true;
            auto parser = Parser::create(strict);
            ModelPtr mdl = parser->parseModel(text);
            if (mdl == nullptr) {
                return std::string("null");
            }
            a.in.put(d, mdl);
            return rn(parser->issueCount());
        });
        reg("print", 1, 2, [](Args &a) {
            auto mdl = a.M();
            auto printer = Printer::create();
            return rs(a.has(2) ? printer->printModel(mdl, a.boolean(2)) : printer->printModel(mdl));
        });
        reg("validate", 1, 1, [](Args &a) {
            auto mdl = a.M();
            auto v = Validator::create();
            v->validateModel(mdl);
            return rn(v->issueCount());
        });

        // ---- Entity ----
        reg("setid", 2, 2, [V](Args &a) { auto x = a.X(); x->setId(a.str(2)); return V; });
        reg("id", 1, 1, [](Args &a) { return rs(a.X()->id()); });
        reg("removeid", 1, 1, [V](Args &a) { a.X()->removeId(); return V; });
        reg("equals", 2, 2, [](Args &a) { auto x = a.X(); auto y = a.xq(2); return rb(x->equals(y)); });

        // ---- NamedEntity ----
        reg("setname", 2, 2, [V](Args &a) { auto x = a.N(); x->setName(a.str(2)); return V; });
        reg("name", 1, 1, [](Args &a) { return rs(a.N()->name()); });
        reg("removename", 1, 1, [V](Args &a) { a.N()->removeName(); return V; });

        // ---- ParentedEntity ----
        reg("parent", 1, 1, [](Args &a) { return a.in.ref(a.P()->parent()); });
        reg("hasparent", 1, 1, [](Args &a) { return rb(a.P()->hasParent()); });
        reg("hasancestor", 2, 2, [](Args &a) { auto x = a.P(); auto y = a.pq(2); return rb(x->hasAncestor(y)); });

        // ---- ComponentEntity ----
        reg("addcomponent", 2, 2, [](Args &a) { auto e = a.E(); auto c = a.cq(2); return rb(e->addComponent(c)); });
        reg("removecomponent_i", 2, 2, [](Args &a) { auto e = a.E(); return rb(e->removeComponent(a.size(2))); });
        reg("removecomponent_n", 2, 3, [](Args &a) {
            auto e = a.E();
            std::string n = a.str(2);
            return rb(a.has(3) ? e->removeComponent(n, a.boolean(3)) : e->removeComponent(n));
        });
        reg("removecomponent_p", 2, 3, [](Args &a) {
            auto e = a.E();
            auto c = a.cq(2);
            return rb(a.has(3) ? e->removeComponent(c, a.boolean(3)) : e->removeComponent(c));
        });
        reg("removeallcomponents", 1, 1, [V](Args &a) { a.E()->removeAllComponents(); return V; });
        reg("containscomponent_n", 2, 3, [](Args &a) {
            auto e = a.E();
            std::string n = a.str(2);
            return rb(a.has(3) ? e->containsComponent(n, a.boolean(3)) : e->containsComponent(n));
        });
        reg("containscomponent_p", 2, 3, [](Args &a) {
            auto e = a.E();
            auto c = a.cq(2);
            return rb(a.has(3) ? e->containsComponent(c, a.boolean(3)) : e->containsComponent(c));
        });
        reg("component_i", 2, 2, [](Args &a) { auto e = a.E(); return a.in.ref(e->component(a.size(2))); });
        reg("component_n", 2, 3, [](Args &a) {
            auto e = a.E();
            std::string n = a.str(2);
            return a.in.ref(a.has(3) ? e->component(n, a.boolean(3)) : e->component(n));
        });
        reg("takecomponent_i", 2, 2, [](Args &a) { auto e = a.E(); return a.in.ref(e->takeComponent(a.size(2))); });
        reg("takecomponent_n", 2, 3, [](Args &a) {
            auto e = a.E();
            std::string n = a.str(2);
            return a.in.ref(a.has(3) ? e->takeComponent(n, a.boolean(3)) : e->takeComponent(n));
        });
        reg("replacecomponent_i", 3, 3, [](Args &a) {
            auto e = a.E();
            size_t i = a.size(2);
            auto c = a.cq(3);
            return rb(e->replaceComponent(i, c));
        });
        reg("replacecomponent_n", 3, 4, [](Args &a) {
            auto e = a.E();
            std::string n = a.str(2);
            auto c = a.cq(3);
            return rb(a.has(4) ? e->replaceComponent(n, c, a.boolean(4)) : e->replaceComponent(n, c));
        });
        reg("replacecomponent_p", 3, 4, [](Args &a) {
            auto e = a.E();
            auto o = a.cq(2);
            auto c = a.cq(3);
            return rb(a.has(4) ? e->replaceComponent(o, c, a.boolean(4)) : e->replaceComponent(o, c));
        });
        reg("componentcount", 1, 1, [](Args &a) { return rn(a.E()->componentCount()); });
        reg("setencapsulationid", 2, 2, [V](Args &a) { auto e = a.E(); e->setEncapsulationId(a.str(2)); return V; });
        reg("encapsulationid", 1, 1, [](Args &a) { return rs(a.E()->encapsulationId()); });
        reg("removeencapsulationid", 1, 1, [V](Args &a) { a.E()->removeEncapsulationId(); return V; });

        // ---- Component ----
        reg("setsourcecomponent", 3, 3, [V](Args &a) {
            auto c = a.C();
            ImportSourcePtr is = a.iq(2);
            std::string n = a.str(3);
            c->setSourceComponent(is, n);
            return V;
        });
        reg("setmath", 2, 2, [V](Args &a) { auto c = a.C(); c->setMath(a.str(2)); return V; });
        reg("appendmath", 2, 2, [V](Args &a) { auto c = a.C(); c->appendMath(a.str(2)); return V; });
        reg("removemath", 1, 1, [V](Args &a) { a.C()->removeMath(); return V; });
        reg("math", 1, 1, [](Args &a) { return rs(a.C()->math()); });
        reg("addvariable", 2, 2, [](Args &a) { auto c = a.C(); auto v = a.vq(2); return rb(c->addVariable(v)); });
        reg("removevariable_i", 2, 2, [](Args &a) { auto c = a.C(); return rb(c->removeVariable(a.size(2))); });
        reg("removevariable_n", 2, 2, [](Args &a) { auto c = a.C(); return rb(c->removeVariable(a.str(2))); });
        reg("removevariable_p", 2, 2, [](Args &a) { auto c = a.C(); auto v = a.vq(2); return rb(c->removeVariable(v)); });
        reg("removeallvariables", 1, 1, [V](Args &a) { a.C()->removeAllVariables(); return V; });
        reg("variable_i", 2, 2, [](Args &a) { auto c = a.C(); return a.in.ref(c->variable(a.size(2))); });
        reg("variable_n", 2, 2, [](Args &a) { auto c = a.C(); return a.in.ref(c->variable(a.str(2))); });
        reg("takevariable_i", 2, 2, [](Args &a) { auto c = a.C(); return a.in.ref(c->takeVariable(a.size(2))); });
        reg("takevariable_n", 2, 2, [](Args &a) { auto c = a.C(); return a.in.ref(c->takeVariable(a.str(2))); });
        reg("variablecount", 1, 1, [](Args &a) { return rn(a.C()->variableCount()); });
        reg("hasvariable_n", 2, 2, [](Args &a) { auto c = a.C(); return rb(c->hasVariable(a.str(2))); });
        reg("hasvariable_p", 2, 2, [](Args &a) { auto c = a.C(); auto v = a.vq(2); return rb(c->hasVariable(v)); });
        reg("addreset", 2, 2, [](Args &a) { auto c = a.C(); auto r = a.rq(2); return rb(c->addReset(r)); });
        reg("takereset", 2, 2, [](Args &a) { auto c = a.C(); return a.in.ref(c->takeReset(a.size(2))); });
        reg("removereset_i", 2, 2, [](Args &a) { auto c = a.C(); return rb(c->removeReset(a.size(2))); });
        reg("removereset_p", 2, 2, [](Args &a) { auto c = a.C(); auto r = a.rq(2); return rb(c->removeReset(r)); });
        reg("removeallresets", 1, 1, [V](Args &a) { a.C()->removeAllResets(); return V; });
        reg("reset_i", 2, 2, [](Args &a) { auto c = a.C(); return a.in.ref(c->reset(a.size(2))); });
        reg("resetcount", 1, 1, [](Args &a) { return rn(a.C()->resetCount()); });
        reg("hasreset", 2, 2, [](Args &a) { auto c = a.C(); auto r = a.rq(2); return rb(c->hasReset(r)); });
        reg("isdefined", 1, 1, [](Args &a) {
            switch (a.kindAt(1)) {
            case Kind::Model: return rb(a.M()->isDefined());
            case Kind::Component: return rb(a.C()->isDefined());
            case Kind::Units: return rb(a.U()->isDefined());
            default: a.bad(1, "want-model|component|units");
            }
        });
        reg("requiresimports", 1, 1, [](Args &a) {
            switch (a.kindAt(1)) {
            case Kind::Component: return rb(a.C()->requiresImports());
            case Kind::Units: return rb(a.U()->requiresImports());
            default: a.bad(1, "want-component|units");
            }
        });

        // ---- Model ----
        reg("addunits", 2, 2, [](Args &a) { auto x = a.M(); auto u = a.uq(2); return rb(x->addUnits(u)); });
        reg("removeunits_i", 2, 2, [](Args &a) { auto x = a.M(); return rb(x->removeUnits(a.size(2))); });
        reg("removeunits_n", 2, 2, [](Args &a) { auto x = a.M(); return rb(x->removeUnits(a.str(2))); });
        reg("removeunits_p", 2, 2, [](Args &a) { auto x = a.M(); auto u = a.uq(2); return rb(x->removeUnits(u)); });
        reg("removeallunits", 1, 1, [V](Args &a) {
            switch (a.kindAt(1)) {
            case Kind::Model: a.M()->removeAllUnits(); return V;
            case Kind::Units: a.U()->removeAllUnits(); return V;
            default: a.bad(1, "want-model|units");
            }
        });
        reg("hasunits_n", 2, 2, [](Args &a) { auto x = a.M(); return rb(x->hasUnits(a.str(2))); });
        reg("hasunits_p", 2, 2, [](Args &a) { auto x = a.M(); auto u = a.uq(2); return rb(x->hasUnits(u)); });
        reg("units_i", 2, 2, [](Args &a) { auto x = a.M(); return a.in.ref(x->units(a.size(2))); });
        reg("units_n", 2, 2, [](Args &a) { auto x = a.M(); return a.in.ref(x->units(a.str(2))); });
        reg("takeunits_i", 2, 2, [](Args &a) { auto x = a.M(); return a.in.ref(x->takeUnits(a.size(2))); });
        reg("takeunits_n", 2, 2, [](Args &a) { auto x = a.M(); return a.in.ref(x->takeUnits(a.str(2))); });
        reg("replaceunits_i", 3, 3, [](Args &a) {
            auto x = a.M();
            size_t i = a.size(2);
            auto u = a.uq(3);
            return rb(x->replaceUnits(i, u));
        });
        reg("replaceunits_n", 3, 3, [](Args &a) {
            auto x = a.M();
            std::string n = a.str(2);
            auto u = a.uq(3);
            return rb(x->replaceUnits(n, u));
        });
        reg("replaceunits_p", 3, 3, [](Args &a) {
            auto x = a.M();
            auto o = a.uq(2);
            auto u = a.uq(3);
            return rb(x->replaceUnits(o, u));
        });
        reg("unitscount", 1, 1, [](Args &a) { return rn(a.M()->unitsCount()); });
        reg("linkunits", 1, 1, [](Args &a) { return rb(a.M()->linkUnits()); });
        reg("hasunlinkedunits", 1, 1, [](Args &a) { return rb(a.M()->hasUnlinkedUnits()); });
        reg("hasimports", 1, 1, [](Args &a) { return rb(a.M()->hasImports()); });
        reg("hasunresolvedimports", 1, 1, [](Args &a) { return rb(a.M()->hasUnresolvedImports()); });
        reg("fixvariableinterfaces", 1, 1, [](Args &a) { return rb(a.M()->fixVariableInterfaces()); });
        reg("clean", 1, 1, [V](Args &a) { a.M()->clean(); return V; });
        reg("importrequirements", 1, 1, [](Args &a) {
            auto v = a.M()->importRequirements();
            std::string r = "[";
            for (size_t i = 0; i < v.size(); ++i) {
                r += (i == 0 ? "" : ":") + rs(v[i]);
            }
            return r + "]";
        });

        // ---- Variable ----
        reg("addequivalence", 2, 2, [](Args &a) { auto v = a.vq(1); auto w = a.vq(2); return rb(Variable::addEquivalence(v, w)); });
        reg("addequivalence_ids", 3, 4, [](Args &a) {
            auto v = a.vq(1);
            auto w = a.vq(2);
            std::string mid = a.str(3);
            if (a.has(4)) {
                std::string cid = a.str(4);
                return rb(Variable::addEquivalence(v, w, mid, cid));
            }
            return rb(Variable::addEquivalence(v, w, mid));
        });
        reg("removeequivalence", 2, 2, [](Args &a) { auto v = a.vq(1); auto w = a.vq(2); return rb(Variable::removeEquivalence(v, w)); });
        reg("setequivalencemappingid", 3, 3, [V](Args &a) {
            auto v = a.vq(1);
            auto w = a.vq(2);
            Variable::setEquivalenceMappingId(v, w, a.str(3));
            return V;
        });
        reg("setequivalenceconnectionid", 3, 3, [V](Args &a) {
            auto v = a.vq(1);
            auto w = a.vq(2);
            Variable::setEquivalenceConnectionId(v, w, a.str(3));
            return V;
        });
        reg("equivalencemappingid", 2, 2, [](Args &a) { auto v = a.vq(1); auto w = a.vq(2); return rs(Variable::equivalenceMappingId(v, w)); });
        reg("equivalenceconnectionid", 2, 2, [](Args &a) { auto v = a.vq(1); auto w = a.vq(2); return rs(Variable::equivalenceConnectionId(v, w)); });
        reg("removeequivalencemappingid", 2, 2, [V](Args &a) {
            auto v = a.vq(1);
            auto w = a.vq(2);
            Variable::removeEquivalenceMappingId(v, w);
            return V;
        });
        reg("removeequivalenceconnectionid", 2, 2, [V](Args &a) {
            auto v = a.vq(1);
            auto w = a.vq(2);
            Variable::removeEquivalenceConnectionId(v, w);
            return V;
        });
        reg("removeallequivalences", 1, 1, [V](Args &a) { a.V()->removeAllEquivalences(); return V; });
        reg("equivalentvariable", 2, 2, [](Args &a) { auto v = a.V(); return a.in.ref(v->equivalentVariable(a.size(2))); });
        reg("equivalentvariablecount", 1, 1, [](Args &a) { return rn(a.V()->equivalentVariableCount()); });
        reg("hasequivalentvariable", 2, 3, [](Args &a) {
            auto v = a.V();
            auto w = a.vq(2);
            return rb(a.has(3) ? v->hasEquivalentVariable(w, a.boolean(3)) : v->hasEquivalentVariable(w));
        });
        reg("setunits_n", 2, 2, [V](Args &a) { auto v = a.V(); v->setUnits(a.str(2)); return V; });
        reg("setunits_p", 2, 2, [V](Args &a) { auto v = a.V(); auto u = a.uq(2); v->setUnits(u); return V; });
        reg("getunits", 1, 1, [](Args &a) { return a.in.ref(a.V()->units()); });
        reg("removeunits", 1, 1, [V](Args &a) { a.V()->removeUnits(); return V; });
        reg("setinitialvalue_s", 2, 2, [V](Args &a) { auto v = a.V(); v->setInitialValue(a.str(2)); return V; });
        reg("setinitialvalue_d", 2, 2, [V](Args &a) { auto v = a.V(); v->setInitialValue(a.dbl(2)); return V; });
        reg("setinitialvalue_v", 2, 2, [V](Args &a) { auto v = a.V(); auto w = a.vq(2); v->setInitialValue(w); return V; });
        reg("initialvalue", 1, 1, [](Args &a) { return rs(a.V()->initialValue()); });
        reg("removeinitialvalue", 1, 1, [V](Args &a) { a.V()->removeInitialValue(); return V; });
        reg("setinterfacetype_s", 2, 2, [V](Args &a) { auto v = a.V(); v->setInterfaceType(a.str(2)); return V; });
        reg("setinterfacetype_e", 2, 2, [V](Args &a) { auto v = a.V(); v->setInterfaceType(a.iface(2)); return V; });
        reg("interfacetype", 1, 1, [](Args &a) { return rs(a.V()->interfaceType()); });
        reg("removeinterfacetype", 1, 1, [V](Args &a) { a.V()->removeInterfaceType(); return V; });
        reg("hasinterfacetype", 2, 2, [](Args &a) { auto v = a.V(); return rb(v->hasInterfaceType(a.iface(2))); });
        reg("permitsinterfacetype", 2, 2, [](Args &a) { auto v = a.V(); return rb(v->permitsInterfaceType(a.iface(2))); });

        // ---- Units ----
        reg("addunit", 3, 6, [V](Args &a) {
            auto u = a.U();
            std::string rstr;
            Units::StandardUnit su = Units::StandardUnit::DIMENSIONLESS;
            bool byName = a.unitRef(2, rstr, su);
            const std::string &pt = a.tok(3);
            // parse everything before calling
            double ex = a.has(4) ? a.dbl(4) : 1.0;
            double mu = a.has(5) ? a.dbl(5) : 1.0;
            std::string id = a.has(6) ? a.str(6) : std::string();
            if (!pt.empty() && pt[0] == 's') {
                std::string pre = a.str(3);
                if (byName) {
                    u->addUnit(rstr, pre, ex, mu, id);
                } else {
                    u->addUnit(su, pre, ex, mu, id);
                }
            } else if (!pt.empty() && pt[0] == 'p') {
                Args tmp {a.in, {"", pt.substr(1)}};
                int pv = 0;
                try {
                    pv = tmp.integer(1);
                } catch (const ScriptError &) {
                    a.bad(3, "bad-prefix");
                }
                auto pre = static_cast<Units::Prefix>(pv);
                if (byName) {
                    u->addUnit(rstr, pre, ex, mu, id);
                } else {
                    u->addUnit(su, pre, ex, mu, id);
                }
            } else {
                int pre = a.integer(3);
                if (!a.has(4)) {
                    a.bad(4, "missing");
                }
                if (byName) {
                    u->addUnit(rstr, pre, ex, mu, id);
                } else {
                    u->addUnit(su, pre, ex, mu, id);
                }
            }
            return V;
        });
        reg("addunit_exp", 3, 4, [V](Args &a) {
            auto u = a.U();
            std::string rstr;
            Units::StandardUnit su = Units::StandardUnit::DIMENSIONLESS;
            bool byName = a.unitRef(2, rstr, su);
            double ex = a.dbl(3);
            std::string id = a.has(4) ? a.str(4) : std::string();
            if (byName) {
                u->addUnit(rstr, ex, id);
            } else {
                u->addUnit(su, ex, id);
            }
            return V;
        });
        reg("addunit_ref", 2, 2, [V](Args &a) {
            auto u = a.U();
            std::string rstr;
            Units::StandardUnit su = Units::StandardUnit::DIMENSIONLESS;
            if (a.unitRef(2, rstr, su)) {
                u->addUnit(rstr);
            } else {
                u->addUnit(su);
            }
            return V;
        });
        auto attrs = [](const std::string &r, const std::string &p, double e, double mu, const std::string &id) {
            return rs(r) + ":" + rs(p) + ":" + rd(e) + ":" + rd(mu) + ":" + rs(id);
        };
        reg("unitattributes_i", 2, 2, [attrs](Args &a) {
            auto u = a.U();
            size_t i = a.size(2);
            std::string r;
            std::string p;
            std::string id;
            double e = 0.0;
            double mu = 0.0;
            u->unitAttributes(i, r, p, e, mu, id);
            return attrs(r, p, e, mu, id);
        });
        reg("unitattributes_n", 2, 2, [attrs](Args &a) {
            auto u = a.U();
            std::string rstr;
            Units::StandardUnit su = Units::StandardUnit::DIMENSIONLESS;
            bool byName = a.unitRef(2, rstr, su);
            std::string p;
            std::string id;
            double e = 0.0;
            double mu = 0.0;
            if (byName) {
                u->unitAttributes(rstr, p, e, mu, id);
            } else {
                u->unitAttributes(su, p, e, mu, id);
            }
            return attrs(rstr, p, e, mu, id);
        });
        reg("unitattributereference", 2, 2, [](Args &a) { auto u = a.U(); return rs(u->unitAttributeReference(a.size(2))); });
        reg("setunitattributereference", 3, 3, [V](Args &a) {
            auto u = a.U();
            size_t i = a.size(2);
            u->setUnitAttributeReference(i, a.str(3));
            return V;
        });
        reg("unitattributeprefix", 2, 2, [](Args &a) { auto u = a.U(); return rs(u->unitAttributePrefix(a.size(2))); });
        reg("unitattributeexponent", 2, 2, [](Args &a) { auto u = a.U(); return rd(u->unitAttributeExponent(a.size(2))); });
        reg("unitattributemultiplier", 2, 2, [](Args &a) { auto u = a.U(); return rd(u->unitAttributeMultiplier(a.size(2))); });
        reg("removeunit_i", 2, 2, [](Args &a) { auto u = a.U(); return rb(u->removeUnit(a.size(2))); });
        reg("removeunit_n", 2, 2, [](Args &a) {
            auto u = a.U();
            std::string rstr;
            Units::StandardUnit su = Units::StandardUnit::DIMENSIONLESS;
            return rb(a.unitRef(2, rstr, su) ? u->removeUnit(rstr) : u->removeUnit(su));
        });
        reg("unitcount", 1, 1, [](Args &a) { return rn(a.U()->unitCount()); });
        reg("setunitid", 3, 3, [](Args &a) {
            auto u = a.U();
            size_t i = a.size(2);
            return rb(u->setUnitId(i, a.str(3)));
        });
        reg("unitid", 2, 2, [](Args &a) { auto u = a.U(); return rs(u->unitId(a.size(2))); });
        reg("isbaseunit", 1, 1, [](Args &a) { return rb(a.U()->isBaseUnit()); });
        reg("setsourceunits", 3, 3, [V](Args &a) {
            auto u = a.U();
            ImportSourcePtr is = a.iq(2);
            std::string n = a.str(3);
            u->setSourceUnits(is, n);
            return V;
        });
        reg("scalingfactor", 2, 3, [](Args &a) {
            auto u = a.uq(1);
            auto w = a.uq(2);
            return rd(a.has(3) ? Units::scalingFactor(u, w, a.boolean(3)) : Units::scalingFactor(u, w));
        });
        reg("compatible", 2, 2, [](Args &a) { auto u = a.uq(1); auto w = a.uq(2); return rb(Units::compatible(u, w)); });
        reg("equivalent", 2, 2, [](Args &a) { auto u = a.uq(1); auto w = a.uq(2); return rb(Units::equivalent(u, w)); });

        // ---- Reset ----
        reg("setorder", 2, 2, [V](Args &a) { auto r = a.R(); r->setOrder(a.integer(2)); return V; });
        reg("order", 1, 1, [](Args &a) { return ri(a.R()->order()); });
        reg("removeorder", 1, 1, [V](Args &a) { a.R()->removeOrder(); return V; });
        reg("isorderset", 1, 1, [](Args &a) { return rb(a.R()->isOrderSet()); });
        reg("setvariable", 2, 2, [V](Args &a) { auto r = a.R(); auto v = a.vq(2); r->setVariable(v); return V; });
        reg("getvariable", 1, 1, [](Args &a) { return a.in.ref(a.R()->variable()); });
        reg("settestvariable", 2, 2, [V](Args &a) { auto r = a.R(); auto v = a.vq(2); r->setTestVariable(v); return V; });
        reg("testvariable", 1, 1, [](Args &a) { return a.in.ref(a.R()->testVariable()); });
        reg("settestvalue", 2, 2, [V](Args &a) { auto r = a.R(); r->setTestValue(a.str(2)); return V; });
        reg("appendtestvalue", 2, 2, [V](Args &a) { auto r = a.R(); r->appendTestValue(a.str(2)); return V; });
        reg("testvalue", 1, 1, [](Args &a) { return rs(a.R()->testValue()); });
        reg("removetestvalue", 1, 1, [V](Args &a) { a.R()->removeTestValue(); return V; });
        reg("settestvalueid", 2, 2, [V](Args &a) { auto r = a.R(); r->setTestValueId(a.str(2)); return V; });
        reg("testvalueid", 1, 1, [](Args &a) { return rs(a.R()->testValueId()); });
        reg("removetestvalueid", 1, 1, [V](Args &a) { a.R()->removeTestValueId(); return V; });
        reg("setresetvalue", 2, 2, [V](Args &a) { auto r = a.R(); r->setResetValue(a.str(2)); return V; });
        reg("appendresetvalue", 2, 2, [V](Args &a) { auto r = a.R(); r->appendResetValue(a.str(2)); return V; });
        reg("resetvalue", 1, 1, [](Args &a) { return rs(a.R()->resetValue()); });
        reg("removeresetvalue", 1, 1, [V](Args &a) { a.R()->removeResetValue(); return V; });
        reg("setresetvalueid", 2, 2, [V](Args &a) { auto r = a.R(); r->setResetValueId(a.str(2)); return V; });
        reg("resetvalueid", 1, 1, [](Args &a) { return rs(a.R()->resetValueId()); });
        reg("removeresetvalueid", 1, 1, [V](Args &a) { a.R()->removeResetValueId(); return V; });

        // ---- ImportSource ----
        reg("seturl", 2, 2, [V](Args &a) { auto i = a.I(); i->setUrl(a.str(2)); return V; });
        reg("url", 1, 1, [](Args &a) { return rs(a.I()->url()); });
        reg("setmodel", 2, 2, [V](Args &a) { auto i = a.I(); auto x = a.mq(2); i->setModel(x); return V; });
        reg("getmodel", 1, 1, [](Args &a) { return a.in.ref(a.I()->model()); });
        reg("removemodel", 1, 1, [V](Args &a) { a.I()->removeModel(); return V; });
        reg("hasmodel", 1, 1, [](Args &a) { return rb(a.I()->hasModel()); });

        // ---- ImportedEntity ----
        reg("setimportsource", 2, 2, [V](Args &a) { auto j = a.J(); auto i = a.iq(2); j->setImportSource(i); return V; });
        reg("getimportsource", 1, 1, [](Args &a) { return a.in.ref(a.J()->importSource()); });
        reg("setimportreference", 2, 2, [V](Args &a) { auto j = a.J(); j->setImportReference(a.str(2)); return V; });
        reg("importreference", 1, 1, [](Args &a) { return rs(a.J()->importReference()); });
        reg("isimport", 1, 1, [](Args &a) { return rb(a.J()->isImport()); });
        reg("isresolved", 1, 1, [](Args &a) { return rb(a.J()->isResolved()); });

        return m;
    }
};

} // namespace verif
