// dump.hpp — canonical single-line text of a model (or of a lone entity), built from PUBLIC GETTERS ONLY
// (never the Printer).  Two dumps are equal iff the observable content is equal.
//
// Syntax: S-expressions on one line.  Strings are written "..." with \" \\ and every byte outside
// 0x20..0x7e as \xHH (so no newline can occur).  Numbers (exponent, multiplier) are printed with %.17g.
//
//  (model (name S) (id S) (encid S)
//    (unitslist UNITS*) (components COMPONENT*) (equivalences EQ*))
//  UNITS     = (units (name S) (id S) IMPORT (unit (ref S) (prefix S) (exp D) (mult D) (id S))*)
//  IMPORT    = (import none)
//            | (import [#k] (url S) (id S) (ref S) (hasmodel B))     k: number of the distinct ImportSource object in
//                                                                   order of first encounter; only when sorted=false
//            | (import nosource (ref S))                            import reference set but no import source
//  COMPONENT = (component (name S) (id S) (encid S) IMPORT (math S)
//                (variables VARIABLE*) (resets RESET*) (components COMPONENT*))
//  VARIABLE  = (variable (name S) (id S) UNITSREF (init S) (iface S))
//  UNITSREF  = (units none) | (units S linked|foreign|unlinked)
//                 linked: the Units object's parent is the model being dumped; foreign: it has another parent;
//                 unlinked: it has no parent (e.g. created by setUnits(name)).
//  RESET     = (reset (order N set|unset) (var VREF) (testvar VREF) (testvalue S) (testvalueid S)
//                (resetvalue S) (resetvalueid S) (id S))
//  VREF      = none | S same|other|orphan      same: the variable's parent is the component that owns the reset
//                                              (for a lone reset: the reset's parent); other: another parent;
//                                              orphan: the variable has no parent
//  EQ        = (eq VPATH VPATH (mapid S [S]) (connid S [S]) [oneway])
//                 unordered pair, the two paths in sorted order; ids read in both directions with the static
//                 getters: one string when both directions agree, else two (in the order of the two paths);
//                 `oneway`: the second variable is inside the model but does not list the first one.
//  VPATH     = (in S.. S)      component names from the model's top level down, then the variable name
//            | (out S.. S)     same but the chain of parents does not end at the model being dumped
//            | (orphan S)      the variable has no parent component
//
// CAVEAT (library behaviour): Variable::equivalenceConnectionId(v1, v2) looks the id up through a std::map keyed by
// VariablePtr, so when several equivalences between the same two components carry DIFFERENT connection ids (only
// e.g. after the 4-argument addEquivalence) the value read back depends on object addresses and (connid ..)
// is not reproducible between runs.  Pass withConnectionIds=false to leave (connid ..) out.
//
// sorted=true : every child list (units, unit children, components, variables, resets, equivalences) is sorted
//               by its dumped text, so models equal up to child order dump identically.
// sorted=false: order preserved (equivalences are always sorted).
#pragma once

#include <algorithm>
#include <cstdio>
#include <functional>
#include <map>
#include <string>
#include <utility>
#include <vector>

#include <libcellml>

namespace verif {

inline std::string dq(const std::string &s)
{
    static const char *d = "0123456789abcdef";
    std::string o = "\"";
    for (unsigned char c : s) {
        if (c == '"' || c == '\\') {
            o.push_back('\\');
            o.push_back(char(c));
        } else if (c < 0x20 || c > 0x7e) {
            o += "\\x";
            o.push_back(d[c >> 4]);
            o.push_back(d[c & 15]);
        } else {
            o.push_back(char(c));
        }
    }
    o.push_back('"');
    return o;
}

inline std::string dnum(double v)
{
    char buf[64];
    snprintf(buf, sizeof buf, "%.17g", v);
    return buf;
}

struct DumpCtx
{
    libcellml::ModelPtr model; // the model being dumped (may be null for lone entities)
    bool sorted = false;
    std::vector<const libcellml::ImportSource *> sources; // numbering of import sources (unsorted mode)
};

inline std::string joinList(std::vector<std::string> items, bool sorted)
{
    if (sorted) {
        std::sort(items.begin(), items.end());
    }
    std::string o;
    for (const auto &i : items) {
        o += " " + i;
    }
    return o;
}

inline std::string dumpImport(DumpCtx &cx, const libcellml::ImportedEntity &e)
{
    auto src = e.importSource();
    std::string ref = e.importReference();
    if (src == nullptr) {
        if (ref.empty()) {
            return "(import none)";
        }
        return "(import nosource (ref " + dq(ref) + "))";
    }
    std::string o = "(import ";
    if (!cx.sorted) {
        size_t k = 0;
        for (; k < cx.sources.size(); ++k) {
            if (cx.sources[k] == src.get()) {
                break;
            }
        }
        if (k == cx.sources.size()) {
            cx.sources.push_back(src.get());
        }
        o += "#" + std::to_string(k) + " ";
    }
    o += "(url " + dq(src->url()) + ") (id " + dq(src->id()) + ") (ref " + dq(ref) + ") (hasmodel " + (src->hasModel() ? "true" : "false") + "))";
    return o;
}

inline std::string dumpUnits(DumpCtx &cx, const libcellml::UnitsPtr &u)
{
    if (u == nullptr) {
        return "(units null)";
    }
    std::string o = "(units (name " + dq(u->name()) + ") (id " + dq(u->id()) + ") " + dumpImport(cx, *u);
    std::vector<std::string> kids;
    for (size_t i = 0; i < u->unitCount(); ++i) {
        std::string ref;
        std::string pre;
        std::string id;
        double ex = 0.0;
        double mu = 0.0;
        u->unitAttributes(i, ref, pre, ex, mu, id);
        kids.push_back("(unit (ref " + dq(ref) + ") (prefix " + dq(pre) + ") (exp " + dnum(ex) + ") (mult " + dnum(mu) + ") (id " + dq(id) + "))");
    }
    return o + joinList(kids, cx.sorted) + ")";
}

inline std::string dumpVariable(DumpCtx &cx, const libcellml::VariablePtr &v)
{
    if (v == nullptr) {
        return "(variable null)";
    }
    std::string o = "(variable (name " + dq(v->name()) + ") (id " + dq(v->id()) + ") ";
    auto u = v->units();
    if (u == nullptr) {
        o += "(units none)";
    } else {
        auto up = u->parent();
        const char *st = "unlinked";
        if (up != nullptr) {
            st = (cx.model != nullptr && up.get() == static_cast<libcellml::ParentedEntity *>(cx.model.get())) ? "linked" : "foreign";
        }
        o += "(units " + dq(u->name()) + " " + st + ")";
    }
    o += " (init " + dq(v->initialValue()) + ") (iface " + dq(v->interfaceType()) + "))";
    return o;
}

inline std::string dumpVarRef(const libcellml::VariablePtr &v, const libcellml::ParentedEntityPtr &owner)
{
    if (v == nullptr) {
        return "none";
    }
    auto p = v->parent();
    const char *st = "orphan";
    if (p != nullptr) {
        st = (owner != nullptr && p.get() == owner.get()) ? "same" : "other";
    }
    return dq(v->name()) + " " + st;
}

// owner: the component the reset is listed in (for a lone reset pass reset->parent())
inline std::string dumpReset(DumpCtx &, const libcellml::ResetPtr &r, const libcellml::ParentedEntityPtr &owner)
{
    if (r == nullptr) {
        return "(reset null)";
    }
    std::string o = "(reset (order " + std::to_string(r->order()) + " " + (r->isOrderSet() ? "set" : "unset") + ")";
    o += " (var " + dumpVarRef(r->variable(), owner) + ")";
    o += " (testvar " + dumpVarRef(r->testVariable(), owner) + ")";
    o += " (testvalue " + dq(r->testValue()) + ") (testvalueid " + dq(r->testValueId()) + ")";
    o += " (resetvalue " + dq(r->resetValue()) + ") (resetvalueid " + dq(r->resetValueId()) + ")";
    o += " (id " + dq(r->id()) + "))";
    return o;
}

inline std::string dumpComponent(DumpCtx &cx, const libcellml::ComponentPtr &c, size_t depth = 0)
{
    if (c == nullptr) {
        return "(component null)";
    }
    if (depth > 300) {
        return "(component TOO-DEEP)";
    }
    std::string o = "(component (name " + dq(c->name()) + ") (id " + dq(c->id()) + ") (encid " + dq(c->encapsulationId()) + ") ";
    o += dumpImport(cx, *c);
    o += " (math " + dq(c->math()) + ")";
    std::vector<std::string> vs;
    for (size_t i = 0; i < c->variableCount(); ++i) {
        vs.push_back(dumpVariable(cx, c->variable(i)));
    }
    o += " (variables" + joinList(vs, cx.sorted) + ")";
    std::vector<std::string> rs;
    for (size_t i = 0; i < c->resetCount(); ++i) {
        rs.push_back(dumpReset(cx, c->reset(i), c));
    }
    o += " (resets" + joinList(rs, cx.sorted) + ")";
    std::vector<std::string> cs;
    for (size_t i = 0; i < c->componentCount(); ++i) {
        cs.push_back(dumpComponent(cx, c->component(i), depth + 1));
    }
    o += " (components" + joinList(cs, cx.sorted) + "))";
    return o;
}

// path of a variable relative to `model`
inline std::string dumpVarPath(const libcellml::VariablePtr &v, const libcellml::ModelPtr &model, bool *inside = nullptr)
{
    if (inside != nullptr) {
        *inside = false;
    }
    if (v == nullptr) {
        return "(null)";
    }
    auto p = v->parent();
    if (p == nullptr) {
        return "(orphan " + dq(v->name()) + ")";
    }
    std::vector<std::string> names;
    libcellml::ParentedEntityPtr top;
    size_t guard = 0;
    while (p != nullptr && guard++ < 5000) {
        top = p;
        auto named = std::dynamic_pointer_cast<libcellml::NamedEntity>(p);
        if (std::dynamic_pointer_cast<libcellml::Model>(p) == nullptr) {
            names.push_back(named != nullptr ? named->name() : std::string("?"));
        }
        p = p->parent();
    }
    bool in = model != nullptr && top != nullptr && top.get() == static_cast<libcellml::ParentedEntity *>(model.get());
    if (inside != nullptr) {
        *inside = in;
    }
    std::string o = in ? "(in" : "(out";
    for (auto it = names.rbegin(); it != names.rend(); ++it) {
        o += " " + dq(*it);
    }
    o += " " + dq(v->name()) + ")";
    return o;
}

inline void collectVariables(const libcellml::ComponentEntityPtr &e, std::vector<libcellml::VariablePtr> &out, size_t depth = 0)
{
    if (e == nullptr || depth > 300) {
        return;
    }
    if (auto c = std::dynamic_pointer_cast<libcellml::Component>(e)) {
        for (size_t i = 0; i < c->variableCount(); ++i) {
            out.push_back(c->variable(i));
        }
    }
    for (size_t i = 0; i < e->componentCount(); ++i) {
        collectVariables(e->component(i), out, depth + 1);
    }
}

// equivalences seen from the variables reachable under `root`; paths are relative to `model`
inline std::string dumpEquivalences(const libcellml::ComponentEntityPtr &root, const libcellml::ModelPtr &model, bool withConnectionIds = true)
{
    std::vector<libcellml::VariablePtr> vars;
    collectVariables(root, vars);
    struct Rec
    {
        std::string a;
        std::string b;
        std::string mapAB, mapBA, conAB, conBA;
        bool bInside = false;
        int sides = 0;
    };
    // key: (min ptr, max ptr) so that both directions fall on one record
    std::map<std::pair<const libcellml::Variable *, const libcellml::Variable *>, Rec> recs;
    std::vector<std::string> items;
    for (const auto &v : vars) {
        if (v == nullptr) {
            continue;
        }
        for (size_t i = 0; i < v->equivalentVariableCount(); ++i) {
            auto w = v->equivalentVariable(i);
            if (w == nullptr) {
                continue;
            }
            const libcellml::Variable *lo = v.get();
            const libcellml::Variable *hi = w.get();
            if (std::less<const libcellml::Variable *>()(hi, lo)) {
                std::swap(lo, hi);
            }
            auto key = std::make_pair(lo, hi);
            auto it = recs.find(key);
            if (it != recs.end()) {
                it->second.sides += 1;
                continue;
            }
            Rec r;
            bool inV = false;
            bool inW = false;
            std::string pv = dumpVarPath(v, model, &inV);
            std::string pw = dumpVarPath(w, model, &inW);
            std::string mvw = libcellml::Variable::equivalenceMappingId(v, w);
            std::string mwv = libcellml::Variable::equivalenceMappingId(w, v);
            std::string cvw = libcellml::Variable::equivalenceConnectionId(v, w);
            std::string cwv = libcellml::Variable::equivalenceConnectionId(w, v);
            // is w among the traversed variables (then its own list will be visited too)?
            bool wTraversed = false;
            for (const auto &x : vars) {
                if (x.get() == w.get()) {
                    wTraversed = true;
                    break;
                }
            }
            if (pv <= pw) {
                r.a = pv; r.b = pw; r.mapAB = mvw; r.mapBA = mwv; r.conAB = cvw; r.conBA = cwv;
            } else {
                r.a = pw; r.b = pv; r.mapAB = mwv; r.mapBA = mvw; r.conAB = cwv; r.conBA = cvw;
            }
            if (r.a == r.b && std::make_pair(r.mapBA, r.conBA) < std::make_pair(r.mapAB, r.conAB)) {
                std::swap(r.mapAB, r.mapBA);
                std::swap(r.conAB, r.conBA);
            }
            r.bInside = wTraversed;
            r.sides = 1;
            recs[key] = r;
        }
    }
    for (const auto &kv : recs) {
        const Rec &r = kv.second;
        std::string o = "(eq " + r.a + " " + r.b + " (mapid " + dq(r.mapAB);
        if (r.mapBA != r.mapAB) {
            o += " " + dq(r.mapBA);
        }
        o += ")";
        if (withConnectionIds) {
            o += " (connid " + dq(r.conAB);
            if (r.conBA != r.conAB) {
                o += " " + dq(r.conBA);
            }
            o += ")";
        }
        if (r.bInside && r.sides < 2) {
            o += " oneway";
        }
        o += ")";
        items.push_back(o);
    }
    return "(equivalences" + joinList(items, true) + ")";
}

// ---- public entry points -----------------------------------------------------------------------

inline std::string dumpModel(const libcellml::ModelPtr &m, bool sorted, bool withConnectionIds = true)
{
    if (m == nullptr) {
        return "(model null)";
    }
    DumpCtx cx;
    cx.model = m;
    cx.sorted = sorted;
    std::string o = "(model (name " + dq(m->name()) + ") (id " + dq(m->id()) + ") (encid " + dq(m->encapsulationId()) + ")";
    std::vector<std::string> us;
    for (size_t i = 0; i < m->unitsCount(); ++i) {
        us.push_back(dumpUnits(cx, m->units(i)));
    }
    o += " (unitslist" + joinList(us, sorted) + ")";
    std::vector<std::string> cs;
    for (size_t i = 0; i < m->componentCount(); ++i) {
        cs.push_back(dumpComponent(cx, m->component(i)));
    }
    o += " (components" + joinList(cs, sorted) + ")";
    o += " " + dumpEquivalences(m, m, withConnectionIds) + ")";
    return o;
}

// lone entities; `model` (optional) is the model relative to which linked/in/out are judged
inline std::string dumpComponent(const libcellml::ComponentPtr &c, bool sorted, const libcellml::ModelPtr &model = nullptr)
{
    DumpCtx cx;
    cx.model = model;
    cx.sorted = sorted;
    std::string o = dumpComponent(cx, c);
    if (c != nullptr) {
        o += " " + dumpEquivalences(c, model);
    }
    return o;
}

inline std::string dumpUnits(const libcellml::UnitsPtr &u, bool sorted)
{
    DumpCtx cx;
    cx.sorted = sorted;
    return dumpUnits(cx, u);
}

inline std::string dumpVariable(const libcellml::VariablePtr &v, const libcellml::ModelPtr &model = nullptr)
{
    DumpCtx cx;
    cx.model = model;
    return dumpVariable(cx, v);
}

inline std::string dumpReset(const libcellml::ResetPtr &r)
{
    DumpCtx cx;
    return dumpReset(cx, r, r != nullptr ? r->parent() : nullptr);
}

} // namespace verif
