(* Extraction of the C06 model: ExtrOcamlBasic + ExtrOcamlString only; nat/positive/Z/Q stay inductive. *)
From Coq Require Import Extraction ExtrOcamlBasic ExtrOcamlString QArith.
From LC Require Import Common NumDefs UnitsDefs FlattenDefs.
From LCGen Require Import UnitTables PrefixTable.
Extraction "flatten_model.ml" flatten_model flat_current_fixes flat_all_fixed flat_unfixed
  model_vars q_num_string q_den_string q_of_ints nat_to_string
  rebase_stack declash units_equivalent wlog_ok.
