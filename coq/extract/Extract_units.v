(* Extraction of the C08 model: ExtrOcamlBasic + ExtrOcamlString only; nat/positive/Z/Q stay inductive. *)
From Coq Require Import Extraction ExtrOcamlBasic ExtrOcamlString QArith.
From LC Require Import Common NumDefs UnitsDefs.
From LCGen Require Import UnitTables PrefixTable.
Extraction "units_model.ml" current_fixes unfixed all_fixed fuel_for lookup is_base is_defined is_resolved
  define_units_map compatible scaling_factor equivalent mult_go val_equiv val_scale ana_equiv ana_map ana_scale
  convert_prefix q_num_string q_den_string q_of_ints is_std_name qzero.
