(* Extraction of the C14 model (family "transform"): ExtrOcamlBasic + ExtrOcamlString only; Z/N/nat/Q stay inductive. *)
From Coq Require Import Extraction ExtrOcamlBasic ExtrOcamlString.
From LC Require Import Common NumDefs XmlDefs EntTreeDefs PrintDefs LoadDefs RoundtripSpec Load1xDefs To1xDefs MathNsDefs.
Definition cellml_to_int := NumDefs.to_int.  (* avoids the clash with Z.to_int in the extracted module *)
Extraction "transform_model.ml" z_to_string is_real cellml_to_int
  print_model print_tree load canon printableb flat no_imports no_hierarchy no_connections
  load1x to1x conv1x conv_ok expressible_1xb rewrite_math math_in_scope is_message
  stored_math erase no_1x_decl.
