(* Extraction of the C03 model: ExtrOcamlBasic + ExtrOcamlString only; nat/Z stay inductive. *)
From Coq Require Import Extraction ExtrOcamlBasic ExtrOcamlString.
From LC Require Import Common AstDefs GenDefs GramDefs ReadDefs CGramDefs PyGramDefs ScaleDefs.
Extraction "gen_model.ml" ty_of_name ty_name gen_C gen_Py readC readPy trC trPy safeC safePy lvlC lvlPy
  norm tree_eqb show_tree nat_to_string unsafe_sites ast_line profile_C profile_Py analysed_ast.
