(* Extraction of the C12 model: ExtrOcamlBasic + ExtrOcamlString only; nat stays inductive. *)
From Coq Require Import Extraction ExtrOcamlBasic ExtrOcamlString.
From LC Require Import Common NumDefs GlobalDefs.
Definition c12_is_basic_real := NumDefs.is_basic_real.
Definition c12_is_int := NumDefs.is_int.
Extraction "global_model.ml" nat_to_string c12_is_basic_real c12_is_int
  strip strip_forest ser math_string parse_model ent_maths print_math print_model multi_root validate_math analyse_math
  step effect flag_after flag_char last_decisive math_sensitive gstep.
