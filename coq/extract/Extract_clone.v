(* Extraction of the C11 model: ExtrOcamlBasic + ExtrOcamlString only; nat/Z stay inductive. *)
From Coq Require Import Extraction ExtrOcamlBasic ExtrOcamlString ZArith.
From LC Require Import Common CloneDefs.
Definition clone_z_of_nat (neg : bool) (n : nat) : Z := if neg then Z.opp (Z.of_nat n) else Z.of_nat n.
Definition clone_mk_flags (a b c d e : bool) : flags :=
  {| fx_order := a; fx_encid := b; fx_isrc := c; fx_eqids := d; fx_ext := e |}.
Extraction "clone_model.ml" z_to_string clone_z_of_nat clone_mk_flags
  clone_isrc clone_units clone_variable clone_reset clone_component clone_model
  apply_isrc apply_units apply_variable apply_reset apply_component apply_model
  content_isrc content_units content_variable content_reset content_component content_model_struct model_eqvs.
