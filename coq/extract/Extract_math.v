(* Extraction of the C01 models (MathML validator/analyser contract, unit-reducer termination):
   ExtrOcamlBasic + ExtrOcamlString only; nat/Z stay inductive. *)
From Coq Require Import Extraction ExtrOcamlBasic ExtrOcamlString.
From LC Require Import Common MathDefs.
Extraction "math_model.ml" nat_to_string val_math_env_head ana_math_env std_vars std_units rule_name site_name
  site_certain pow_math_env exponent_unavailable stod_result_name enum_d1 enum_d2 enum_d3 arity_sweep m_math MATHML_NS CELLML_2_0_NS.
