(* Extraction of the C18 model: ExtrOcamlBasic + ExtrOcamlString only; nat/N stay inductive. *)
From Coq Require Import Extraction ExtrOcamlBasic ExtrOcamlString.
From LC Require Import Common KeyDefs GraphDefs.
Extraction "equiv_model.ml" pairkey key64 cantor n_of_hex n_to_hex
  build freeze eqv has_equivalent are_equivalent model_queries model_queries_key64 heap_addr
  run_history final_graph empty_graph.
