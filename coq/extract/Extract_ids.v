(* Extraction of the C13 model: ExtrOcamlBasic + ExtrOcamlString only; nat/N stay inductive. *)
From Coq Require Import Extraction ExtrOcamlBasic ExtrOcamlString.
From LC Require Import Common IdsDefs.
Extraction "ids_model.ml" cfg_fixed cfg_pinned init run minit mrun wf kind_index acc_index hex.
