(* Extraction of the C02 model: ExtrOcamlBasic + ExtrOcamlString only; Z/N/nat/Q stay inductive. *)
From Coq Require Import Extraction ExtrOcamlBasic ExtrOcamlString.
From LC Require Import Common NumDefs XmlDefs EntTreeDefs PrintDefs LoadDefs RoundtripSpec.
Definition cellml_to_int := NumDefs.to_int.  (* avoids the clash with Z.to_int in the extracted module *)
Extraction "roundtrip_model.ml" z_to_string is_real cellml_to_int
  print_model_src print_model load reparse canon printableb flat no_imports no_hierarchy no_connections
  decode_attr escape_attr.
