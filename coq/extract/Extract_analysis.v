(* Extraction of the C05 (later C20) model: ExtrOcamlBasic + ExtrOcamlString only; nat stays inductive. *)
From Coq Require Import Extraction ExtrOcamlBasic ExtrOcamlString.
From LC Require Import AnalysisDefs AnalysisSpec.
Extraction "analysis_model.ml" analyse analyse_ext build loop sweep check finish analyse_asts check_inits loop_fuel
  wf_failures wf deps_failing classification first_pass first_pass_complete.
