(* Extraction of the C16 model: ExtrOcamlBasic + ExtrOcamlString only; Z/N/nat stay inductive. *)
From Coq Require Import Extraction ExtrOcamlBasic ExtrOcamlString.
From LC Require Import Common NumDefs NumPosDefs.
Definition cellml_to_int := NumDefs.to_int.  (* avoids the clash with Z.to_int in the extracted module *)
Extraction "num_model.ml" z_to_string is_int is_nonneg_int is_basic_real is_real cellml_to_int convert_to_double
  convert_to_int_flow real_parts real_dfa int_dfa g15_shape strtod_converts
  strip pos_recognised pos_converts pos_int_in_range.
