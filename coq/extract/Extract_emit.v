(* Extraction of the C17 model: ExtrOcamlBasic + ExtrOcamlString only; nat stays inductive. *)
From Coq Require Import Extraction ExtrOcamlBasic ExtrOcamlString.
From LC Require Import Common AstDefs GenDefs EmitDefs.
Extraction "emit_model.ml" ty_of_name nat_to_string profile_C profile_Py prof
  analyse_math need_flags_list flags_bits all_helpers helper_name
  interface_code implementation_code info_sizes helpers_emitted declared_sigs defined_sigs nla_systems
  state_info_table variable_info_table voi_info wf_indices_b is_valid method_body_code.
