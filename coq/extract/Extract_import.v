(* Extraction of the C07 model: ExtrOcamlBasic + ExtrOcamlString only; nat stays inductive. *)
From Coq Require Import Extraction ExtrOcamlBasic ExtrOcamlString.
From LC Require Import Common ImportDefs.
Extraction "import_model.ml" empty_state remove_all_models clear_origin_links resolve_imports has_unresolved_imports
  flatten_precheck no_fixes fuel_bound scan_fuel owner_name mk_key not_cellml model_equals is_std
  norm_sep path_from_url normalise_path resolve_path import_key new_base.
