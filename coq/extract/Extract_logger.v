(* Extraction of the C15 model: ExtrOcamlBasic + ExtrOcamlString only; nat stays inductive. *)
From Coq Require Import Extraction ExtrOcamlBasic ExtrOcamlString.
From LCGen Require Import RuleTable IssueSites.
From LC Require Import Common LoggerDefs.
Extraction "logger_model.ml" empty_logger run_ops_upto run_checked inv_b get_issue get_level level_count issue_count
  level_vec rt_heading rt_url rule_count rule_names apply_setter read tree_math_fixed holder_init holder_consistent
  etype_index pkind_cxx all_accessors all_snames all_etypes all_levels.
