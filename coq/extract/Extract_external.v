(* Extraction of the C20 model (family "external"): ExtrOcamlBasic + ExtrOcamlString only; nat stays inductive. *)
From Coq Require Import Extraction ExtrOcamlBasic ExtrOcamlString.
From LC Require Import AnalysisDefs AnalysisSpec ExternalDefs.
Extraction "external_model.ml" analyse analyse_ext analyse_x analyse_xg nla_dep_fix state_rescue_fix analyse_marked voi_fix sibling_fix make_mark add_external_variable local_marks
  marked_classes definition_of depends_on linked_classes is_voi_class method_bodies ordered_from eq_positions
  state_rate_based to_be_computed_again dep_wanted all_pos valid_type all_avars find_aeq cls_of classification.
