(* Extraction of the C19 model: ExtrOcamlBasic + ExtrOcamlString only; nat stays inductive. *)
From Coq Require Import Extraction ExtrOcamlBasic ExtrOcamlString.
From LC Require Import IfaceDefs IfaceOwnDefs.
Extraction "iface_model.ml" fix_model validate_connections link_model has_unlinked clean_model model_hidden_bad
  step readds visible_heap lists_get.
