(* Extraction of the C04 model (the Validator): ExtrOcamlBasic + ExtrOcamlString only; nat/N/Z/Q stay inductive. *)
From Coq Require Import Extraction ExtrOcamlBasic ExtrOcamlString.
From LC Require Import Common NumDefs MathDefs ValidDefs.
Definition valid_is_ident := ValidDefs.is_ident.
Extraction "valid_model.ml" nat_to_string validate_now validate ueq_c08 vrule_name vrule_num all_vrules is_xml_name
  valid_is_ident real_dfa int_dfa current_early current_fixes all_fixed unfixed mkFx mkUI mkIS mkU mkE mkV mkR mkC mkM.
