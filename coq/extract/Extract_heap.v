(* Extraction of the C09 model: ExtrOcamlBasic + ExtrOcamlString only; nat stays inductive. *)
From Coq Require Import Extraction ExtrOcamlBasic ExtrOcamlString.
From LC Require Import HeapDefs.
Extraction "heap_model.ml" init step_conc readds getd alive gc bad_arg seq_conc reach_set.
