(* Extraction of the C10 model: ExtrOcamlBasic + ExtrOcamlString only; nat/Z/Q stay inductive.
   [eq_entity] is extracted WITH its parameter [neq] (the comparison of doubles): the OCaml glue instantiates it by
   a transcription of utilities.cpp: areNearlyEqual on the doubles themselves (see ocaml/equals/driver.ml). *)
From Coq Require Import Extraction ExtrOcamlBasic ExtrOcamlString ZArith QArith.
From LC Require Import EqualsDefs.
(* glue: the double m * 2^e as a rational *)
Definition q_of_me (m e : Z) : Q :=
  if (0 <=? e)%Z then inject_Z (m * 2 ^ e) else Qmake m (Z.to_pos (2 ^ (- e))).
Extraction "equals_model.ml" q_of_me eq_entity flags_now flags_repo_pinned flags_fixed equals_ideal.
