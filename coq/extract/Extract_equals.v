(* Extraction of the C10 model: ExtrOcamlBasic + ExtrOcamlString only; nat/Z/Q stay inductive. *)
From Coq Require Import Extraction ExtrOcamlBasic ExtrOcamlString ZArith QArith.
From LC Require Import EqualsDefs.
(* glue: the double m * 2^e as a rational *)
Definition q_of_me (m e : Z) : Q :=
  if (0 <=? e)%Z then inject_Z (m * 2 ^ e) else Qmake m (Z.to_pos (2 ^ (- e))).
Extraction "equals_model.ml" q_of_me equals_now equals_pinned equals_varcount equals_ideal.
