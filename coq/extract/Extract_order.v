(* Extraction of the emission-order model used by C03 (OrderDefs over C20's ExternalDefs / AnalysisDefs). *)
From Coq Require Import Extraction ExtrOcamlBasic ExtrOcamlString.
From LC Require Import Common AnalysisDefs AnalysisSpec ExternalDefs OrderDefs.
Extraction "order_model.ml" emission body_slots ordered_all rates_body computed_constants_body variables_body
  initialise_body all_pos eq_positions sfx.
