(** IdsHash.v — order of ids(), and faithfulness of the annotator's hash string for identifiers without '=' (C13). *)
From Coq Require Import String Ascii List NArith Arith Bool Lia Sorted
     DecimalString HexadecimalString Decimal Hexadecimal.
From LC Require Import Common IdsDefs IdsProofs IdsProofs2 IdsProofs3 IdsProofs4.
Import ListNotations.
Open Scope string_scope.
Open Scope list_scope.

(* ------------------------------------------------------------------------------------------------ order of ids() *)

Definition str_lt (a b : string) : Prop := str_ltb a b = true.

Lemma nat_of_ascii_inj : forall a b, nat_of_ascii a = nat_of_ascii b -> a = b.
Proof. intros a b H. rewrite <- (ascii_nat_embedding a), <- (ascii_nat_embedding b), H. reflexivity. Qed.

Lemma str_ltb_irrefl : forall a, str_ltb a a = false.
Proof. induction a as [|x a IH]; simpl; [reflexivity|]. rewrite Nat.ltb_irrefl. exact IH. Qed.

Lemma str_ltb_trans : forall a b c, str_ltb a b = true -> str_ltb b c = true -> str_ltb a c = true.
Proof.
  induction a as [|x a IH]; intros b c H1 H2.
  - destruct c; [destruct b; simpl in H2; discriminate | reflexivity].
  - destruct b as [|y b]; [simpl in H1; discriminate|]. destruct c as [|z c]; [simpl in H2; discriminate|].
    simpl in *.
    destruct (Nat.ltb_spec (nat_of_ascii x) (nat_of_ascii y)), (Nat.ltb_spec (nat_of_ascii y) (nat_of_ascii x));
      destruct (Nat.ltb_spec (nat_of_ascii y) (nat_of_ascii z)), (Nat.ltb_spec (nat_of_ascii z) (nat_of_ascii y));
      destruct (Nat.ltb_spec (nat_of_ascii x) (nat_of_ascii z)), (Nat.ltb_spec (nat_of_ascii z) (nat_of_ascii x));
      try reflexivity; try discriminate; try lia.
    eapply IH; eassumption.
Qed.

Lemma str_ltb_total : forall a b, str_ltb a b = false -> str_ltb b a = false -> a = b.
Proof.
  induction a as [|x a IH]; intros b H1 H2.
  - destruct b; [reflexivity | simpl in H1; discriminate].
  - destruct b as [|y b]; [simpl in H2; discriminate|]. simpl in *.
    destruct (Nat.ltb_spec (nat_of_ascii x) (nat_of_ascii y)), (Nat.ltb_spec (nat_of_ascii y) (nat_of_ascii x));
      try discriminate; try lia.
    assert (x = y) by (apply nat_of_ascii_inj; lia). subst. f_equal. apply IH; assumption.
Qed.

Lemma insert_uniq_In' : forall x l y, In y (insert_uniq x l) <-> y = x \/ In y l.
Proof.
  intros x. induction l as [|z r IH]; intro y; simpl; [intuition|].
  destruct (String.eqb x z) eqn:E.
  - apply String.eqb_eq in E; subst. simpl. intuition.
  - destruct (str_ltb x z); simpl; [intuition|]. rewrite IH. intuition.
Qed.

Lemma insert_uniq_sorted : forall x l, StronglySorted str_lt l -> StronglySorted str_lt (insert_uniq x l).
Proof.
  intros x. induction l as [|y r IH]; intro H; simpl.
  - constructor; constructor.
  - inversion H as [|a l' Hs Hf]; subst.
    destruct (String.eqb x y) eqn:E; [assumption|].
    destruct (str_ltb x y) eqn:L.
    + constructor; [assumption|]. constructor; [exact L|].
      rewrite Forall_forall in *. intros z Hz. eapply str_ltb_trans; [exact L | apply Hf; assumption].
    + constructor; [apply IH; assumption|].
      rewrite Forall_forall in *. intros z Hz. apply insert_uniq_In' in Hz. destruct Hz as [->|Hz]; [|apply Hf; assumption].
      unfold str_lt. destruct (str_ltb y x) eqn:L2; [reflexivity|]. exfalso.
      apply String.eqb_neq in E. apply E. apply str_ltb_total; assumption.
Qed.

Lemma sort_uniq_sorted : forall l, StronglySorted str_lt (sort_uniq l).
Proof. induction l as [|x r IH]; simpl; [constructor | apply insert_uniq_sorted; assumption]. Qed.

Lemma sorted_nodup : forall l, StronglySorted str_lt l -> NoDup l.
Proof.
  induction l as [|x r IH]; intro H; [constructor|]. inversion H as [|a l' Hs Hf]; subst.
  constructor; [|apply IH; assumption]. intro Hin. rewrite Forall_forall in Hf. specialize (Hf x Hin).
  unfold str_lt in Hf. rewrite str_ltb_irrefl in Hf. discriminate.
Qed.

(* ids() and duplicateIds() are strictly ascending in the bytewise order of std::string *)
Theorem ids_of_sorted : forall cache, NoDup (ids_of cache) /\ StronglySorted str_lt (ids_of cache).
Proof. intro cache. unfold ids_of. split; [apply sorted_nodup|]; apply sort_uniq_sorted. Qed.

(* ------------------------------------------------------------------------------------------------ strings *)

Lemma sapp_assoc : forall a b c : string, ((a ++ b) ++ c = a ++ (b ++ c))%string.
Proof. induction a as [|x a IH]; intros b c; simpl; [reflexivity|]. rewrite IH. reflexivity. Qed.
Lemma sapp_nil_r : forall a : string, (a ++ "")%string = a.
Proof. induction a as [|x a IH]; simpl; [reflexivity|]. rewrite IH. reflexivity. Qed.
Lemma sapp_inv_head : forall a b c : string, (a ++ b = a ++ c)%string -> b = c.
Proof. induction a as [|x a IH]; intros b c H; simpl in H; [assumption|]. inversion H. apply IH; assumption. Qed.
Lemma slength_app : forall a b : string, String.length (a ++ b)%string = String.length a + String.length b.
Proof. induction a as [|x a IH]; intro b; simpl; [reflexivity|]. rewrite IH. reflexivity. Qed.
Lemma sapp_eq_len : forall a b c d : string,
  (a ++ c = b ++ d)%string -> String.length a = String.length b -> a = b /\ c = d.
Proof.
  induction a as [|x a IH]; intros b c d H L; destruct b as [|y b]; simpl in *; try discriminate.
  - split; [reflexivity | assumption].
  - inversion H; subst. destruct (IH b c d H2) as [-> ->]; [lia|]. split; reflexivity.
Qed.

(* no '=' character *)
Fixpoint eq_freeb (s : string) : bool :=
  match s with
  | EmptyString => true
  | String ch r => negb (Ascii.eqb ch "=") && eq_freeb r
  end.
Lemma eq_freeb_app : forall a b, eq_freeb (a ++ b)%string = eq_freeb a && eq_freeb b.
Proof. induction a as [|x a IH]; intro b; simpl; [reflexivity|]. rewrite IH, andb_assoc. reflexivity. Qed.

(* the part before the first '=' and the part after it *)
Fixpoint before_eq (s : string) : string :=
  match s with
  | EmptyString => EmptyString
  | String ch r => if Ascii.eqb ch "=" then EmptyString else String ch (before_eq r)
  end.
Fixpoint after_eq (s : string) : string :=
  match s with
  | EmptyString => EmptyString
  | String ch r => if Ascii.eqb ch "=" then r else after_eq r
  end.
Lemma before_after_eq : forall u t, eq_freeb u = true ->
  before_eq (u ++ String "=" t)%string = u /\ after_eq (u ++ String "=" t)%string = t.
Proof.
  induction u as [|x u IH]; intros t H; simpl in *; [split; reflexivity|].
  apply andb_true_iff in H. destruct H as [H1 H2]. apply negb_true_iff in H1. rewrite H1.
  destruct (IH t H2) as [A B]. rewrite A, B. split; reflexivity.
Qed.

(* the id that precedes a token is determined by the string *)
Lemma tok_boundary : forall x x' L T T',
  eq_freeb x = true -> eq_freeb x' = true -> eq_freeb L = true ->
  (x ++ (L ++ String "=" T) = x' ++ (L ++ String "=" T'))%string -> x = x' /\ T = T'.
Proof.
  intros x x' L T T' Hx Hx' HL H. rewrite <- !sapp_assoc in H.
  assert (F1 : eq_freeb (x ++ L)%string = true) by (rewrite eq_freeb_app, Hx, HL; reflexivity).
  assert (F2 : eq_freeb (x' ++ L)%string = true) by (rewrite eq_freeb_app, Hx', HL; reflexivity).
  destruct (before_after_eq _ T F1) as [A1 B1]. destruct (before_after_eq _ T' F2) as [A2 B2].
  assert (E1 : (x ++ L)%string = (x' ++ L)%string) by (rewrite <- A1, <- A2, H; reflexivity).
  assert (E2 : T = T') by (rewrite <- B1, <- B2, H; reflexivity).
  split; [|exact E2].
  assert (Len : String.length x = String.length x').
  { apply (f_equal String.length) in E1. rewrite !slength_app in E1. lia. }
  exact (proj1 (sapp_eq_len _ _ _ _ E1 Len)).
Qed.

(* ------------------------------------------------------------------------------------------------ the serialised string *)

Definition eq_free_vec (ids : list string) : Prop := forall slot, eq_freeb (get ids slot) = true.
Definition tok_ok (t : htok) : bool := match t with (letters, digits, _) => eq_freeb letters && eq_freeb digits end.
Definition tok_slot (t : htok) : nat := match t with (_, _, slot) => slot end.
Definition ser (ids : list string) (toks : list htok) : string := cat (map (tok_string ids) toks).

Lemma ser_cons : forall ids t r, ser ids (t :: r) = (tok_string ids t ++ ser ids r)%string.
Proof. reflexivity. Qed.

Lemma ser_inj : forall ids ids' toks,
  eq_free_vec ids -> eq_free_vec ids' -> forallb tok_ok toks = true ->
  ser ids toks = ser ids' toks -> forall t, In t toks -> get ids (tok_slot t) = get ids' (tok_slot t).
Proof.
  intros ids ids' toks F F'. induction toks as [|t r IH]; intros Hok H t0 Hin; [destruct Hin|].
  simpl in Hok. apply andb_true_iff in Hok. destruct Hok as [Ht Hr].
  destruct t as [[L D] slot]. rewrite !ser_cons in H. unfold tok_string in H.
  (* L ++ "=" ++ D ++ x ++ rest *)
  rewrite !sapp_assoc in H. apply sapp_inv_head in H. simpl in H. inversion H as [H1]. clear H.
  apply sapp_inv_head in H1.
  simpl in Ht. apply andb_true_iff in Ht. destruct Ht as [HL HD].
  assert (Key : get ids slot = get ids' slot /\ ser ids r = ser ids' r).
  { destruct r as [|t2 r2].
    - unfold ser in H1. simpl in H1. rewrite !sapp_nil_r in H1. split; [assumption | reflexivity].
    - destruct t2 as [[L2 D2] slot2]. rewrite !ser_cons in H1. unfold tok_string in H1.
      rewrite !sapp_assoc in H1. simpl in H1.
      simpl in Hr. apply andb_true_iff in Hr. destruct Hr as [Ht2 _].
      apply andb_true_iff in Ht2. destruct Ht2 as [HL2 _].
      destruct (tok_boundary _ _ _ _ _ (F slot) (F' slot) HL2 H1) as [A B].
      split; [exact A|]. rewrite !ser_cons. unfold tok_string. rewrite !sapp_assoc. simpl. rewrite B. reflexivity. }
  destruct Key as [K1 K2]. destruct Hin as [<-|Hin]; [exact K1|]. apply IH; assumption.
Qed.

(* ------------------------------------------------------------------------------------------------ the tokens of generateHash *)

Lemma dec_uint_eq_free : forall d, eq_freeb (DecimalString.NilEmpty.string_of_uint d) = true.
Proof. induction d; simpl; auto. Qed.
Lemma dec_eq_free : forall n, eq_freeb (dec n) = true.
Proof.
  intro n. unfold dec, nat_to_string. generalize (Nat.to_uint n) as d. intro d.
  unfold DecimalString.NilZero.string_of_uint. destruct d; try reflexivity;
    match goal with |- eq_freeb (DecimalString.NilEmpty.string_of_uint ?x) = true => apply (dec_uint_eq_free x) end.
Qed.
Lemma hex_uint_eq_free : forall d, eq_freeb (HexadecimalString.NilEmpty.string_of_uint d) = true.
Proof. induction d; simpl; auto. Qed.
Lemma hex_eq_free : forall n, eq_freeb (hex n) = true.
Proof. intro n. unfold hex. apply hex_uint_eq_free. Qed.

Ltac tokok := simpl; rewrite ?dec_eq_free; simpl; auto.

Lemma forallb_app' : forall (A : Type) (f : A -> bool) l1 l2, forallb f (l1 ++ l2) = forallb f l1 && forallb f l2.
Proof. intros; apply forallb_app. Qed.

Lemma ok_imports : forall l i, forallb tok_ok (hash_imports l i) = true.
Proof. induction l as [|s r IH]; intro i; simpl; [reflexivity|]. rewrite dec_eq_free, IH. reflexivity. Qed.
Lemma ok_indexed_u : forall l i, forallb tok_ok (hash_indexed "u" l i) = true.
Proof. induction l as [|s r IH]; intro i; simpl; [reflexivity|]. rewrite dec_eq_free, IH. reflexivity. Qed.
Lemma ok_eqs : forall l j, forallb tok_ok (hash_eqs l j) = true.
Proof. induction l as [|e r IH]; intro j; simpl; [reflexivity|]. rewrite dec_eq_free, IH. reflexivity. Qed.
Lemma ok_vars : forall c l i, forallb tok_ok (hash_vars c l i) = true.
Proof.
  intros c. induction l as [|v r IH]; intro i; simpl; [reflexivity|]. rewrite dec_eq_free. simpl.
  rewrite forallb_app, IH. destruct (fx_hash c); [rewrite ok_eqs|]; reflexivity.
Qed.
Lemma ok_resets : forall l i, forallb tok_ok (hash_resets l i) = true.
Proof. induction l as [|r t IH]; intro i; simpl; [reflexivity|]. rewrite dec_eq_free, IH. reflexivity. Qed.
Lemma ok_comp : forall c k, forallb tok_ok (hash_comp c k) = true.
Proof.
  intros c k. unfold hash_comp. rewrite !forallb_app, ok_vars, ok_resets.
  destruct (cs_top k); simpl; rewrite ?dec_eq_free; reflexivity.
Qed.
Lemma ok_units : forall l i, forallb tok_ok (hash_units l i) = true.
Proof.
  induction l as [|u r IH]; intro i; simpl; [reflexivity|]. rewrite dec_eq_free. simpl.
  rewrite forallb_app, ok_indexed_u, IH. reflexivity.
Qed.
Lemma ok_tokens : forall c st, forallb tok_ok (hash_tokens c st) = true.
Proof.
  intros c st. unfold hash_tokens. rewrite !forallb_app, ok_imports, ok_units. simpl.
  assert (G : forall l, forallb tok_ok (flat_map (hash_comp c) l) = true).
  { induction l as [|k r IH]; simpl; [reflexivity|]. rewrite forallb_app, ok_comp, IH. reflexivity. }
  apply G.
Qed.

(* every position the listing visits has a token (with the hash repair) *)
Definition tslots (toks : list htok) : list nat := map tok_slot toks.

Lemma ts_imports : forall l i s, In s l -> In s (tslots (hash_imports l i)).
Proof. induction l as [|x r IH]; intros i s H; [destruct H|]. destruct H as [<-|H]; simpl; [left; reflexivity | right; apply IH; assumption]. Qed.
Lemma ts_indexed : forall L l i s, In s l -> In s (tslots (hash_indexed L l i)).
Proof. intros L. induction l as [|x r IH]; intros i s H; [destruct H|]. destruct H as [<-|H]; simpl; [left; reflexivity | right; apply IH; assumption]. Qed.
Lemma ts_eqs : forall l j e, In e l -> In (es_map e) (tslots (hash_eqs l j)) /\ In (es_conn e) (tslots (hash_eqs l j)).
Proof.
  induction l as [|x r IH]; intros j e H; [destruct H|]. destruct H as [<-|H]; simpl.
  - split; [left; reflexivity | right; left; reflexivity].
  - destruct (IH (S j) e H) as [A B]. split; right; right; assumption.
Qed.
Lemma tslots_app : forall a b, tslots (a ++ b) = tslots a ++ tslots b.
Proof. intros; unfold tslots; apply map_app. Qed.
Lemma ts_vars : forall c l i v, fx_hash c = true -> In v l ->
  In (vs_slot v) (tslots (hash_vars c l i)) /\
  forall e, In e (vs_eqs v) -> In (es_map e) (tslots (hash_vars c l i)) /\ In (es_conn e) (tslots (hash_vars c l i)).
Proof.
  intros c. induction l as [|x r IH]; intros i v Hf H; [destruct H|]. destruct H as [<-|H]; simpl; rewrite Hf, tslots_app.
  - split; [left; reflexivity|]. intros e He. destruct (ts_eqs (vs_eqs x) 0 e He) as [A B].
    split; right; apply in_or_app; left; assumption.
  - destruct (IH (S i) v Hf H) as [A B]. split; [right; apply in_or_app; right; assumption|].
    intros e He. destruct (B e He) as [B1 B2]. split; right; apply in_or_app; right; assumption.
Qed.
Lemma ts_resets : forall l i r, In r l ->
  In (rs_slot r) (tslots (hash_resets l i)) /\ In (rs_tv r) (tslots (hash_resets l i)) /\ In (rs_rv r) (tslots (hash_resets l i)).
Proof.
  induction l as [|x t IH]; intros i r H; [destruct H|]. destruct H as [<-|H]; simpl.
  - repeat split; auto.
  - destruct (IH (S i) r H) as [A [B C]]. repeat split; right; right; right; assumption.
Qed.
Lemma ts_units : forall l i u, In u l ->
  In (us_slot u) (tslots (hash_units l i)) /\ forall s, In s (us_items u) -> In s (tslots (hash_units l i)).
Proof.
  induction l as [|x r IH]; intros i u H; [destruct H|]. destruct H as [<-|H]; simpl; rewrite tslots_app.
  - split; [left; reflexivity|]. intros s Hs. right. apply in_or_app; left. apply ts_indexed; assumption.
  - destruct (IH (S i) u H) as [A B]. split; [right; apply in_or_app; right; assumption|].
    intros s Hs. right. apply in_or_app; right. apply B; assumption.
Qed.
Lemma ts_comp_in : forall c l k s, In k l -> In s (tslots (hash_comp c k)) -> In s (tslots (flat_map (hash_comp c) l)).
Proof.
  intros c. induction l as [|x r IH]; intros k s H Hs; [destruct H|]. destruct H as [<-|H]; simpl; rewrite tslots_app; apply in_or_app.
  - left; assumption.
  - right; eapply IH; eassumption.
Qed.

Lemma tokens_cover : forall c st slot, fx_hash c = true -> In slot (listed_slots st) -> In slot (tslots (hash_tokens c st)).
Proof.
  intros c st slot Hf Hin. destruct (listed_pos st slot Hin) as [k Hk]. apply in_list_visits in Hk.
  unfold hash_tokens. rewrite !tslots_app.
  unfold PosSpec, UnitsSpec, CompSpec in Hk.
  destruct Hk as [E|[E|[[s [Hs E]]|[[u [Hu Hk]]|[kc [Hkc Hk]]]]]].
  - inversion E; subst. apply in_or_app; left. left; reflexivity.
  - inversion E; subst. apply in_or_app; left. right; left; reflexivity.
  - inversion E; subst. apply in_or_app; right. apply in_or_app; left. apply ts_imports; assumption.
  - apply in_or_app; right. apply in_or_app; right. apply in_or_app; left.
    destruct (ts_units (st_units st) 0 u Hu) as [A B].
    destruct Hk as [E|[i [Hi E]]]; inversion E; subst; [exact A | apply B; assumption].
  - apply in_or_app; right. apply in_or_app; right. apply in_or_app; right.
    apply (ts_comp_in c (st_comps st) kc slot Hkc). unfold hash_comp. rewrite !tslots_app.
    destruct Hk as [E|[[_ E]|[[v [Hv Hk]]|[r [Hr Hk]]]]].
    + inversion E; subst. apply in_or_app; left. destruct (cs_top kc); left; reflexivity.
    + inversion E; subst. apply in_or_app; left. destruct (cs_top kc); right; left; reflexivity.
    + apply in_or_app; right. apply in_or_app; left.
      destruct (ts_vars c (cs_vars kc) 0 v Hf Hv) as [A B].
      destruct Hk as [E|[e [He [E|E]]]]; inversion E; subst; [exact A | apply (B e He) | apply (B e He)].
    + apply in_or_app; right. apply in_or_app; right.
      destruct (ts_resets (cs_resets kc) 0 r Hr) as [A [B C]].
      destruct Hk as [E|[E|E]]; inversion E; subst; assumption.
Qed.

(* ------------------------------------------------------------------------------------------------ faithfulness *)

Lemma build_from_ext : forall c ids ids' vs seen,
  (forall v, In v vs -> get ids (v_slot v) = get ids' (v_slot v)) ->
  build_from c ids vs seen = build_from c ids' vs seen.
Proof.
  intros c ids ids'. induction vs as [|v r IH]; intros seen H; [reflexivity|].
  simpl. rewrite <- (H v (or_introl eq_refl)).
  destruct (is_empty (get ids (v_slot v))); [apply IH; intros; apply H; right; assumption|].
  destruct (dedup_kind c (v_kind v) && pos_mem (v_kind v, v_slot v) seen);
    [|f_equal]; apply IH; intros; apply H; right; assumption.
Qed.

(* with the hash repair: two id vectors without '=' that serialise to the same string give the same id list *)
Theorem hash_faithful : forall c st ids ids0,
  fx_hash c = true -> eq_free_vec ids -> eq_free_vec ids0 ->
  hash_string c st ids0 = hash_string c st ids -> build_cache c st ids0 = build_cache c st ids.
Proof.
  intros c st ids ids0 Hf F F0 H. unfold build_cache. apply build_from_ext. intros v Hv.
  assert (Hs : In (v_slot v) (tslots (hash_tokens c st))).
  { apply tokens_cover; [assumption|]. unfold listed_slots. apply in_map; assumption. }
  unfold tslots in Hs. apply in_map_iff in Hs. destruct Hs as [t [<- Ht]].
  exact (ser_inj ids0 ids (hash_tokens c st) F0 F (ok_tokens c st) H t Ht).
Qed.

(* ------------------------------------------------------------------------------------------------ histories without '=' *)

Definition op_eq_free (o : op) : Prop := match o with OEdit _ id => eq_freeb id = true | _ => True end.

Definition HashPart (c : cfg) (st : structure) (s : state) : Prop :=
  a_hash (s_ann s) = None \/
  exists ids0, eq_free_vec ids0 /\ a_hash (s_ann s) = Some (hash_string c st ids0) /\ a_cache (s_ann s) = build_cache c st ids0.
Definition InvE (c : cfg) (st : structure) (s : state) : Prop := eq_free_vec (s_ids s) /\ HashPart c st s.

Lemma set_eq_free : forall ids n x, eq_free_vec ids -> eq_freeb x = true -> eq_free_vec (set ids n x).
Proof.
  intros ids n x F Hx slot. destruct (get_set_cases ids n slot x) as [E|E]; rewrite E; [assumption | apply F].
Qed.

Lemma assign_visit_eq_free : forall s v, eq_free_vec (s_ids s) -> eq_free_vec (s_ids (assign_visit s v)).
Proof.
  intros s v F. unfold assign_visit. destruct (is_empty _); [|assumption].
  destruct (make_unique _ _) as [[id n] ok] eqn:M. apply make_unique_fresh in M. destruct M as [_ [_ [-> _]]].
  cbn [s_ids]. apply set_eq_free; [assumption | apply hex_eq_free].
Qed.
Lemma assign_visits_eq_free : forall vs s, eq_free_vec (s_ids s) -> eq_free_vec (s_ids (assign_visits s vs)).
Proof.
  induction vs as [|v vs IH]; intros s F; [assumption|]. rewrite assign_visits_cons. apply IH, assign_visit_eq_free, F.
Qed.
Lemma clear_fold_eq_free : forall vs ids, eq_free_vec ids ->
  eq_free_vec (fold_left (fun ids v => set ids (v_slot v) "") vs ids).
Proof.
  induction vs as [|v vs IH]; intros ids F; [assumption|]. simpl. apply IH. apply set_eq_free; [assumption | reflexivity].
Qed.

Lemma step_eq_free : forall c st s o, op_eq_free o -> eq_free_vec (s_ids s) -> eq_free_vec (s_ids (fst (step c st s o))).
Proof.
  intros c st s o Ho F. rewrite step_fst. destruct o; unfold step_state.
  1: rewrite set_model_ids; assumption.
  1: cbn [s_ids]; apply set_eq_free; assumption.
  1: { unfold assign_all. destruct (a_has_model (s_ann s)); cbn [fst]; [|assumption].
       apply assign_visits_eq_free. rewrite pre_assign_ids. assumption. }
  1: { unfold assign_type. destruct (a_has_model (s_ann s)); cbn [fst]; [|assumption].
       rewrite set_model_ids. apply assign_visits_eq_free. rewrite pre_assign_ids. assumption. }
  1: { unfold assign_item. destruct (a_has_model (s_ann s)); [|assumption].
       destruct (fx_refresh c); destruct (make_unique _ _) as [[id n] ok] eqn:M;
         apply make_unique_fresh in M; destruct M as [_ [_ [-> _]]]; cbn [fst s_ids];
         apply set_eq_free; rewrite ?update_ids; auto using hex_eq_free. }
  1: { unfold clear_all. destruct (a_has_model (s_ann s)); [|assumption]. cbn [s_ids].
       apply clear_fold_eq_free. rewrite update_ids. assumption. }
  all: try (rewrite update_ids; assumption).
  assumption.
Qed.

Lemma update_hashpart : forall c st s, eq_free_vec (s_ids s) -> HashPart c st s -> HashPart c st (update c st s).
Proof.
  intros c st s F H. unfold update.
  destruct (negb (a_has_model (s_ann s))); [left; reflexivity|].
  destruct (opt_str_eqb (a_hash (s_ann s)) (hash_string c st (s_ids s))); [assumption|].
  right. exists (s_ids s). split; [assumption|]. split; reflexivity.
Qed.
Lemma set_model_hashpart : forall c st s, eq_free_vec (s_ids s) -> HashPart c st (set_model c st s).
Proof. intros c st s F. unfold set_model. apply update_hashpart; [exact F | left; reflexivity]. Qed.

Lemma step_hashpart : forall c st s o, fx_refresh c = true -> op_eq_free o ->
  eq_free_vec (s_ids s) -> HashPart c st s -> HashPart c st (fst (step c st s o)).
Proof.
  intros c st s o Hf Ho F H. rewrite step_fst. destruct o; unfold step_state.
  1: apply set_model_hashpart; assumption.
  1: exact H.
  1: { unfold assign_all. destruct (a_has_model (s_ann s)); cbn [fst]; [|exact H].
       left. rewrite assign_visits_hash. unfold pre_assign. rewrite Hf. reflexivity. }
  1: { unfold assign_type. destruct (a_has_model (s_ann s)); cbn [fst]; [|exact H].
       apply set_model_hashpart. apply assign_visits_eq_free. rewrite pre_assign_ids. assumption. }
  1: { unfold assign_item. destruct (a_has_model (s_ann s)); [|exact H]. rewrite Hf.
       destruct (make_unique _ _) as [[id n] ok]. left. reflexivity. }
  1: { unfold clear_all. destruct (a_has_model (s_ann s)); [|exact H]. left. reflexivity. }
  all: try (apply update_hashpart; assumption).
  exact H.
Qed.

Lemma run_invE : forall c st h s, fx_refresh c = true -> Forall op_eq_free h -> InvE c st s -> InvE c st (fst (run c st s h)).
Proof.
  induction h as [|o h IH]; intros s Hf Hh [F H]; [split; assumption|].
  inversion Hh as [|x l Ho Hl]; subst. rewrite run_cons. apply IH; [assumption | assumption|].
  split; [apply step_eq_free; assumption | apply step_hashpart; assumption].
Qed.

(* with the three repairs: after ANY history whose identifiers are free of '=', the list every look-up consults
   is the list of the model as it is now; hence all look-up theorems above apply to its answers *)
Theorem lookups_current_eq_free : forall c st h ids,
  fx_refresh c = true -> fx_hash c = true -> eq_free_vec ids -> Forall op_eq_free h ->
  let s := fst (run c st (init ids) h) in
  a_has_model (s_ann s) = true ->
  a_cache (s_ann (update c st s)) = build_cache c st (s_ids s).
Proof.
  intros c st h ids Hf Hh F Hops s Hm.
  assert (I : InvE c st s) by (apply run_invE; auto; split; [exact F | left; reflexivity]).
  destruct I as [Fs Hp]. unfold update. rewrite Hm. cbn [negb].
  destruct (opt_str_eqb (a_hash (s_ann s)) (hash_string c st (s_ids s))) eqn:E; [|reflexivity].
  destruct Hp as [Hn|[ids0 [F0 [Hh0 Hc]]]].
  - rewrite Hn in E. discriminate.
  - rewrite Hh0 in E. unfold opt_str_eqb in E. apply String.eqb_eq in E. rewrite Hc.
    apply hash_faithful; assumption.
Qed.
