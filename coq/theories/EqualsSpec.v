(** EqualsSpec.v — what equality of entity trees MEANS (C10), independent of any algorithm.
    Definitions only.

    [sim_*]: same attributes, and the child lists are equal up to order, i.e. some permutation of the
    right-hand children is pointwise [sim]-related to the left-hand children — recursively.  Doubles are
    compared with [neq].  [greedy] is the list-level statement of the matching loop of
    utilities.cpp: equalEntities (EqualsDefs.equal_entities is its index-list transcription). *)
From Coq Require Import String List Bool ZArith QArith Arith Permutation.
From LC Require Import EqualsDefs.
Import ListNotations.

(** some permutation of [l2] is pointwise [E]-related to [l1] *)
Definition perm_rel {A B} (E : A -> B -> Prop) (l1 : list A) (l2 : list B) : Prop :=
  exists l2', Permutation l2 l2' /\ Forall2 E l1 l2'.

Definition opt_rel {A B} (E : A -> B -> Prop) (a : option A) (b : option B) : Prop :=
  match a, b with
  | Some x, Some y => E x y
  | None, None => True
  | _, _ => False
  end.

(** the matching loop on lists: each left element takes the FIRST remaining right element it is related to *)
Section Greedy.
  Context {A B : Type} (R : A -> B -> bool).
  Fixpoint remove_first (x : A) (l2 : list B) : option (list B) :=
    match l2 with
    | [] => None
    | y :: t => if R x y then Some t else option_map (cons y) (remove_first x t)
    end.
  Fixpoint greedy (l1 : list A) (l2 : list B) : bool :=
    match l1 with
    | [] => true
    | x :: t => match remove_first x l2 with
                | None => false
                | Some r => greedy t r
                end
    end.
End Greedy.

Section Sim.
  Variable neq : Q -> Q -> bool.

  Definition sim_unitdef (a b : unitdef) : Prop :=
    ud_ref a = ud_ref b /\ ud_prefix a = ud_prefix b /\ ud_id a = ud_id b
    /\ neq (ud_exp a) (ud_exp b) = true /\ neq (ud_mult a) (ud_mult b) = true.

  Definition sim_units (a b : units) : Prop :=
    u_name a = u_name b /\ u_id a = u_id b /\ u_imp a = u_imp b /\ u_impref a = u_impref b
    /\ perm_rel sim_unitdef (u_defs a) (u_defs b).

  Definition sim_variable (a b : variable) : Prop :=
    v_name a = v_name b /\ v_id a = v_id b /\ v_init a = v_init b /\ v_iface a = v_iface b
    /\ opt_rel sim_units (v_units a) (v_units b).

  Definition sim_reset (a b : reset) : Prop :=
    r_id a = r_id b /\ r_order a = r_order b /\ r_tv a = r_tv b /\ r_tv_id a = r_tv_id b
    /\ r_rv a = r_rv b /\ r_rv_id a = r_rv_id b
    /\ opt_rel sim_variable (r_var a) (r_var b) /\ opt_rel sim_variable (r_test a) (r_test b).

  Definition sim_shell (a b : cshell) : Prop :=
    c_name a = c_name b /\ c_id a = c_id b /\ c_encid a = c_encid b /\ c_math a = c_math b
    /\ c_imp a = c_imp b /\ c_impref a = c_impref b
    /\ perm_rel sim_variable (c_vars a) (c_vars b) /\ perm_rel sim_reset (c_resets a) (c_resets b).

  Inductive sim_component : component -> component -> Prop :=
  | SimComp : forall sa sb ka kb kb',
      sim_shell sa sb -> Permutation kb kb' -> Forall2 sim_component ka kb' ->
      sim_component (Comp sa ka) (Comp sb kb).

  Definition sim_model (a b : model) : Prop :=
    m_name a = m_name b /\ m_id a = m_id b /\ m_encid a = m_encid b
    /\ perm_rel sim_units (m_units a) (m_units b) /\ perm_rel sim_component (m_comps a) (m_comps b).

  Definition sim_entity (a b : entity) : Prop :=
    match a, b with
    | EModel x, EModel y => sim_model x y
    | EComponent x, EComponent y => sim_component x y
    | EVariable x, EVariable y => sim_variable x y
    | EUnits x, EUnits y => sim_units x y
    | EReset x, EReset y => sim_reset x y
    | EImportSource x, EImportSource y => x = y
    | _, _ => False
    end.
End Sim.

(** identical rationals (same numerator and denominator) *)
Definition q_same (a b : Q) : bool := Z.eqb (Qnum a) (Qnum b) && Pos.eqb (Qden a) (Qden b).

(** [shuffled a a']: a' is a with the order of the children changed, at any depth (attributes identical) *)
Definition shuffled : entity -> entity -> Prop := sim_entity q_same.

(** the laws the property assumes of the comparison of doubles on the values it speaks about *)
Record neq_laws (neq : Q -> Q -> bool) : Prop := {
  neq_refl : forall x, neq x x = true;
  neq_sym : forall x y, neq x y = true -> neq y x = true;
  neq_trans : forall x y z, neq x y = true -> neq y z = true -> neq x z = true }.

(** all child components, at any depth, of a component *)
Fixpoint subcomponents (c : component) : list component :=
  match c with
  | Comp _ ks => c :: flat_map subcomponents ks
  end.

Definition model_components (m : model) : list component := flat_map subcomponents (m_comps m).

(** domains of components on which the code as it is agrees with the repaired code *)
Section Domain.
  Variable neq : Q -> Q -> bool.
  Variable fl : flags.
  Variable D : component -> Prop.

  (** closed under taking child components *)
  Definition closed_dom : Prop := forall s ks k, D (Comp s ks) -> In k ks -> D k.

  (** components of the domain that the code reports equal hold the same number of variables
      (needed only while equalVariables has no count test) *)
  Definition varcount_ok : Prop :=
    f_varcount fl = false ->
    forall a b, D a -> D b -> eqc neq fl true a b = true -> length (c_vars (shell a)) = length (c_vars (shell b)).

  (** no component of the domain has two child components that are equal to each other
      (needed only while ComponentEntity::doEquals asks containsComponent per child) *)
  Definition kids_distinct : Prop :=
    f_compmatch fl = false ->
    forall s ks, D (Comp s ks) ->
      forall i j x y, nth_error ks i = Some x -> nth_error ks j = Some y -> i <> j ->
                      eqc neq flags_fixed true x y = false.
End Domain.
