(** LoadDefs.v — executable model of Parser::parseModel on a CellML 2.0 document tree (C02; C14 will add the
    1.0 / 1.1 transformation paths).  No proofs here.

    Transcribes the CellML 2.0 paths of /repo/src/parser.cpp as they are now:
      ParserImpl::loadModel          load
      ParserImpl::loadImport         load_import
      ParserImpl::loadUnits          load_units
      ParserImpl::loadUnit           load_unit        (+ src/units.cpp Units::addUnit: a prefix that is an integer
                                                        text of value 0 is stored as the empty string)
      ParserImpl::loadComponent      load_component
      ParserImpl::loadVariable       load_variable
      ParserImpl::loadReset / loadResetChild / checkResetChildMultiplicity     load_reset / load_reset_child
      ParserImpl::loadEncapsulation / loadComponentRef     load_encapsulation / load_cref
                                     (+ src/componententity.cpp takeComponent(name, searchEncapsulated = true):
                                        direct children first, then each subtree in order)
      ParserImpl::loadConnection     load_connection  (+ placeholder variables for IMPORTED components,
                                                        + src/variable.cpp Variable::addEquivalence/4)
      traverseComponentEntityTreeLinkingUnits / linkComponentVariableUnits     link_units_issues
      src/xmlutils.cpp namespace surveys                    XmlDefs.element_namespace_map / attr_namespaces

    An issue is (level, name of the reference rule); the names are checked against the regenerated rule table
    by RoundtripProofs.rules_in_table.  Issue order follows the code.

    Simplifications (stated):
      * XmlNode::firstChild() skips leading blank text nodes; "has no child" is modelled as "the child list is
        empty" (documents read with xmlKeepBlanksDefault(0) hold no blank text nodes: A-xml (iii)), and the
        child loops run over all children (a blank text node is a no-op in every loop);
      * the libxml2 error list of a document that is not well-formed is not modelled ([load] takes a tree);
      * the namespace repairs done on a math element before it is serialised (copying prefix definitions
        into the math element) happen inside libxml2 trees: [math_text] of the environment. *)
From Coq Require Import String Ascii List Bool ZArith Arith.
From LC Require Import Common NumDefs XmlDefs EntTreeDefs PrintDefs.
Import ListNotations.
Local Open Scope string_scope.
Local Open Scope bool_scope.
Local Open Scope list_scope.

Inductive level := LError | LWarning | LMessage.
Definition issue := (level * string)%type.
Definition err (rule : string) : issue := (LError, rule).
Definition warn (rule : string) : issue := (LWarning, rule).

(** every rule name the loader can emit (checked against LCGen.RuleTable.rule_names) *)
Definition loader_rules : list string :=
  [ "UNDEFINED"; "XML"; "XML_UNEXPECTED_ELEMENT"; "XML_UNEXPECTED_CHARACTER"; "XML_UNEXPECTED_NAMESPACE";
    "XML_ATTRIBUTE_HAS_NAMESPACE"; "MODEL_ELEMENT"; "MODEL_NAME"; "MODEL_MORE_THAN_ONE_ENCAPSULATION";
    "IMPORT_ELEMENT"; "IMPORT_HREF"; "IMPORT_CHILD"; "IMPORT_UNITS_ELEMENT"; "IMPORT_UNITS_NAME";
    "IMPORT_COMPONENT_ELEMENT"; "IMPORT_COMPONENT_NAME"; "UNITS_ELEMENT"; "UNITS_NAME"; "UNIT_UNITS";
    "UNIT_ATTRIBUTE_OPTIONAL"; "UNIT_ATTRIBUTE_MULTIPLIER_VALUE"; "UNIT_ATTRIBUTE_EXPONENT_VALUE";
    "COMPONENT_ELEMENT"; "COMPONENT_NAME"; "VARIABLE_ELEMENT"; "VARIABLE_ATTRIBUTE_REQUIRED";
    "VARIABLE_ATTRIBUTE_OPTIONAL"; "RESET_ELEMENT"; "RESET_ATTRIBUTE_REQUIRED"; "RESET_VARIABLE_REFERENCE";
    "RESET_TEST_VARIABLE_REFERENCE"; "RESET_ORDER_VALUE"; "RESET_CHILD"; "RESET_RESET_VALUE_CHILD";
    "RESET_TEST_VALUE_CHILD"; "TEST_VALUE_CHILD"; "RESET_VALUE_CHILD"; "ENCAPSULATION_ELEMENT";
    "ENCAPSULATION_CHILD"; "COMPONENT_REF_ELEMENT"; "COMPONENT_REF_COMPONENT_ATTRIBUTE";
    "COMPONENT_REF_COMPONENT_ATTRIBUTE_REFERENCE"; "COMPONENT_REF_COMPONENT_ATTRIBUTE_UNIQUE";
    "COMPONENT_REF_CHILD"; "CONNECTION_ELEMENT"; "CONNECTION_COMPONENT1_ATTRIBUTE";
    "CONNECTION_COMPONENT1_ATTRIBUTE_REFERENCE"; "CONNECTION_COMPONENT2_ATTRIBUTE";
    "CONNECTION_COMPONENT2_ATTRIBUTE_REFERENCE"; "CONNECTION_EXCLUDE_SELF"; "CONNECTION_UNIQUE";
    "CONNECTION_CHILD"; "MAP_VARIABLES_ELEMENT"; "MAP_VARIABLES_VARIABLE1_ATTRIBUTE";
    "MAP_VARIABLES_VARIABLE1_ATTRIBUTE_REFERENCE"; "MAP_VARIABLES_VARIABLE2_ATTRIBUTE";
    "MAP_VARIABLES_VARIABLE2_ATTRIBUTE_REFERENCE"; "MAP_VARIABLES_UNIQUE" ].

Section Load.
Variable E : env.
(** [fixed = true]: the parser with fix C02-crossed-map-variables (the pair of variable names of a map_variables is
    compared as given); [fixed = false]: the pinned tree (the two names are sorted first, so x--y and y--x between
    the same two components count as a repetition). *)
Variable fixed : bool.

(** issues for a child that no branch of a loop accepts: non-blank text / comment / anything else *)
Definition stray_child (other_rule : string) (x : xml) : list issue :=
  match x with
  | Text s => if has_non_ws s then [err "XML_UNEXPECTED_CHARACTER"] else []
  | Comment => []
  | Elem _ _ _ _ => [err other_rule]
  end.

(* isIdAttribute(attribute, transforming = false) *)
Definition is_id_attr (a : attr) : bool := attr_is "id" a.

(* src/units.cpp Units::addUnit(reference, prefix, ...): all nonzero user prefixes are kept *)
Definition prefix_store (p : string) : string :=
  match to_int p with
  | Value z => if Z.eqb z 0 then "" else p
  | OutOfRange => p
  | Rejected => p
  end.

(** ** loadUnit *)
Record unit_acc := { ua_ref : string; ua_prefix : string; ua_exp : num; ua_mult : num; ua_id : string;
                     ua_has_units : bool; ua_issues : list issue }.

Definition real_attr (rule : string) (v : string) (old : num) : num * list issue :=
  if is_real v then match to_double E v with Some x => (x, []) | None => (old, [err rule]) end
  else (old, [err rule]).

Definition load_unit_attr (st : unit_acc) (a : attr) : unit_acc :=
  if attr_is "units" a then
    {| ua_ref := a_val a; ua_prefix := ua_prefix st; ua_exp := ua_exp st; ua_mult := ua_mult st; ua_id := ua_id st;
       ua_has_units := true; ua_issues := ua_issues st |}
  else if attr_is "prefix" a then
    {| ua_ref := ua_ref st; ua_prefix := a_val a; ua_exp := ua_exp st; ua_mult := ua_mult st; ua_id := ua_id st;
       ua_has_units := ua_has_units st; ua_issues := ua_issues st |}
  else if attr_is "exponent" a then
    let r := real_attr "UNIT_ATTRIBUTE_EXPONENT_VALUE" (a_val a) (ua_exp st) in
    {| ua_ref := ua_ref st; ua_prefix := ua_prefix st; ua_exp := fst r; ua_mult := ua_mult st; ua_id := ua_id st;
       ua_has_units := ua_has_units st; ua_issues := ua_issues st ++ snd r |}
  else if attr_is "multiplier" a then
    let r := real_attr "UNIT_ATTRIBUTE_MULTIPLIER_VALUE" (a_val a) (ua_mult st) in
    {| ua_ref := ua_ref st; ua_prefix := ua_prefix st; ua_exp := ua_exp st; ua_mult := fst r; ua_id := ua_id st;
       ua_has_units := ua_has_units st; ua_issues := ua_issues st ++ snd r |}
  else if is_id_attr a then
    {| ua_ref := ua_ref st; ua_prefix := ua_prefix st; ua_exp := ua_exp st; ua_mult := ua_mult st; ua_id := a_val a;
       ua_has_units := ua_has_units st; ua_issues := ua_issues st |}
  else
    {| ua_ref := ua_ref st; ua_prefix := ua_prefix st; ua_exp := ua_exp st; ua_mult := ua_mult st; ua_id := ua_id st;
       ua_has_units := ua_has_units st; ua_issues := ua_issues st ++ [err "UNIT_ATTRIBUTE_OPTIONAL"] |}.

Definition load_unit (x : xml) : unitdef * list issue :=
  let kid_issues := flat_map (stray_child "XML_UNEXPECTED_ELEMENT") (xml_kids x) in
  let st := fold_left load_unit_attr (xml_attrs x)
                      {| ua_ref := ""; ua_prefix := "0"; ua_exp := num_one; ua_mult := num_one; ua_id := "";
                         ua_has_units := false; ua_issues := [] |} in
  ({| ud_ref := ua_ref st; ud_prefix := prefix_store (ua_prefix st); ud_exp := ua_exp st; ud_mult := ua_mult st;
      ud_id := ua_id st |},
   kid_issues ++ ua_issues st ++ (if ua_has_units st then [] else [err "UNIT_UNITS"])).

(** ** generic "name / id / other" attribute loop (model, component, units) *)
Record nid_acc := { na_name : string; na_id : string; na_has_name : bool; na_issues : list issue }.

Definition nid_attr (other_rule : string) (st : nid_acc) (a : attr) : nid_acc :=
  if attr_is "name" a then
    {| na_name := a_val a; na_id := na_id st; na_has_name := true; na_issues := na_issues st |}
  else if is_id_attr a then
    {| na_name := na_name st; na_id := a_val a; na_has_name := na_has_name st; na_issues := na_issues st |}
  else
    {| na_name := na_name st; na_id := na_id st; na_has_name := na_has_name st;
       na_issues := na_issues st ++ [err other_rule] |}.

Definition nid_attrs (other_rule : string) (l : list attr) : nid_acc :=
  fold_left (nid_attr other_rule) l {| na_name := ""; na_id := ""; na_has_name := false; na_issues := [] |}.

(** ** loadUnits *)
Definition load_units_kid (acc : list unitdef * list issue) (k : xml) : list unitdef * list issue :=
  if is_cellml20 "unit" k then
    let r := load_unit k in (fst acc ++ [fst r], snd acc ++ snd r)
  else (fst acc, snd acc ++ stray_child "XML_UNEXPECTED_ELEMENT" k).

Definition load_units (x : xml) : units * list issue :=
  let st := nid_attrs "UNITS_ELEMENT" (xml_attrs x) in
  let ks := fold_left load_units_kid (xml_kids x) ([], []) in
  ({| u_name := na_name st; u_id := na_id st; u_src := None; u_ref := ""; u_defs := fst ks |},
   na_issues st ++ (if na_has_name st then [] else [err "UNITS_NAME"]) ++ snd ks).

(** ** loadVariable *)
Record var_acc := { va_v : variable; va_has_name : bool; va_has_units : bool; va_issues : list issue }.

Definition set_v (st : var_acc) (v : variable) : var_acc :=
  {| va_v := v; va_has_name := va_has_name st; va_has_units := va_has_units st; va_issues := va_issues st |}.

Definition load_variable_attr (st : var_acc) (a : attr) : var_acc :=
  let v := va_v st in
  if attr_is "name" a then
    {| va_v := {| v_name := a_val a; v_id := v_id v; v_units := v_units v; v_init := v_init v; v_iface := v_iface v |};
       va_has_name := true; va_has_units := va_has_units st; va_issues := va_issues st |}
  else if is_id_attr a then
    set_v st {| v_name := v_name v; v_id := a_val a; v_units := v_units v; v_init := v_init v; v_iface := v_iface v |}
  else if attr_is "units" a then
    {| va_v := {| v_name := v_name v; v_id := v_id v; v_units := Some (a_val a); v_init := v_init v; v_iface := v_iface v |};
       va_has_name := va_has_name st; va_has_units := true; va_issues := va_issues st |}
  else if attr_is "interface" a then
    set_v st {| v_name := v_name v; v_id := v_id v; v_units := v_units v; v_init := v_init v; v_iface := a_val a |}
  else if attr_is "initial_value" a then
    set_v st {| v_name := v_name v; v_id := v_id v; v_units := v_units v; v_init := a_val a; v_iface := v_iface v |}
  else
    {| va_v := v; va_has_name := va_has_name st; va_has_units := va_has_units st;
       va_issues := va_issues st ++ [err "VARIABLE_ATTRIBUTE_OPTIONAL"] |}.

Definition empty_variable : variable :=
  {| v_name := ""; v_id := ""; v_units := None; v_init := ""; v_iface := "" |}.

Definition load_variable (x : xml) : variable * list issue :=
  let kid_issues := flat_map (stray_child "XML_UNEXPECTED_ELEMENT") (xml_kids x) in
  let st := fold_left load_variable_attr (xml_attrs x)
                      {| va_v := empty_variable; va_has_name := false; va_has_units := false; va_issues := [] |} in
  (va_v st,
   kid_issues ++ va_issues st
   ++ (if va_has_name st && va_has_units st then [] else [err "VARIABLE_ATTRIBUTE_REQUIRED"])).

(** ** loadReset *)
(* Component::variable(name) != nullptr *)
Definition has_var (vs : list variable) (n : string) : bool := existsb (fun v => String.eqb (v_name v) n) vs.

Record rchild_acc := { rc_id : string; rc_math : string; rc_issues : list issue }.

(* loadResetChild: returns the id (last id attribute, or the previous value), the appended math, the issues *)
Definition load_reset_child (child_rule : string) (old_id old_math : string) (x : xml) : rchild_acc :=
  let a := fold_left (fun st a => if attr_is "id" a then (a_val a, snd st) else (fst st, snd st ++ [err "RESET_ELEMENT"]))
                     (xml_attrs x) (old_id, []) in
  let k := fold_left (fun st k => if is_mathml "math" k then (fst st ++ math_text E k ++ String c_lf EmptyString, snd st)%string
                                  else (fst st, snd st ++ stray_child child_rule k))
                     (xml_kids x) (old_math, []) in
  {| rc_id := fst a; rc_math := fst k; rc_issues := snd a ++ snd k |}.

Record reset_acc := { ra_r : reset; ra_order_valid : bool; ra_order_defined : bool; ra_order : Z; ra_issues : list issue }.

Definition upd_r (st : reset_acc) (r : reset) (is : list issue) : reset_acc :=
  {| ra_r := r; ra_order_valid := ra_order_valid st; ra_order_defined := ra_order_defined st; ra_order := ra_order st;
     ra_issues := ra_issues st ++ is |}.

Definition load_reset_attr (vs : list variable) (st : reset_acc) (a : attr) : reset_acc :=
  let r := ra_r st in
  if attr_is "variable" a then
    if has_var vs (a_val a) then
      upd_r st {| r_id := r_id r; r_order := r_order r; r_var := Some (VSame (a_val a)); r_test := r_test r;
                  r_tv := r_tv r; r_tv_id := r_tv_id r; r_rv := r_rv r; r_rv_id := r_rv_id r |} []
    else upd_r st r [err "RESET_VARIABLE_REFERENCE"]
  else if attr_is "test_variable" a then
    if has_var vs (a_val a) then
      upd_r st {| r_id := r_id r; r_order := r_order r; r_var := r_var r; r_test := Some (VSame (a_val a));
                  r_tv := r_tv r; r_tv_id := r_tv_id r; r_rv := r_rv r; r_rv_id := r_rv_id r |} []
    else upd_r st r [err "RESET_TEST_VARIABLE_REFERENCE"]
  else if attr_is "order" a then
    match to_int (a_val a) with
    | Value z => {| ra_r := r; ra_order_valid := true; ra_order_defined := true; ra_order := z; ra_issues := ra_issues st |}
    | OutOfRange => {| ra_r := r; ra_order_valid := false; ra_order_defined := true; ra_order := ra_order st;
                       ra_issues := ra_issues st ++ [err "RESET_ORDER_VALUE"] |}
    | Rejected => {| ra_r := r; ra_order_valid := false; ra_order_defined := true; ra_order := ra_order st;
                     ra_issues := ra_issues st ++ [err "RESET_ORDER_VALUE"] |}
    end
  else if attr_is "id" a then
    upd_r st {| r_id := a_val a; r_order := r_order r; r_var := r_var r; r_test := r_test r;
                r_tv := r_tv r; r_tv_id := r_tv_id r; r_rv := r_rv r; r_rv_id := r_rv_id r |} []
  else upd_r st r [err "RESET_ATTRIBUTE_REQUIRED"].

Definition empty_reset : reset :=
  {| r_id := ""; r_order := None; r_var := None; r_test := None; r_tv := ""; r_tv_id := ""; r_rv := ""; r_rv_id := "" |}.

Record rkids_acc := { rk_r : reset; rk_tests : nat; rk_resets : nat; rk_issues : list issue }.

Definition load_reset_kid (st : rkids_acc) (k : xml) : rkids_acc :=
  let r := rk_r st in
  if is_cellml20 "test_value" k then
    let c := load_reset_child "TEST_VALUE_CHILD" (r_tv_id r) (r_tv r) k in
    {| rk_r := {| r_id := r_id r; r_order := r_order r; r_var := r_var r; r_test := r_test r;
                  r_tv := rc_math c; r_tv_id := rc_id c; r_rv := r_rv r; r_rv_id := r_rv_id r |};
       rk_tests := S (rk_tests st); rk_resets := rk_resets st; rk_issues := rk_issues st ++ rc_issues c |}
  else if is_cellml20 "reset_value" k then
    let c := load_reset_child "RESET_VALUE_CHILD" (r_rv_id r) (r_rv r) k in
    {| rk_r := {| r_id := r_id r; r_order := r_order r; r_var := r_var r; r_test := r_test r;
                  r_tv := r_tv r; r_tv_id := r_tv_id r; r_rv := rc_math c; r_rv_id := rc_id c |};
       rk_tests := rk_tests st; rk_resets := S (rk_resets st); rk_issues := rk_issues st ++ rc_issues c |}
  else {| rk_r := r; rk_tests := rk_tests st; rk_resets := rk_resets st;
          rk_issues := rk_issues st ++ stray_child "XML_UNEXPECTED_ELEMENT" k |}.

(* checkResetChildMultiplicity *)
Definition multiplicity (count : nat) (missing_rule : string) : list issue :=
  match count with O => [err missing_rule] | S O => [] | _ => [err "RESET_CHILD"] end.

Definition load_reset (vs : list variable) (x : xml) : reset * list issue :=
  let a := fold_left (load_reset_attr vs) (xml_attrs x)
                     {| ra_r := empty_reset; ra_order_valid := false; ra_order_defined := false; ra_order := 0%Z;
                        ra_issues := [] |} in
  let r0 := ra_r a in
  let r1 := if ra_order_valid a then
              {| r_id := r_id r0; r_order := Some (ra_order a); r_var := r_var r0; r_test := r_test r0;
                 r_tv := r_tv r0; r_tv_id := r_tv_id r0; r_rv := r_rv r0; r_rv_id := r_rv_id r0 |}
            else r0 in
  let order_issue := if ra_order_valid a then [] else if ra_order_defined a then [] else [err "RESET_ORDER_VALUE"] in
  let k := fold_left load_reset_kid (xml_kids x) {| rk_r := r1; rk_tests := 0; rk_resets := 0; rk_issues := [] |} in
  (rk_r k,
   ra_issues a ++ order_issue ++ rk_issues k
   ++ multiplicity (rk_tests k) "RESET_TEST_VALUE_CHILD" ++ multiplicity (rk_resets k) "RESET_RESET_VALUE_CHILD").

(** ** loadComponent *)
Definition is_cellml_any (name : string) (x : xml) : bool :=
  is_element CELLML_2_0_NS name x || is_element CELLML_1_1_NS name x || is_element CELLML_1_0_NS name x.

Record ckids_acc := { ck_vars : list variable; ck_resets : list reset; ck_math : string; ck_issues : list issue }.

Definition load_component_kid (st : ckids_acc) (k : xml) : ckids_acc :=
  if is_cellml_any "variable" k then
    let r := load_variable k in
    {| ck_vars := ck_vars st ++ [fst r]; ck_resets := ck_resets st; ck_math := ck_math st; ck_issues := ck_issues st ++ snd r |}
  else if is_cellml20 "reset" k then
    let r := load_reset (ck_vars st) k in
    {| ck_vars := ck_vars st; ck_resets := ck_resets st ++ [fst r]; ck_math := ck_math st; ck_issues := ck_issues st ++ snd r |}
  else if is_mathml "math" k then
    {| ck_vars := ck_vars st; ck_resets := ck_resets st;
       ck_math := (ck_math st ++ math_text E k ++ String c_lf EmptyString)%string; ck_issues := ck_issues st |}
  else {| ck_vars := ck_vars st; ck_resets := ck_resets st; ck_math := ck_math st;
          ck_issues := ck_issues st ++ stray_child "XML_UNEXPECTED_ELEMENT" k |}.

Definition load_component (x : xml) : component * list issue :=
  let st := nid_attrs "COMPONENT_ELEMENT" (xml_attrs x) in
  let k := fold_left load_component_kid (xml_kids x) {| ck_vars := []; ck_resets := []; ck_math := ""; ck_issues := [] |} in
  (Comp {| c_name := na_name st; c_id := na_id st; c_encid := ""; c_src := None; c_ref := ""; c_math := ck_math k;
           c_vars := ck_vars k; c_resets := ck_resets k |} [],
   na_issues st ++ (if na_has_name st then [] else [err "COMPONENT_NAME"]) ++ ck_issues k).

(** ** loadImport *)
Record imp_acc := { ia_url : string; ia_id : string; ia_has_href : bool; ia_issues : list issue }.

Definition load_import_attr (st : imp_acc) (a : attr) : imp_acc :=
  if attr_is_ns XLINK_NS "href" a then
    {| ia_url := a_val a; ia_id := ia_id st; ia_has_href := true; ia_issues := ia_issues st |}
  else if is_id_attr a then
    {| ia_url := ia_url st; ia_id := a_val a; ia_has_href := ia_has_href st; ia_issues := ia_issues st |}
  else if String.eqb (a_ns a) XLINK_NS then st
  else {| ia_url := ia_url st; ia_id := ia_id st; ia_has_href := ia_has_href st;
          ia_issues := ia_issues st ++ [err "IMPORT_ELEMENT"] |}.

(* the attribute loop of an imported component / units element: name, id, reference *)
Record ient_acc := { ie_name : string; ie_id : string; ie_ref : string; ie_has_name : bool; ie_issues : list issue }.

Definition load_ient_attr (ref_attr other_rule : string) (st : ient_acc) (a : attr) : ient_acc :=
  if attr_is "name" a then
    {| ie_name := a_val a; ie_id := ie_id st; ie_ref := ie_ref st; ie_has_name := true; ie_issues := ie_issues st |}
  else if is_id_attr a then
    {| ie_name := ie_name st; ie_id := a_val a; ie_ref := ie_ref st; ie_has_name := ie_has_name st; ie_issues := ie_issues st |}
  else if attr_is ref_attr a then
    {| ie_name := ie_name st; ie_id := ie_id st; ie_ref := a_val a; ie_has_name := ie_has_name st; ie_issues := ie_issues st |}
  else {| ie_name := ie_name st; ie_id := ie_id st; ie_ref := ie_ref st; ie_has_name := ie_has_name st;
          ie_issues := ie_issues st ++ [err other_rule] |}.

Definition load_ient (ref_attr other_rule : string) (x : xml) : ient_acc :=
  fold_left (load_ient_attr ref_attr other_rule) (xml_attrs x)
            {| ie_name := ""; ie_id := ""; ie_ref := ""; ie_has_name := false; ie_issues := [] |}.

Record ikids_acc := { ik_units : list units; ik_comps : list component; ik_issues : list issue }.

Definition load_import_kid (src : isrc) (st : ikids_acc) (k : xml) : ikids_acc :=
  if is_cellml20 "component" k then
    let a := load_ient "component_ref" "IMPORT_COMPONENT_ELEMENT" k in
    {| ik_units := ik_units st;
       ik_comps := ik_comps st ++ [Comp {| c_name := ie_name a; c_id := ie_id a; c_encid := ""; c_src := Some src;
                                           c_ref := ie_ref a; c_math := ""; c_vars := []; c_resets := [] |} []];
       ik_issues := ik_issues st ++ ie_issues a ++ (if ie_has_name a then [] else [err "IMPORT_COMPONENT_NAME"]) |}
  else if is_cellml20 "units" k then
    let a := load_ient "units_ref" "IMPORT_UNITS_ELEMENT" k in
    {| ik_units := ik_units st ++ [{| u_name := ie_name a; u_id := ie_id a; u_src := Some src; u_ref := ie_ref a; u_defs := [] |}];
       ik_comps := ik_comps st;
       ik_issues := ik_issues st ++ ie_issues a ++ (if ie_has_name a then [] else [err "IMPORT_UNITS_NAME"]) |}
  else {| ik_units := ik_units st; ik_comps := ik_comps st;
          ik_issues := ik_issues st ++ stray_child "XML_UNEXPECTED_ELEMENT" k |}.

(* tag: the number of the import element (one fresh ImportSource object per element) *)
Definition load_import (tag : nat) (x : xml) : list units * list component * list issue :=
  let a := fold_left load_import_attr (xml_attrs x) {| ia_url := ""; ia_id := ""; ia_has_href := false; ia_issues := [] |} in
  let src := {| is_tag := tag; is_url := ia_url a; is_id := ia_id a |} in
  let k := fold_left (load_import_kid src) (xml_kids x) {| ik_units := []; ik_comps := []; ik_issues := [] |} in
  (ik_units k, ik_comps k,
   ia_issues a ++ (if ia_has_href a then [] else [err "IMPORT_HREF"])
   ++ (match xml_kids x with [] => [warn "IMPORT_CHILD"] | _ => [] end) ++ ik_issues k).

(** ** Component lookup by name: src/componententity.cpp component(name, true) / takeComponent(name, true) /
       containsComponent(name, true): the direct children first, then each child's subtree in order *)

Fixpoint index_of_name (n : string) (cs : list component) (i : nat) : option nat :=
  match cs with
  | [] => None
  | c :: r => if String.eqb (cname c) n then Some i else index_of_name n r (S i)
  end.

(* index path of the component found *)
Fixpoint find_in_comp (n : string) (c : component) : option (list nat) :=
  match c with
  | Comp _ ks =>
    match index_of_name n ks 0 with
    | Some i => Some [i]
    | None => (fix go (l : list component) (j : nat) : option (list nat) :=
                 match l with
                 | [] => None
                 | k :: r => match find_in_comp n k with
                             | Some p => Some (j :: p)
                             | None => go r (S j)
                             end
                 end) ks 0
    end
  end.

Fixpoint find_in_subtrees (n : string) (cs : list component) (j : nat) : option (list nat) :=
  match cs with
  | [] => None
  | k :: r => match find_in_comp n k with Some p => Some (j :: p) | None => find_in_subtrees n r (S j) end
  end.

Definition find_comp (n : string) (cs : list component) : option (list nat) :=
  match index_of_name n cs 0 with
  | Some i => Some [i]
  | None => find_in_subtrees n cs 0
  end.

(* remove the first direct child called n *)
Fixpoint take_direct (n : string) (cs : list component) : option (component * list component) :=
  match cs with
  | [] => None
  | c :: r => if String.eqb (cname c) n then Some (c, r)
              else match take_direct n r with Some (t, r') => Some (t, c :: r') | None => None end
  end.

Fixpoint take_in_comp (n : string) (c : component) : option (component * component) :=
  match c with
  | Comp s ks =>
    match take_direct n ks with
    | Some (t, ks') => Some (t, Comp s ks')
    | None =>
      match (fix go (l : list component) : option (component * list component) :=
               match l with
               | [] => None
               | k :: r => match take_in_comp n k with
                           | Some (t, k') => Some (t, k' :: r)
                           | None => match go r with Some (t, r') => Some (t, k :: r') | None => None end
                           end
               end) ks with
      | Some (t, ks') => Some (t, Comp s ks')
      | None => None
      end
    end
  end.

Fixpoint take_in_subtrees (n : string) (cs : list component) : option (component * list component) :=
  match cs with
  | [] => None
  | k :: r => match take_in_comp n k with
              | Some (t, k') => Some (t, k' :: r)
              | None => match take_in_subtrees n r with Some (t, r') => Some (t, k :: r') | None => None end
              end
  end.

Definition take_comp (n : string) (cs : list component) : option (component * list component) :=
  match take_direct n cs with
  | Some x => Some x
  | None => take_in_subtrees n cs
  end.

(** ** loadEncapsulation / loadComponentRef *)
(* state threaded through the component_ref tree: the model's component forest, the names used so far, issues *)
Record enc_st := { es_comps : list component; es_used : list string; es_issues : list issue }.

Definition es_issue (st : enc_st) (is : list issue) : enc_st :=
  {| es_comps := es_comps st; es_used := es_used st; es_issues := es_issues st ++ is |}.

Definition set_encid (c : component) (id : string) : component :=
  match c with
  | Comp s ks => Comp {| c_name := c_name s; c_id := c_id s; c_encid := id; c_src := c_src s; c_ref := c_ref s;
                         c_math := c_math s; c_vars := c_vars s; c_resets := c_resets s |} ks
  end.

Definition add_kid (c k : component) : component := match c with Comp s ks => Comp s (ks ++ [k]) end.

(* the attribute loop of loadComponentRef: (parent taken so far, name, encapsulation id, state) *)
Record cref_acc := { ca_parent : option component; ca_name : string; ca_encid : string; ca_st : enc_st }.

Definition load_cref_attr (acc : cref_acc) (a : attr) : cref_acc :=
  let st := ca_st acc in
  if attr_is "component" a then
    let n := a_val a in
    let st1 := if existsb (String.eqb n) (es_used st)
               then es_issue st [err "COMPONENT_REF_COMPONENT_ATTRIBUTE_UNIQUE"]
               else {| es_comps := es_comps st; es_used := es_used st ++ [n]; es_issues := es_issues st |} in
    match take_comp n (es_comps st1) with
    | Some (t, cs') =>
      {| ca_parent := Some t; ca_name := n; ca_encid := ca_encid acc;
         ca_st := {| es_comps := cs'; es_used := es_used st1; es_issues := es_issues st1 |} |}
    | None =>
      {| ca_parent := ca_parent acc; ca_name := n; ca_encid := ca_encid acc;
         ca_st := es_issue st1 [err "COMPONENT_REF_COMPONENT_ATTRIBUTE_REFERENCE"] |}
    end
  else if is_id_attr a then
    {| ca_parent := ca_parent acc; ca_name := ca_name acc; ca_encid := a_val a; ca_st := st |}
  else
    {| ca_parent := ca_parent acc; ca_name := ca_name acc; ca_encid := ca_encid acc;
       ca_st := es_issue st [err "COMPONENT_REF_ELEMENT"] |}.

Fixpoint load_cref (x : xml) (st : enc_st) : option component * enc_st :=
  match x with
  | Elem _ _ attrs ks =>
    let a := fold_left load_cref_attr attrs {| ca_parent := None; ca_name := ""; ca_encid := ""; ca_st := st |} in
    let st1 := match ca_parent a with
               | None => if nonempty (ca_name a) then ca_st a
                         else es_issue (ca_st a) [err "COMPONENT_REF_COMPONENT_ATTRIBUTE"]
               | Some _ => ca_st a
               end in
    let parent1 := option_map (fun p => set_encid p (ca_encid a)) (ca_parent a) in
    (fix go (l : list xml) (parent : option component) (st : enc_st) : option component * enc_st :=
       match l with
       | [] => (parent, st)
       | k :: r =>
         if is_cellml20 "component_ref" k then
           match load_cref k st with
           | (Some child, st') =>
             match parent with
             | Some p => go r (Some (add_kid p child)) st'
             | None => go r None {| es_comps := es_comps st' ++ [child]; es_used := es_used st'; es_issues := es_issues st' |}
             end
           | (None, st') => go r parent st'
           end
         else go r parent (es_issue st (stray_child "COMPONENT_REF_CHILD" k))
       end) ks parent1 st1
  | _ => (None, st)
  end.

Definition load_encapsulation_kid (st : enc_st) (k : xml) : enc_st :=
  if is_cellml20 "component_ref" k then
    match load_cref k st with
    | (Some p, st') =>
      let st2 := {| es_comps := es_comps st' ++ [p]; es_used := es_used st'; es_issues := es_issues st' |} in
      match kids p with [] => es_issue st2 [err "ENCAPSULATION_CHILD"] | _ => st2 end
    | (None, st') => es_issue st' [err "ENCAPSULATION_CHILD"]
    end
  else es_issue st (stray_child "ENCAPSULATION_CHILD" k).

Definition load_encapsulation (cs : list component) (x : xml) : list component * list issue :=
  let st := fold_left load_encapsulation_kid (xml_kids x) {| es_comps := cs; es_used := []; es_issues := [] |} in
  (es_comps st, es_issues st).

(** ** loadConnection *)

Fixpoint index_of_var (n : string) (vs : list variable) (i : nat) : option nat :=
  match vs with
  | [] => None
  | v :: r => if String.eqb (v_name v) n then Some i else index_of_var n r (S i)
  end.

(* apply f to the component at an index path *)
Fixpoint update_at (cs : list component) (p : list nat) (f : component -> component) : list component :=
  match p with
  | [] => cs
  | i :: p' =>
    (fix go (l : list component) (j : nat) : list component :=
       match l with
       | [] => []
       | c :: r => if Nat.eqb j i
                   then (match p' with
                         | [] => f c
                         | _ => match c with Comp s ks => Comp s (update_at ks p' f) end
                         end) :: r
                   else c :: go r (S j)
       end) cs 0
  end.

Definition add_var (v : variable) (c : component) : component :=
  match c with
  | Comp s ks => Comp {| c_name := c_name s; c_id := c_id s; c_encid := c_encid s; c_src := c_src s; c_ref := c_ref s;
                         c_math := c_math s; c_vars := c_vars s ++ [v]; c_resets := c_resets s |} ks
  end.

(* Variable::addEquivalence(v1, v2, mappingId, connectionId): a new edge goes to the back; an existing edge keeps
   its place and takes the new ids; a variable is never equivalent to itself *)
Definition same_edge (a b : vpath) (e : eqv) : bool :=
  (vpath_eqb (e_a e) a && vpath_eqb (e_b e) b) || (vpath_eqb (e_a e) b && vpath_eqb (e_b e) a).

Definition add_equivalence (es : list eqv) (a b : vpath) (mid cid : string) : list eqv :=
  if vpath_eqb a b then es
  else if existsb (same_edge a b) es
  then map (fun e => if same_edge a b e then {| e_a := e_a e; e_b := e_b e; e_mid := mid; e_cid := cid |} else e) es
  else es ++ [{| e_a := a; e_b := b; e_mid := mid; e_cid := cid |}].

Record conn_attrs := { cn_c1 : string; cn_c2 : string; cn_has1 : bool; cn_has2 : bool; cn_id : string; cn_issues : list issue }.

Definition load_conn_attr (st : conn_attrs) (a : attr) : conn_attrs :=
  if attr_is "component_1" a then
    {| cn_c1 := a_val a; cn_c2 := cn_c2 st; cn_has1 := true; cn_has2 := cn_has2 st; cn_id := cn_id st; cn_issues := cn_issues st |}
  else if attr_is "component_2" a then
    {| cn_c1 := cn_c1 st; cn_c2 := a_val a; cn_has1 := cn_has1 st; cn_has2 := true; cn_id := cn_id st; cn_issues := cn_issues st |}
  else if is_id_attr a then
    {| cn_c1 := cn_c1 st; cn_c2 := cn_c2 st; cn_has1 := cn_has1 st; cn_has2 := cn_has2 st; cn_id := a_val a; cn_issues := cn_issues st |}
  else
    {| cn_c1 := cn_c1 st; cn_c2 := cn_c2 st; cn_has1 := cn_has1 st; cn_has2 := cn_has2 st; cn_id := cn_id st;
       cn_issues := cn_issues st ++ [err "CONNECTION_ELEMENT"] |}.

(* std::string operator> : byte-wise lexicographic *)
Fixpoint str_ltb (a b : string) : bool :=
  match a, b with
  | EmptyString, EmptyString => false
  | EmptyString, String _ _ => true
  | String _ _, EmptyString => false
  | String x a', String y b' =>
    let nx := nat_of_ascii x in let ny := nat_of_ascii y in
    if Nat.ltb nx ny then true else if Nat.ltb ny nx then false else str_ltb a' b'
  end.
Definition sort2 (a b : string) : string * string := if str_ltb b a then (b, a) else (a, b).

Definition pair_in (p : string * string) (l : list (string * string)) : bool :=
  existsb (fun q => String.eqb (fst q) (fst p) && String.eqb (snd q) (snd p)) l.

(* one map_variables element: (variable_1, variable_2, mapping id) *)
Record mv_acc := { mv_v1 : string; mv_v2 : string; mv_has1 : bool; mv_has2 : bool; mv_id : string; mv_issues : list issue }.

Definition load_mv_attr (st : mv_acc) (a : attr) : mv_acc :=
  if attr_is "variable_1" a then
    {| mv_v1 := a_val a; mv_v2 := mv_v2 st; mv_has1 := true; mv_has2 := mv_has2 st; mv_id := mv_id st; mv_issues := mv_issues st |}
  else if attr_is "variable_2" a then
    {| mv_v1 := mv_v1 st; mv_v2 := a_val a; mv_has1 := mv_has1 st; mv_has2 := true; mv_id := mv_id st; mv_issues := mv_issues st |}
  else if is_id_attr a then
    {| mv_v1 := mv_v1 st; mv_v2 := mv_v2 st; mv_has1 := mv_has1 st; mv_has2 := mv_has2 st; mv_id := a_val a; mv_issues := mv_issues st |}
  else
    {| mv_v1 := mv_v1 st; mv_v2 := mv_v2 st; mv_has1 := mv_has1 st; mv_has2 := mv_has2 st; mv_id := mv_id st;
       mv_issues := mv_issues st ++ [err "MAP_VARIABLES_ELEMENT"] |}.

(* the loop over the children of a connection element; the two "missing" flags are STICKY across the
   map_variables of one connection (they are declared outside the loop and never reset) *)
Record ckid_acc := { kk_maps : list (string * string * string); kk_found : bool; kk_miss1 : bool; kk_miss2 : bool;
                     kk_used : list (string * string); kk_issues : list issue }.

Definition load_conn_kid (st : ckid_acc) (k : xml) : ckid_acc :=
  let grand := flat_map (stray_child "XML_UNEXPECTED_ELEMENT") (xml_kids k) in
  if is_cellml20 "map_variables" k then
    let a := fold_left load_mv_attr (xml_attrs k)
                       {| mv_v1 := ""; mv_v2 := ""; mv_has1 := false; mv_has2 := false; mv_id := ""; mv_issues := [] |} in
    let i1 := if negb (mv_has1 a) then [err "MAP_VARIABLES_VARIABLE1_ATTRIBUTE"]
              else if negb (nonempty (mv_v1 a)) then [err "MAP_VARIABLES_VARIABLE1_ATTRIBUTE_REFERENCE"] else [] in
    let i2 := if negb (mv_has2 a) then [err "MAP_VARIABLES_VARIABLE2_ATTRIBUTE"]
              else if negb (nonempty (mv_v2 a)) then [err "MAP_VARIABLES_VARIABLE2_ATTRIBUTE_REFERENCE"] else [] in
    let miss1 := kk_miss1 st || negb (mv_has1 a) || negb (nonempty (mv_v1 a)) in
    let miss2 := kk_miss2 st || negb (mv_has2 a) || negb (nonempty (mv_v2 a)) in
    let pr := if fixed then (mv_v1 a, mv_v2 a) else sort2 (mv_v1 a) (mv_v2 a) in
    let dup := negb miss1 && negb miss2 && pair_in pr (kk_used st) in
    {| kk_maps := kk_maps st ++ [(mv_v1 a, mv_v2 a, mv_id a)]; kk_found := true; kk_miss1 := miss1; kk_miss2 := miss2;
       kk_used := if negb miss1 && negb miss2 && negb dup then kk_used st ++ [pr] else kk_used st;
       kk_issues := kk_issues st ++ grand ++ mv_issues a ++ i1 ++ i2 ++ (if dup then [err "MAP_VARIABLES_UNIQUE"] else []) |}
  else
    {| kk_maps := kk_maps st; kk_found := kk_found st; kk_miss1 := kk_miss1 st; kk_miss2 := kk_miss2 st; kk_used := kk_used st;
       kk_issues := kk_issues st ++ grand ++ stray_child "CONNECTION_CHILD" k |}.

(* state threaded through the connections of a model *)
Record conn_st := { cs_comps : list component; cs_eqv : list eqv; cs_used : list (string * string); cs_issues : list issue }.

(* one side of one map_variables: the variable found / created, the (possibly extended) forest, issues *)
Definition resolve_var (cs : list component) (cp : option (list nat)) (vname : string) (missing : bool)
           (ref_rule comp_rule : string) : option vpath * list component * list issue :=
  match cp with
  | Some p =>
    match comp_at cs p with
    | Some c =>
      match index_of_var vname (c_vars (shell c)) 0 with
      | Some i => (Some (p, i), cs, [])
      | None =>
        if is_import_comp c then
          (* with an imported component the variable is assumed to exist there: a placeholder is created *)
          let v := {| v_name := vname; v_id := ""; v_units := None; v_init := ""; v_iface := "" |} in
          (Some (p, length (c_vars (shell c))), update_at cs p (add_var v), [])
        else (None, cs, if missing then [] else [err ref_rule])
      end
    | None => (None, cs, [err comp_rule])
    end
  | None => (None, cs, [err comp_rule])
  end.

Definition load_map (cp1 cp2 : option (list nat)) (miss1 miss2 : bool) (cid : string)
           (st : conn_st) (mv : string * string * string) : conn_st :=
  match mv with
  | (n1, n2, mid) =>
    match resolve_var (cs_comps st) cp1 n1 miss1 "MAP_VARIABLES_VARIABLE1_ATTRIBUTE_REFERENCE" "CONNECTION_COMPONENT1_ATTRIBUTE" with
    | (v1, cs1, i1) =>
      match resolve_var cs1 cp2 n2 miss2 "MAP_VARIABLES_VARIABLE2_ATTRIBUTE_REFERENCE" "CONNECTION_COMPONENT2_ATTRIBUTE" with
      | (v2, cs2, i2) =>
        {| cs_comps := cs2;
           cs_eqv := match v1, v2 with Some a, Some b => add_equivalence (cs_eqv st) a b mid cid | _, _ => cs_eqv st end;
           cs_used := cs_used st; cs_issues := cs_issues st ++ i1 ++ i2 |}
      end
    end
  end.

Definition load_connection (st : conn_st) (x : xml) : conn_st :=
  let a := fold_left load_conn_attr (xml_attrs x)
                     {| cn_c1 := ""; cn_c2 := ""; cn_has1 := false; cn_has2 := false; cn_id := ""; cn_issues := [] |} in
  let i1 := if negb (cn_has1 a) then [err "CONNECTION_COMPONENT1_ATTRIBUTE"]
            else if negb (nonempty (cn_c1 a)) then [err "CONNECTION_COMPONENT1_ATTRIBUTE_REFERENCE"] else [] in
  let i2 := if negb (cn_has2 a) then [err "CONNECTION_COMPONENT2_ATTRIBUTE"]
            else if negb (nonempty (cn_c2 a)) then [err "CONNECTION_COMPONENT2_ATTRIBUTE_REFERENCE"] else [] in
  let miss1 := negb (cn_has1 a) || negb (nonempty (cn_c1 a)) in
  let miss2 := negb (cn_has2 a) || negb (nonempty (cn_c2 a)) in
  (* uniqueness of the connection: looked up with the names in sorted order, recorded in the order given *)
  let u := if negb miss1 && negb miss2 then
             if String.eqb (cn_c1 a) (cn_c2 a) then (cs_used st, [err "CONNECTION_EXCLUDE_SELF"])
             else if pair_in (sort2 (cn_c1 a) (cn_c2 a)) (cs_used st) then (cs_used st, [err "CONNECTION_UNIQUE"])
                  else (cs_used st ++ [(cn_c1 a, cn_c2 a)], [])
           else (cs_used st, []) in
  let st0 := {| cs_comps := cs_comps st; cs_eqv := cs_eqv st; cs_used := fst u;
                cs_issues := cs_issues st ++ cn_issues a ++ i1 ++ i2 ++ snd u |} in
  match xml_kids x with
  | [] => {| cs_comps := cs_comps st0; cs_eqv := cs_eqv st0; cs_used := cs_used st0;
             cs_issues := cs_issues st0 ++ [warn "CONNECTION_CHILD"] |}
  | ks =>
    let k := fold_left load_conn_kid ks
                       {| kk_maps := []; kk_found := false; kk_miss1 := false; kk_miss2 := false; kk_used := []; kk_issues := [] |} in
    let cp1 := find_comp (cn_c1 a) (cs_comps st0) in
    let cp2 := find_comp (cn_c2 a) (cs_comps st0) in
    let ci1 := match cp1 with Some _ => [] | None => if miss1 then [] else [err "CONNECTION_COMPONENT1_ATTRIBUTE_REFERENCE"] end in
    let ci2 := match cp2 with Some _ => [] | None => if miss2 then [] else [err "CONNECTION_COMPONENT2_ATTRIBUTE_REFERENCE"] end in
    let st1 := {| cs_comps := cs_comps st0; cs_eqv := cs_eqv st0; cs_used := cs_used st0;
                  cs_issues := cs_issues st0 ++ kk_issues k ++ ci1 ++ ci2 |} in
    if kk_found k then fold_left (load_map cp1 cp2 (kk_miss1 k) (kk_miss2 k) (cn_id a)) (kk_maps k) st1
    else {| cs_comps := cs_comps st1; cs_eqv := cs_eqv st1; cs_used := cs_used st1;
            cs_issues := cs_issues st1 ++ [err "CONNECTION_CHILD"] |}
  end.

(** ** linking units (the issues only: whether a variable's units object is the model's own is not content) *)
Definition has_units_named (us : list units) (n : string) : bool := existsb (fun u => String.eqb (u_name u) n) us.

Definition link_units_issues (us : list units) (cs : list component) : list issue :=
  flat_map (fun pc => flat_map (fun v => match v_units v with
                                         | Some n => if is_standard_unit_name n || has_units_named us n then []
                                                     else [warn "VARIABLE_ELEMENT"]
                                         | None => []
                                         end) (c_vars (shell (snd pc)))) (all_comps cs).

(** ** loadModel *)
Record model_acc := { ma_units : list units; ma_comps : list component; ma_imports : nat; ma_encid : string;
                      ma_encs : list xml; ma_conns : list xml; ma_issues : list issue }.

Definition load_model_kid (st : model_acc) (k : xml) : model_acc :=
  if is_cellml20 "component" k then
    let r := load_component k in
    {| ma_units := ma_units st; ma_comps := ma_comps st ++ [fst r]; ma_imports := ma_imports st; ma_encid := ma_encid st;
       ma_encs := ma_encs st; ma_conns := ma_conns st; ma_issues := ma_issues st ++ snd r |}
  else if is_cellml20 "units" k then
    let r := load_units k in
    {| ma_units := ma_units st ++ [fst r]; ma_comps := ma_comps st; ma_imports := ma_imports st; ma_encid := ma_encid st;
       ma_encs := ma_encs st; ma_conns := ma_conns st; ma_issues := ma_issues st ++ snd r |}
  else if is_cellml20 "import" k then
    match load_import (ma_imports st) k with
    | (us, cs, is) =>
      {| ma_units := ma_units st ++ us; ma_comps := ma_comps st ++ cs; ma_imports := S (ma_imports st); ma_encid := ma_encid st;
         ma_encs := ma_encs st; ma_conns := ma_conns st; ma_issues := ma_issues st ++ is |}
    end
  else if is_cellml20 "encapsulation" k then
    let a := fold_left (fun s a => if is_id_attr a then (a_val a, snd s) else (fst s, snd s ++ [err "ENCAPSULATION_ELEMENT"]))
                       (xml_attrs k) (ma_encid st, []) in
    match xml_kids k with
    | [] => {| ma_units := ma_units st; ma_comps := ma_comps st; ma_imports := ma_imports st; ma_encid := fst a;
               ma_encs := ma_encs st; ma_conns := ma_conns st; ma_issues := ma_issues st ++ snd a ++ [warn "ENCAPSULATION_CHILD"] |}
    | _ => {| ma_units := ma_units st; ma_comps := ma_comps st; ma_imports := ma_imports st; ma_encid := fst a;
              ma_encs := ma_encs st ++ [k]; ma_conns := ma_conns st; ma_issues := ma_issues st ++ snd a |}
    end
  else if is_cellml20 "connection" k then
    {| ma_units := ma_units st; ma_comps := ma_comps st; ma_imports := ma_imports st; ma_encid := ma_encid st;
       ma_encs := ma_encs st; ma_conns := ma_conns st ++ [k]; ma_issues := ma_issues st |}
  else
    {| ma_units := ma_units st; ma_comps := ma_comps st; ma_imports := ma_imports st; ma_encid := ma_encid st;
       ma_encs := ma_encs st; ma_conns := ma_conns st; ma_issues := ma_issues st ++ stray_child "XML_UNEXPECTED_ELEMENT" k |}.

Definition namespace_issues (x : xml) : list issue :=
  flat_map (fun e => if String.eqb (snd e) CELLML_2_0_NS || String.eqb (snd e) MATHML_NS then []
                     else [err "XML_UNEXPECTED_NAMESPACE"]) (element_namespace_map x)
  ++ flat_map (fun e => match e with (nn, an, au, nu) =>
                 if (String.eqb nn "cn" && String.eqb nu MATHML_NS && String.eqb an "units" && String.eqb au CELLML_2_0_NS)
                    || (String.eqb nn "import" && String.eqb nu CELLML_2_0_NS && String.eqb an "href" && String.eqb au XLINK_NS)
                 then [] else [err "XML_ATTRIBUTE_HAS_NAMESPACE"] end) (attr_namespaces x).

(** the CellML 2.0 path of loadModel.  [strict] only matters when the root is not a CellML 2.0 model element:
    a 1.0 / 1.1 root is refused in strict mode and transformed otherwise (the transformation is C14's
    extension: here the permissive case answers with the empty model and no issue). *)
Definition load (strict : bool) (x : xml) : model * list issue :=
  if is_cellml20 "model" x then
    let ns_issues := namespace_issues x in
    let a := nid_attrs "MODEL_ELEMENT" (xml_attrs x) in
    let name_issue := if na_has_name a then [] else [err "MODEL_NAME"] in
    let k := fold_left load_model_kid (xml_kids x)
                       {| ma_units := []; ma_comps := []; ma_imports := 0; ma_encid := ""; ma_encs := []; ma_conns := [];
                          ma_issues := [] |} in
    let enc := match ma_encs k with
               | [] => (ma_comps k, [])
               | e :: r => let l := load_encapsulation (ma_comps k) e in
                           (fst l, snd l ++ match r with [] => [] | _ => [err "MODEL_MORE_THAN_ONE_ENCAPSULATION"] end)
               end in
    let c := fold_left load_connection (ma_conns k)
                       {| cs_comps := fst enc; cs_eqv := []; cs_used := []; cs_issues := [] |} in
    ({| m_name := na_name a; m_id := na_id a; m_encid := ma_encid k; m_units := ma_units k; m_comps := cs_comps c;
        m_eqv := cs_eqv c |},
     ns_issues ++ na_issues a ++ name_issue ++ ma_issues k ++ snd enc ++ cs_issues c
     ++ link_units_issues (ma_units k) (cs_comps c))
  else if strict || negb (is_element CELLML_1_0_NS "model" x || is_element CELLML_1_1_NS "model" x) then
    (empty_model, [(LError, if strict then "XML_UNEXPECTED_ELEMENT" else "UNDEFINED")])
  else (empty_model, []).

(** the whole pipeline of the property: print, then parse what was printed *)
Definition reparse (strict : bool) (m : model) : option (model * list issue) :=
  option_map (load strict) (print_model E fixed m).

End Load.
