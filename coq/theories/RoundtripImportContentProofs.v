(** RoundtripImportContentProofs.v — stage 5, flat models with imports: the exactly re-parsed model
    (RoundtripImportProofs.load_print_tree_flat_imports) has the same content as canon m: grouping the imported entities
    by import element is a permutation (one element per ImportSource object, every imported entity under its own), and
    what is read back differs from the canonical entity only in the number of its import source. *)
From Coq Require Import String Ascii List Bool ZArith Arith Lia Permutation.
From LC Require Import Common NumDefs XmlDefs EntTreeDefs PrintDefs LoadDefs RoundtripSpec XmlTextProofs
     RoundtripReadProofs RoundtripLoadProofs RoundtripFlatProofs RoundtripEncProofs RoundtripOrderProofs RoundtripImportProofs.
Import ListNotations.
Local Open Scope string_scope.
Local Open Scope bool_scope.
Local Open Scope list_scope.

Opaque str_ok num_ok order_ok math_ok.

Lemma flat_map_ext_in' : forall {A B} (f g : A -> list B) l, (forall x, In x l -> f x = g x) -> flat_map f l = flat_map g l.
Proof. induction l as [|x l IH]; intros H; [reflexivity|]. cbn [flat_map]. rewrite (H x (or_introl eq_refl)), IH; [reflexivity|]. intros; apply H; now right. Qed.

(** partition of a list by the tags of a duplicate-free list of sources *)
Lemma tag_partition : forall {A} (P : isrc -> A -> bool) (S : list isrc) (l : list A),
  (forall j j' x, In j S -> In j' S -> P j x = true -> P j' x = true -> j = j') -> NoDup S ->
  (forall x, In x l -> exists j, In j S /\ P j x = true) ->
  Permutation (flat_map (fun j => filter (P j) l) S) l.
Proof.
  intros A P. induction S as [|j r IH]; intros l Huniq Hnd Hcov.
  - destruct l as [|x l]; [constructor|]. destruct (Hcov x (or_introl eq_refl)) as (j & [] & _).
  - inversion Hnd as [|? ? Hj Hr]; subst. cbn [flat_map].
    set (l' := filter (fun x => negb (P j x)) l).
    assert (Hsame : flat_map (fun j' => filter (P j') l) r = flat_map (fun j' => filter (P j') l') r).
    { apply flat_map_ext_in'. intros j' Hj'. unfold l'. apply filter_filter_impl. intros x Hx.
      destruct (P j x) eqn:Ej; [|reflexivity]. exfalso. apply Hj. rewrite (Huniq j j' x (or_introl eq_refl) (or_intror Hj') Ej Hx). exact Hj'. }
    rewrite Hsame. eapply Permutation_trans; [|apply Permutation_sym; apply (filter_split_perm (P j) l)]. apply Permutation_app_head.
    apply IH; [intros; eapply Huniq; eauto; now right | exact Hr|].
    intros x Hx. unfold l' in Hx. apply filter_In in Hx. destruct Hx as [Hx Hn]. destruct (Hcov x Hx) as (j' & [<-|Hj'] & Hp); [|eauto].
    rewrite Hp in Hn. discriminate.
Qed.

Lemma Forall2_app' : forall {A B} (R : A -> B -> Prop) a a' b b', Forall2 R a b -> Forall2 R a' b' -> Forall2 R (a ++ a') (b ++ b').
Proof. intros. now apply Forall2_app. Qed.

Lemma Forall2_map_both : forall {A B C} (R : B -> C -> Prop) (f : A -> B) (g : A -> C) l,
  (forall x, In x l -> R (f x) (g x)) -> Forall2 R (map f l) (map g l).
Proof. induction l as [|x l IH]; intros H; [constructor|]. cbn [map]. constructor; [apply H; now left | apply IH; intros; apply H; now right]. Qed.

Section Content.
Variable E : env.
Variable m : model.
Hypothesis Hp : printable E true m.
Hypothesis Hnh : no_hierarchy m = true.
Hypothesis Hnc : no_connections m = true.

Let cs := m_comps m.
Let us := m_units m.
Let S := the_sources m.

Lemma S_nodup : NoDup S.
Proof. pose proof (the_sources_nodup m) as H. eapply NoDup_map_inv. exact H. Qed.

Lemma S_tag_inj : forall j j', In j S -> In j' S -> is_tag j = is_tag j' -> j = j'.
Proof.
  intros j j' Hj Hj' Ht. pose proof (the_sources_nodup m) as H. fold S in H.
  destruct (In_nth_error _ _ Hj) as (a & Ha). destruct (In_nth_error _ _ Hj') as (b & Hb).
  assert (H1 : nth_error (map is_tag S) a = Some (is_tag j)) by (rewrite nth_error_map, Ha; reflexivity).
  assert (H2 : nth_error (map is_tag S) b = Some (is_tag j')) by (rewrite nth_error_map, Hb; reflexivity).
  assert (a = b). { apply (proj1 (NoDup_nth_error _) H a b); [apply nth_error_Some; rewrite H1; discriminate | congruence]. }
  subst b. congruence.
Qed.

(** sources in S come from entities of the model *)
Lemma S_in_all_sources : forall j, In j S -> In j (all_sources m).
Proof.
  intros j Hj. unfold S, the_sources in Hj. apply collate_subset in Hj. destruct Hj as [Hj|[]]. unfold all_sources.
  apply in_app_or in Hj. apply in_or_app. destruct Hj as [Hj|Hj].
  - right. apply in_flat_map in Hj. destruct Hj as (c & Hc & Hcj). unfold imported_components in Hc. apply filter_In in Hc. destruct Hc as [Hc _].
    apply in_map_iff in Hc. destruct Hc as (pc & <- & Hpc). apply in_flat_map. exists pc. auto.
  - left. apply in_flat_map in Hj. destruct Hj as (u & Hu & Huj). unfold imported_units in Hu. apply filter_In in Hu. apply in_flat_map. exists u. tauto.
Qed.

Lemma consistent : forall i j, In i (all_sources m) -> In j (all_sources m) -> is_tag i = is_tag j -> is_url i = is_url j /\ is_id i = is_id j.
Proof.
  intros i j Hi Hj Ht. pose proof Hp as H. unfold printable, printableb in H. bsplit_all.
  assert (Hc : negb (Nat.eqb (is_tag i) (is_tag j)) || (String.eqb (is_url i) (is_url j) && String.eqb (is_id i) (is_id j)) = true).
  { match goal with Hs : sources_consistent m = true |- _ => unfold sources_consistent in Hs; rewrite forallb_forall in Hs; specialize (Hs i Hi);
      rewrite forallb_forall in Hs; exact (Hs j Hj) end. }
  apply orb_true_iff in Hc. destruct Hc as [Hc|Hc].
  - apply negb_true_iff in Hc. apply Nat.eqb_neq in Hc. contradiction.
  - apply andb_true_iff in Hc. destruct Hc as [H1' H2']. apply String.eqb_eq in H1'. apply String.eqb_eq in H2'. auto.
Qed.

(** ** units *)
Lemma lu_units_eq : forall k j u, In j S -> In u (units_of m j) -> units_eq (lu k j u) (canon_units E u).
Proof.
  intros k j u Hj Hu. unfold units_of in Hu. apply filter_In in Hu. destruct Hu as [Hu Ht]. unfold imported_units in Hu. apply filter_In in Hu.
  destruct Hu as [Hu _]. destruct (u_src u) as [i|] eqn:Es; [|discriminate]. cbn in Ht. apply Nat.eqb_eq in Ht.
  assert (Hi : In i (all_sources m)).
  { unfold all_sources. apply in_or_app. left. apply in_flat_map. exists u. rewrite Es. split; [exact Hu | now left]. }
  destruct (consistent i j Hi (S_in_all_sources j Hj) Ht) as [Hurl Hid].
  pose proof Hp as H. unfold printable, printableb in H. bsplit_all.
  match goal with Hf : forallb (units_ok E true) (m_units m) = true |- _ => rewrite forallb_forall in Hf; specialize (Hf u Hu); unfold units_ok in Hf end.
  rewrite Es in *. bsplit_all. destruct (u_defs u) eqn:Ed; [|discriminate].
  unfold units_eq, lu, canon_units. cbn [u_name u_id u_src u_ref u_defs]. rewrite Es, Ed. cbn [src_eq new_src is_url is_id map].
  repeat split; auto.
Qed.

Theorem units_content : perm_rel units_eq (U' E m) (map (canon_units E) us).
Proof.
  exists (map (canon_units E) (flat_map (units_of m) S) ++ map (canon_units E) (filter local_u us)). split.
  - rewrite <- map_app. apply Permutation_map.
    eapply Permutation_trans; [apply (filter_split_perm is_import_units us)|]. apply Permutation_app; [|apply Permutation_refl].
    apply Permutation_sym. unfold units_of. fold us. fold (imported_units us).
    apply (tag_partition (fun j u => tag_is (is_tag j) (u_src u)) S (imported_units us)).
    + intros j j' u Hj Hj' H1 H2. apply S_tag_inj; try assumption. destruct (u_src u); [|discriminate]. cbn in H1, H2.
      apply Nat.eqb_eq in H1. apply Nat.eqb_eq in H2. congruence.
    + exact S_nodup.
    + intros u Hu. unfold imported_units in Hu. apply filter_In in Hu. destruct Hu as [Hu Hi]. unfold is_import_units in Hi.
      destruct (u_src u) as [i|] eqn:Es; [|discriminate]. destruct (imported_units_covered m u i Hu Es) as (j & Hj & Ht). exists j. rewrite Es in Ht. auto.
  - unfold U'. apply Forall2_app'; [|apply Forall2_refl; apply units_eq_refl].
    fold S. assert (Hsub : forall j, In j S -> In j S) by auto. revert Hsub. generalize S at 1 3 4. generalize 0.
    intros k l. revert k. induction l as [|j l IH]; intros k Hsub; [constructor|]. cbn [iu_from flat_map]. rewrite map_app. apply Forall2_app'.
    + apply Forall2_map_both. intros u Hu. apply lu_units_eq; [apply Hsub; now left | exact Hu].
    + apply IH. intros; apply Hsub; now right.
Qed.

(** ** components *)
Lemma imported_bare : forall c, In c cs -> is_import_comp c = true ->
  exists s i, c = Comp s [] /\ c_src s = Some i /\ c_vars s = [] /\ c_resets s = [] /\ c_math s = "" /\ c_encid s = "".
Proof.
  intros c Hc Hi. destruct (top_encid_empty E m Hp Hnh c Hc) as [Henc Hk]. destruct c as [s ks]. cbn [kids shell] in *. subst ks.
  unfold is_import_comp in Hi. cbn [shell] in Hi. destruct (c_src s) as [i|] eqn:Es; [|discriminate]. exists s, i.
  pose proof (comps_ok E m Hp) as Hok. rewrite forallb_forall in Hok. specialize (Hok _ Hc). rewrite comp_ok_unfold in Hok.
  apply andb_true_iff in Hok. destruct Hok as [Hs _]. unfold shell_ok in Hs. rewrite Es in Hs. bsplit_all.
  assert (Hv : c_vars s = []).
  { pose proof Hp as H'. unfold printable, printableb in H'. bsplit_all.
    match goal with Hq : eqv_ok true m = true |- _ => unfold eqv_ok in Hq end. bsplit_all.
    match goal with Hpc : placeholders_connected m = true |- _ => unfold placeholders_connected in Hpc; rewrite forallb_forall in Hpc end.
    destruct (top_in_all_comps (m_comps m) [] 0 (Comp s []) Hc) as (q & Hq).
    match goal with Hpc : forall x, In x (all_comps (m_comps m)) -> _ |- _ => specialize (Hpc (q, Comp s []) Hq) end.
    cbn [snd fst] in *. unfold is_import_comp in *. cbn [shell] in *. rewrite Es in *. cbn [negb orb] in *.
    assert (Heqv : m_eqv m = []) by (unfold no_connections in Hnc; destruct (m_eqv m); [reflexivity | discriminate]).
    rewrite Heqv in *. destruct (c_vars s); [reflexivity|]. cbn in *. discriminate. }
  repeat split; try assumption.
  - destruct (c_resets s); [reflexivity | discriminate].
  - match goal with Hm : negb (nonempty (c_math s)) = true |- _ => apply negb_true_iff in Hm; now apply nonempty_false end.
Qed.

Lemma lc_comp_eq : forall k j c, In j S -> In c (comps_of m j) -> comp_eq (lc k j c) (canon_comp E c).
Proof.
  intros k j c Hj Hc. unfold comps_of in Hc. apply filter_In in Hc. destruct Hc as [Hc Ht].
  rewrite (imported_components_flat m Hnh) in Hc. apply filter_In in Hc. destruct Hc as [Hc Himp].
  destruct (imported_bare c Hc Himp) as (s & i & -> & Es & Hv & Hr & Hm & He). cbn [shell] in Ht. rewrite Es in Ht. cbn in Ht. apply Nat.eqb_eq in Ht.
  assert (Hi : In i (all_sources m)).
  { unfold all_sources. apply in_or_app. right. destruct (top_in_all_comps (m_comps m) [] 0 (Comp s []) Hc) as (q & Hq).
    apply in_flat_map. exists (q, Comp s []). split; [exact Hq|]. cbn [snd shell]. rewrite Es. now left. }
  destruct (consistent i j Hi (S_in_all_sources j Hj) Ht) as [Hurl Hid].
  unfold lc. cbn [canon_comp map cname shell]. apply (CompEq _ _ [] [] []); [|constructor|constructor].
  unfold shell_eq, canon_shell. cbn [c_name c_id c_encid c_src c_ref c_math c_vars c_resets]. rewrite Es, Hv, Hr, Hm, He.
  cbn [src_eq new_src is_url is_id map]. repeat split; auto.
Qed.

Theorem comps_content : perm_rel comp_eq (C' E m) (map (canon_comp E) cs).
Proof.
  exists (map (canon_comp E) (flat_map (comps_of m) S) ++ map (canon_comp E) (filter local_c cs)). split.
  - rewrite <- map_app. apply Permutation_map.
    eapply Permutation_trans; [apply (filter_split_perm is_import_comp cs)|]. apply Permutation_app; [|apply Permutation_refl].
    apply Permutation_sym. unfold comps_of. unfold cs. rewrite (imported_components_flat m Hnh). fold cs.
    apply (tag_partition (fun j c => tag_is (is_tag j) (c_src (shell c))) S (filter is_import_comp cs)).
    + intros j j' c Hj Hj' H1 H2. apply S_tag_inj; try assumption. destruct (c_src (shell c)); [|discriminate]. cbn in H1, H2.
      apply Nat.eqb_eq in H1. apply Nat.eqb_eq in H2. congruence.
    + exact S_nodup.
    + intros c Hc. apply filter_In in Hc. destruct Hc as [Hc Hi]. destruct (imported_bare c Hc Hi) as (s & i & -> & Es & _).
      assert (Hin : In i (flat_map (fun c => match c_src (shell c) with Some i => [i] | None => [] end) (imported_components (m_comps m))
                          ++ flat_map (fun u => match u_src u with Some i => [i] | None => [] end) (imported_units (m_units m)))).
      { apply in_or_app. left. apply in_flat_map. exists (Comp s []). split.
        - rewrite (imported_components_flat m Hnh). apply filter_In. split; [exact Hc | exact Hi].
        - cbn [shell]. rewrite Es. now left. }
      destruct (collate_covers _ [] i Hin) as (j & Hj & Ht). exists j. split; [exact Hj|]. cbn [shell]. rewrite Es. cbn. now apply Nat.eqb_eq.
  - unfold C'. apply Forall2_app'; [|apply Forall2_refl; apply comp_eq_refl].
    fold S. assert (Hsub : forall j, In j S -> In j S) by auto. revert Hsub. generalize S at 1 3 4. generalize 0.
    intros k l. revert k. induction l as [|j l IH]; intros k Hsub; [constructor|]. cbn [ic_from flat_map]. rewrite map_app. apply Forall2_app'.
    + apply Forall2_map_both. intros c Hc. apply lc_comp_eq; [apply Hsub; now left | exact Hc].
    + apply IH. intros; apply Hsub; now right.
Qed.

(** * flat models with imports: the round trip as a statement about content *)
Theorem roundtrip_flat_imports : forall fx,
  exists m', print_model E true m = Some (print_tree E m) /\ load E fx true (print_tree E m) = (m', []) /\ content_eq m' (canon E m).
Proof.
  intros fx. eexists. split; [now apply print_model_printable|]. split; [apply (load_print_tree_flat_imports E fx m Hp Hnh Hnc)|].
  unfold content_eq, canon. cbn [m_name m_id m_encid m_units m_comps m_eqv].
  assert (Heqv : m_eqv m = []) by (unfold no_connections in Hnc; destruct (m_eqv m); [reflexivity | discriminate]).
  rewrite Heqv. repeat split; auto; [exact units_content | exact comps_content].
Qed.

End Content.
