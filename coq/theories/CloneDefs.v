(* CloneDefs.v -- C11: executable model of clone() over identity-tagged entity trees.  NO PROOFS HERE.

   Representation.  Every C++ object is a record carrying `oid : nat` ("which object").  A place that
   holds a pointer to an object holds an INLINE COPY of the record: the import source of a component, the
   Units object of a variable, the variable / test variable of a reset.  Two records with the same oid stand
   for one object (sharing); updating an object is a map over ALL records with that oid (`upd_*`), which is
   also how the mutation family of the `independent` theorem acts.  Parent pointers are explicit
   (`*_parent : option oid`).  Equivalences are, as in the code, per-variable ordered lists of references to
   other variables (by oid) carrying the mapping id and the connection id of that direction
   (variable_p.h: mEquivalentVariables, mMappingIdMap, mConnectionIdMap).

   Transcribed (as the code is with the C11 fix commits applied; every repaired behaviour sits behind one flag
   of `flags` whose `false` value is the behaviour of the pinned tree):
     src/importsource.cpp  ImportSource::clone
     src/units.cpp         Units::clone, Units::addUnit (prefix normalisation)
     src/variable.cpp      Variable::clone, Variable::addEquivalence/2, VariableImpl::setEquivalentTo/unsetEquivalentTo
     src/reset.cpp         Reset::clone
     src/component.cpp     Component::clone (reset variable re-targeting by index)
     src/model.cpp         Model::clone, fixComponentUnits
     src/utilities.cpp     indexOf, indexStackOf, recordVariableEquivalences, generateEquivalenceMap,
                           getVariableLocatedAt, makeEquivalence, applyEquivalenceMapToModel
   A fresh-oid supply `nat` is threaded through every clone function; objects created by `T::create()` take
   the next number. *)
From Coq Require Import List String Ascii ZArith Bool Arith.
Import ListNotations.
Local Open Scope string_scope.
Local Open Scope nat_scope.
Local Open Scope list_scope.

Definition oid := nat.
Definition path := list nat.       (* IndexStack: component indices from the model down, then the variable index *)

(* which of the defects confirmed on the pinned tree are repaired in the modelled code *)
Record flags := {
  fx_order : bool;   (* Reset::clone copies the order only when set              (84a9d17, already in /repo) *)
  fx_encid : bool;   (* Component::clone copies the encapsulation id              (fixes/C11-1-component-encapsulation-id) *)
  fx_isrc  : bool;   (* clones get their own ImportSource objects, sharing pattern preserved (fixes/C11-2-import-source) *)
  fx_eqids : bool;   (* Model::clone copies mapping and connection ids            (fixes/C11-4-equivalence-ids) *)
  fx_ext   : bool    (* equivalent variables outside the model are skipped        (fixes/C11-3-external-equivalence) *)
}.
Definition all_fixed : flags := {| fx_order := true; fx_encid := true; fx_isrc := true; fx_eqids := true; fx_ext := true |}.
Definition pinned    : flags := {| fx_order := true; fx_encid := false; fx_isrc := false; fx_eqids := false; fx_ext := false |}.
Definition original  : flags := {| fx_order := false; fx_encid := false; fx_isrc := false; fx_eqids := false; fx_ext := false |}.

(* ------------------------------------------------------------------------------------------ entities *)

Record isrc := { is_oid : oid; is_id : string; is_url : string; is_model : option oid (* weak link, opaque *) }.

(* exponent and multiplier are doubles that clone copies verbatim: opaque tokens here *)
Record unitdef := { ud_ref : string; ud_prefix : string; ud_exp : string; ud_mult : string; ud_id : string }.

Record units := { u_oid : oid; u_parent : option oid; u_id : string; u_name : string;
                  u_imp : option isrc; u_impref : string; u_defs : list unitdef }.

Record eqref := { e_var : oid; e_mapid : string; e_connid : string }.

Record variable := { v_oid : oid; v_parent : option oid; v_id : string; v_name : string;
                     v_init : string; v_iface : string; v_units : option units; v_eqs : list eqref }.

Record reset := { r_oid : oid; r_parent : option oid; r_id : string; r_order : Z; r_order_set : bool;
                  r_var : option variable; r_test : option variable;
                  r_tv : string; r_tvid : string; r_rv : string; r_rvid : string }.

Inductive component :=
  Comp (o : oid) (parent : option oid) (id name encid math : string) (imp : option isrc) (impref : string)
       (vars : list variable) (resets : list reset) (kids : list component).

Definition c_oid c := match c with Comp o _ _ _ _ _ _ _ _ _ _ => o end.
Definition c_parent c := match c with Comp _ p _ _ _ _ _ _ _ _ _ => p end.
Definition c_id c := match c with Comp _ _ i _ _ _ _ _ _ _ _ => i end.
Definition c_name c := match c with Comp _ _ _ n _ _ _ _ _ _ _ => n end.
Definition c_encid c := match c with Comp _ _ _ _ e _ _ _ _ _ _ => e end.
Definition c_math c := match c with Comp _ _ _ _ _ m _ _ _ _ _ => m end.
Definition c_imp c := match c with Comp _ _ _ _ _ _ i _ _ _ _ => i end.
Definition c_impref c := match c with Comp _ _ _ _ _ _ _ r _ _ _ => r end.
Definition c_vars c := match c with Comp _ _ _ _ _ _ _ _ v _ _ => v end.
Definition c_resets c := match c with Comp _ _ _ _ _ _ _ _ _ r _ => r end.
Definition c_kids c := match c with Comp _ _ _ _ _ _ _ _ _ _ k => k end.

Record model := { m_oid : oid; m_id : string; m_name : string; m_encid : string;
                  m_units : list units; m_comps : list component }.

(* field setters used below *)
Definition u_set_parent p u :=
  {| u_oid := u_oid u; u_parent := p; u_id := u_id u; u_name := u_name u; u_imp := u_imp u; u_impref := u_impref u; u_defs := u_defs u |}.
Definition v_set_parent p v :=
  {| v_oid := v_oid v; v_parent := p; v_id := v_id v; v_name := v_name v; v_init := v_init v; v_iface := v_iface v;
     v_units := v_units v; v_eqs := v_eqs v |}.
Definition v_set_units u v :=
  {| v_oid := v_oid v; v_parent := v_parent v; v_id := v_id v; v_name := v_name v; v_init := v_init v; v_iface := v_iface v;
     v_units := u; v_eqs := v_eqs v |}.
Definition v_set_eqs l v :=
  {| v_oid := v_oid v; v_parent := v_parent v; v_id := v_id v; v_name := v_name v; v_init := v_init v; v_iface := v_iface v;
     v_units := v_units v; v_eqs := l |}.
Definition r_set_parent p r :=
  {| r_oid := r_oid r; r_parent := p; r_id := r_id r; r_order := r_order r; r_order_set := r_order_set r;
     r_var := r_var r; r_test := r_test r; r_tv := r_tv r; r_tvid := r_tvid r; r_rv := r_rv r; r_rvid := r_rvid r |}.
Definition r_set_vars v t r :=
  {| r_oid := r_oid r; r_parent := r_parent r; r_id := r_id r; r_order := r_order r; r_order_set := r_order_set r;
     r_var := v; r_test := t; r_tv := r_tv r; r_tvid := r_tvid r; r_rv := r_rv r; r_rvid := r_rvid r |}.
Definition c_set_parent p c :=
  match c with Comp o _ i n e m im ir vs rs ks => Comp o p i n e m im ir vs rs ks end.

(* ------------------------------------------------------------------------------------------ small utilities *)

Fixpoint index_of (o : oid) (l : list oid) : option nat :=
  match l with
  | [] => None
  | x :: r => if Nat.eqb x o then Some 0 else option_map S (index_of o r)
  end.

Fixpoint lookup {A} (o : oid) (l : list (oid * A)) : option A :=
  match l with
  | [] => None
  | (k, a) :: r => if Nat.eqb k o then Some a else lookup o r
  end.

(* src/utilities.cpp: isCellMLInteger and the test `std::stoi(prefix) != 0` of Units::addUnit.
   zero_int s  <->  s = [+-]? 0+ ; a digit string too long for int throws out_of_range, and then the prefix is
   kept -- such a string has a non-zero digit or is all zeros (stoi("000..0") = 0 never overflows). *)
Fixpoint all_zero_digits (s : string) : bool :=
  match s with EmptyString => true | String c r => Ascii.eqb c "0"%char && all_zero_digits r end.
Definition zero_int (s : string) : bool :=
  match s with
  | EmptyString => false
  | String c r =>
      if Ascii.eqb c "-"%char || Ascii.eqb c "+"%char
      then match r with EmptyString => false | _ => all_zero_digits r end
      else all_zero_digits s
  end.
(* src/units.cpp: Units::addUnit(reference, prefix: string, exponent, multiplier, id) *)
Definition norm_prefix (p : string) : string := if zero_int p then "" else p.

(* ------------------------------------------------------------------------------------------ clone *)

(* supply + the map original ImportSource -> its clone (only used when fx_isrc) *)
Record st := { nx : nat; imap : list (oid * isrc) }.
Definition st0 (n : nat) : st := {| nx := n; imap := [] |}.
Definition st_nx (n : nat) (s : st) : st := {| nx := n; imap := imap s |}.

(* src/importsource.cpp: ImportSource::clone -- id, url and the (weak) model link *)
Definition clone_isrc (n : nat) (i : isrc) : isrc * nat :=
  ({| is_oid := n; is_id := is_id i; is_url := is_url i; is_model := is_model i |}, S n).

(* the import source given to the clone of an imported entity.
   pinned tree: `setImportSource(importSource())`: the SAME object.
   repaired: the ImportSource is cloned once per clone() call and original object (map), so that entities
   that shared a source in the original share one in the clone. *)
Definition clone_imp (fx : flags) (s : st) (imp : option isrc) : option isrc * st :=
  match imp with
  | None => (None, s)
  | Some i =>
      if fx_isrc fx then
        match lookup (is_oid i) (imap s) with
        | Some i' => (Some i', s)
        | None => let (i', n') := clone_isrc (nx s) i in
                  (Some i', {| nx := n'; imap := (is_oid i, i') :: imap s |})
        end
      else (Some i, s)
  end.

(* src/units.cpp: Units::clone (unitAttributes + addUnit per child) *)
Definition clone_unitdef (d : unitdef) : unitdef :=
  {| ud_ref := ud_ref d; ud_prefix := norm_prefix (ud_prefix d); ud_exp := ud_exp d; ud_mult := ud_mult d; ud_id := ud_id d |}.

Definition clone_units_st (fx : flags) (s : st) (u : units) : units * st :=
  let o := nx s in
  let (imp', s1) := clone_imp fx (st_nx (S o) s) (u_imp u) in
  ({| u_oid := o; u_parent := None; u_id := u_id u; u_name := u_name u; u_imp := imp'; u_impref := u_impref u;
      u_defs := map clone_unitdef (u_defs u) |}, s1).

Definition clone_units (fx : flags) (n : nat) (u : units) : units * nat :=
  let (u', s) := clone_units_st fx (st0 n) u in (u', nx s).

(* src/variable.cpp: Variable::clone -- the Units OBJECT is cloned (public Units::clone); initial value,
   interface type, id, name; equivalences are not copied *)
Definition clone_variable (fx : flags) (n : nat) (v : variable) : variable * nat :=
  let (us, n1) := match v_units v with
                  | None => (None, S n)
                  | Some u => let (u', n') := clone_units fx (S n) u in (Some u', n')
                  end in
  ({| v_oid := n; v_parent := None; v_id := v_id v; v_name := v_name v; v_init := v_init v; v_iface := v_iface v;
      v_units := us; v_eqs := [] |}, n1).

Definition clone_opt_variable (fx : flags) (n : nat) (v : option variable) : option variable * nat :=
  match v with
  | None => (None, n)
  | Some v => let (v', n') := clone_variable fx n v in (Some v', n')
  end.

(* src/reset.cpp: Reset::clone -- note that the variable and the test variable are CLONED *)
Definition clone_reset (fx : flags) (n : nat) (r : reset) : reset * nat :=
  let (v', n1) := clone_opt_variable fx (S n) (r_var r) in
  let (t', n2) := clone_opt_variable fx n1 (r_test r) in
  let keep := negb (fx_order fx) || r_order_set r in
  ({| r_oid := n; r_parent := None; r_id := r_id r;
      r_order := if keep then r_order r else 0%Z;       (* Reset::create(): mOrder = 0, mOrderSet = false *)
      r_order_set := keep;
      r_var := v'; r_test := t';
      r_tv := r_tv r; r_tvid := r_tvid r; r_rv := r_rv r; r_rvid := r_rvid r |}, n2).

Fixpoint clone_variables (fx : flags) (n : nat) (owner : oid) (l : list variable) : list variable * nat :=
  match l with
  | [] => ([], n)
  | v :: r => let (v', n1) := clone_variable fx n v in
              let (r', n2) := clone_variables fx n1 owner r in
              (v_set_parent (Some owner) v' :: r', n2)          (* Component::addVariable *)
  end.

(* Component::clone, reset loop: `indexOf(r->variable(), shared_from_this())` is an identity search in the
   ORIGINAL component's variables; when found the clone's reset is pointed at the clone's variable of that index *)
Definition retarget (ovars cvars : list variable) (orig cloned : option variable) : option variable :=
  match orig with
  | None => cloned                                             (* indexOf(nullptr, ..) = variableCount() *)
  | Some v => match index_of (v_oid v) (map v_oid ovars) with
              | Some i => match nth_error cvars i with Some w => Some w | None => cloned end
              | None => cloned
              end
  end.

Fixpoint clone_resets (fx : flags) (n : nat) (owner : oid) (ovars cvars : list variable) (l : list reset) : list reset * nat :=
  match l with
  | [] => ([], n)
  | r :: rest =>
      let (r', n1) := clone_reset fx n r in
      let r'' := r_set_vars (retarget ovars cvars (r_var r) (r_var r')) (retarget ovars cvars (r_test r) (r_test r'))
                            (r_set_parent (Some owner) r') in    (* Component::addReset *)
      let (rest', n2) := clone_resets fx n1 owner ovars cvars rest in
      (r'' :: rest', n2)
  end.

(* src/component.cpp: Component::clone (the import-source map is threaded through the recursion) *)
Fixpoint clone_comp (fx : flags) (s : st) (c : component) : component * st :=
  match c with
  | Comp _ _ id name encid math imp impref vars resets kids =>
      let o := nx s in
      let (imp', s1) := clone_imp fx (st_nx (S o) s) imp in
      let (vars', n2) := clone_variables fx (nx s1) o vars in
      let (resets', n3) := clone_resets fx n2 o vars vars' resets in
      let (kids', s4) :=
        (fix go (s : st) (l : list component) : list component * st :=
           match l with
           | [] => ([], s)
           | k :: r => let (k', s') := clone_comp fx s k in
                       let (r', s'') := go s' r in
                       (c_set_parent (Some o) k' :: r', s'')   (* Component::doAddComponent *)
           end) (st_nx n3 s1) kids in
      (Comp o None id name (if fx_encid fx then encid else "") math imp' impref vars' resets' kids', s4)
  end.

Definition clone_component (fx : flags) (n : nat) (c : component) : component * nat :=
  let (c', s) := clone_comp fx (st0 n) c in (c', nx s).

Fixpoint clone_comps (fx : flags) (s : st) (owner : oid) (l : list component) : list component * st :=
  match l with
  | [] => ([], s)
  | k :: r => let (k', s') := clone_comp fx s k in
              let (r', s'') := clone_comps fx s' owner r in
              (c_set_parent (Some owner) k' :: r', s'')
  end.

Fixpoint clone_units_list (fx : flags) (s : st) (owner : oid) (l : list units) : list units * st :=
  match l with
  | [] => ([], s)
  | u :: r => let (u', s') := clone_units_st fx s u in
              let (r', s'') := clone_units_list fx s' owner r in
              (u_set_parent (Some owner) u' :: r', s'')          (* Model::addUnits *)
  end.

(* ------------------------------------------------------------------------------------------ maps over all records of a kind *)

Definition map_isrc_units (f : isrc -> isrc) (u : units) : units :=
  {| u_oid := u_oid u; u_parent := u_parent u; u_id := u_id u; u_name := u_name u;
     u_imp := option_map f (u_imp u); u_impref := u_impref u; u_defs := u_defs u |}.

(* g acts on every Units record held by the variable, f on the variable itself (after its units) *)
Definition map_var (g : units -> units) (f : variable -> variable) (v : variable) : variable :=
  f (v_set_units (option_map g (v_units v)) v).

Definition map_reset (g : units -> units) (f : variable -> variable) (h : reset -> reset) (r : reset) : reset :=
  h (r_set_vars (option_map (map_var g f) (r_var r)) (option_map (map_var g f) (r_test r)) r).

(* all-kinds map over a component tree: i on import sources, g on units, f on variables, h on resets, k on components.
   Children are transformed before their holder. *)
Fixpoint map_comp (i : isrc -> isrc) (g : units -> units) (f : variable -> variable) (h : reset -> reset)
                  (k : component -> component) (c : component) : component :=
  match c with
  | Comp o p id name encid math imp impref vars resets kids =>
      k (Comp o p id name encid math (option_map i imp) impref
              (map (map_var g f) vars) (map (map_reset g f h) resets) (map (map_comp i g f h k) kids))
  end.

Definition map_model (i : isrc -> isrc) (g : units -> units) (f : variable -> variable) (h : reset -> reset)
                     (k : component -> component) (m : model) : model :=
  {| m_oid := m_oid m; m_id := m_id m; m_name := m_name m; m_encid := m_encid m;
     m_units := map g (m_units m); m_comps := map (map_comp i g f h k) (m_comps m) |}.

Definition at_oid {A} (oid_of : A -> oid) (o : oid) (f : A -> A) (x : A) : A := if Nat.eqb (oid_of x) o then f x else x.

(* ------------------------------------------------------------------------------------------ Model::clone *)

(* all (path, variable) of the component variables, components in pre-order *)
Fixpoint idx_vars (pre : path) (i : nat) (l : list variable) : list (path * variable) :=
  match l with [] => [] | v :: r => (pre ++ [i], v) :: idx_vars pre (S i) r end.

Fixpoint comp_vars_at (pre : path) (c : component) : list (path * variable) :=
  match c with
  | Comp _ _ _ _ _ _ _ _ vars _ kids =>
      idx_vars pre 0 vars
      ++ (fix ks (i : nat) (l : list component) : list (path * variable) :=
            match l with [] => [] | k :: r => comp_vars_at (pre ++ [i]) k ++ ks (S i) r end) 0 kids
  end.

Fixpoint comps_vars_at (pre : path) (i : nat) (l : list component) : list (path * variable) :=
  match l with [] => [] | k :: r => comp_vars_at (pre ++ [i]) k ++ comps_vars_at pre (S i) r end.

Definition model_vars (m : model) : list (path * variable) := comps_vars_at [] 0 (m_comps m).

(* src/utilities.cpp: getVariableLocatedAt walks components by index, then takes the variable *)
Fixpoint comp_at (cs : list component) (p : path) : option component :=
  match p with
  | [] => None
  | [i] => nth_error cs i
  | i :: p' => match nth_error cs i with Some c => comp_at (c_kids c) p' | None => None end
  end.

Inductive located := LCrash | LNull | LVar (v : variable).

Definition var_located_at (m : model) (p : path) : located :=
  match p with
  | [] => LCrash                                   (* an IndexStack is never empty *)
  | _ => match removelast p with
         | [] => LCrash                            (* `component` stays null: component->variable(..) *)
         | cp => match comp_at (m_comps m) cp with
                 | None => LCrash                  (* null component dereferenced *)
                 | Some c => match nth_error (c_vars c) (last p 0) with
                             | Some v => LVar v
                             | None => LNull       (* Component::variable(index) returns nullptr out of range *)
                             end
                 end
         end
  end.

(* src/utilities.cpp: indexStackOf(variable) -- the position of the object in the model's component tree
   (the code walks parent pointers upwards; under parent-consistency that is the position found here) *)
Fixpoint find_path (o : oid) (l : list (path * variable)) : option path :=
  match l with
  | [] => None
  | (p, v) :: r => if Nat.eqb (v_oid v) o then Some p else find_path o r
  end.

Definition index_stack_of (m : model) (o : oid) : option path := find_path o (model_vars m).

(* what indexStackOf does with an equivalent variable that is NOT in the model being cloned (pinned tree only) *)
Inductive ext_loc := EOrphan               (* no parent component: indexOf(v, nullptr) -> crash *)
                   | EAt (p : path).       (* lives under another root: its index stack relative to THAT root *)

(* std::map<IndexStack, std::vector<IndexStack>>: keys in lexicographic order *)
Definition eqmap := list (path * list path).

Fixpoint path_eqb (a b : path) : bool :=
  match a, b with
  | [], [] => true
  | x :: a', y :: b' => Nat.eqb x y && path_eqb a' b'
  | _, _ => false
  end.

Fixpoint lex_ltb (a b : path) : bool :=
  match a, b with
  | [], [] => false
  | [], _ :: _ => true
  | _ :: _, [] => false
  | x :: a', y :: b' => if Nat.ltb x y then true else if Nat.ltb y x then false else lex_ltb a' b'
  end.

Fixpoint em_add (k t : path) (m : eqmap) : eqmap :=
  match m with
  | [] => [(k, [t])]
  | (k', ts) :: r => if path_eqb k k' then (k', ts ++ [t]) :: r
                     else if lex_ltb k k' then (k, [t]) :: m
                     else (k', ts) :: em_add k t r
  end.

(* src/utilities.cpp: recordVariableEquivalences, body of the j-loop for one variable (key = its index stack) *)
Definition record_var (fx : flags) (ext : oid -> ext_loc) (m : model) (key : path) (v : variable)
                      (acc : option eqmap) : option eqmap :=
  fold_left (fun acc e =>
               match acc with
               | None => None
               | Some em =>
                   match index_stack_of m (e_var e) with
                   | Some p => Some (em_add key p em)
                   | None => if fx_ext fx then Some em      (* repaired: not in this model -> skipped *)
                             else match ext (e_var e) with
                                  | EOrphan => None         (* SIGSEGV in indexStackOf *)
                                  | EAt p => Some (em_add key p em)
                                  end
                   end
               end) (v_eqs v) acc.

Fixpoint record_vars (fx : flags) (ext : oid -> ext_loc) (m : model) (stack : path) (i : nat) (l : list variable)
                     (acc : option eqmap) : option eqmap :=
  match l with
  | [] => acc
  | v :: r => record_vars fx ext m stack (S i) r (record_var fx ext m (stack ++ [i]) v acc)
  end.

(* recordVariableEquivalences(c) followed by generateEquivalenceMap(c): c's variables, then the children in order *)
Fixpoint record_comp (fx : flags) (ext : oid -> ext_loc) (m : model) (stack : path) (c : component)
                     (acc : option eqmap) : option eqmap :=
  match c with
  | Comp _ _ _ _ _ _ _ _ vars _ kids =>
      (fix ks (i : nat) (l : list component) (acc : option eqmap) : option eqmap :=
         match l with
         | [] => acc
         | k :: r => ks (S i) r (record_comp fx ext m (stack ++ [i]) k acc)
         end) 0 kids (record_vars fx ext m stack 0 vars acc)
  end.

Fixpoint record_comps (fx : flags) (ext : oid -> ext_loc) (m : model) (stack : path) (i : nat) (l : list component)
                      (acc : option eqmap) : option eqmap :=
  match l with
  | [] => acc
  | k :: r => record_comps fx ext m stack (S i) r (record_comp fx ext m (stack ++ [i]) k acc)
  end.

Definition record_model (fx : flags) (ext : oid -> ext_loc) (m : model) : option eqmap :=
  record_comps fx ext m [] 0 (m_comps m) (Some []).

(* equivalence lists of the clone's variables while the map is applied: a store keyed by variable oid
   (the variables themselves do not move or change otherwise during this phase); written back by `set_eqs` *)
Definition estore := list (oid * list eqref).
Definition es_get (o : oid) (E : estore) : list eqref := match lookup o E with Some l => l | None => [] end.
Fixpoint es_set (o : oid) (l : list eqref) (E : estore) : estore :=
  match E with
  | [] => [(o, l)]
  | (k, x) :: r => if Nat.eqb k o then (k, l) :: r else (k, x) :: es_set o l r
  end.

Definition has_eq (o : oid) (l : list eqref) : bool := existsb (fun e => Nat.eqb (e_var e) o) l.
Fixpoint remove_eq (o : oid) (l : list eqref) : list eqref :=      (* erase the first match *)
  match l with
  | [] => []
  | e :: r => if Nat.eqb (e_var e) o then r else e :: remove_eq o r
  end.

(* src/variable.cpp: Variable::addEquivalence(v1, v2) (2 arguments: ids are not set) *)
Definition add_equivalence (o1 o2 : oid) (E : estore) : estore :=
  let can1 := negb (has_eq o2 (es_get o1 E)) in                                   (* v1->setEquivalentTo(v2) *)
  let E1 := if can1 then es_set o1 (es_get o1 E ++ [{| e_var := o2; e_mapid := ""; e_connid := "" |}]) E else E in
  let can2 := negb (has_eq o1 (es_get o2 E1)) in                                  (* v2->setEquivalentTo(v1) *)
  let E2 := if can2 then es_set o2 (es_get o2 E1 ++ [{| e_var := o1; e_mapid := ""; e_connid := "" |}]) E1 else E1 in
  if can1 && negb can2 then es_set o1 (remove_eq o2 (es_get o1 E2)) E2 else E2.   (* v1->unsetEquivalentTo(v2) *)

(* src/utilities.cpp: makeEquivalence on the clone `m'` *)
Definition make_equivalence (m' : model) (p1 p2 : path) (acc : option estore) : option estore :=
  match acc with
  | None => None
  | Some E =>
      match var_located_at m' p1 with
      | LCrash => None
      | l1 => match var_located_at m' p2 with
              | LCrash => None
              | l2 => match l1, l2 with
                      | LVar v1, LVar v2 => Some (add_equivalence (v_oid v1) (v_oid v2) E)
                      | _, _ => Some E                       (* addEquivalence with a null argument: false *)
                      end
              end
      end
  end.

(* src/utilities.cpp: applyEquivalenceMapToModel *)
Definition apply_map (m' : model) (em : eqmap) (acc : option estore) : option estore :=
  fold_left (fun acc kv => fold_left (fun acc t => make_equivalence m' (fst kv) t acc) (snd kv) acc) em acc.

(* repaired Model::clone, post-pass over the same map: the ids stored by the original's variable for that
   direction are stored in the clone's variable for the clone's equivalent variable *)
Definition set_ids (o : oid) (a b : string) (l : list eqref) : list eqref :=
  map (fun e => if Nat.eqb (e_var e) o then {| e_var := e_var e; e_mapid := a; e_connid := b |} else e) l.

Definition ids_of (o : oid) (l : list eqref) : string * string :=
  match find (fun e => Nat.eqb (e_var e) o) l with Some e => (e_mapid e, e_connid e) | None => ("", "") end.

Definition copy_ids_one (m m' : model) (p1 p2 : path) (E : estore) : estore :=
  match var_located_at m p1, var_located_at m p2, var_located_at m' p1, var_located_at m' p2 with
  | LVar v1, LVar v2, LVar c1, LVar c2 =>
      let (a, b) := ids_of (v_oid v2) (v_eqs v1) in
      es_set (v_oid c1) (set_ids (v_oid c2) a b (es_get (v_oid c1) E)) E
  | _, _, _, _ => E
  end.

Definition copy_ids (m m' : model) (em : eqmap) (E : estore) : estore :=
  fold_left (fun E kv => fold_left (fun E t => copy_ids_one m m' (fst kv) t E) (snd kv) E) em E.

(* write the store back: only component variables of the clone are in it; private clones held by resets keep [] *)
Definition set_eqs (E : estore) (m : model) : model :=
  map_model (fun i => i) (fun u => u) (fun v => v_set_eqs (es_get (v_oid v) E) v) (fun r => r) (fun c => c) m.

(* src/model.cpp: fixComponentUnits -- every COMPONENT variable (not the private clones held by resets) whose
   units name is that of one of the clone's units is pointed at that Units object *)
Fixpoint find_units (name : string) (l : list units) : option units :=
  match l with
  | [] => None
  | u :: r => if String.eqb (u_name u) name then Some u else find_units name r
  end.

Definition fix_units_var (us : list units) (cvo : list oid) (v : variable) : variable :=
  if existsb (Nat.eqb (v_oid v)) cvo then
    match v_units v with
    | Some u => match find_units (u_name u) us with Some u' => v_set_units (Some u') v | None => v end
    | None => v
    end
  else v.

Definition fix_component_units (m : model) : model :=
  map_model (fun i => i) (fun u => u) (fix_units_var (m_units m) (map (fun pv => v_oid (snd pv)) (model_vars m)))
            (fun r => r) (fun c => c) m.

(* src/model.cpp: Model::clone.  None = the library crashes (pinned tree: parent-less equivalent variable). *)
Definition clone_model (fx : flags) (ext : oid -> ext_loc) (n : nat) (m : model) : option (model * nat) :=
  let o := n in
  let (us, s1) := clone_units_list fx (st0 (S n)) o (m_units m) in
  let (cs, s2) := clone_comps fx s1 o (m_comps m) in
  let m1 := fix_component_units
              {| m_oid := o; m_id := m_id m; m_name := m_name m; m_encid := m_encid m; m_units := us; m_comps := cs |} in
  match record_model fx ext m with
  | None => None
  | Some em =>
      match apply_map m1 em (Some []) with
      | None => None
      | Some E =>
          let E' := if fx_eqids fx then copy_ids m m1 em E else E in
          Some (set_eqs E' m1, nx s2)
      end
  end.

Definition no_ext : oid -> ext_loc := fun _ => EOrphan.

(* ------------------------------------------------------------------------------------------ oids, parents *)

Definition isrc_oids_opt (i : option isrc) : list oid := match i with Some i => [is_oid i] | None => [] end.
Definition units_oids (u : units) : list oid := u_oid u :: isrc_oids_opt (u_imp u).
Definition var_oids (v : variable) : list oid := v_oid v :: match v_units v with Some u => units_oids u | None => [] end.
Definition ovar_oids (v : option variable) : list oid := match v with Some v => var_oids v | None => [] end.
Definition reset_oids (r : reset) : list oid := r_oid r :: ovar_oids (r_var r) ++ ovar_oids (r_test r).
Fixpoint comp_oids (c : component) : list oid :=
  match c with
  | Comp o _ _ _ _ _ imp _ vars resets kids =>
      o :: isrc_oids_opt imp ++ flat_map var_oids vars ++ flat_map reset_oids resets ++ flat_map comp_oids kids
  end.
Definition model_oids (m : model) : list oid :=
  m_oid m :: flat_map units_oids (m_units m) ++ flat_map comp_oids (m_comps m).

(* oids of ImportSource objects only *)
Definition units_isrcs (u : units) : list oid := isrc_oids_opt (u_imp u).
Definition var_isrcs (v : variable) : list oid := match v_units v with Some u => units_isrcs u | None => [] end.
Definition ovar_isrcs (v : option variable) : list oid := match v with Some v => var_isrcs v | None => [] end.
Definition reset_isrcs (r : reset) : list oid := ovar_isrcs (r_var r) ++ ovar_isrcs (r_test r).
Fixpoint comp_isrcs (c : component) : list oid :=
  match c with
  | Comp _ _ _ _ _ _ imp _ vars resets kids =>
      isrc_oids_opt imp ++ flat_map var_isrcs vars ++ flat_map reset_isrcs resets ++ flat_map comp_isrcs kids
  end.
Definition model_isrcs (m : model) : list oid := flat_map units_isrcs (m_units m) ++ flat_map comp_isrcs (m_comps m).

(* the import sources on which the PRINTER groups: those of the units / components themselves (not the ones of
   Units objects held by variables), in document order *)
Fixpoint comp_imports (c : component) : list oid :=
  match c with
  | Comp _ _ _ _ _ _ imp _ _ _ kids => isrc_oids_opt imp ++ flat_map comp_imports kids
  end.
Definition model_imports (m : model) : list oid := flat_map units_isrcs (m_units m) ++ flat_map comp_imports (m_comps m).

(* sharing pattern of a list of object references: each replaced by the position of its first occurrence *)
Definition canon (l : list oid) : list (option nat) := map (fun o => index_of o l) l.

(* ------------------------------------------------------------------------------------------ content *)
(* What a serialisation shows, as an S-expression without any oid or parent. *)
Inductive sx := A (s : string) | N (n : nat) | Zn (z : Z) | B (b : bool) | L (l : list sx).

Definition sx_opt {T} (f : T -> sx) (o : option T) : sx := match o with Some x => L [f x] | None => L [] end.

Definition content_isrc (i : isrc) : sx := L [A (is_url i); A (is_id i)].
Definition content_unitdef (d : unitdef) : sx := L [A (ud_ref d); A (ud_prefix d); A (ud_exp d); A (ud_mult d); A (ud_id d)].
Definition content_units (u : units) : sx :=
  L [A (u_name u); A (u_id u); sx_opt content_isrc (u_imp u); A (u_impref u); L (map content_unitdef (u_defs u))].
(* a variable is serialised with the NAME of its units *)
Definition content_variable (v : variable) : sx :=
  L [A (v_name v); A (v_id v); sx_opt (fun u => A (u_name u)) (v_units v); A (v_init v); A (v_iface v)].
(* a reset names its variables; `owner` = the variables of the component that lists the reset ([] for a lone
   reset): the position there of the referenced OBJECT is part of the content *)
Definition content_vref (owner : list variable) (v : option variable) : sx :=
  sx_opt (fun v => L [A (v_name v); sx_opt N (index_of (v_oid v) (map v_oid owner))]) v.
Definition content_reset (owner : list variable) (r : reset) : sx :=
  L [A (r_id r); Zn (r_order r); B (r_order_set r); content_vref owner (r_var r); content_vref owner (r_test r);
     A (r_tv r); A (r_tvid r); A (r_rv r); A (r_rvid r)].
Fixpoint content_comp (c : component) : sx :=
  match c with
  | Comp _ _ id name encid math imp impref vars resets kids =>
      L [A name; A id; A encid; A math; sx_opt content_isrc imp; A impref;
         L (map content_variable vars); L (map (content_reset vars) resets); L (map content_comp kids)]
  end.
(* a component / model also shows which imported entities are grouped under one import element *)
Definition content_component (c : component) : sx * list (option nat) := (content_comp c, canon (comp_imports c)).
Definition content_model_struct (m : model) : sx * list (option nat) :=
  (L [A (m_name m); A (m_id m); A (m_encid m); L (map content_units (m_units m)); L (map content_comp (m_comps m))],
   canon (model_imports m)).

(* the equivalences a model's serialisation shows: directed (path, path, mapping id, connection id), both ends
   component variables of the model; `with_ids = false` blanks the ids *)
Definition eqv_of_var (m : model) (with_ids : bool) (pv : path * variable) : list (path * path * string * string) :=
  flat_map (fun e => match index_stack_of m (e_var e) with
                     | Some q => [(fst pv, q, if with_ids then e_mapid e else "", if with_ids then e_connid e else "")]
                     | None => []
                     end) (v_eqs (snd pv)).
Definition model_eqvs (with_ids : bool) (m : model) : list (path * path * string * string) :=
  flat_map (eqv_of_var m with_ids) (model_vars m).

(* ------------------------------------------------------------------------------------------ mutations *)
(* One API call on ONE object (named by oid), applied to every record that stands for that object. *)
Inductive mutation :=
| MIsrcUrl (o : oid) (s : string) | MIsrcId (o : oid) (s : string)
| MUnitsName (o : oid) (s : string) | MUnitsId (o : oid) (s : string) | MUnitsImpRef (o : oid) (s : string)
| MUnitsImp (o : oid) (i : option isrc) | MUnitsAddUnit (o : oid) (d : unitdef) | MUnitsRemoveUnit (o : oid) (k : nat)
| MVarName (o : oid) (s : string) | MVarId (o : oid) (s : string) | MVarInit (o : oid) (s : string)
| MVarIface (o : oid) (s : string) | MVarUnits (o : oid) (u : option units)
| MResetId (o : oid) (s : string) | MResetOrder (o : oid) (z : Z) | MResetRemoveOrder (o : oid)
| MResetVar (o : oid) (v : option variable) | MResetTest (o : oid) (v : option variable)
| MResetTv (o : oid) (s : string) | MResetTvId (o : oid) (s : string) | MResetRv (o : oid) (s : string) | MResetRvId (o : oid) (s : string)
| MCompName (o : oid) (s : string) | MCompId (o : oid) (s : string) | MCompEncId (o : oid) (s : string)
| MCompMath (o : oid) (s : string) | MCompImpRef (o : oid) (s : string) | MCompImp (o : oid) (i : option isrc)
| MCompAddVar (o : oid) (v : variable) | MCompRemoveVar (o : oid) (k : nat)
| MCompAddReset (o : oid) (r : reset) | MCompRemoveReset (o : oid) (k : nat)
| MCompAddChild (o : oid) (c : component) | MCompRemoveChild (o : oid) (k : nat)
| MModelName (o : oid) (s : string) | MModelId (o : oid) (s : string) | MModelEncId (o : oid) (s : string)
| MModelAddUnits (o : oid) (u : units) | MModelRemoveUnits (o : oid) (k : nat)
| MModelAddComp (o : oid) (c : component) | MModelRemoveComp (o : oid) (k : nat).

Definition mut_target (mu : mutation) : oid :=
  match mu with
  | MIsrcUrl o _ | MIsrcId o _ | MUnitsName o _ | MUnitsId o _ | MUnitsImpRef o _ | MUnitsImp o _ | MUnitsAddUnit o _
  | MUnitsRemoveUnit o _ | MVarName o _ | MVarId o _ | MVarInit o _ | MVarIface o _ | MVarUnits o _
  | MResetId o _ | MResetOrder o _ | MResetRemoveOrder o | MResetVar o _ | MResetTest o _ | MResetTv o _ | MResetTvId o _
  | MResetRv o _ | MResetRvId o _ | MCompName o _ | MCompId o _ | MCompEncId o _ | MCompMath o _ | MCompImpRef o _
  | MCompImp o _ | MCompAddVar o _ | MCompRemoveVar o _ | MCompAddReset o _ | MCompRemoveReset o _ | MCompAddChild o _
  | MCompRemoveChild o _ | MModelName o _ | MModelId o _ | MModelEncId o _ | MModelAddUnits o _ | MModelRemoveUnits o _
  | MModelAddComp o _ | MModelRemoveComp o _ => o
  end.

Fixpoint remove_nth {T} (k : nat) (l : list T) : list T :=
  match l, k with
  | [], _ => []
  | _ :: r, 0 => r
  | x :: r, S k' => x :: remove_nth k' r
  end.

Definition mut_isrc (mu : mutation) (i : isrc) : isrc :=
  match mu with
  | MIsrcUrl o s => at_oid is_oid o (fun i => {| is_oid := is_oid i; is_id := is_id i; is_url := s; is_model := is_model i |}) i
  | MIsrcId o s => at_oid is_oid o (fun i => {| is_oid := is_oid i; is_id := s; is_url := is_url i; is_model := is_model i |}) i
  | _ => i
  end.

Definition u_with (u : units) id name imp impref defs : units :=
  {| u_oid := u_oid u; u_parent := u_parent u; u_id := id; u_name := name; u_imp := imp; u_impref := impref; u_defs := defs |}.

Definition mut_units (mu : mutation) (u : units) : units :=
  match mu with
  | MUnitsName o s => at_oid u_oid o (fun u => u_with u (u_id u) s (u_imp u) (u_impref u) (u_defs u)) u
  | MUnitsId o s => at_oid u_oid o (fun u => u_with u s (u_name u) (u_imp u) (u_impref u) (u_defs u)) u
  | MUnitsImpRef o s => at_oid u_oid o (fun u => u_with u (u_id u) (u_name u) (u_imp u) s (u_defs u)) u
  | MUnitsImp o i => at_oid u_oid o (fun u => u_with u (u_id u) (u_name u) i (u_impref u) (u_defs u)) u
  | MUnitsAddUnit o d => at_oid u_oid o (fun u => u_with u (u_id u) (u_name u) (u_imp u) (u_impref u) (u_defs u ++ [clone_unitdef d])) u
  | MUnitsRemoveUnit o k => at_oid u_oid o (fun u => u_with u (u_id u) (u_name u) (u_imp u) (u_impref u) (remove_nth k (u_defs u))) u
  | _ => u
  end.

Definition v_with (v : variable) id name init iface : variable :=
  {| v_oid := v_oid v; v_parent := v_parent v; v_id := id; v_name := name; v_init := init; v_iface := iface;
     v_units := v_units v; v_eqs := v_eqs v |}.

Definition mut_var (mu : mutation) (v : variable) : variable :=
  match mu with
  | MVarName o s => at_oid v_oid o (fun v => v_with v (v_id v) s (v_init v) (v_iface v)) v
  | MVarId o s => at_oid v_oid o (fun v => v_with v s (v_name v) (v_init v) (v_iface v)) v
  | MVarInit o s => at_oid v_oid o (fun v => v_with v (v_id v) (v_name v) s (v_iface v)) v
  | MVarIface o s => at_oid v_oid o (fun v => v_with v (v_id v) (v_name v) (v_init v) s) v
  | MVarUnits o u => at_oid v_oid o (v_set_units u) v
  | _ => v
  end.

Definition r_with (r : reset) id order oset tv tvid rv rvid : reset :=
  {| r_oid := r_oid r; r_parent := r_parent r; r_id := id; r_order := order; r_order_set := oset;
     r_var := r_var r; r_test := r_test r; r_tv := tv; r_tvid := tvid; r_rv := rv; r_rvid := rvid |}.

Definition mut_reset (mu : mutation) (r : reset) : reset :=
  match mu with
  | MResetId o s => at_oid r_oid o (fun r => r_with r s (r_order r) (r_order_set r) (r_tv r) (r_tvid r) (r_rv r) (r_rvid r)) r
  | MResetOrder o z => at_oid r_oid o (fun r => r_with r (r_id r) z true (r_tv r) (r_tvid r) (r_rv r) (r_rvid r)) r
  | MResetRemoveOrder o => at_oid r_oid o (fun r => r_with r (r_id r) 0%Z false (r_tv r) (r_tvid r) (r_rv r) (r_rvid r)) r
  | MResetVar o v => at_oid r_oid o (fun r => r_set_vars v (r_test r) r) r
  | MResetTest o v => at_oid r_oid o (fun r => r_set_vars (r_var r) v r) r
  | MResetTv o s => at_oid r_oid o (fun r => r_with r (r_id r) (r_order r) (r_order_set r) s (r_tvid r) (r_rv r) (r_rvid r)) r
  | MResetTvId o s => at_oid r_oid o (fun r => r_with r (r_id r) (r_order r) (r_order_set r) (r_tv r) s (r_rv r) (r_rvid r)) r
  | MResetRv o s => at_oid r_oid o (fun r => r_with r (r_id r) (r_order r) (r_order_set r) (r_tv r) (r_tvid r) s (r_rvid r)) r
  | MResetRvId o s => at_oid r_oid o (fun r => r_with r (r_id r) (r_order r) (r_order_set r) (r_tv r) (r_tvid r) (r_rv r) s) r
  | _ => r
  end.

(* the removed / added child is (un)parented as the API does it; a removed variable or reset that is still held
   elsewhere keeps a stale parent in those other records: the generator of the check does not build that case *)
Definition mut_comp (mu : mutation) (c : component) : component :=
  match c with
  | Comp co p id name encid math imp impref vars resets kids =>
      match mu with
      | MCompName o s => if Nat.eqb co o then Comp co p id s encid math imp impref vars resets kids else c
      | MCompId o s => if Nat.eqb co o then Comp co p s name encid math imp impref vars resets kids else c
      | MCompEncId o s => if Nat.eqb co o then Comp co p id name s math imp impref vars resets kids else c
      | MCompMath o s => if Nat.eqb co o then Comp co p id name encid s imp impref vars resets kids else c
      | MCompImpRef o s => if Nat.eqb co o then Comp co p id name encid math imp s vars resets kids else c
      | MCompImp o i => if Nat.eqb co o then Comp co p id name encid math i impref vars resets kids else c
      | MCompAddVar o v => if Nat.eqb co o then Comp co p id name encid math imp impref (vars ++ [v_set_parent (Some co) v]) resets kids else c
      | MCompRemoveVar o k => if Nat.eqb co o then Comp co p id name encid math imp impref (remove_nth k vars) resets kids else c
      | MCompAddReset o r => if Nat.eqb co o then Comp co p id name encid math imp impref vars (resets ++ [r_set_parent (Some co) r]) kids else c
      | MCompRemoveReset o k => if Nat.eqb co o then Comp co p id name encid math imp impref vars (remove_nth k resets) kids else c
      | MCompAddChild o k => if Nat.eqb co o then Comp co p id name encid math imp impref vars resets (kids ++ [c_set_parent (Some co) k]) else c
      | MCompRemoveChild o k => if Nat.eqb co o then Comp co p id name encid math imp impref vars resets (remove_nth k kids) else c
      | _ => c
      end
  end.

Definition apply_isrc (mu : mutation) (i : isrc) : isrc := mut_isrc mu i.
Definition apply_units (mu : mutation) (u : units) : units := mut_units mu (map_isrc_units (mut_isrc mu) u).
Definition apply_variable (mu : mutation) (v : variable) : variable := map_var (apply_units mu) (mut_var mu) v.
Definition apply_reset (mu : mutation) (r : reset) : reset := map_reset (apply_units mu) (mut_var mu) (mut_reset mu) r.
Definition apply_component (mu : mutation) (c : component) : component :=
  map_comp (mut_isrc mu) (apply_units mu) (mut_var mu) (mut_reset mu) (mut_comp mu) c.

Definition apply_model (mu : mutation) (m : model) : model :=
  let m1 := map_model (mut_isrc mu) (apply_units mu) (mut_var mu) (mut_reset mu) (mut_comp mu) m in
  if Nat.eqb (m_oid m) (mut_target mu) then
    match mu with
    | MModelName _ s => {| m_oid := m_oid m1; m_id := m_id m1; m_name := s; m_encid := m_encid m1; m_units := m_units m1; m_comps := m_comps m1 |}
    | MModelId _ s => {| m_oid := m_oid m1; m_id := s; m_name := m_name m1; m_encid := m_encid m1; m_units := m_units m1; m_comps := m_comps m1 |}
    | MModelEncId _ s => {| m_oid := m_oid m1; m_id := m_id m1; m_name := m_name m1; m_encid := s; m_units := m_units m1; m_comps := m_comps m1 |}
    | MModelAddUnits _ u => {| m_oid := m_oid m1; m_id := m_id m1; m_name := m_name m1; m_encid := m_encid m1;
                               m_units := m_units m1 ++ [u_set_parent (Some (m_oid m)) u]; m_comps := m_comps m1 |}
    | MModelRemoveUnits _ k => {| m_oid := m_oid m1; m_id := m_id m1; m_name := m_name m1; m_encid := m_encid m1;
                                  m_units := remove_nth k (m_units m1); m_comps := m_comps m1 |}
    | MModelAddComp _ c => {| m_oid := m_oid m1; m_id := m_id m1; m_name := m_name m1; m_encid := m_encid m1;
                              m_units := m_units m1; m_comps := m_comps m1 ++ [c_set_parent (Some (m_oid m)) c] |}
    | MModelRemoveComp _ k => {| m_oid := m_oid m1; m_id := m_id m1; m_name := m_name m1; m_encid := m_encid m1;
                                 m_units := m_units m1; m_comps := remove_nth k (m_comps m1) |}
    | _ => m1
    end
  else m1.
