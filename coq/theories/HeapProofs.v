(** HeapProofs.v — C09: every public mutator of the object model (repaired code) preserves the ownership
    invariant; histories; the alive-relative well-formedness of DESIGN.md follows from the invariant. *)
From Coq Require Import List String Bool Arith PeanoNat Lia Relations.
From LC Require Import HeapDefs HeapBase HeapInv HeapOps.
Import ListNotations.

Section Step.
  Variable seq : state -> nat -> nat -> bool.
  Notation step := (step true seq).

  Lemma recv_facts : forall s k K, recv s k K = true -> held s k = true /\ inr s k /\ lists (kindd s k) K = true.
  Proof.
    intros s k K H. unfold recv in H. apply andb_true_iff in H. destruct H as [H1 H2].
    destruct (lister_ok_kindd _ _ _ H2). auto.
  Qed.

  Lemma arg_facts : forall s x k, arg_ok s x k = true -> held s x = true /\ inr s x /\ kindd s x = k.
  Proof.
    intros s x k H. unfold arg_ok in H. apply andb_true_iff in H. destruct H as [H1 H2].
    destruct (kind_is_kindd _ _ _ H2). auto.
  Qed.

  Lemma remove_at_inv : forall s K k io s1, Inv s -> remove_at s K k io = Some s1 -> Inv s1.
  Proof.
    intros s K k io s1 I H. unfold remove_at in H. destruct io as [j|]; [|discriminate].
    destruct (detach_at s K k j) as [[s2 x]|] eqn:E; [|discriminate]. cbn in H. inversion H; subst.
    apply detach_at_spec in E. destruct E as [Hn ->]. apply detached_inv; assumption.
  Qed.

  Lemma take_at_inv : forall s K k io s1 x, Inv s -> take_at s K k io = Some (s1, x) -> Inv s1.
  Proof.
    intros s K k io s1 x I H. unfold take_at in H. destruct io as [j|]; [|discriminate].
    apply detach_at_spec in H. destruct H as [Hn ->]. apply detached_inv; assumption.
  Qed.

  Lemma remove_ptr_local_inv : forall s K k x s1, Inv s -> remove_ptr_local true seq s K k x = Some s1 -> Inv s1.
  Proof.
    intros s K k x s1 I H. apply remove_ptr_local_spec in H. destruct H as [i [y [Hn [-> _]]]].
    apply detached_inv; assumption.
  Qed.

  Lemma of_opt_done : forall {A} (o : option A) a, of_opt o = LDone a -> o = Some a.
  Proof. intros A o a H. destruct o; cbn in H; [inversion H; reflexivity|discriminate]. Qed.

  Lemma fin_remove_inv : forall s r s' ret, Inv s -> (forall s1, r = LDone s1 -> Inv s1) ->
    fin_remove s r = Ok s' ret -> Inv s'.
  Proof.
    intros s r s' ret I H1 H. destruct r as [s1| |]; cbn in H; inversion H; subst; auto. apply gc_inv. auto.
  Qed.

  Lemma fin_replace_inv : forall s r s' ret, Inv s -> (forall s1 b, r = LDone (s1, b) -> Inv s1) ->
    fin_replace s r = Ok s' ret -> Inv s'.
  Proof.
    intros s r s' ret I H1 H. destruct r as [[s1 b]| |]; cbn in H; inversion H; subst; auto. apply gc_inv. eauto.
  Qed.

  Lemma add_handle_inv : forall s x, Inv s -> Inv (add_handle s x).
  Proof. intros s x I. unfold add_handle. destruct (held s x); [assumption|apply inv_handles; assumption]. Qed.

  Lemma fin_take_inv : forall s r s' ret, Inv s -> (forall s1 x, r = LDone (s1, x) -> Inv s1) ->
    fin_take s r = Ok s' ret -> Inv s'.
  Proof.
    intros s r s' ret I H1 H. destruct r as [[s1 x]| |]; cbn in H; inversion H; subst; auto.
    apply gc_inv. apply add_handle_inv. eauto.
  Qed.

  Lemma add_plain_inv : forall s K k c s' ret, Inv s -> K <> CComps ->
    recv s k K = true -> arg_ok s c (child_kind K) = true -> ~ In c (children s K k) ->
    add_plain true seq s K k (Some c) = Ok s' ret -> Inv s'.
  Proof.
    intros s K k c s' ret I HK Hr Ha Hni H. cbn in H. inversion H; subst.
    destruct (recv_facts _ _ _ Hr) as [_ [Hk Hl]]. destruct (arg_facts _ _ _ Ha) as [_ [Hc Hkc]].
    apply gc_inv. apply attach_inv; auto.
    - eapply lister_not_leaf; eauto.
    - eapply no_anc_leaf; eauto.
  Qed.

  Lemma add_component_inv : forall s k c s' ret, Inv s ->
    recv s k CComps = true -> arg_ok s c KComp = true -> ~ In c (children s CComps k) ->
    add_component true seq s k (Some c) = Ok s' ret -> Inv s'.
  Proof.
    intros s k c s' ret I Hr Ha Hni H. unfold add_component in H.
    destruct (recv_facts _ _ _ Hr) as [_ [Hk Hl]]. destruct (arg_facts _ _ _ Ha) as [_ [Hc Hkc]].
    destruct (kind_is s k KModel) eqn:EM.
    - inversion H; subst. apply kind_is_kindd in EM. destruct EM as [_ EM].
      apply gc_inv. apply attach_inv; auto.
      + intros ->. congruence.
      + apply no_anc_model; assumption.
    - destruct (Nat.eqb_spec k c) as [->|Hne]; [inversion H; subst; assumption|].
      destruct (has_ancestor s (fuel_of s) k c) as [[|]|] eqn:EA; try discriminate.
      + inversion H; subst; assumption.
      + inversion H; subst. apply gc_inv. apply attach_inv; auto. eapply has_ancestor_false; eauto.
  Qed.

  Lemma set_link_inv : forall s x f, Inv s ->
    (f = set_vunits \/ f = set_rvar \/ f = set_rtest) -> forall u, Inv (upd s x (f u)).
  Proof.
    intros s x f I Hf u. apply upd_link_inv; auto; destruct Hf as [->|[->| ->]]; intros; try reflexivity; destruct K; reflexivity.
  Qed.

  Ltac ill H := inversion H; subst; assumption.
  Ltac grd H G := match type of H with (if ?c then _ else _) = _ => destruct c eqn:G; [|ill H] end.

  Theorem step_inv : forall s o s' r, Inv s -> readds s o = false -> step s o = Ok s' r -> Inv s'.
  Proof.
    intros s o s' r I Hre H. destruct o; cbn [HeapDefs.step] in H.
    - (* AddComponent *) grd H G. apply andb_true_iff in G. destruct G as [G1 G2].
      destruct c as [c|]; [|cbn in H; ill H]. cbn in Hre. apply memb_false in Hre.
      eapply add_component_inv; eauto.
    - (* RemoveComponentIdx *) grd H G. eapply fin_remove_inv; eauto.
      intros s1 E. apply of_opt_done in E. eapply remove_at_inv; eauto.
    - (* RemoveComponentName *) grd H G. eapply fin_remove_inv; eauto.
      intros s1 E. apply with_deep_done in E. destruct E as [k' E]. apply of_opt_done in E. eapply remove_at_inv; eauto.
    - (* RemoveComponentPtr *) grd H G. destruct c as [x|].
      + eapply fin_remove_inv; eauto.
        intros s1 E. apply with_deep_done in E. destruct E as [k' E]. apply of_opt_done in E. eapply remove_ptr_local_inv; eauto.
      + destruct deep; [|ill H]. destruct (with_deep s true (fun _ : nat => @LRefused state) k); try discriminate; ill H.
    - (* TakeComponentIdx *) grd H G. eapply fin_take_inv; eauto.
      intros s1 x E. apply of_opt_done in E. eapply take_at_inv; eauto.
    - (* TakeComponentName *) grd H G. eapply fin_take_inv; eauto.
      intros s1 x E. apply with_deep_done in E. destruct E as [k' E]. apply of_opt_done in E. eapply take_at_inv; eauto.
    - (* ReplaceComponentIdx *) grd H G. apply andb_true_iff in G. destruct G as [G1 G2].
      eapply fin_replace_inv; eauto. intros s1 b E. destruct c as [c|].
      + destruct (arg_facts _ _ _ G2) as [_ [Hc Hkc]]. eapply replace_at_inv; eauto; exact Hkc.
      + destruct (replace_at_null seq s CComps k (Some i)) as [E'|[]]. congruence.
    - (* ReplaceComponentName *) grd H G. apply andb_true_iff in G. destruct G as [G1 G2].
      eapply fin_replace_inv; eauto. intros s1 b E. apply with_deep_done in E. destruct E as [k' E]. destruct c as [c|].
      + destruct (arg_facts _ _ _ G2) as [_ [Hc Hkc]]. eapply replace_at_inv; eauto; exact Hkc.
      + destruct (replace_at_null seq s CComps k' (find_named s CComps k' n)) as [E'|[]]. congruence.
    - (* ReplaceComponentPtr *) grd H G. apply andb_true_iff in G. destruct G as [G1 G2].
      eapply fin_replace_inv; eauto. intros s1 b E. apply with_deep_done in E. destruct E as [k' E]. destruct c as [c|].
      + destruct (arg_facts _ _ _ G2) as [_ [Hc Hkc]]. eapply replace_at_inv; eauto; exact Hkc.
      + match type of E with replace_at _ _ _ _ _ ?io None = _ =>
          destruct (replace_at_null seq s CComps k' io) as [E'|[]] end. congruence.
    - (* RemoveAllComponents *) grd H G. inversion H; subst. apply gc_inv. apply remove_all_children_inv. assumption.
    - (* AddVariable *) grd H G. apply andb_true_iff in G. destruct G as [G1 G2].
      destruct v as [c|]; [|cbn in H; ill H]. cbn in Hre. apply memb_false in Hre.
      eapply add_plain_inv; eauto. discriminate.
    - (* RemoveVariableIdx *) grd H G. eapply fin_remove_inv; eauto.
      intros s1 E. apply of_opt_done in E. eapply remove_at_inv; eauto.
    - (* RemoveVariableName *) grd H G. eapply fin_remove_inv; eauto.
      intros s1 E. apply of_opt_done in E. eapply remove_at_inv; eauto.
    - (* RemoveVariablePtr *) grd H G. destruct v as [x|]; [|ill H]. eapply fin_remove_inv; eauto.
      intros s1 E. apply of_opt_done in E. eapply remove_ptr_local_inv; eauto.
    - (* TakeVariableIdx *) grd H G. eapply fin_take_inv; eauto.
      intros s1 x E. apply of_opt_done in E. eapply take_at_inv; eauto.
    - (* TakeVariableName *) grd H G. eapply fin_take_inv; eauto.
      intros s1 x E. apply of_opt_done in E. eapply take_at_inv; eauto.
    - (* RemoveAllVariables *) grd H G. inversion H; subst. apply gc_inv. apply remove_all_children_inv. assumption.
    - (* AddReset *) grd H G. apply andb_true_iff in G. destruct G as [G1 G2].
      destruct r0 as [c|]; [|cbn in H; ill H]. cbn in Hre. apply memb_false in Hre.
      eapply add_plain_inv; eauto. discriminate.
    - (* RemoveResetIdx *) grd H G. eapply fin_remove_inv; eauto.
      intros s1 E. apply of_opt_done in E. eapply remove_at_inv; eauto.
    - (* RemoveResetPtr *) grd H G. destruct r0 as [x|]; [|ill H]. eapply fin_remove_inv; eauto.
      intros s1 E. apply of_opt_done in E. eapply remove_ptr_local_inv; eauto.
    - (* TakeReset *) grd H G. eapply fin_take_inv; eauto.
      intros s1 x E. apply of_opt_done in E. eapply take_at_inv; eauto.
    - (* RemoveAllResets *) grd H G. inversion H; subst. apply gc_inv. apply remove_all_children_inv. assumption.
    - (* AddUnits *) grd H G. apply andb_true_iff in G. destruct G as [G1 G2].
      destruct u as [c|]; [|cbn in H; ill H]. cbn in Hre. apply memb_false in Hre.
      eapply add_plain_inv; eauto. discriminate.
    - (* RemoveUnitsIdx *) grd H G. eapply fin_remove_inv; eauto.
      intros s1 E. apply of_opt_done in E. eapply remove_at_inv; eauto.
    - (* RemoveUnitsName *) grd H G. eapply fin_remove_inv; eauto.
      intros s1 E. apply of_opt_done in E. eapply remove_at_inv; eauto.
    - (* RemoveUnitsPtr *) grd H G. destruct u as [x|]; [|ill H]. eapply fin_remove_inv; eauto.
      intros s1 E. apply of_opt_done in E. eapply remove_ptr_local_inv; eauto.
    - (* TakeUnitsIdx *) grd H G. eapply fin_take_inv; eauto.
      intros s1 x E. apply of_opt_done in E. eapply take_at_inv; eauto.
    - (* TakeUnitsName *) grd H G. eapply fin_take_inv; eauto.
      intros s1 x E. apply of_opt_done in E. eapply take_at_inv; eauto.
    - (* ReplaceUnitsIdx *) grd H G. apply andb_true_iff in G. destruct G as [G1 G2].
      eapply fin_replace_inv; eauto. intros s1 b E. destruct u as [c|].
      + destruct (arg_facts _ _ _ G2) as [_ [Hc Hkc]]. eapply replace_at_inv; eauto; exact Hkc.
      + destruct (replace_at_null seq s CUnits k (Some i)) as [E'|[]]. congruence.
    - (* ReplaceUnitsName *) grd H G. apply andb_true_iff in G. destruct G as [G1 G2].
      eapply fin_replace_inv; eauto. intros s1 b E. destruct u as [c|].
      + destruct (arg_facts _ _ _ G2) as [_ [Hc Hkc]]. eapply replace_at_inv; eauto; exact Hkc.
      + destruct (replace_at_null seq s CUnits k (find_named s CUnits k n)) as [E'|[]]. congruence.
    - (* ReplaceUnitsPtr *) grd H G. apply andb_true_iff in G. destruct G as [G1 G2].
      eapply fin_replace_inv; eauto. intros s1 b E. destruct u as [c|].
      + destruct (arg_facts _ _ _ G2) as [_ [Hc Hkc]]. eapply replace_at_inv; eauto; exact Hkc.
      + match type of E with replace_at _ _ _ _ _ ?io None = _ =>
          destruct (replace_at_null seq s CUnits k io) as [E'|[]] end. congruence.
    - (* RemoveAllUnits *) grd H G. inversion H; subst. apply gc_inv. apply remove_all_children_inv. assumption.
    - (* AddEquivalence *) grd H G. apply andb_true_iff in G. destruct G as [G1 G2].
      destruct a as [x|]; [|ill H]. destruct b as [y|]; [|ill H].
      destruct (add_equivalence s x y) as [s1 r1] eqn:E. inversion H; subst.
      destruct (arg_facts _ _ _ G1) as [_ [Hx _]]. destruct (arg_facts _ _ _ G2) as [_ [Hy _]].
      apply gc_inv. eapply proj1. eapply add_equivalence_inv with (a := x) (b := y); eauto.
    - (* AddEquivalence4 *) grd H G. apply andb_true_iff in G. destruct G as [G1 G2].
      destruct a as [x|]; [|ill H]. destruct b as [y|]; [|ill H].
      destruct (add_equivalence s x y) as [s1 r1] eqn:E. inversion H; subst.
      destruct (arg_facts _ _ _ G1) as [_ [Hx _]]. destruct (arg_facts _ _ _ G2) as [_ [Hy _]].
      apply gc_inv. eapply proj1. eapply add_equivalence_inv with (a := x) (b := y); eauto.
    - (* RemoveEquivalence *) grd H G.
      destruct a as [x|]; [|ill H]. destruct b as [y|]; [|ill H].
      destruct (remove_equivalence s x y) as [s1 r1] eqn:E. inversion H; subst.
      apply gc_inv. eapply proj1. eapply remove_equivalence_inv with (a := x) (b := y); eauto.
    - (* RemoveAllEquivalences *) grd H G. inversion H; subst. apply gc_inv. eapply proj1. eapply remove_all_equivalences_inv; eauto.
    - (* SetUnits *) grd H G. inversion H; subst. apply gc_inv. apply (set_link_inv s v set_vunits); auto.
    - (* SetResetVariable *) grd H G. inversion H; subst. apply gc_inv. apply (set_link_inv s r0 set_rvar); auto.
    - (* SetResetTestVariable *) grd H G. inversion H; subst. apply gc_inv. apply (set_link_inv s r0 set_rtest); auto.
    - (* Release *) grd H G. inversion H; subst. apply gc_inv. apply inv_handles. assumption.
    - (* Query *) grd H G. destruct (query_eval true seq s q) as [[b|[x|]| |]|]; inversion H; subst; try assumption.
      apply gc_inv. apply add_handle_inv. assumption.
  Qed.

  (** histories *)
  Fixpoint no_readds (s : state) (ops : list op) : Prop :=
    match ops with
    | [] => True
    | o :: t => readds s o = false /\ match step s o with Ok s' _ => no_readds s' t | Crash => True end
    end.

  Theorem run_inv : forall ops s s', Inv s -> no_readds s ops -> run true seq s ops = Some s' -> Inv s'.
  Proof.
    induction ops as [|o t IH]; intros s s' I N H; cbn in H.
    - inversion H; subst; assumption.
    - destruct N as [N1 N2]. destruct (step s o) as [s1 r|] eqn:E; [|discriminate].
      eapply IH; [eapply step_inv; eauto|exact N2|exact H].
  Qed.
End Step.

(* ------------------------------------------------------------------------------------------------ the initial state *)

Lemma getd_init : forall u x, getd (init u) x = match nth_error u x with Some kn => new_obj (fst kn) (snd kn) | None => blank end.
Proof.
  intros u x. unfold getd, init. cbn. revert x. induction u as [|a t IH]; intros x; destruct x; cbn; auto.
Qed.

Lemma init_inv : forall u, Inv (init u).
Proof.
  intros u.
  assert (C : forall K k, children (init u) K k = []).
  { intros K k. unfold children. rewrite getd_init. destruct (nth_error u k); destruct K; reflexivity. }
  assert (P : forall x, parent_of (init u) x = None).
  { intros x. unfold parent_of. rewrite getd_init. destruct (nth_error u x); reflexivity. }
  assert (E : forall x, eqs_of (init u) x = []).
  { intros x. unfold eqs_of. rewrite getd_init. destruct (nth_error u x); reflexivity. }
  constructor.
  - intros K k x H. rewrite C in H. destruct H.
  - intros K k. rewrite C. constructor.
  - intros x H. destruct (anc_first _ _ _ H) as [p Hp]. unfold par in Hp. rewrite P in Hp. discriminate.
  - intros a b H. rewrite E in H. destruct H.
  - intros x p H. rewrite P in H. discriminate.
  - intros K k x H. rewrite C in H. destruct H.
  - intros a. rewrite E. constructor.
Qed.

(* ------------------------------------------------------------------------------------------------ WF of DESIGN.md, Appendix B *)

(** what a caller observes: weak references to destroyed objects read as null *)
Definition parent (s : state) (x : nat) : option nat := ofilter (alive s) (parent_of s x).

Definition WF (s : state) : Prop :=
  (forall K k x, alive s k = true -> In x (children s K k) -> parent s x = Some k) /\
  (forall K k, alive s k = true -> NoDup (children s K k)) /\
  (forall K K' k k' x, In x (children s K k) -> In x (children s K' k') -> alive s k = true -> alive s k' = true -> k = k' /\ K = K') /\
  (forall x, ~ clos_trans nat (fun a b => parent s a = Some b) x x) /\
  (forall a b, alive s a = true -> alive s b = true -> In b (eqs_of s a) -> In a (eqs_of s b)).

Lemma inv_wf : forall s, Inv s -> WF s.
Proof.
  intros s I. unfold WF. split; [|split; [|split; [|split]]].
  - intros K k x Hk Hx. unfold parent. rewrite (inv_cp s I _ _ _ Hx). cbn. rewrite Hk. reflexivity.
  - intros K k _. apply (inv_nd s I).
  - intros K K' k k' x H1 H2 _ _. destruct (inv_unique s I _ _ _ _ _ H1 H2). split; assumption.
  - intros x H. apply (inv_ac s I x). apply clos_trans_t1n in H.
    assert (G : forall a b, clos_trans_1n nat (fun a b => parent s a = Some b) a b -> anc s a b).
    { clear. intros a b H. induction H as [a b Hab|a b c Hab _ IH].
      - apply t1n_step. unfold parent in Hab. apply ofilter_some in Hab. unfold par. tauto.
      - eapply Relation_Operators.t1n_trans; [|exact IH]. unfold parent in Hab. apply ofilter_some in Hab. unfold par. tauto. }
    apply G. exact H.
  - intros a b _ _ H. apply (inv_eq s I). assumption.
Qed.
