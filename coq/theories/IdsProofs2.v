(** IdsProofs2.v — the property-level theorems of C13 over the model of IdsDefs.v (uses IdsProofs.v). *)
From Coq Require Import String Ascii List NArith Arith Bool Lia Permutation.
From LC Require Import Common IdsDefs IdsProofs.
Import ListNotations.
Open Scope string_scope.
Open Scope list_scope.

(* ------------------------------------------------------------------------------------------------ assignAllIds *)

Definition no_math_ids (st : structure) (ids : list string) : Prop :=
  forall m, In m (math_slots st) -> get ids m = "".

Lemma assign_all_unfold : forall c st s, a_has_model (s_ann s) = true ->
  fst (assign_all c st s) = assign_visits (pre_assign c st s) (assign_all_visits st).
Proof. intros c st s H. unfold assign_all. rewrite H. reflexivity. Qed.

Lemma in_range_pre : forall c st s, slots_in_range st (length (s_ids s)) = true ->
  slots_in_range st (length (s_ids (pre_assign c st s))) = true.
Proof. intros; rewrite pre_assign_ids; assumption. Qed.

(* every position assignAllIds is responsible for holds an identifier afterwards *)
Theorem assign_all_complete : forall c st s,
  a_has_model (s_ann s) = true -> slots_in_range st (length (s_ids s)) = true ->
  forall p, In p (applicable_positions st) -> get (s_ids (fst (assign_all c st s))) (snd p) <> "".
Proof.
  intros c st s Hm Hr p Hp. rewrite assign_all_unfold by assumption.
  apply in_positions_gen, in_assign_all, in_map_iff in Hp. destruct Hp as [v [<- Hv]].
  apply (seq_complete st); auto using in_range_pre, assign_all_visits_listed.
Qed.

(* identifiers that existed before are unchanged *)
Theorem assign_all_preserves : forall c st s slot,
  get (s_ids s) slot <> "" -> get (s_ids (fst (assign_all c st s))) slot = get (s_ids s) slot.
Proof.
  intros c st s slot H. unfold assign_all. destruct (a_has_model (s_ann s)); [|reflexivity]. cbn [fst].
  rewrite assign_visits_preserves; rewrite pre_assign_ids; auto.
Qed.

(* freshness for any code variant, given that the id list covers the model when the assignment starts *)
Lemma assign_all_fresh_gen : forall c st s,
  a_has_model (s_ann s) = true -> slots_in_range st (length (s_ids s)) = true ->
  Covered (listed_slots st) (pre_assign c st s) -> no_math_ids st (s_ids s) ->
  let s' := fst (assign_all c st s) in
  forall slot, get (s_ids s) slot = "" -> get (s_ids s') slot <> "" ->
    (forall slot', In slot' (all_slots st) -> get (s_ids s) slot' <> get (s_ids s') slot) /\
    (forall slot', In slot' (all_slots st) -> slot' <> slot -> get (s_ids s') slot' <> get (s_ids s') slot).
Proof.
  intros c st s Hm Hr HC Hmath s' slot He Hne. subst s'. rewrite assign_all_unfold in * by assumption.
  pose proof (seq_fresh_all st (pre_assign c st s) (assign_all_visits st) (in_range_pre c st s Hr)
                (assign_all_visits_listed st) HC) as F.
  rewrite pre_assign_ids in F. exact (F Hmath slot He Hne).
Qed.

Lemma pre_assign_covered : forall c st s, fx_refresh c = true -> Covered (listed_slots st) (pre_assign c st s).
Proof. intros c st s H. unfold pre_assign. rewrite H. apply refresh_covered. Qed.

(* with the repair: for EVERY annotator state and id vector, i.e. whatever was edited since setModel *)
Theorem assign_all_fresh : forall c st s,
  fx_refresh c = true ->
  a_has_model (s_ann s) = true -> slots_in_range st (length (s_ids s)) = true -> no_math_ids st (s_ids s) ->
  let s' := fst (assign_all c st s) in
  forall slot, get (s_ids s) slot = "" -> get (s_ids s') slot <> "" ->
    (forall slot', In slot' (all_slots st) -> get (s_ids s) slot' <> get (s_ids s') slot) /\
    (forall slot', In slot' (all_slots st) -> slot' <> slot -> get (s_ids s') slot' <> get (s_ids s') slot).
Proof. intros c st s Hf Hm Hr Hmath. apply assign_all_fresh_gen; auto using pre_assign_covered. Qed.

(* ------------------------------------------------------------------------------------------------ assignIds(type) *)

Lemma assign_type_unfold : forall c st k s, a_has_model (s_ann s) = true ->
  s_ids (fst (assign_type c st k s)) = s_ids (assign_visits (pre_assign c st s) (assign_type_visits st k)).
Proof. intros c st k s H. unfold assign_type. rewrite H. cbn [fst]. apply set_model_ids. Qed.

Theorem assign_type_complete : forall c st k s,
  a_has_model (s_ann s) = true -> slots_in_range st (length (s_ids s)) = true ->
  forall p, In p (applicable_positions st) -> fst p = k -> get (s_ids (fst (assign_type c st k s))) (snd p) <> "".
Proof.
  intros c st k s Hm Hr p Hp Hk. rewrite assign_type_unfold by assumption.
  assert (Hnm : k <> KMath).
  { intro E. rewrite E in Hk. apply in_positions_gen in Hp. unfold PosSpec, UnitsSpec, CompSpec in Hp.
    destruct p as [pk ps]; simpl in Hk; rewrite Hk in Hp. clear -Hp. firstorder congruence. }
  apply in_positions_gen in Hp.
  assert (Hin : In p (map vpos (assign_type_visits st k))) by (apply in_assign_type; auto).
  apply in_map_iff in Hin. destruct Hin as [v [<- Hv]].
  apply (seq_complete st); auto using in_range_pre. intros v' Hv'. eapply assign_type_visits_listed; eauto.
Qed.

Theorem assign_type_preserves : forall c st k s slot,
  get (s_ids s) slot <> "" -> get (s_ids (fst (assign_type c st k s))) slot = get (s_ids s) slot.
Proof.
  intros c st k s slot H. unfold assign_type. destruct (a_has_model (s_ann s)); [|reflexivity]. cbn [fst].
  rewrite set_model_ids, assign_visits_preserves; rewrite pre_assign_ids; auto.
Qed.

(* only positions of the requested kind receive identifiers *)
Theorem assign_type_only_kind : forall c st k s slot,
  get (s_ids (fst (assign_type c st k s))) slot <> get (s_ids s) slot ->
  exists v, In v (assign_type_visits st k) /\ v_slot v = slot /\ v_kind v = k.
Proof.
  intros c st k s slot H. unfold assign_type in H. destruct (a_has_model (s_ann s)); cbn [fst] in H; [|congruence].
  rewrite set_model_ids in H.
  destruct (in_dec Nat.eq_dec slot (map v_slot (assign_type_visits st k))) as [Hin|Hin].
  - apply in_map_iff in Hin. destruct Hin as [v [Hs Hv]]. exists v. repeat split; auto. eapply assign_type_visits_kind; eauto.
  - rewrite assign_visits_untouched, pre_assign_ids in H by assumption. congruence.
Qed.

Lemma assign_type_fresh_gen : forall c st k s,
  a_has_model (s_ann s) = true -> slots_in_range st (length (s_ids s)) = true ->
  Covered (listed_slots st) (pre_assign c st s) -> no_math_ids st (s_ids s) ->
  let s' := fst (assign_type c st k s) in
  forall slot, get (s_ids s) slot = "" -> get (s_ids s') slot <> "" ->
    (forall slot', In slot' (all_slots st) -> get (s_ids s) slot' <> get (s_ids s') slot) /\
    (forall slot', In slot' (all_slots st) -> slot' <> slot -> get (s_ids s') slot' <> get (s_ids s') slot).
Proof.
  intros c st k s Hm Hr HC Hmath s' slot He Hne. subst s'. rewrite assign_type_unfold in * by assumption.
  assert (Hl : forall v, In v (assign_type_visits st k) -> In (v_slot v) (listed_slots st))
    by (intros; eapply assign_type_visits_listed; eauto).
  pose proof (seq_fresh_all st (pre_assign c st s) (assign_type_visits st k) (in_range_pre c st s Hr) Hl HC) as F.
  rewrite pre_assign_ids in F. exact (F Hmath slot He Hne).
Qed.

Theorem assign_type_fresh : forall c st k s,
  fx_refresh c = true ->
  a_has_model (s_ann s) = true -> slots_in_range st (length (s_ids s)) = true -> no_math_ids st (s_ids s) ->
  let s' := fst (assign_type c st k s) in
  forall slot, get (s_ids s) slot = "" -> get (s_ids s') slot <> "" ->
    (forall slot', In slot' (all_slots st) -> get (s_ids s) slot' <> get (s_ids s') slot) /\
    (forall slot', In slot' (all_slots st) -> slot' <> slot -> get (s_ids s') slot' <> get (s_ids s') slot).
Proof. intros c st k s Hf Hm Hr Hmath. apply assign_type_fresh_gen; auto using pre_assign_covered. Qed.

(* ------------------------------------------------------------------------------------------------ assignId(item) *)

(* the item receives a new identifier (the returned one); no other position changes; the new identifier
   differs from every identifier of the model at the time of the call *)
Theorem assign_item_spec : forall c st v s,
  fx_refresh c = true ->
  a_has_model (s_ann s) = true -> v_slot v < length (s_ids s) ->
  let r := assign_item c st v s in
  let s' := fst r in
  get (s_ids s') (v_slot v) = snd r /\ snd r <> "" /\
  (forall slot, slot <> v_slot v -> get (s_ids s') slot = get (s_ids s) slot) /\
  (forall slot', In slot' (listed_slots st) -> get (s_ids s) slot' <> snd r) /\
  (no_math_ids st (s_ids s) -> forall slot', In slot' (all_slots st) -> get (s_ids s) slot' <> snd r).
Proof.
  intros c st v s Hf Hm Hl r s'. subst s' r. unfold assign_item. rewrite Hm, Hf.
  destruct (make_unique (a_cache (s_ann (refresh c st s))) (a_counter (s_ann (refresh c st s)))) as [[id n] ok] eqn:M.
  apply make_unique_fresh in M. destruct M as [_ [Hfresh [_ [Hne _]]]]. simpl.
  assert (L : forall slot', In slot' (listed_slots st) -> get (s_ids s) slot' <> id).
  { intros slot' Hin Habs. destruct (string_dec (get (s_ids s) slot') "") as [E|E]; [congruence|].
    apply Hfresh. rewrite <- Habs. simpl. apply build_cache_covers; assumption. }
  split; [apply get_set_same; assumption|]. split; [assumption|].
  split; [intros slot Hs; apply get_set_other; congruence|]. split; [exact L|].
  intros Hmath slot' Hin. apply all_slots_cases in Hin. destruct Hin as [Hin|Hin]; [apply L; assumption|].
  rewrite (Hmath slot' Hin). congruence.
Qed.

(* ------------------------------------------------------------------------------------------------ histories *)

Lemma clear_fold_length : forall vs ids, length (fold_left (fun ids v => set ids (v_slot v) "") vs ids) = length ids.
Proof. induction vs as [|v vs IH]; intro ids; simpl; [reflexivity|]. rewrite IH. apply set_length. Qed.

Definition step_state (c : cfg) (st : structure) (s : state) (o : op) : state :=
  match o with
  | OSetModel => set_model c st s
  | OEdit slot id => {| s_ids := set (s_ids s) slot id; s_ann := s_ann s |}
  | OAssignAll => fst (assign_all c st s)
  | OAssignType k => fst (assign_type c st k s)
  | OAssignItem v => fst (assign_item c st v s)
  | OClearAll => clear_all c st s
  | OPrint => s
  | _ => update c st s
  end.

Lemma step_fst : forall c st s o, fst (step c st s o) = step_state c st s o.
Proof.
  intros c st s o. destruct o; unfold step, step_state, lookup; try reflexivity;
    try (destruct (a_has_model (s_ann s)); reflexivity).
  - destruct (assign_all c st s); reflexivity.
  - destruct (assign_type c st k s); reflexivity.
  - destruct (assign_item c st v s); reflexivity.
Qed.

Lemma assign_item_ids_length : forall c st v s, length (s_ids (fst (assign_item c st v s))) = length (s_ids s).
Proof.
  intros. unfold assign_item. destruct (a_has_model (s_ann s)); [|reflexivity].
  destruct (fx_refresh c); destruct (make_unique _ _) as [[id n] ok]; cbn [fst s_ids]; rewrite set_length.
  - reflexivity.
  - apply f_equal, update_ids.
Qed.

Lemma assign_all_ids_length : forall c st s, length (s_ids (fst (assign_all c st s))) = length (s_ids s).
Proof.
  intros. unfold assign_all. destruct (a_has_model (s_ann s)); cbn [fst]; [|reflexivity].
  rewrite assign_visits_length, pre_assign_ids; reflexivity.
Qed.
Lemma assign_type_ids_length : forall c st k s, length (s_ids (fst (assign_type c st k s))) = length (s_ids s).
Proof.
  intros. unfold assign_type. destruct (a_has_model (s_ann s)); cbn [fst]; [|reflexivity].
  rewrite set_model_ids, assign_visits_length, pre_assign_ids; reflexivity.
Qed.
Lemma clear_all_ids_length : forall c st s, length (s_ids (clear_all c st s)) = length (s_ids s).
Proof.
  intros. unfold clear_all. destruct (a_has_model (s_ann s)); cbn [s_ids]; [|reflexivity].
  rewrite clear_fold_length, update_ids. reflexivity.
Qed.

Lemma step_length : forall c st s o, length (s_ids (fst (step c st s o))) = length (s_ids s).
Proof.
  intros c st s o. rewrite step_fst. destruct o; unfold step_state.
  1: rewrite set_model_ids; reflexivity.
  1: apply set_length.
  1: apply assign_all_ids_length.
  1: apply assign_type_ids_length.
  1: apply assign_item_ids_length.
  1: apply clear_all_ids_length.
  all: try (rewrite update_ids; reflexivity).
  reflexivity.
Qed.

Lemma run_cons : forall c st s o h,
  fst (run c st s (o :: h)) = fst (run c st (fst (step c st s o)) h).
Proof.
  intros. simpl. destruct (step c st s o) as [s1 x]. simpl. destruct (run c st s1 h). reflexivity.
Qed.

Lemma run_length : forall c st h s, length (s_ids (fst (run c st s h))) = length (s_ids s).
Proof.
  induction h as [|o h IH]; intro s; [reflexivity|]. rewrite run_cons, IH. apply step_length.
Qed.

(* no fuelled loop of the model ever runs out of fuel *)
Lemma assign_item_err : forall c st v s, a_err (s_ann s) = false -> a_err (s_ann (fst (assign_item c st v s))) = false.
Proof.
  intros c st v s H. unfold assign_item. destruct (a_has_model (s_ann s)); [|assumption].
  destruct (fx_refresh c); destruct (make_unique _ _) as [[id n] ok] eqn:M;
    apply make_unique_fresh in M; destruct M as [-> _]; cbn [fst s_ann a_err]; rewrite orb_false_r.
  - exact H.
  - rewrite update_err; exact H.
Qed.

Lemma assign_all_err : forall c st s, a_err (s_ann s) = false -> a_err (s_ann (fst (assign_all c st s))) = false.
Proof.
  intros c st s H. unfold assign_all. destruct (a_has_model (s_ann s)); cbn [fst]; [|assumption].
  rewrite assign_visits_err, pre_assign_err; assumption.
Qed.
Lemma assign_type_err : forall c st k s, a_err (s_ann s) = false -> a_err (s_ann (fst (assign_type c st k s))) = false.
Proof.
  intros c st k s H. unfold assign_type. destruct (a_has_model (s_ann s)); cbn [fst]; [|assumption].
  rewrite set_model_err, assign_visits_err, pre_assign_err; assumption.
Qed.
Lemma clear_all_err : forall c st s, a_err (s_ann s) = false -> a_err (s_ann (clear_all c st s)) = false.
Proof.
  intros c st s H. unfold clear_all. destruct (a_has_model (s_ann s)); cbn [s_ann a_err]; [|assumption].
  unfold with_cache; cbn [a_err]. rewrite update_err; assumption.
Qed.

Lemma step_err : forall c st s o, a_err (s_ann s) = false -> a_err (s_ann (fst (step c st s o))) = false.
Proof.
  intros c st s o H. rewrite step_fst. destruct o; unfold step_state.
  1: rewrite set_model_err; assumption.
  1: assumption.
  1: apply assign_all_err; assumption.
  1: apply assign_type_err; assumption.
  1: apply assign_item_err; assumption.
  1: apply clear_all_err; assumption.
  all: try (rewrite update_err; assumption).
  assumption.
Qed.

Theorem run_no_error : forall c st h ids, a_err (s_ann (fst (run c st (init ids) h))) = false.
Proof.
  intros c st h ids. assert (G : forall h s, a_err (s_ann s) = false -> a_err (s_ann (fst (run c st s h))) = false).
  { induction h0 as [|o h0 IH]; intros s H; [assumption|]. rewrite run_cons. apply IH, step_err, H. }
  apply G. reflexivity.
Qed.
