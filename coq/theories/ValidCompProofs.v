(** ValidCompProofs.v — C04 proofs, part 3: resets, components and the component-tree traversal. *)
From Coq Require Import String Ascii List Bool Arith ZArith Lia.
From LC Require Import Common NumDefs MathDefs ValidDefs ValidSpec ValidLeaf ValidMathProofs.
Import ListNotations.
Local Open Scope string_scope.
Local Open Scope list_scope.
Local Open Scope nat_scope.

Section CompInd.
  Variable P : comp -> Prop.
  Hypothesis HC : forall i kids, Forall P kids -> P (Comp i kids).
  Fixpoint comp_ind2 (c : comp) : P c :=
    match c with
    | Comp i kids =>
        HC i kids ((fix go (l : list comp) : Forall P l :=
                      match l with [] => Forall_nil P | k :: r => Forall_cons k (comp_ind2 k) (go r) end) kids)
    end.
End CompInd.

(* ------------------------------------------------------------------ where variables live *)

Lemma comp_all_unfold : forall i kids, comp_all (Comp i kids) = Comp i kids :: flat_map comp_all kids.
Proof. reflexivity. Qed.
Lemma comp_locs_unfold : forall p i kids,
  comp_locs p (Comp i kids) = map (fun v => mkL (c_tag i) (c_name i) (is_import_c i) p v) (c_vars i)
                              ++ flat_map (comp_locs (PComp (c_tag i))) kids.
Proof. reflexivity. Qed.

(** every place comes from a variable of a component of the tree, and carries that component's tag, name, import flag *)
Lemma in_comp_locs : forall c p l, In l (comp_locs p c) ->
  exists c', In c' (comp_all c) /\ In (l_var l) (c_vars (c_info c')) /\ l_cname l = c_name (c_info c')
             /\ l_comp l = c_tag (c_info c') /\ l_import l = is_import_c (c_info c').
Proof.
  induction c as [i kids IH] using comp_ind2. intros p l H. rewrite comp_locs_unfold in H. apply in_app_or in H.
  destruct H as [H|H].
  - apply in_map_iff in H. destruct H as [v [Hl Hv]]. subst l. exists (Comp i kids). rewrite comp_all_unfold.
    repeat split; try reflexivity; [left; reflexivity | exact Hv].
  - apply in_flat_map in H. destruct H as [k [Hk Hl]]. rewrite Forall_forall in IH.
    destruct (IH k Hk _ _ Hl) as [c' [H1 H2]]. exists c'. split; [|exact H2].
    rewrite comp_all_unfold. right. apply in_flat_map. exists k. split; assumption.
Qed.

Lemma comp_locs_complete : forall c p c' v, In c' (comp_all c) -> In v (c_vars (c_info c')) ->
  exists l, In l (comp_locs p c) /\ l_var l = v /\ l_cname l = c_name (c_info c') /\ l_comp l = c_tag (c_info c')
            /\ l_import l = is_import_c (c_info c').
Proof.
  induction c as [i kids IH] using comp_ind2. intros p c' v Hc Hv. rewrite comp_all_unfold in Hc. destruct Hc as [Hc|Hc].
  - subst c'. simpl in Hv. exists (mkL (c_tag i) (c_name i) (is_import_c i) p v). rewrite comp_locs_unfold.
    repeat split; try reflexivity. apply in_or_app. left. apply in_map_iff. exists v. split; [reflexivity | exact Hv].
  - apply in_flat_map in Hc. destruct Hc as [k [Hk Hc]]. rewrite Forall_forall in IH.
    destruct (IH k Hk (PComp (c_tag i)) c' v Hc Hv) as [l [H1 H2]]. exists l. split; [|exact H2].
    rewrite comp_locs_unfold. apply in_or_app. right. apply in_flat_map. exists k. split; assumption.
Qed.

Lemma in_model_locs : forall m l, In l (model_locs m) ->
  exists c', In c' (model_comps m) /\ In (l_var l) (c_vars (c_info c')) /\ l_cname l = c_name (c_info c')
             /\ l_comp l = c_tag (c_info c') /\ l_import l = is_import_c (c_info c').
Proof.
  intros m l H. unfold model_locs in H. apply in_flat_map in H. destruct H as [c [Hc Hl]].
  destruct (in_comp_locs _ _ _ Hl) as [c' [H1 H2]]. exists c'. split; [|exact H2].
  unfold model_comps. apply in_flat_map. exists c. split; assumption.
Qed.

Lemma model_locs_complete : forall m c' v, In c' (model_comps m) -> In v (c_vars (c_info c')) ->
  exists l, In l (model_locs m) /\ l_var l = v /\ l_cname l = c_name (c_info c') /\ l_comp l = c_tag (c_info c')
            /\ l_import l = is_import_c (c_info c').
Proof.
  intros m c' v Hc Hv. unfold model_comps in Hc. apply in_flat_map in Hc. destruct Hc as [c [Hc Hc']].
  destruct (comp_locs_complete c PModel c' v Hc' Hv) as [l [H1 H2]]. exists l. split; [|exact H2].
  unfold model_locs. apply in_flat_map. exists c. split; assumption.
Qed.

Lemma lookup_var_some : forall L t l, lookup_var L t = Some l -> In l L /\ v_tag (l_var l) = t.
Proof.
  induction L as [|x L IH]; simpl; intros t l H; [discriminate H|].
  destruct (Nat.eqb (v_tag (l_var x)) t) eqn:E.
  - inversion H; subst. apply Nat.eqb_eq in E. split; [left; reflexivity | exact E].
  - destruct (IH _ _ H) as [H1 H2]. split; [right; exact H1 | exact H2].
Qed.

Lemma lookup_var_unique : forall L l, NoDup (map (fun l => v_tag (l_var l)) L) -> In l L ->
  lookup_var L (v_tag (l_var l)) = Some l.
Proof.
  induction L as [|x L IH]; simpl; intros l Hnd Hin; [destruct Hin|]. inversion Hnd; subst.
  destruct Hin as [Hin|Hin].
  - subst. rewrite Nat.eqb_refl. reflexivity.
  - destruct (Nat.eqb (v_tag (l_var x)) (v_tag (l_var l))) eqn:E.
    + apply Nat.eqb_eq in E. exfalso. apply H1. rewrite E. apply in_map_iff. exists l. split; [reflexivity | exact Hin].
    + apply IH; assumption.
Qed.

Lemma lookup_var_none : forall L t, lookup_var L t = None <-> ~ exists l, In l L /\ v_tag (l_var l) = t.
Proof.
  induction L as [|x L IH]; simpl; intro t.
  - split; [intros _ [l [[] _]] | reflexivity].
  - destruct (Nat.eqb (v_tag (l_var x)) t) eqn:E.
    + apply Nat.eqb_eq in E. split; [intro H; discriminate H|]. intro H. exfalso. apply H. exists x. split; [left; reflexivity | exact E].
    + apply Nat.eqb_neq in E. rewrite IH. split.
      * intros H [l [[Hl|Hl] Ht]]; [subst; contradiction | apply H; exists l; split; assumption].
      * intros H [l [Hl Ht]]. apply H. exists l. split; [right; exact Hl | exact Ht].
Qed.

(** a name identifies a component once component names are unique *)
Lemma comp_by_name : forall (cs : list comp) c1 c2,
  NoDup (map (fun c => c_name (c_info c)) cs) -> In c1 cs -> In c2 cs ->
  c_name (c_info c1) = c_name (c_info c2) -> c1 = c2.
Proof.
  induction cs as [|x cs IH]; simpl; intros c1 c2 Hnd H1 H2 Hn; [destruct H1|]. inversion Hnd; subst.
  destruct H1 as [H1|H1], H2 as [H2|H2]; subst.
  - reflexivity.
  - exfalso. apply H3. rewrite Hn. apply in_map_iff. exists c2. split; [reflexivity | exact H2].
  - exfalso. apply H3. rewrite <- Hn. apply in_map_iff. exists c1. split; [reflexivity | exact H1].
  - apply IH; assumption.
Qed.

(* ------------------------------------------------------------------ resets *)

(** "the reset's (test) variable is a variable of THIS component", as validateReset decides it: the variable has an
    owning component and that component's NAME is this component's name *)
Definition var_here (L : list vloc) (c : cinfo) (ov : option nat) : Prop :=
  exists t l, ov = Some t /\ lookup_var L t = Some l /\ l_cname l = c_name c.

Lemma reset_var_check_nil : forall L c ov r,
  (fst (reset_var_check L c ov r) = [] /\ snd (reset_var_check L c ov r) = [] /\ ov <> None) <-> var_here L c ov.
Proof.
  intros L c ov r. unfold reset_var_check, var_here. destruct ov as [t|].
  - destruct (lookup_var L t) as [l|] eqn:E; simpl.
    + destruct (String.eqb (l_cname l) (c_name c)) eqn:En; simpl.
      * apply String.eqb_eq in En. split; [intros _; exists t, l; repeat split; assumption|].
        intros _. repeat split. intro H; discriminate H.
      * apply String.eqb_neq in En. split; [intros [_ [H _]]; discriminate H|].
        intros [t' [l' [H1 [H2 H3]]]]. inversion H1; subst t'. rewrite E in H2. inversion H2; subst l'. contradiction.
    + split; [intros [_ [H _]]; discriminate H|]. intros [t' [l' [H1 [H2 _]]]]. inversion H1; subst t'. rewrite E in H2. discriminate H2.
  - simpl. split; [intros [_ [_ H]]; exfalso; apply H; reflexivity | intros [t [l [H _]]]; discriminate H].
Qed.

Definition ResetOKop (q : bool) (m : model) (L : list vloc) (c : cinfo) (r : reset) : Prop :=
  XmlName (r_id r) /\ XmlName (r_tv_id r) /\ XmlName (r_rv_id r)
  /\ r_order r <> None
  /\ var_here L c (r_var r) /\ var_here L c (r_tvar r)
  /\ r_tv r <> [] /\ MathsOK q (map v_name (c_vars c)) (units_names m) (r_tv r)
  /\ r_rv r <> [] /\ MathsOK q (map v_name (c_vars c)) (units_names m) (r_rv r).

Lemma opt_none_nil : forall {A B} (o : option A) (x : B), match o with None => [x] | Some _ => [] end = [] <-> o <> None.
Proof. intros A B [a|] x; split; intro H; try reflexivity; try (intro H0; discriminate H0); try discriminate H. exfalso; apply H; reflexivity. Qed.

Lemma list_none_nil : forall {A B} (l : list A) (x : B), match l with [] => [x] | _ :: _ => [] end = [] <-> l <> [].
Proof. intros A B [|a l] x; split; intro H; try reflexivity; try (intro H0; discriminate H0); try discriminate H. exfalso; apply H; reflexivity. Qed.

Lemma validate_reset_nil : forall q m L c r, validate_reset q m L c r = [] <-> ResetOKop q m L c r.
Proof.
  intros q m L c r. unfold validate_reset, ResetOKop.
  rewrite <- (reset_var_check_nil L c (r_var r) V_RESET_VARIABLE_REFERENCE).
  rewrite <- (reset_var_check_nil L c (r_tvar r) V_RESET_TEST_VARIABLE_REFERENCE).
  destruct (reset_var_check L c (r_var r) V_RESET_VARIABLE_REFERENCE) as [v_now v_end].
  destruct (reset_var_check L c (r_tvar r) V_RESET_TEST_VARIABLE_REFERENCE) as [t_now t_end].
  cbn [fst snd].
  rewrite !app_nil_iff, !validate_math_nil.
  rewrite (if_nil_iff (is_xml_name (r_id r)) V_XML_ID_ATTRIBUTE), (if_nil_iff (is_xml_name (r_tv_id r)) V_XML_ID_ATTRIBUTE),
          (if_nil_iff (is_xml_name (r_rv_id r)) V_XML_ID_ATTRIBUTE).
  rewrite (opt_none_nil (r_order r) V_RESET_ORDER_VALUE), (opt_none_nil (r_var r) V_RESET_VARIABLE_REFERENCE),
          (opt_none_nil (r_tvar r) V_RESET_TEST_VARIABLE_REFERENCE),
          (list_none_nil (r_tv r) V_TEST_VALUE_ELEMENT), (list_none_nil (r_rv r) V_RESET_VALUE_ELEMENT).
  unfold XmlName. tauto.
Qed.

(** with unique component names and faithful tags, "same name" is "this component" *)
Lemma var_here_owns : forall m c ov, Repr m -> NoDup (map (fun c => c_name (c_info c)) (model_comps m)) ->
  In c (model_comps m) ->
  (var_here (model_locs m) (c_info c) ov <-> exists t, ov = Some t /\ owns (c_info c) t).
Proof.
  intros m c ov [Htags _] Hnames Hc. unfold var_here, owns. split.
  - intros [t [l [H1 [H2 H3]]]]. exists t. split; [exact H1|].
    apply lookup_var_some in H2. destruct H2 as [Hin Htag].
    destruct (in_model_locs _ _ Hin) as [c' [Hc' [Hv [Hn _]]]].
    assert (c' = c) by (apply (comp_by_name (model_comps m)); try assumption; congruence).
    subst c'. exists (l_var l). split; assumption.
  - intros [t [H1 [v [Hv Ht]]]]. destruct (model_locs_complete m c v Hc Hv) as [l [Hl [Hlv [Hln _]]]].
    exists t, l. split; [exact H1|]. split; [|exact Hln].
    rewrite <- Ht, <- Hlv. apply lookup_var_unique; assumption.
Qed.

Lemma reset_ok_iff : forall q m c r, Repr m -> NoDup (map (fun c => c_name (c_info c)) (model_comps m)) ->
  In c (model_comps m) ->
  (ResetOKop q m (model_locs m) (c_info c) r <-> ResetOK q m (c_info c) r).
Proof.
  intros q m c r HR Hn Hc. unfold ResetOKop, ResetOK.
  rewrite (var_here_owns m c (r_var r) HR Hn Hc), (var_here_owns m c (r_tvar r) HR Hn Hc). tauto.
Qed.

(* ------------------------------------------------------------------ one component *)

Definition unresolved (c : cinfo) : Prop := match c_imp c with Some (s, _) => is_model s = None | None => True end.

Lemma validate_import_source_nil : forall s, validate_import_source s = [] <-> ISrcOK s.
Proof.
  intro s. unfold validate_import_source, ISrcOK, XmlName. rewrite app_nil_iff, (if_nil_iff (is_xml_name (is_id s)) V_XML_ID_ATTRIBUTE).
  destruct (str_is_empty (is_url s)) eqn:E.
  - apply str_is_empty_iff in E. split; [intros [_ H]; discriminate H | intros [_ [H _]]; contradiction].
  - assert (Hne : is_url s <> "") by (intro H; apply str_is_empty_iff in H; congruence).
    destruct (is_url_ok s); split; try tauto.
    + intros [_ H]; discriminate H.
    + intros [_ [_ H]]; discriminate H.
Qed.

(** the content of a component as validateComponent checks it (resets decided by component NAME) *)
Definition CompOKop (q : bool) (W : world) (mi : nat) (c : cinfo) : Prop :=
  let m := model_at W mi in
  IsIdent (c_name c) /\ XmlName (c_id c)
  /\ match c_imp c with
     | Some (s, cref) => IsIdent cref /\ ISrcOK s
     | None =>
         Forall (VarOK m c) (c_vars c) /\ NoDup (map v_name (c_vars c))
         /\ Forall (ResetOKop q m (model_locs m) c) (c_resets c)
         /\ MathsOK q (map v_name (c_vars c)) (units_names m) (c_math c)
     end.

Lemma validate_component_nil : forall q f W mi hist c, unresolved c ->
  validate_component q (S f) W mi hist c = [] <-> CompOKop q W mi c.
Proof.
  intros q f W mi hist c Hun. cbn [validate_component]. unfold CompOKop. cbv zeta.
  rewrite !app_nil_iff.
  assert (Hname : (if is_ident (c_name c) then []
                   else [if is_import_c c then V_IMPORT_COMPONENT_NAME_VALUE else V_COMPONENT_NAME_VALUE]) = [] <-> IsIdent (c_name c)).
  { rewrite <- is_ident_iff. destruct (is_ident (c_name c)); split; intro H; try reflexivity; discriminate H. }
  rewrite Hname, (if_nil_iff (is_xml_name (c_id c)) V_XML_ID_ATTRIBUTE). unfold XmlName.
  unfold unresolved in Hun. destruct (c_imp c) as [[s cref]|].
  - rewrite Hun, !app_nil_iff, (if_nil_iff (is_ident cref) V_IMPORT_COMPONENT_COMPONENT_REFERENCE_VALUE), is_ident_iff,
            validate_import_source_nil. tauto.
  - rewrite !app_nil_iff, validate_variables_nil, flat_map_nil_iff, validate_math_nil.
    assert (HF : Forall (fun x => validate_reset q (model_at W mi) (model_locs (model_at W mi)) c x = []) (c_resets c)
                 <-> Forall (ResetOKop q (model_at W mi) (model_locs (model_at W mi)) c) (c_resets c)).
    { rewrite !Forall_forall. split; intros H x Hx; apply validate_reset_nil; apply H; exact Hx. }
    rewrite HF. split.
    + intros [H1 [H2 [[H3 [H4 _]] [H5 H6]]]]. tauto.
    + intros [H1 [H2 [H3 [H4 [H5 H6]]]]]. repeat split; try assumption. intros v _ [].
Qed.

(* ------------------------------------------------------------------ the tree traversal *)

Fixpoint validate_tree_list (q : bool) (fuel : nat) (W : world) (ks : list comp) (ns : list string)
  : list vrule * list string :=
  match ks with
  | [] => ([], ns)
  | k :: r => let '(a, ns1) := validate_tree q fuel W ns k in
              let '(b, ns2) := validate_tree_list q fuel W r ns1 in (a ++ b, ns2)
  end.

Lemma validate_tree_unfold : forall q fuel W names i kids,
  validate_tree q fuel W names (Comp i kids) =
  let '(own, names1) :=
    if nonempty (c_name i) then
      if str_in (c_name i) names then ([unique_name_rule i], names) else ([], names ++ [c_name i])
    else ([], names) in
  let '(sub, names2) := validate_tree_list q fuel W kids names1 in
  (own ++ sub ++ validate_component q fuel W 0 [] i, names2).
Proof.
  intros.
  assert (H : forall ks ns,
             validate_tree_list q fuel W ks ns =
             (fix go (ks : list comp) (ns : list string) : list vrule * list string :=
                match ks with
                | [] => ([], ns)
                | k :: r => let '(a, ns1) := validate_tree q fuel W ns k in
                            let '(b, ns2) := go r ns1 in (a ++ b, ns2)
                end) ks ns).
  { induction ks as [|k r IH]; intro ns; [reflexivity|]. cbn [validate_tree_list].
    destruct (validate_tree q fuel W ns k) as [a ns1]. rewrite IH. reflexivity. }
  destruct (nonempty (c_name i)) eqn:E1; [destruct (str_in (c_name i) names) eqn:E2|];
    rewrite H; cbn [validate_tree]; rewrite E1, ?E2; reflexivity.
Qed.

Definition cname (c : comp) : string := c_name (c_info c).
Definition nenames (cs : list comp) : list string := filter nonempty (map cname cs).

Lemma nenames_app : forall a b, nenames (a ++ b) = nenames a ++ nenames b.
Proof. intros. unfold nenames. rewrite map_app, filter_app. reflexivity. Qed.

Definition comp_fine (q : bool) (fuel : nat) (W : world) (c : comp) : Prop :=
  validate_component q fuel W 0 [] (c_info c) = [].
Definition tree_ok (q : bool) (fuel : nat) (W : world) (cs : list comp) (names : list string) : Prop :=
  Forall (comp_fine q fuel W) cs /\ NoDup (nenames cs) /\ (forall n, In n (nenames cs) -> ~ In n names).

(** no issue from the traversal of a tree = every component of it is fine, and its non-empty names are new and distinct;
    then the names are appended in pre-order *)
Definition tree_spec (q : bool) (fuel : nat) (W : world) (res : list vrule * list string) (cs : list comp)
           (names : list string) : Prop :=
  (fst res = [] <-> tree_ok q fuel W cs names) /\ (fst res = [] -> snd res = names ++ nenames cs).

Lemma tree_list_spec : forall q fuel W ks,
  Forall (fun c => forall names, tree_spec q fuel W (validate_tree q fuel W names c) (comp_all c) names) ks ->
  forall names, tree_spec q fuel W (validate_tree_list q fuel W ks names) (flat_map comp_all ks) names.
Proof.
  intros q fuel W ks HF. induction HF as [|k r Hk Hr IH]; intro names.
  - cbn. unfold tree_spec, tree_ok, nenames. cbn. split.
    + split; [intros _; repeat split; [constructor | constructor | intros n []] | reflexivity].
    + intros _. rewrite app_nil_r. reflexivity.
  - cbn [validate_tree_list flat_map]. specialize (Hk names).
    destruct (validate_tree q fuel W names k) as [a ns1]. specialize (IH ns1).
    destruct (validate_tree_list q fuel W r ns1) as [b ns2]. unfold tree_spec in *. cbn [fst snd] in *.
    destruct Hk as [Hk1 Hk2]. destruct IH as [IH1 IH2].
    assert (Hiff : a ++ b = [] <-> tree_ok q fuel W (comp_all k ++ flat_map comp_all r) names).
    { rewrite app_nil_iff. unfold tree_ok. rewrite nenames_app, nodup_app_iff, Forall_app. split.
      - intros [Ha Hb]. pose proof (Hk2 Ha) as Hn. subst ns1. apply Hk1 in Ha. apply IH1 in Hb.
        destruct Ha as [A1 [A2 A3]]. destruct Hb as [B1 [B2 B3]]. repeat split; try assumption.
        + intros x Hx Hx'. apply (B3 x Hx'). apply in_or_app. right. exact Hx.
        + intros n Hn. apply in_app_or in Hn. destruct Hn as [Hn|Hn]; [apply A3; exact Hn|].
          intro Hin. apply (B3 n Hn). apply in_or_app. left. exact Hin.
      - intros [[A1 B1] [[A2 [B2 D]] H3]].
        assert (Ha : a = []).
        { apply Hk1. repeat split; try assumption. intros n Hn. apply H3. apply in_or_app. left. exact Hn. }
        split; [exact Ha|]. pose proof (Hk2 Ha) as Hn. subst ns1. apply IH1. repeat split; try assumption.
        intros n Hn Hin. apply in_app_or in Hin. destruct Hin as [Hin|Hin].
        + apply (H3 n); [apply in_or_app; right; exact Hn | exact Hin].
        + apply (D n Hin Hn). }
    split; [exact Hiff|]. intro Hab. apply app_nil_iff in Hab. destruct Hab as [Ha Hb].
    rewrite (IH2 Hb), (Hk2 Ha), nenames_app, app_assoc. reflexivity.
Qed.

Lemma validate_tree_spec : forall q fuel W c names,
  tree_spec q fuel W (validate_tree q fuel W names c) (comp_all c) names.
Proof.
  intros q fuel W. induction c as [i kids IH] using comp_ind2. intro names.
  rewrite validate_tree_unfold, comp_all_unfold.
  pose proof (tree_list_spec q fuel W kids IH) as HL.
  assert (Hne : nenames (Comp i kids :: flat_map comp_all kids)
                = (if nonempty (c_name i) then [c_name i] else []) ++ nenames (flat_map comp_all kids)).
  { unfold nenames. cbn [map filter]. unfold cname at 1 2. cbn [c_info]. destruct (nonempty (c_name i)); reflexivity. }
  destruct (nonempty (c_name i)) eqn:E1; [destruct (str_in (c_name i) names) eqn:E2|].
  - (* duplicate name *)
    apply str_in_iff in E2. destruct (validate_tree_list q fuel W kids names) as [sub names2].
    unfold tree_spec. cbn [fst snd]. split; [|intro H; discriminate H].
    split; [intro H; discriminate H|]. intros [_ [_ H]]. exfalso. apply (H (c_name i)); [|exact E2].
    rewrite Hne. left. reflexivity.
  - apply str_in_false_iff in E2. specialize (HL (names ++ [c_name i])).
    destruct (validate_tree_list q fuel W kids (names ++ [c_name i])) as [sub names2].
    unfold tree_spec in *. cbn [fst snd] in *. destruct HL as [HL1 HL2].
    cbn [app]. rewrite app_nil_iff. unfold tree_ok in *. rewrite Hne. cbn [app]. split.
    + split.
      * intros [Hs Hc]. apply HL1 in Hs. destruct Hs as [S1 [S2 S3]]. repeat split.
        -- constructor; [exact Hc | exact S1].
        -- constructor; [|exact S2]. intro Hin. apply (S3 _ Hin). apply in_or_app. right. left. reflexivity.
        -- intros n [Hn|Hn]; [subst; exact E2|]. intro Hin. apply (S3 n Hn). apply in_or_app. left. exact Hin.
      * intros [F [ND D]]. inversion F; subst. inversion ND; subst. split; [|assumption]. apply HL1. repeat split; try assumption.
        intros n Hn Hin. apply in_app_or in Hin. destruct Hin as [Hin|[Hin|[]]].
        -- apply (D n); [right; exact Hn | exact Hin].
        -- subst. contradiction.
    + intros [Hs _]. rewrite (HL2 Hs), <- app_assoc. reflexivity.
  - specialize (HL names). destruct (validate_tree_list q fuel W kids names) as [sub names2].
    unfold tree_spec in *. cbn [fst snd] in *. destruct HL as [HL1 HL2].
    cbn [app]. rewrite app_nil_iff. unfold tree_ok in *. rewrite Hne. cbn [app]. split.
    + split.
      * intros [Hs Hc]. apply HL1 in Hs. destruct Hs as [S1 [S2 S3]]. repeat split; try assumption. constructor; assumption.
      * intros [F [ND D]]. inversion F; subst. split; [|assumption]. apply HL1. repeat split; assumption.
    + intros [Hs _]. exact (HL2 Hs).
Qed.

Lemma validate_trees_nil : forall q fuel W cs names,
  validate_trees q fuel W names cs = [] <-> tree_ok q fuel W (flat_map comp_all cs) names.
Proof.
  intros q fuel W cs. induction cs as [|c r IH]; intro names; cbn [validate_trees flat_map].
  - unfold tree_ok, nenames. cbn. split; [intros _; repeat split; [constructor | constructor | intros n []] | reflexivity].
  - pose proof (validate_tree_spec q fuel W c names) as Hc. destruct (validate_tree q fuel W names c) as [a ns].
    unfold tree_spec in Hc. cbn [fst snd] in Hc. destruct Hc as [H1 H2].
    rewrite app_nil_iff. unfold tree_ok in *. rewrite nenames_app, nodup_app_iff, Forall_app. split.
    + intros [Ha Hb]. pose proof (H2 Ha) as Hn. subst ns. apply H1 in Ha. apply IH in Hb.
      destruct Ha as [A1 [A2 A3]]. destruct Hb as [B1 [B2 B3]]. repeat split; try assumption.
      * intros x Hx Hx'. apply (B3 x Hx'). apply in_or_app. right. exact Hx.
      * intros n Hn. apply in_app_or in Hn. destruct Hn as [Hn|Hn]; [apply A3; exact Hn|].
        intro Hin. apply (B3 n Hn). apply in_or_app. left. exact Hin.
    + intros [[A1 B1] [[A2 [B2 D]] H3]].
      assert (Ha : a = []).
      { apply H1. repeat split; try assumption. intros n Hn. apply H3. apply in_or_app. left. exact Hn. }
      split; [exact Ha|]. pose proof (H2 Ha) as Hn. subst ns. apply IH. repeat split; try assumption.
      intros n Hn Hin. apply in_app_or in Hin. destruct Hin as [Hin|Hin].
      * apply (H3 n); [apply in_or_app; right; exact Hn | exact Hin].
      * apply (D n Hin Hn).
Qed.
