(** CGramDefs.v — the C instance of GramDefs / ReadDefs: how a C compiler reads a generated expression, and the
    intended reading / safe class under the built-in C profile (LCGen.ProfileStrings.profile_C).  No proofs. *)
From Coq Require Import String List.
From LC Require Import AstDefs GenDefs GramDefs ReadDefs.

Definition lexC : string -> option (list token) := lex LC.
Definition parseC : list token -> option tree := parse LC.
Definition readC : string -> option tree := read LC.
Definition trC : ast -> tree := tr profile_C.
Definition lvlC : ast -> nat := lvl profile_C.
Definition safeC : ast -> bool := safe_b LC profile_C.
Definition reads_asC : string -> ast -> bool := reads_as LC profile_C.
