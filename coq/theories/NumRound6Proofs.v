(** NumRound6Proofs.v — proof depth round 6 for C16: concatenation laws of the integer recognisers and the
    converse of the inclusion non-negative integer < integer.  All statements are over ALL strings. *)
From Coq Require Import String Ascii List Bool Arith ZArith Lia.
From LC Require Import NumDefs NumSpec.
Local Open Scope string_scope.
Local Open Scope bool_scope.

Lemma all_digits_app : forall a b, all_digits (a ++ b) = all_digits a && all_digits b.
Proof.
  induction a as [|c a IH]; intros b; simpl; [reflexivity|].
  rewrite IH, andb_assoc. reflexivity.
Qed.

Lemma is_nonneg_all : forall s, is_nonneg_int s = negb (str_is_empty s) && all_digits s.
Proof. destruct s; reflexivity. Qed.

(** Exact decomposition of isNonNegativeCellMLInteger over a concatenation (boolean equality, hence also
    for every rejected split). *)
Theorem nonneg_app_split : forall a b,
  is_nonneg_int (a ++ b) = all_digits a && all_digits b && negb (str_is_empty a && str_is_empty b).
Proof.
  intros a b. rewrite is_nonneg_all, all_digits_app.
  destruct a, b; simpl; try reflexivity; rewrite ?andb_true_r, ?andb_false_r; reflexivity.
Qed.

Lemma sign_not_digit : forall c, is_sign c = true -> is_digit c = false.
Proof.
  intros c H. unfold is_sign in H. apply orb_true_iff in H.
  destruct H as [H|H]; apply Ascii.eqb_eq in H; subst; reflexivity.
Qed.

(** Converse of nonneg_sub_int: an accepted integer is a non-negative integer exactly when its first
    character is not a sign. *)
Theorem int_nonneg_iff_nosign : forall c r, is_int (String c r) = true ->
  is_nonneg_int (String c r) = negb (is_sign c).
Proof.
  intros c r H. unfold is_int in H. destruct (is_sign c) eqn:E.
  - simpl. rewrite (sign_not_digit c E). reflexivity.
  - exact H.
Qed.

(** Appending digits to an accepted integer keeps it accepted, and an accepted integer stays accepted only
    when what is appended is digits: is_int (s ++ d) = all_digits d for accepted s. *)
Theorem int_app_digits : forall s d, is_int s = true -> is_int (s ++ d) = all_digits d.
Proof.
  intros [|c r] d H; [discriminate|].
  change (String c r ++ d) with (String c (r ++ d)).
  unfold is_int in *. destruct (is_sign c).
  - rewrite is_nonneg_all in H. apply andb_true_iff in H. destruct H as [H1 H2].
    rewrite nonneg_app_split, H2. destruct r; [discriminate|]. simpl.
    rewrite andb_true_r. reflexivity.
  - change (String c (r ++ d)) with (String c r ++ d).
    rewrite is_nonneg_all in H. apply andb_true_iff in H. destruct H as [H1 H2].
    rewrite nonneg_app_split, H2. simpl. rewrite andb_true_r. reflexivity.
Qed.
