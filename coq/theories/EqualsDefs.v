(** EqualsDefs.v — executable model of Entity::equals (C10).  No proofs in this file.

    Transcribes, as the code is NOW in /repo (after fix ffcdfaa: count tests for resets / units),
    the whole doEquals chain:

      src/entity.cpp          Entity::doEquals            id (and other != nullptr)
      src/namedentity.cpp     NamedEntity::doEquals       Entity::doEquals, then name
      src/importsource.cpp    ImportSource::doEquals      Entity::doEquals, then url
      src/importedentity.cpp  ImportedEntity::doEquals    import-ness, import reference, import source
      src/units.cpp           Units::doEquals             named, unit count, imported, greedy matching of the
                                                          unit children (areNearlyEqual on exponent/multiplier)
      src/variable.cpp        Variable::doEquals          named, initial value, interface type, units OBJECT
                                                          (Units::equals, not just the name); equivalences: no
      src/reset.cpp           Reset::doEquals             id, order value (not "is order set"), reset/test value
                                                          and their ids, test variable, variable (Variable::equals)
      src/utilities.cpp       equalEntities               greedy matching over an index list SIZED BY THE LEFT
                                                          operand; right-hand children beyond it are never seen
      src/component.cpp       ComponentImpl::equalResets  count test + equalEntities
                              ComponentImpl::equalVariables   NO count test (pinned by test Equality.parseMath)
                              Component::doEquals         ComponentEntity, math (string ==), resets, variables,
                                                          imported
      src/componententity.cpp ComponentEntity::doEquals   named, encapsulation id, child count, then for each
                                                          LEFT child `other->containsComponent(child, false)`
                                                          = some right child y with y->equals(child)
                                                          (direction: RIGHT child is the receiver)
      src/model.cpp           ModelImpl::equalUnits       count test + equalEntities;  Model::doEquals

    Two switches select the repaired variants:
      f_varcount  = true : equalVariables has the count test (NOT in /repo: the defect is pinned by a test)
      f_compmatch = true : ComponentEntity::doEquals matches child components one-to-one with the same
                           index-list loop as equalEntities (fix C10-component-matching), instead of asking
                           containsComponent for every left child separately.

    Doubles (unit exponent / multiplier) are rationals; their comparison [neq] is a section variable
    (areNearlyEqual).  Two instances at the end: [Qeq_bool] (what the property assumes: values that are
    identical or far apart) and [neq_abs] (|a-b| <= 2^-52, which is what areNearlyEqual computes on values
    that are identical or more than one ulp apart: utilities.cpp areNearlyEqual first tests
    fabs(a-b) <= DBL_EPSILON). *)
From Coq Require Import String List Bool ZArith QArith Qabs Arith.
Import ListNotations.
Local Open Scope bool_scope.

(** * Entity trees (values only: no identities, no parents, no equivalences — equals ignores them) *)

Record isrc := { is_url : string; is_id : string }.

Record unitdef := { ud_ref : string; ud_prefix : string; ud_exp : Q; ud_mult : Q; ud_id : string }.

(** ImportedEntity keeps the import reference independently of the import source. *)
Record units := { u_name : string; u_id : string; u_imp : option isrc; u_impref : string;
                  u_defs : list unitdef }.

Record variable := { v_name : string; v_id : string; v_units : option units; v_init : string;
                     v_iface : string }.

Record reset := { r_id : string; r_order : Z; r_var : option variable; r_test : option variable;
                  r_tv : string; r_tv_id : string; r_rv : string; r_rv_id : string }.

(** everything of a component except its child components *)
Record cshell := { c_name : string; c_id : string; c_encid : string; c_math : string;
                   c_imp : option isrc; c_impref : string;
                   c_vars : list variable; c_resets : list reset }.

Inductive component := Comp (s : cshell) (kids : list component).

Definition shell (c : component) : cshell := match c with Comp s _ => s end.
Definition kids (c : component) : list component := match c with Comp _ k => k end.

Record model := { m_name : string; m_id : string; m_encid : string;
                  m_units : list units; m_comps : list component }.

Inductive entity :=
| EModel (m : model) | EComponent (c : component) | EVariable (v : variable)
| EUnits (u : units) | EReset (r : reset) | EImportSource (i : isrc).

Record flags := { f_varcount : bool; f_compmatch : bool }.

Definition flags_repo_pinned : flags := {| f_varcount := false; f_compmatch := false |}.  (* /repo before the C10 fix *)
Definition flags_now : flags := {| f_varcount := false; f_compmatch := true |}.           (* with fix C10-component-matching *)
Definition flags_fixed : flags := {| f_varcount := true; f_compmatch := true |}.          (* both repaired *)

(** * The matching loop (utilities.cpp: equalEntities; units.cpp: Units::doEquals has the same loop) *)

Section Matching.
  Context {A B : Type}.
  Variable R : A -> B -> bool.            (* R x y = "x->equals(y)" of the loop body *)

  (** inner loop: walk the unmatched indices in order; an index beyond the right operand gives nullptr,
      and equals(nullptr) is false.  Returns the index list with the first matching index erased. *)
  Fixpoint find_idx (x : A) (l2 : list B) (unmatched : list nat) : option (list nat) :=
    match unmatched with
    | [] => None
    | i :: t =>
        match nth_error l2 i with
        | Some y => if R x y then Some t else option_map (cons i) (find_idx x l2 t)
        | None => option_map (cons i) (find_idx x l2 t)
        end
    end.

  (** outer loop over the left operand's children *)
  Fixpoint match_idx (l1 : list A) (l2 : list B) (unmatched : list nat) : bool :=
    match l1 with
    | [] => true
    | x :: t => match find_idx x l2 unmatched with
                | None => false
                | Some u => match_idx t l2 u
                end
    end.

  (** std::vector<size_t> unmatchedIndex(entities.size()); std::iota(...)  — sized by the LEFT operand *)
  Definition equal_entities (l1 : list A) (l2 : list B) : bool :=
    match_idx l1 l2 (seq 0 (length l1)).

  (** componententity.cpp: for (child : mComponents) if (!other->containsComponent(child,false)) return false *)
  Definition all_contained (l1 : list A) (l2 : list B) : bool :=
    forallb (fun x => existsb (R x) l2) l1.

  (** the child-component part of ComponentEntity::doEquals *)
  Definition kids_equal (compmatch : bool) (l1 : list A) (l2 : list B) : bool :=
    (length l1 =? length l2) &&
    (if compmatch then equal_entities l1 l2 else all_contained l1 l2).
End Matching.

(** * doEquals chain *)

Section Equals.
  Variable neq : Q -> Q -> bool.          (* utilities.cpp: areNearlyEqual *)
  Variable fl : flags.

  (** importsource.cpp: ImportSource::doEquals *)
  Definition eq_isrc (a b : isrc) : bool :=
    String.eqb (is_id a) (is_id b) && String.eqb (is_url a) (is_url b).

  (** importedentity.cpp: ImportedEntity::doEquals *)
  Definition eq_imported (ia : option isrc) (ra : string) (ib : option isrc) (rb : string) : bool :=
    match ia, ib with
    | Some sa, Some sb => String.eqb ra rb && eq_isrc sa sb
    | None, None => String.eqb ra rb
    | _, _ => false
    end.

  (** units.cpp: Units::doEquals, the test in the inner loop *)
  Definition eq_unitdef (a b : unitdef) : bool :=
    neq (ud_exp a) (ud_exp b) && String.eqb (ud_id a) (ud_id b) && neq (ud_mult a) (ud_mult b)
    && String.eqb (ud_prefix a) (ud_prefix b) && String.eqb (ud_ref a) (ud_ref b).

  (** units.cpp: Units::doEquals *)
  Definition eq_units (a b : units) : bool :=
    String.eqb (u_id a) (u_id b) && String.eqb (u_name a) (u_name b)
    && (length (u_defs a) =? length (u_defs b))
    && eq_imported (u_imp a) (u_impref a) (u_imp b) (u_impref b)
    && equal_entities eq_unitdef (u_defs a) (u_defs b).

  (** variable.cpp: Variable::doEquals *)
  Definition eq_variable (a b : variable) : bool :=
    String.eqb (v_id a) (v_id b) && String.eqb (v_name a) (v_name b)
    && String.eqb (v_init a) (v_init b) && String.eqb (v_iface a) (v_iface b)
    && match v_units a, v_units b with
       | Some ua, Some ub => eq_units ua ub
       | Some _, None => false              (* mUnits->equals(nullptr) *)
       | None, None => true
       | None, Some _ => false
       end.

  Definition eq_optvar (a b : option variable) : bool :=
    match a, b with
    | Some x, Some y => eq_variable x y
    | Some _, None => false
    | None, None => true
    | None, Some _ => false
    end.

  (** reset.cpp: Reset::doEquals *)
  Definition eq_reset (a b : reset) : bool :=
    String.eqb (r_id a) (r_id b) && Z.eqb (r_order a) (r_order b)
    && String.eqb (r_rv a) (r_rv b) && String.eqb (r_rv_id a) (r_rv_id b)
    && String.eqb (r_tv a) (r_tv b) && String.eqb (r_tv_id a) (r_tv_id b)
    && eq_optvar (r_test a) (r_test b) && eq_optvar (r_var a) (r_var b).

  (** component.cpp: ComponentImpl::equalResets *)
  Definition equal_resets (a b : list reset) : bool :=
    (length a =? length b) && equal_entities eq_reset a b.

  (** component.cpp: ComponentImpl::equalVariables — no count test in /repo *)
  Definition equal_variables (a b : list variable) : bool :=
    (if f_varcount fl then length a =? length b else true) && equal_entities eq_variable a b.

  (** model.cpp: ModelImpl::equalUnits *)
  Definition equal_units (a b : list units) : bool :=
    (length a =? length b) && equal_entities eq_units a b.

  (** the part of ComponentEntity::doEquals before the children: Entity, NamedEntity, encapsulation id *)
  Definition eq_shell_head (a b : cshell) : bool :=
    String.eqb (c_id a) (c_id b) && String.eqb (c_name a) (c_name b) && String.eqb (c_encid a) (c_encid b).

  (** the part of Component::doEquals after ComponentEntity::doEquals *)
  Definition eq_shell_tail (a b : cshell) : bool :=
    String.eqb (c_math a) (c_math b)
    && equal_resets (c_resets a) (c_resets b)
    && equal_variables (c_vars a) (c_vars b)
    && eq_imported (c_imp a) (c_impref a) (c_imp b) (c_impref b).

  (** Component::doEquals.  In ComponentEntity::doEquals the receiver of the recursive call is the
      RIGHT operand's child (findComponent: c->equals(component)), so the direction alternates with the
      depth.  [eqc true a b] = a->equals(b);  [eqc false a b] = b->equals(a); both recurse on [a]. *)
  Fixpoint eqc (dir : bool) (a b : component) {struct a} : bool :=
    match a, b with
    | Comp sa ka, Comp sb kb =>
        let ps := map (fun x => eqc (negb dir) x) ka in
        if dir then
          eq_shell_head sa sb
          && kids_equal (fun p y => p y) (f_compmatch fl) ps kb      (* p y = y->equals(x), x child of a *)
          && eq_shell_tail sa sb
        else
          eq_shell_head sb sa
          && kids_equal (fun y p => p y) (f_compmatch fl) kb ps      (* p y = x->equals(y), x child of a *)
          && eq_shell_tail sb sa
    end.

  Definition eq_component (a b : component) : bool := eqc true a b.

  (** model.cpp: Model::doEquals *)
  Definition eq_model (a b : model) : bool :=
    String.eqb (m_id a) (m_id b) && String.eqb (m_name a) (m_name b) && String.eqb (m_encid a) (m_encid b)
    && kids_equal (fun p y => p y) (f_compmatch fl) (map (fun x => eqc false x) (m_comps a)) (m_comps b)
    && equal_units (m_units a) (m_units b).

  (** Entity::equals on any two entities: every doEquals ends in a dynamic_pointer_cast to its own class *)
  Definition eq_entity (a b : entity) : bool :=
    match a, b with
    | EModel x, EModel y => eq_model x y
    | EComponent x, EComponent y => eq_component x y
    | EVariable x, EVariable y => eq_variable x y
    | EUnits x, EUnits y => eq_units x y
    | EReset x, EReset y => eq_reset x y
    | EImportSource x, EImportSource y => eq_isrc x y
    | _, _ => false
    end.
End Equals.

(** * Ownership of the units object a variable holds

    In the library the variable holds a POINTER to a units object which may have been created by
    Variable::setUnits(name), may be owned by the model that also owns the variable, by another model, by no
    model at all, or be shared with other variables.  variable.cpp: Variable::doEquals calls
    mUnits->equals(other->units()) and never reads mUnits->parent(): the answer is a function of the CONTENT of
    the two units objects only.  The trees of this model therefore carry the units inline; the tag below only
    exists to state that fact (Properties_C10: C10_units_ownership_irrelevant) — the correspondence run draws the
    object from all these situations (gen/equals_gen.py: emit). *)
Inductive ownership :=
| ByName | SameModel | OtherModel (m : nat) | ParentLess | SharedWith (v : nat).

Definition eq_owned_variable (neq : Q -> Q -> bool) (a b : variable * ownership) : bool :=
  eq_variable neq (fst a) (fst b).

(** * Resolved state of an import source

    importsource.cpp: ImportSource::doEquals compares the id (Entity::doEquals) and the url; it never reads mModel
    (set by ImportSource::setModel / Importer::resolveImports, shared by clones).  The trees therefore carry url and
    id only; the tag below only exists to state that fact (Properties_C10: C10_import_resolution_irrelevant) — the
    correspondence run draws the resolved state of every import source at random (gen/equals_gen.py: emit). *)
Inductive resolution := Unresolved | ResolvedTo (model_object : nat).

Definition eq_resolved_isrc (a b : isrc * resolution) : bool := eq_isrc (fst a) (fst b).

(** * Instances of the comparison of doubles *)

(** |a - b| <= 2^-52 = DBL_EPSILON: the first test of areNearlyEqual.  On values that are identical or
    more than one ulp apart this is all areNearlyEqual computes. *)
Definition neq_abs (a b : Q) : bool := Qle_bool (Qabs (a - b)) (1 # 4503599627370496).

(** the instances run by the correspondence check *)
Definition equals_now : entity -> entity -> bool := eq_entity neq_abs flags_now.
Definition equals_pinned : entity -> entity -> bool := eq_entity neq_abs flags_repo_pinned.
Definition equals_varcount : entity -> entity -> bool := eq_entity neq_abs flags_fixed.
Definition equals_ideal : entity -> entity -> bool := eq_entity Qeq_bool flags_fixed.

(** * Single mutations (the family of changes the property lists) *)

(** replace / remove / insert at an index *)
Fixpoint set_nth {A} (i : nat) (f : A -> option A) (l : list A) : option (list A) :=
  match l, i with
  | [], _ => None
  | x :: t, O => option_map (fun x' => x' :: t) (f x)
  | x :: t, S j => option_map (cons x) (set_nth j f t)
  end.

Fixpoint remove_nth {A} (i : nat) (l : list A) : option (list A) :=
  match l, i with
  | [], _ => None
  | x :: t, O => Some t
  | x :: t, S j => option_map (cons x) (remove_nth j t)
  end.

Inductive imut :=                                  (* import source *)
| IUrl (s : string) | IId (s : string).

Inductive impmut :=                                (* imported entity: source + reference *)
| ImpRef (s : string)                              (* set the import reference *)
| ImpSet (i : isrc)                                (* give a non-import an import source *)
| ImpClear                                         (* remove the import source *)
| ImpSrc (m : imut).                               (* change the import source *)

Inductive dmut :=                                  (* unit child *)
| DRef (s : string) | DPrefix (s : string) | DExp (q : Q) | DMult (q : Q) | DId (s : string).

Inductive umut :=                                  (* units *)
| UName (s : string) | UId (s : string) | UImp (m : impmut)
| UDefAdd (d : unitdef) | UDefRemove (i : nat) | UDef (i : nat) (m : dmut).

Inductive vmut :=                                  (* variable *)
| VName (s : string) | VId (s : string) | VInit (s : string) | VIface (s : string)
| VUnitsSet (u : units) | VUnitsClear | VUnits (m : umut).

Inductive ovmut :=                                 (* variable / test variable of a reset *)
| OVSet (v : variable) | OVClear | OVMut (m : vmut).

Inductive rmut :=                                  (* reset *)
| RId (s : string) | ROrder (z : Z) | RVar (m : ovmut) | RTest (m : ovmut)
| RTestValue (s : string) | RTestValueId (s : string) | RResetValue (s : string) | RResetValueId (s : string).

Inductive cmut :=                                  (* component, at any depth *)
| CName (s : string) | CId (s : string) | CEncId (s : string) | CMath (s : string) | CImp (m : impmut)
| CVarAdd (v : variable) | CVarRemove (i : nat) | CVar (i : nat) (m : vmut)
| CResetAdd (r : reset) | CResetRemove (i : nat) | CReset (i : nat) (m : rmut)
| CKidAdd (c : component) | CKidRemove (i : nat) | CKid (i : nat) (m : cmut).

Inductive mmut :=                                  (* model *)
| MName (s : string) | MId (s : string) | MEncId (s : string)
| MUnitsAdd (u : units) | MUnitsRemove (i : nat) | MUnits (i : nat) (m : umut)
| MCompAdd (c : component) | MCompRemove (i : nat) | MComp (i : nat) (m : cmut).

Inductive emut :=
| MutModel (m : mmut) | MutComponent (m : cmut) | MutVariable (m : vmut) | MutUnits (m : umut)
| MutReset (m : rmut) | MutImportSource (m : imut).

(** [apply_* mu x] = Some x' : the mutated entity; None when an index is out of range or the mutation does
    not apply (ImpSet on an import, ImpClear / ImpSrc on a non-import, VUnitsSet on a variable with units, ...).
    Values are NOT compared here: whether the new value differs from the old one is [changes_*]. *)

Definition apply_imut (mu : imut) (i : isrc) : option isrc :=
  match mu with
  | IUrl s => Some {| is_url := s; is_id := is_id i |}
  | IId s => Some {| is_url := is_url i; is_id := s |}
  end.

Definition apply_impmut (mu : impmut) (imp : option isrc) (ref : string) : option (option isrc * string) :=
  match mu, imp with
  | ImpRef s, _ => Some (imp, s)
  | ImpSet i, None => Some (Some i, ref)
  | ImpClear, Some _ => Some (None, ref)
  | ImpSrc m, Some i => option_map (fun i' => (Some i', ref)) (apply_imut m i)
  | _, _ => None
  end.

Definition apply_dmut (mu : dmut) (d : unitdef) : option unitdef :=
  Some match mu with
  | DRef s => {| ud_ref := s; ud_prefix := ud_prefix d; ud_exp := ud_exp d; ud_mult := ud_mult d; ud_id := ud_id d |}
  | DPrefix s => {| ud_ref := ud_ref d; ud_prefix := s; ud_exp := ud_exp d; ud_mult := ud_mult d; ud_id := ud_id d |}
  | DExp q => {| ud_ref := ud_ref d; ud_prefix := ud_prefix d; ud_exp := q; ud_mult := ud_mult d; ud_id := ud_id d |}
  | DMult q => {| ud_ref := ud_ref d; ud_prefix := ud_prefix d; ud_exp := ud_exp d; ud_mult := q; ud_id := ud_id d |}
  | DId s => {| ud_ref := ud_ref d; ud_prefix := ud_prefix d; ud_exp := ud_exp d; ud_mult := ud_mult d; ud_id := s |}
  end.

Definition with_udefs (u : units) (l : list unitdef) : units :=
  {| u_name := u_name u; u_id := u_id u; u_imp := u_imp u; u_impref := u_impref u; u_defs := l |}.

Definition apply_umut (mu : umut) (u : units) : option units :=
  match mu with
  | UName s => Some {| u_name := s; u_id := u_id u; u_imp := u_imp u; u_impref := u_impref u; u_defs := u_defs u |}
  | UId s => Some {| u_name := u_name u; u_id := s; u_imp := u_imp u; u_impref := u_impref u; u_defs := u_defs u |}
  | UImp m => option_map (fun p => {| u_name := u_name u; u_id := u_id u; u_imp := fst p; u_impref := snd p;
                                      u_defs := u_defs u |}) (apply_impmut m (u_imp u) (u_impref u))
  | UDefAdd d => Some (with_udefs u (u_defs u ++ [d]))
  | UDefRemove i => option_map (with_udefs u) (remove_nth i (u_defs u))
  | UDef i m => option_map (with_udefs u) (set_nth i (apply_dmut m) (u_defs u))
  end.

Definition with_vunits (v : variable) (o : option units) : variable :=
  {| v_name := v_name v; v_id := v_id v; v_units := o; v_init := v_init v; v_iface := v_iface v |}.

Definition apply_vmut (mu : vmut) (v : variable) : option variable :=
  match mu with
  | VName s => Some {| v_name := s; v_id := v_id v; v_units := v_units v; v_init := v_init v; v_iface := v_iface v |}
  | VId s => Some {| v_name := v_name v; v_id := s; v_units := v_units v; v_init := v_init v; v_iface := v_iface v |}
  | VInit s => Some {| v_name := v_name v; v_id := v_id v; v_units := v_units v; v_init := s; v_iface := v_iface v |}
  | VIface s => Some {| v_name := v_name v; v_id := v_id v; v_units := v_units v; v_init := v_init v; v_iface := s |}
  | VUnitsSet u => match v_units v with None => Some (with_vunits v (Some u)) | Some _ => None end
  | VUnitsClear => match v_units v with Some _ => Some (with_vunits v None) | None => None end
  | VUnits m => match v_units v with
                | Some u => option_map (fun u' => with_vunits v (Some u')) (apply_umut m u)
                | None => None
                end
  end.

Definition apply_ovmut (mu : ovmut) (o : option variable) : option (option variable) :=
  match mu, o with
  | OVSet v, None => Some (Some v)
  | OVClear, Some _ => Some None
  | OVMut m, Some v => option_map Some (apply_vmut m v)
  | _, _ => None
  end.

Definition apply_rmut (mu : rmut) (r : reset) : option reset :=
  let mk id ord var tst tv tvid rv rvid :=
    {| r_id := id; r_order := ord; r_var := var; r_test := tst; r_tv := tv; r_tv_id := tvid; r_rv := rv; r_rv_id := rvid |} in
  match mu with
  | RId s => Some (mk s (r_order r) (r_var r) (r_test r) (r_tv r) (r_tv_id r) (r_rv r) (r_rv_id r))
  | ROrder z => Some (mk (r_id r) z (r_var r) (r_test r) (r_tv r) (r_tv_id r) (r_rv r) (r_rv_id r))
  | RVar m => option_map (fun o => mk (r_id r) (r_order r) o (r_test r) (r_tv r) (r_tv_id r) (r_rv r) (r_rv_id r))
                         (apply_ovmut m (r_var r))
  | RTest m => option_map (fun o => mk (r_id r) (r_order r) (r_var r) o (r_tv r) (r_tv_id r) (r_rv r) (r_rv_id r))
                          (apply_ovmut m (r_test r))
  | RTestValue s => Some (mk (r_id r) (r_order r) (r_var r) (r_test r) s (r_tv_id r) (r_rv r) (r_rv_id r))
  | RTestValueId s => Some (mk (r_id r) (r_order r) (r_var r) (r_test r) (r_tv r) s (r_rv r) (r_rv_id r))
  | RResetValue s => Some (mk (r_id r) (r_order r) (r_var r) (r_test r) (r_tv r) (r_tv_id r) s (r_rv_id r))
  | RResetValueId s => Some (mk (r_id r) (r_order r) (r_var r) (r_test r) (r_tv r) (r_tv_id r) (r_rv r) s)
  end.

Definition mk_shell nm id enc math imp ref vars resets : cshell :=
  {| c_name := nm; c_id := id; c_encid := enc; c_math := math; c_imp := imp; c_impref := ref;
     c_vars := vars; c_resets := resets |}.

(** mutations of a component that do not touch its child components *)
Definition apply_shell_mut (mu : cmut) (s : cshell) : option cshell :=
  let mk := mk_shell in
  match mu with
  | CName x => Some (mk x (c_id s) (c_encid s) (c_math s) (c_imp s) (c_impref s) (c_vars s) (c_resets s))
  | CId x => Some (mk (c_name s) x (c_encid s) (c_math s) (c_imp s) (c_impref s) (c_vars s) (c_resets s))
  | CEncId x => Some (mk (c_name s) (c_id s) x (c_math s) (c_imp s) (c_impref s) (c_vars s) (c_resets s))
  | CMath x => Some (mk (c_name s) (c_id s) (c_encid s) x (c_imp s) (c_impref s) (c_vars s) (c_resets s))
  | CImp m => option_map (fun p => mk (c_name s) (c_id s) (c_encid s) (c_math s) (fst p) (snd p) (c_vars s) (c_resets s))
                         (apply_impmut m (c_imp s) (c_impref s))
  | CVarAdd v => Some (mk (c_name s) (c_id s) (c_encid s) (c_math s) (c_imp s) (c_impref s) (c_vars s ++ [v]) (c_resets s))
  | CVarRemove i => option_map (fun l => mk (c_name s) (c_id s) (c_encid s) (c_math s) (c_imp s) (c_impref s) l (c_resets s))
                               (remove_nth i (c_vars s))
  | CVar i m => option_map (fun l => mk (c_name s) (c_id s) (c_encid s) (c_math s) (c_imp s) (c_impref s) l (c_resets s))
                           (set_nth i (apply_vmut m) (c_vars s))
  | CResetAdd r => Some (mk (c_name s) (c_id s) (c_encid s) (c_math s) (c_imp s) (c_impref s) (c_vars s) (c_resets s ++ [r]))
  | CResetRemove i => option_map (fun l => mk (c_name s) (c_id s) (c_encid s) (c_math s) (c_imp s) (c_impref s) (c_vars s) l)
                                 (remove_nth i (c_resets s))
  | CReset i m => option_map (fun l => mk (c_name s) (c_id s) (c_encid s) (c_math s) (c_imp s) (c_impref s) (c_vars s) l)
                             (set_nth i (apply_rmut m) (c_resets s))
  | CKidAdd _ | CKidRemove _ | CKid _ _ => None
  end.

Fixpoint apply_cmut (mu : cmut) (c : component) {struct mu} : option component :=
  match c with
  | Comp s ks =>
      match mu with
      | CKidAdd k => Some (Comp s (ks ++ [k]))
      | CKidRemove i => option_map (Comp s) (remove_nth i ks)
      | CKid i m => option_map (Comp s) (set_nth i (apply_cmut m) ks)
      | other => option_map (fun s' => Comp s' ks) (apply_shell_mut other s)
      end
  end.

Definition apply_mmut (mu : mmut) (m : model) : option model :=
  let mk nm id enc us cs := {| m_name := nm; m_id := id; m_encid := enc; m_units := us; m_comps := cs |} in
  match mu with
  | MName s => Some (mk s (m_id m) (m_encid m) (m_units m) (m_comps m))
  | MId s => Some (mk (m_name m) s (m_encid m) (m_units m) (m_comps m))
  | MEncId s => Some (mk (m_name m) (m_id m) s (m_units m) (m_comps m))
  | MUnitsAdd u => Some (mk (m_name m) (m_id m) (m_encid m) (m_units m ++ [u]) (m_comps m))
  | MUnitsRemove i => option_map (fun l => mk (m_name m) (m_id m) (m_encid m) l (m_comps m)) (remove_nth i (m_units m))
  | MUnits i mu' => option_map (fun l => mk (m_name m) (m_id m) (m_encid m) l (m_comps m))
                               (set_nth i (apply_umut mu') (m_units m))
  | MCompAdd c => Some (mk (m_name m) (m_id m) (m_encid m) (m_units m) (m_comps m ++ [c]))
  | MCompRemove i => option_map (fun l => mk (m_name m) (m_id m) (m_encid m) (m_units m) l) (remove_nth i (m_comps m))
  | MComp i mu' => option_map (fun l => mk (m_name m) (m_id m) (m_encid m) (m_units m) l)
                              (set_nth i (apply_cmut mu') (m_comps m))
  end.

Definition apply_emut (mu : emut) (e : entity) : option entity :=
  match mu, e with
  | MutModel m, EModel x => option_map EModel (apply_mmut m x)
  | MutComponent m, EComponent x => option_map EComponent (apply_cmut m x)
  | MutVariable m, EVariable x => option_map EVariable (apply_vmut m x)
  | MutUnits m, EUnits x => option_map EUnits (apply_umut m x)
  | MutReset m, EReset x => option_map EReset (apply_rmut m x)
  | MutImportSource m, EImportSource x => option_map EImportSource (apply_imut m x)
  | _, _ => None
  end.

(** [changes_* neq mu x] : the value written by the mutation at its leaf differs from the value it
    replaces (strings: different; doubles: not [neq]-equal; add / remove / set / clear always change). *)
Section Changes.
  Variable neq : Q -> Q -> bool.

  Definition sneq (a b : string) : bool := negb (String.eqb a b).

  Definition changes_imut (mu : imut) (i : isrc) : bool :=
    match mu with IUrl s => sneq s (is_url i) | IId s => sneq s (is_id i) end.

  Definition changes_impmut (mu : impmut) (imp : option isrc) (ref : string) : bool :=
    match mu, imp with
    | ImpRef s, _ => sneq s ref
    | ImpSrc m, Some i => changes_imut m i
    | _, _ => true
    end.

  Definition changes_dmut (mu : dmut) (d : unitdef) : bool :=
    match mu with
    | DRef s => sneq s (ud_ref d) | DPrefix s => sneq s (ud_prefix d) | DId s => sneq s (ud_id d)
    | DExp q => negb (neq q (ud_exp d)) | DMult q => negb (neq q (ud_mult d))
    end.

  Definition changes_at {A} (f : A -> bool) (i : nat) (l : list A) : bool :=
    match nth_error l i with Some x => f x | None => false end.

  Definition changes_umut (mu : umut) (u : units) : bool :=
    match mu with
    | UName s => sneq s (u_name u) | UId s => sneq s (u_id u)
    | UImp m => changes_impmut m (u_imp u) (u_impref u)
    | UDefAdd _ | UDefRemove _ => true
    | UDef i m => changes_at (changes_dmut m) i (u_defs u)
    end.

  Definition changes_vmut (mu : vmut) (v : variable) : bool :=
    match mu with
    | VName s => sneq s (v_name v) | VId s => sneq s (v_id v) | VInit s => sneq s (v_init v)
    | VIface s => sneq s (v_iface v)
    | VUnitsSet _ | VUnitsClear => true
    | VUnits m => match v_units v with Some u => changes_umut m u | None => false end
    end.

  Definition changes_ovmut (mu : ovmut) (o : option variable) : bool :=
    match mu, o with
    | OVMut m, Some v => changes_vmut m v
    | OVMut _, None => false
    | _, _ => true
    end.

  Definition changes_rmut (mu : rmut) (r : reset) : bool :=
    match mu with
    | RId s => sneq s (r_id r) | ROrder z => negb (Z.eqb z (r_order r))
    | RVar m => changes_ovmut m (r_var r) | RTest m => changes_ovmut m (r_test r)
    | RTestValue s => sneq s (r_tv r) | RTestValueId s => sneq s (r_tv_id r)
    | RResetValue s => sneq s (r_rv r) | RResetValueId s => sneq s (r_rv_id r)
    end.

  Fixpoint changes_cmut (mu : cmut) (c : component) {struct mu} : bool :=
    match c with
    | Comp s ks =>
        match mu with
        | CName x => sneq x (c_name s) | CId x => sneq x (c_id s) | CEncId x => sneq x (c_encid s)
        | CMath x => sneq x (c_math s)
        | CImp m => changes_impmut m (c_imp s) (c_impref s)
        | CVarAdd _ | CVarRemove _ | CResetAdd _ | CResetRemove _ | CKidAdd _ | CKidRemove _ => true
        | CVar i m => changes_at (changes_vmut m) i (c_vars s)
        | CReset i m => changes_at (changes_rmut m) i (c_resets s)
        | CKid i m => changes_at (changes_cmut m) i ks
        end
    end.

  Definition changes_mmut (mu : mmut) (m : model) : bool :=
    match mu with
    | MName s => sneq s (m_name m) | MId s => sneq s (m_id m) | MEncId s => sneq s (m_encid m)
    | MUnitsAdd _ | MUnitsRemove _ | MCompAdd _ | MCompRemove _ => true
    | MUnits i mu' => changes_at (changes_umut mu') i (m_units m)
    | MComp i mu' => changes_at (changes_cmut mu') i (m_comps m)
    end.

  Definition changes_emut (mu : emut) (e : entity) : bool :=
    match mu, e with
    | MutModel m, EModel x => changes_mmut m x
    | MutComponent m, EComponent x => changes_cmut m x
    | MutVariable m, EVariable x => changes_vmut m x
    | MutUnits m, EUnits x => changes_umut m x
    | MutReset m, EReset x => changes_rmut m x
    | MutImportSource m, EImportSource x => changes_imut m x
    | _, _ => false
    end.
End Changes.

(** mutations that add or remove a VARIABLE somewhere (the class in which the code as it is — no count
    test in equalVariables — fails to notice the change in one direction) *)
Fixpoint cmut_varcount (mu : cmut) : bool :=
  match mu with
  | CVarAdd _ | CVarRemove _ => true
  | CKid _ m => cmut_varcount m
  | _ => false
  end.
