(** IdsWitness.v — concrete witnesses (by computation) for the C13 refutations and non-vacuity examples. *)
From Coq Require Import String Ascii List NArith Arith Bool.
From LC Require Import Common IdsDefs IdsProofs IdsProofs2 IdsProofs3 IdsProofs4 IdsHash IdsMulti.
Import ListNotations.
Open Scope string_scope.
Open Scope list_scope.

(* a model with one top-level component: slots 0 model, 1 encapsulation, 2 component, 3 its component_ref, 4 an id inside its MathML *)
Definition st_one : structure :=
  {| st_model := 0; st_enc := 1; st_units := [];
     st_comps := [ {| cs_slot := 2; cs_imp := None; cs_enc := 3; cs_top := true; cs_kids := false; cs_sib := 0;
                      cs_vars := []; cs_resets := []; cs_math := [4] |} ] |}.
Definition ids5 : list string := [""; ""; ""; ""; ""].

(* two components with one variable each, the variables equivalent: 4 and 7 the variables, 8 mapping, 9 connection *)
Definition st_eq : structure :=
  {| st_model := 0; st_enc := 1; st_units := [];
     st_comps := [ {| cs_slot := 2; cs_imp := None; cs_enc := 3; cs_top := true; cs_kids := false; cs_sib := 0;
                      cs_vars := [ {| vs_slot := 4; vs_eqs := [ {| es_map := 8; es_conn := 9; es_other := 7 |} ] |} ];
                      cs_resets := []; cs_math := [] |};
                   {| cs_slot := 5; cs_imp := None; cs_enc := 6; cs_top := true; cs_kids := false; cs_sib := 1;
                      cs_vars := [ {| vs_slot := 7; vs_eqs := [ {| es_map := 8; es_conn := 9; es_other := 4 |} ] |} ];
                      cs_resets := []; cs_math := [] |} ] |}.
Definition ids10 : list string := [""; ""; ""; ""; ""; ""; ""; ""; ""; ""].

(* two imported components that share one import source (slot 6) *)
Definition st_imp : structure :=
  {| st_model := 0; st_enc := 1; st_units := [];
     st_comps := [ {| cs_slot := 2; cs_imp := Some 6; cs_enc := 3; cs_top := true; cs_kids := false; cs_sib := 0;
                      cs_vars := []; cs_resets := []; cs_math := [] |};
                   {| cs_slot := 4; cs_imp := Some 6; cs_enc := 5; cs_top := true; cs_kids := false; cs_sib := 1;
                      cs_vars := []; cs_resets := []; cs_math := [] |} ] |}.
Definition ids7 : list string := [""; ""; ""; ""; ""; ""; "imp"].

(* one component with two variables (slots 4 and 5) *)
Definition st_two_vars : structure :=
  {| st_model := 0; st_enc := 1; st_units := [];
     st_comps := [ {| cs_slot := 2; cs_imp := None; cs_enc := 3; cs_top := true; cs_kids := false; cs_sib := 0;
                      cs_vars := [ {| vs_slot := 4; vs_eqs := [] |}; {| vs_slot := 5; vs_eqs := [] |} ];
                      cs_resets := []; cs_math := [] |} ] |}.

Definition cfg_no_refresh := {| fx_refresh := false; fx_hash := true; fx_import := true |}.
Definition cfg_no_hash := {| fx_refresh := true; fx_hash := false; fx_import := true |}.
Definition cfg_no_import := {| fx_refresh := true; fx_hash := true; fx_import := false |}.

(* DESIGN row 20: setModel(m); c->setId("b4da55"); assignAllIds()  =>  model and component both carry b4da55 *)
Definition stale_history : list op := [OSetModel; OEdit 2 "b4da55"; OAssignAll].
Lemma stale_witness :
  let s := fst (run cfg_no_refresh st_one (init ids5) [OSetModel; OEdit 2 "b4da55"]) in
  let s' := fst (assign_all cfg_no_refresh st_one s) in
  a_has_model (s_ann s) = true /\ slots_in_range st_one (length (s_ids s)) = true /\
  get (s_ids s) 4 = "" /\ get (s_ids s) 0 = "" /\ get (s_ids s') 0 = "b4da55" /\ get (s_ids s) 2 = "b4da55" /\
  In 2 (all_slots st_one).
Proof. vm_compute. repeat split; auto 30. Qed.

(* ... and the same history is handled by the repaired code *)
Lemma stale_fixed :
  let s' := fst (run cfg_fixed st_one (init ids5) stale_history) in
  get (s_ids s') 0 = "b4da56" /\ get (s_ids s') 2 = "b4da55".
Proof. vm_compute. split; reflexivity. Qed.

(* DESIGN row 21: setModel(m); setEquivalenceMappingId(v, w, "b4da55"); ids()  =>  empty *)
Lemma hash_blind_witness :
  let r := run cfg_no_hash st_eq (init ids10) [OSetModel; OEdit 8 "b4da55"; OIds] in
  snd r = [RNone; RNone; RStrs []] /\ get (s_ids (fst r)) 8 = "b4da55" /\ In (KMap, 8) (positions st_eq).
Proof. vm_compute. repeat split; auto 30. Qed.
Lemma hash_blind_fixed :
  snd (run cfg_fixed st_eq (init ids10) [OSetModel; OEdit 8 "b4da55"; OIds]) = [RNone; RNone; RStrs ["b4da55"]].
Proof. vm_compute. reflexivity. Qed.
(* on the code before the repairs the stale list then hands the id out again *)
Lemma hash_blind_duplicate :
  let r := run cfg_pinned st_eq (init ids10) [OSetModel; OEdit 8 "b4da55"; OAssignItem (vis KModel 0)] in
  get (s_ids (fst r)) 0 = "b4da55" /\ get (s_ids (fst r)) 8 = "b4da55".
Proof. vm_compute. split; reflexivity. Qed.

(* a shared import source was listed once per importing entity *)
Lemma import_shared_witness :
  item_count_of (build_cache cfg_no_import st_imp ids7) "imp" = 2 /\
  item_of (build_cache cfg_no_import st_imp ids7) "imp" = None /\
  length (filter (fun p => String.eqb (get ids7 (snd p)) "imp") (positions st_imp)) = 1.
Proof. vm_compute. repeat split; reflexivity. Qed.
Lemma import_shared_fixed :
  item_count_of (build_cache cfg_fixed st_imp ids7) "imp" = 1 /\
  item_of (build_cache cfg_fixed st_imp ids7) "imp" = Some (mk_entry "imp" (vis KImport 6)).
Proof. vm_compute. split; reflexivity. Qed.

(* found by this check: the hash stored by assignId described the model BEFORE the assignment, so a model that
   returns to that state is looked up in the list built AFTER it *)
Lemma aba_witness :
  let r := run cfg_pinned st_one (init ids5) [OSetModel; OEdit 1 "x"; OAssignItem (vis KEncaps 1); OEdit 1 "x"; OIds] in
  nth 4 (snd r) RNone = RStrs ["b4da55"] /\ s_ids (fst r) = [""; "x"; ""; ""; ""].
Proof. vm_compute. split; reflexivity. Qed.
Lemma aba_fixed :
  nth 4 (snd (run cfg_fixed st_one (init ids5) [OSetModel; OEdit 1 "x"; OAssignItem (vis KEncaps 1); OEdit 1 "x"; OIds])) RNone
  = RStrs ["x"].
Proof. vm_compute. reflexivity. Qed.

(* DESIGN row 34: an id on a MathML element is invisible to the annotator (repaired code too) *)
Lemma math_witness :
  let s := fst (run cfg_fixed st_one (init ids5) [OEdit 4 "b4da55"; OSetModel]) in
  let s' := fst (assign_type cfg_fixed st_one KModel s) in
  a_has_model (s_ann s) = true /\ slots_in_range st_one (length (s_ids s)) = true /\
  get (s_ids s) 0 = "" /\ get (s_ids s') 0 = "b4da55" /\ get (s_ids s) 4 = "b4da55" /\ In 4 (all_slots st_one).
Proof. vm_compute. repeat split; auto 30. Qed.

(* the separator-based hash string is ambiguous for ids that contain '=' (repaired code too) *)
Lemma hash_ambiguous_witness :
  let a := [""; ""; ""; ""; ""; "v=1"] in
  let b := [""; ""; ""; ""; "v=1"; ""] in
  hash_string cfg_fixed st_two_vars a = hash_string cfg_fixed st_two_vars b /\
  build_cache cfg_fixed st_two_vars a <> build_cache cfg_fixed st_two_vars b.
Proof. vm_compute. split; [reflexivity | discriminate]. Qed.

(* non-vacuity: the hypotheses of the assignment theorems are satisfiable and the conclusions are about ids that
   are really handed out *)
Lemma nonvacuous_all :
  let s := fst (run cfg_fixed st_eq (init ids10) [OEdit 4 "b4da56"; OSetModel; OEdit 2 "b4da55"]) in
  a_has_model (s_ann s) = true /\ slots_in_range st_eq (length (s_ids s)) = true /\
  (forall m, In m (math_slots st_eq) -> get (s_ids s) m = "") /\
  s_ids (fst (assign_all cfg_fixed st_eq s)) =
    ["b4da57"; "b4da5c"; "b4da55"; ""; "b4da56"; "b4da5a"; ""; "b4da5b"; "b4da59"; "b4da58"] /\
  snd (assign_all cfg_fixed st_eq s) = true.
Proof. vm_compute. repeat split; auto. intros x []. Qed.

Lemma nonvacuous_wf : wf cfg_fixed st_eq 10 = true /\ wf cfg_fixed st_imp 7 = true /\ wf cfg_no_import st_imp 7 = false.
Proof. vm_compute. repeat split; reflexivity. Qed.

Lemma nonvacuous_print :
  print_ids st_eq ["m"; ""; "b4da55"; ""; ""; ""; ""; "b4da56"; ""; ""] =
  (["m"; "b4da55"; "b4da57"; "b4da58"; "b4da56"; "b4da59"; "b4da5a"], true).
Proof. vm_compute. reflexivity. Qed.

(* ------------------------------------------------------------------------------------------------ the refutations as statements *)

(* the negation of the conclusion of assign_all_fresh, for the code without the refresh *)
Theorem assign_stale_refuted :
  exists c st s, fx_refresh c = false /\
    a_has_model (s_ann s) = true /\ slots_in_range st (length (s_ids s)) = true /\
    (forall m, In m (math_slots st) -> get (s_ids s) m = "") /\
    exists slot slot', get (s_ids s) slot = "" /\ In slot' (all_slots st) /\ slot' <> slot /\
      get (s_ids (fst (assign_all c st s))) slot <> "" /\
      get (s_ids s) slot' = get (s_ids (fst (assign_all c st s))) slot.
Proof.
  exists cfg_no_refresh, st_one, (fst (run cfg_no_refresh st_one (init ids5) [OSetModel; OEdit 2 "b4da55"])).
  split; [reflexivity|]. split; [reflexivity|]. split; [reflexivity|].
  split; [intros m [<-|[]]; reflexivity|].
  exists 0, 2. vm_compute. repeat split; auto 10; discriminate.
Qed.

Theorem hash_blind_refuted :
  exists c st h ids slot, fx_hash c = false /\ fx_refresh c = true /\
    let r := run c st (init ids) (h ++ [OIds]) in
    In (KMap, slot) (positions st) /\ get (s_ids (fst r)) slot = "b4da55" /\ last (snd r) RNone = RStrs [].
Proof.
  exists cfg_no_hash, st_eq, [OSetModel; OEdit 8 "b4da55"], ids10, 8. vm_compute. repeat split; auto 30.
Qed.

Theorem import_shared_refuted :
  exists c st ids x, fx_import c = false /\
    item_count_of (build_cache c st ids) x <> length (filter (fun p => String.eqb (get ids (snd p)) x) (positions st)).
Proof. exists cfg_no_import, st_imp, ids7, "imp". vm_compute. split; [reflexivity | discriminate]. Qed.

Theorem lookup_after_assign_refuted :
  exists st h ids, last (snd (run cfg_pinned st (init ids) (h ++ [OIds]))) RNone = RStrs ["b4da55"] /\
                   forall slot, get (s_ids (fst (run cfg_pinned st (init ids) (h ++ [OIds])))) slot <> "b4da55".
Proof.
  exists st_one, [OSetModel; OEdit 1 "x"; OAssignItem (vis KEncaps 1); OEdit 1 "x"], ids5.
  split; [vm_compute; reflexivity|]. intro slot.
  replace (s_ids (fst (run cfg_pinned st_one (init ids5)
            ([OSetModel; OEdit 1 "x"; OAssignItem (vis KEncaps 1); OEdit 1 "x"] ++ [OIds])))) with [""; "x"; ""; ""; ""]
    by (vm_compute; reflexivity).
  do 5 (destruct slot as [|slot]; [vm_compute; discriminate|]). unfold get. destruct slot; simpl; discriminate.
Qed.

Theorem assign_fresh_math_refuted :
  exists st s, a_has_model (s_ann s) = true /\ slots_in_range st (length (s_ids s)) = true /\
    exists slot m, In m (math_slots st) /\ get (s_ids s) slot = "" /\
      get (s_ids (fst (assign_type cfg_fixed st KModel s))) slot <> "" /\
      get (s_ids s) m = get (s_ids (fst (assign_type cfg_fixed st KModel s))) slot.
Proof.
  exists st_one, (fst (run cfg_fixed st_one (init ids5) [OEdit 4 "b4da55"; OSetModel])).
  split; [reflexivity|]. split; [reflexivity|]. exists 0, 4. vm_compute. repeat split; auto; discriminate.
Qed.

Theorem hash_ambiguous_refuted :
  exists st a b, hash_string cfg_fixed st a = hash_string cfg_fixed st b /\
                 build_cache cfg_fixed st a <> build_cache cfg_fixed st b.
Proof. exists st_two_vars, [""; ""; ""; ""; ""; "v=1"], [""; ""; ""; ""; "v=1"; ""]. exact hash_ambiguous_witness. Qed.

(* several models: the same identifiers in the same layout (a model and its clone); setModel must rebuild although
   the serialised strings agree, and the item found belongs to the model handed over last *)
Lemma multi_witness :
  let h := [MEdit 0 2 "x"; MEdit 1 2 "x"; MSetModel 0; MOp (OItem "x"); MSetModel 1; MOp (OItem "x")] in
  let r := mrun cfg_fixed [st_one; st_one] (minit [ids5; ids5] [0; 1]) h in
  hash_string cfg_fixed st_one (nth_ids (m_ids (fst r)) 0) = hash_string cfg_fixed st_one (nth_ids (m_ids (fst r)) 1) /\
  a_owner (m_ann (fst r)) = 1 /\ a_model (m_ann (fst r)) = 1 /\
  nth 5 (snd r) RNone = REntry (Some (mk_entry "x" (vis KComp 2))).
Proof. vm_compute. repeat split; reflexivity. Qed.

(* structural edit after hand-over: the second component of st_eq is removed (its variable 7, still equivalent to
   variable 4, is then outside the model); the hash separates the two models and the look-up answers for the new one *)
Definition st_eq_removed : structure :=
  {| st_model := 0; st_enc := 1; st_units := [];
     st_comps := [ {| cs_slot := 2; cs_imp := None; cs_enc := 3; cs_top := true; cs_kids := false; cs_sib := 0;
                      cs_vars := [ {| vs_slot := 4; vs_eqs := [ {| es_map := 8; es_conn := 9; es_other := 7 |} ] |} ];
                      cs_resets := []; cs_math := [] |} ] |}.
Lemma structural_edit_witness :
  let h := [MEdit 0 4 "a"; MEdit 0 7 "b"; MEdit 0 8 "m"; MSetModel 0; MOp OIds; MStruct 0 1; MOp OIds; MOp OAssignAll] in
  let r := mrun cfg_fixed [st_eq; st_eq_removed] (minit [ids10] [0]) h in
  let ids := ["";"";"";"";"a";"";"";"b";"m";""] in
  nth 4 (snd r) RNone = RStrs ["a"; "b"; "m"] /\ nth 6 (snd r) RNone = RStrs ["a"; "m"] /\
  hash_separates cfg_fixed st_eq ids st_eq_removed ids = true /\
  a_has_model (m_ann (fst r)) = true /\
  nth_ids (m_ids (fst r)) 0 = ["b4da55"; "b4da58"; "b4da56"; ""; "a"; ""; ""; "b"; "m"; "b4da57"].
Proof. vm_compute. repeat split; reflexivity. Qed.
