(** NumMoreProofs.v — further statements about the numeric-text recognisers (property C16), all over
    EVERY string (induction over the characters), which the correspondence run only samples:
      1. each recogniser against a grammar, both directions (non-negative integer, basic real, digit);
      2. inclusions between the recognisers, with strictness witnesses;
      3. conversion safety: accepted text is consumed ENTIRELY by the strtod / strtol prefix grammars
         and contains a digit (in the mantissa: what the "digit-less reals" fix repaired);
      4. closure facts: characters outside the alphabet (white space, non-ASCII bytes, ...) anywhere
         reject; signs only in front or right after e/E; exponent forms; at most one e/E and one '.'.
    Only specification-level definitions here (nothing is extracted from this file). *)
From Coq Require Import String Ascii List Bool Arith ZArith NArith Lia.
From LC Require Import NumDefs NumSpec NumProofs.
Import ListNotations.
Local Open Scope string_scope.
Local Open Scope bool_scope.

Lemma bool_iff_eq : forall a b : bool, (a = true <-> b = true) -> a = b.
Proof.
  intros [] [] [H1 H2]; try reflexivity.
  - symmetry. apply H1. reflexivity.
  - apply H2. reflexivity.
Qed.

(** * 1. Recognisers against grammars *)

(** The code and the automaton agree as booleans (also on rejected strings). *)
Lemma is_real_dfa_eq : forall s, is_real s = real_dfa s.
Proof. intros s. apply bool_iff_eq. apply is_real_dfa. Qed.

Lemma is_int_dfa_eq : forall s, is_int s = int_dfa s.
Proof. intros s. symmetry. apply int_dfa_is_int. Qed.

(** non-negative integer = one or more digits *)
Lemma nonneg_int_iff_digits1 : forall s, is_nonneg_int s = true <-> Digits1 s.
Proof. exact nonneg_int_iff. Qed.

(** basic real: optional minus, mantissa (no exponent) *)
Inductive BasicRealG : string -> Prop :=
| BasicRealIntro : forall sg m, (sg = "" \/ sg = "-") -> MantG m -> BasicRealG (sg ++ m).

Lemma basic_real_iffG : forall s, is_basic_real s = true <-> BasicRealG s.
Proof.
  intros s. rewrite basic_real_iff. split.
  - intros (sg & m & -> & Hs & Hm). constructor; assumption.
  - intros [sg m Hs Hm]. exists sg, m. auto.
Qed.

(** isEuropeanNumericCharacter: exactly the ten ASCII digits *)
Definition ten_digits : list ascii :=
  ["0"; "1"; "2"; "3"; "4"; "5"; "6"; "7"; "8"; "9"]%char.

Fixpoint mem_ascii (c : ascii) (l : list ascii) : bool :=
  match l with [] => false | d :: r => Ascii.eqb c d || mem_ascii c r end.

Lemma is_digit_mem : forall c, is_digit c = mem_ascii c ten_digits.
Proof. intros [[] [] [] [] [] [] [] []]; reflexivity. Qed.

Lemma mem_ascii_In : forall c l, mem_ascii c l = true <-> In c l.
Proof.
  intros c. induction l as [|d r IH]; cbn [mem_ascii In].
  - split; [discriminate | contradiction].
  - rewrite orb_true_iff, IH, Ascii.eqb_eq. split; intros [H | H]; auto.
Qed.

Lemma is_digit_iff : forall c, is_digit c = true <-> In c ten_digits.
Proof. intros c. rewrite is_digit_mem. apply mem_ascii_In. Qed.

(** e / E counting *)
Lemma count_norm : forall s, count_char "e" (norm_e s) = count_char "e" s + count_char "E" s.
Proof.
  induction s as [|c r IH]; [reflexivity|].
  cbn [norm_e count_char]. rewrite IH.
  destruct (Ascii.eqb c "E") eqn:E1.
  - apply Ascii.eqb_eq in E1. subst c. cbn. lia.
  - destruct (Ascii.eqb c "e"); cbn; lia.
Qed.

Lemma noE_iff : forall s, noE s <-> count_char "e" s = 0 /\ count_char "E" s = 0.
Proof. intros s. unfold noE. rewrite count_norm. lia. Qed.

Lemma ExpG_noE_nil : forall e, ExpG e -> noE e -> e = "".
Proof.
  intros e [| ec sg ds Hec _ _] N; [reflexivity|].
  apply noE_iff in N. destruct N as [N1 N2]. cbn [count_char] in N1, N2.
  destruct Hec as [-> | ->]; [cbn in N1; discriminate N1 | cbn in N2; discriminate N2].
Qed.

Lemma noE_app_inv : forall a b, noE (a ++ b) -> noE a /\ noE b.
Proof. unfold noE. intros a b. rewrite norm_e_app, count_char_app. lia. Qed.

(** basic real = real without exponent letter *)
Lemma basic_real_iff_real_noexp : forall s,
  is_basic_real s = true <-> is_real s = true /\ count_char "e" s = 0 /\ count_char "E" s = 0.
Proof.
  intros s. rewrite <- noE_iff. split.
  - intros H. apply basic_real_iff in H. split; [|apply SMant_noE; exact H].
    apply is_real_iff, RealG_alt. exists s, "". rewrite app_nil_r_s.
    split; [reflexivity|]. split; [exact H | constructor].
  - intros [H N]. apply is_real_iff, RealG_alt in H.
    destruct H as (x & e & -> & Hx & He).
    apply noE_app_inv in N. destruct N as [_ Ne].
    rewrite (ExpG_noE_nil e He Ne), app_nil_r_s. apply basic_real_iff. exact Hx.
Qed.

(** * 2. Inclusions *)

Lemma nonneg_sub_int : forall s, is_nonneg_int s = true -> is_int s = true.
Proof.
  intros s H. apply is_int_iff. apply nonneg_int_iff in H.
  change s with ("" ++ s). apply IntIntro; auto.
Qed.

Lemma nonneg_sub_basic_real : forall s, is_nonneg_int s = true -> is_basic_real s = true.
Proof.
  intros s H. apply basic_real_iffG. apply nonneg_int_iff in H.
  change s with ("" ++ s). apply BasicRealIntro; [auto | apply MantInt; exact H].
Qed.

Lemma basic_real_sub_real : forall s, is_basic_real s = true -> is_real s = true.
Proof. intros s H. apply basic_real_iff_real_noexp in H. tauto. Qed.

Definition first_plus (s : string) : bool :=
  match s with String c _ => Ascii.eqb c "+" | EmptyString => false end.

(** an integer is a basic real exactly when it does not start with '+' *)
Lemma int_sub_basic_real : forall s, is_int s = true -> first_plus s = false -> is_basic_real s = true.
Proof.
  intros s H F. apply is_int_iff in H. destruct H as [sg ds Hs Hd].
  apply basic_real_iffG.
  destruct Hs as [-> | [-> | ->]].
  - apply BasicRealIntro; [auto | apply MantInt; exact Hd].
  - discriminate F.
  - apply BasicRealIntro; [auto | apply MantInt; exact Hd].
Qed.

Lemma plus_not_real : forall r, is_real (String "+" r) = false.
Proof.
  intros r. rewrite is_real_dfa_eq. unfold real_dfa. cbn [rrun]. rewrite rstep_plus, rrun_bad. reflexivity.
Qed.

Lemma int_real_iff_noplus : forall s, is_int s = true -> (is_real s = true <-> first_plus s = false).
Proof.
  intros s H. split.
  - destruct s as [|c r]; [reflexivity|]. cbn [first_plus].
    destruct (Ascii.eqb c "+") eqn:E; [|reflexivity].
    apply Ascii.eqb_eq in E. subst c. rewrite plus_not_real. discriminate.
  - intros F. apply basic_real_sub_real, int_sub_basic_real; assumption.
Qed.

Lemma strictness_witnesses :
  (is_int "-1" = true /\ is_nonneg_int "-1" = false) /\
  (is_basic_real "1.5" = true /\ is_int "1.5" = false) /\
  (is_real "1e5" = true /\ is_basic_real "1e5" = false) /\
  (is_int "+1" = true /\ is_real "+1" = false).
Proof. repeat split. Qed.

(** * 4a. Characters outside the alphabet reject, wherever they stand *)

Definition real_alpha (c : ascii) : bool :=
  is_digit c || Ascii.eqb c "-" || Ascii.eqb c "+" || Ascii.eqb c "." || Ascii.eqb c "e" || Ascii.eqb c "E".

Definition int_alpha (c : ascii) : bool := is_digit c || is_sign c.

Lemma real_alpha_false : forall c, real_alpha c = false -> is_digit c = false /\ not_special c.
Proof.
  unfold real_alpha, not_special. intros c H.
  repeat (apply orb_false_elim in H; let H' := fresh "H" in destruct H as [H H']).
  repeat split; assumption.
Qed.

Lemma real_alpha_class : forall c, real_alpha c = true ->
  is_space c = false /\ (nat_of_ascii c <? 128)%nat = true.
Proof.
  intros [[] [] [] [] [] [] [] []] H; vm_compute in H; try discriminate H; split; reflexivity.
Qed.

Lemma int_alpha_real_alpha : forall c, int_alpha c = true -> real_alpha c = true.
Proof.
  unfold int_alpha, real_alpha, is_sign. intros c H.
  destruct (is_digit c); [reflexivity|].
  destruct (Ascii.eqb c "-"); [reflexivity|].
  destruct (Ascii.eqb c "+"); [reflexivity|]. discriminate H.
Qed.

Lemma real_char_anywhere : forall a c b, real_alpha c = false -> is_real (a ++ String c b) = false.
Proof.
  intros a c b H. rewrite is_real_dfa_eq. unfold real_dfa. rewrite rrun_app. cbn [rrun].
  destruct (real_alpha_false c H) as [D N].
  rewrite (rstep_other c _ D N), rrun_bad. reflexivity.
Qed.

Lemma irun_app : forall a b st, irun st (a ++ b) = irun (irun st a) b.
Proof. induction a as [|c a IH]; intros b st; cbn [append irun]; [reflexivity | apply IH]. Qed.

Lemma int_char_anywhere : forall a c b, int_alpha c = false -> is_int (a ++ String c b) = false.
Proof.
  intros a c b H. rewrite is_int_dfa_eq. unfold int_dfa. rewrite irun_app. cbn [irun].
  unfold int_alpha in H. apply orb_false_elim in H. destruct H as [D S].
  assert (E : istep (irun I0 a) c = IBad) by (destruct (irun I0 a); unfold istep; rewrite ?D, ?S; reflexivity).
  rewrite E, irun_bad. reflexivity.
Qed.

Lemma basic_real_char_anywhere : forall a c b, real_alpha c = false -> is_basic_real (a ++ String c b) = false.
Proof.
  intros a c b H. destruct (is_basic_real (a ++ String c b)) eqn:E; [|reflexivity].
  apply basic_real_sub_real in E. rewrite (real_char_anywhere a c b H) in E. discriminate E.
Qed.

Lemma nonneg_char_anywhere : forall a c b, is_digit c = false -> is_nonneg_int (a ++ String c b) = false.
Proof.
  intros a c b H. destruct (is_nonneg_int (a ++ String c b)) eqn:E; [|reflexivity].
  apply nonneg_int_iff in E. destruct E as [E _]. unfold Digits in E.
  rewrite all_digits_app in E. cbn [all_digits] in E. rewrite H in E.
  rewrite andb_false_r in E. discriminate E.
Qed.

(** white space anywhere (in particular leading or trailing) and non-ASCII bytes reject *)
Lemma space_rejected : forall a c b, is_space c = true ->
  is_real (a ++ String c b) = false /\ is_basic_real (a ++ String c b) = false /\
  is_int (a ++ String c b) = false /\ is_nonneg_int (a ++ String c b) = false.
Proof.
  intros a c b H.
  assert (R : real_alpha c = false).
  { destruct (real_alpha c) eqn:E; [|reflexivity].
    apply real_alpha_class in E. destruct E as [E _]. congruence. }
  assert (I : int_alpha c = false).
  { destruct (int_alpha c) eqn:E; [|reflexivity]. apply int_alpha_real_alpha in E. congruence. }
  assert (D : is_digit c = false).
  { unfold int_alpha in I. apply orb_false_elim in I. tauto. }
  repeat split.
  - apply real_char_anywhere; exact R.
  - apply basic_real_char_anywhere; exact R.
  - apply int_char_anywhere; exact I.
  - apply nonneg_char_anywhere; exact D.
Qed.

Lemma leading_space_rejected : forall c b, is_space c = true ->
  is_real (String c b) = false /\ is_basic_real (String c b) = false /\
  is_int (String c b) = false /\ is_nonneg_int (String c b) = false.
Proof. intros c b H. exact (space_rejected "" c b H). Qed.

Lemma trailing_space_rejected : forall a c, is_space c = true ->
  is_real (a ++ String c "") = false /\ is_basic_real (a ++ String c "") = false /\
  is_int (a ++ String c "") = false /\ is_nonneg_int (a ++ String c "") = false.
Proof. intros a c H. exact (space_rejected a c "" H). Qed.

Lemma non_ascii_rejected : forall a c b, (128 <= nat_of_ascii c)%nat ->
  is_real (a ++ String c b) = false /\ is_basic_real (a ++ String c b) = false /\
  is_int (a ++ String c b) = false /\ is_nonneg_int (a ++ String c b) = false.
Proof.
  intros a c b H.
  assert (R : real_alpha c = false).
  { destruct (real_alpha c) eqn:E; [|reflexivity].
    apply real_alpha_class in E. destruct E as [_ E]. apply Nat.ltb_lt in E. lia. }
  assert (I : int_alpha c = false).
  { destruct (int_alpha c) eqn:E; [|reflexivity]. apply int_alpha_real_alpha in E. congruence. }
  assert (D : is_digit c = false).
  { unfold int_alpha in I. apply orb_false_elim in I. tauto. }
  repeat split.
  - apply real_char_anywhere; exact R.
  - apply basic_real_char_anywhere; exact R.
  - apply int_char_anywhere; exact I.
  - apply nonneg_char_anywhere; exact D.
Qed.

(** * 4b. Signs: only in front (mantissa: '-' only) or right after e/E *)

Definition is_e (c : ascii) : bool := Ascii.eqb c "e" || Ascii.eqb c "E".

Fixpoint last_is_e (s : string) : bool :=
  match s with
  | EmptyString => false
  | String c r => match r with EmptyString => is_e c | _ => last_is_e r end
  end.

Lemma rstep_not_R0 : forall st c, rstep st c <> R0.
Proof.
  intros st c.
  destruct (char_class c) as [(D & _ & _) | [-> | [-> | [-> | [-> | [-> | (D & N)]]]]]].
  - rewrite (rstep_digit c st D). destruct st; discriminate.
  - rewrite rstep_minus. destruct st; discriminate.
  - rewrite rstep_plus. destruct st; discriminate.
  - rewrite rstep_dot. destruct st; discriminate.
  - rewrite rstep_e. destruct st; discriminate.
  - rewrite rstep_E. destruct st; discriminate.
  - rewrite (rstep_other c st D N). discriminate.
Qed.

Lemma rstep_RE_is_e : forall st c, rstep st c = RE -> is_e c = true.
Proof.
  intros st c.
  destruct (char_class c) as [(D & _ & _) | [-> | [-> | [-> | [-> | [-> | (D & N)]]]]]].
  - rewrite (rstep_digit c st D). destruct st; discriminate.
  - rewrite rstep_minus. destruct st; discriminate.
  - rewrite rstep_plus. destruct st; discriminate.
  - rewrite rstep_dot. destruct st; discriminate.
  - reflexivity.
  - reflexivity.
  - rewrite (rstep_other c st D N). discriminate.
Qed.

Lemma rrun_R0_nil : forall a st, rrun st a = R0 -> a = "".
Proof.
  induction a as [|c r IH]; intros st H; [reflexivity|].
  cbn [rrun] in H. pose proof (IH _ H) as ->. cbn [rrun] in H.
  exfalso. exact (rstep_not_R0 st c H).
Qed.

Lemma rrun_RE_last : forall a st, rrun st a = RE -> (a = "" /\ st = RE) \/ last_is_e a = true.
Proof.
  induction a as [|c r IH]; intros st H; [left; auto|].
  right. cbn [rrun] in H. destruct (IH _ H) as [[-> E] | L].
  - cbn [last_is_e]. exact (rstep_RE_is_e st c E).
  - cbn [last_is_e]. destruct r; [discriminate L | exact L].
Qed.

Lemma sign_position : forall a c b, is_sign c = true -> is_real (a ++ String c b) = true ->
  (a = "" /\ c = "-"%char) \/ last_is_e a = true.
Proof.
  intros a c b S H. rewrite is_real_dfa_eq in H. unfold real_dfa in H.
  rewrite rrun_app in H. cbn [rrun] in H.
  destruct (rrun R0 a) eqn:St;
    try (exfalso; apply is_sign_true in S; destruct S as [-> | ->];
         [rewrite rstep_minus in H | rewrite rstep_plus in H]; rewrite rrun_bad in H; discriminate H).
  - left. split; [exact (rrun_R0_nil a R0 St)|].
    apply is_sign_true in S. destruct S as [-> | ->]; [reflexivity|].
    rewrite rstep_plus, rrun_bad in H. discriminate H.
  - right. destruct (rrun_RE_last a R0 St) as [[_ E] | L]; [discriminate E | exact L].
Qed.

Lemma digits_no_sign : forall s, Digits s -> count_char "-" s = 0 /\ count_char "+" s = 0.
Proof.
  induction s as [|c r IH]; intros H; [split; reflexivity|].
  apply Digits_inv in H. destruct H as [D Hr]. destruct (IH Hr) as [I1 I2].
  destruct (digit_ns c D) as [(A & B & _) _].
  cbn [count_char]. rewrite A, B, I1, I2. split; reflexivity.
Qed.

(** integer: no sign after the first character *)
Lemma int_sign_front : forall c r, is_int (String c r) = true ->
  count_char "-" r = 0 /\ count_char "+" r = 0.
Proof.
  intros c r H. cbn [is_int] in H. destruct (is_sign c).
  - apply nonneg_int_iff in H. destruct H as [H _]. apply digits_no_sign. exact H.
  - apply nonneg_int_iff in H. destruct H as [H _]. apply Digits_inv in H.
    apply digits_no_sign. tauto.
Qed.

Lemma MantG_no_sign : forall m, MantG m -> count_char "-" m = 0 /\ count_char "+" m = 0.
Proof.
  intros m [a [Ha _] | a b Ha Hb _].
  - apply digits_no_sign. exact Ha.
  - destruct (digits_no_sign a Ha) as [A1 A2]. destruct (digits_no_sign b Hb) as [B1 B2].
    rewrite !count_char_app. cbn [append count_char]. rewrite A1, A2, B1, B2. split; reflexivity.
Qed.

(** basic real: never '+', and '-' only as the first character *)
Lemma basic_real_sign_front : forall c r, is_basic_real (String c r) = true ->
  count_char "-" r = 0 /\ count_char "+" (String c r) = 0.
Proof.
  intros c r H. apply basic_real_iffG in H.
  inversion H as [sg m Hs Hm E]. destruct (MantG_no_sign m Hm) as [M1 M2].
  destruct Hs as [-> | ->].
  - cbn [append] in E. subst m. cbn [count_char] in M1. split; [lia | exact M2].
  - cbn [append] in E. injection E as <- <-. split; [exact M1 | exact M2].
Qed.

(** real: at most two signs in all, at most one e/E *)
Lemma ExpG_sign_count : forall e, ExpG e -> count_char "-" e + count_char "+" e <= 1.
Proof.
  intros e [| ec sg ds Hec Hs [Hd _]]; [cbn; lia|].
  destruct (digits_no_sign ds Hd) as [D1 D2].
  cbn [count_char]. rewrite !count_char_app, D1, D2.
  destruct Hec as [-> | ->]; destruct Hs as [-> | [-> | ->]]; cbn; lia.
Qed.

Lemma real_sign_count : forall s, is_real s = true -> count_char "-" s + count_char "+" s <= 2.
Proof.
  intros s H. apply is_real_iff in H. destruct H as [sg m e Hs Hm He].
  destruct (MantG_no_sign m Hm) as [M1 M2]. pose proof (ExpG_sign_count e He) as E.
  rewrite !count_char_app, M1, M2.
  destruct Hs as [-> | ->]; cbn; lia.
Qed.

Lemma real_one_e : forall s, is_real s = true -> count_char "e" s + count_char "E" s <= 1.
Proof.
  intros s H. rewrite is_real_eq in H. destruct (str_is_empty s); [discriminate H|].
  cbv zeta in H. rewrite count_norm in H.
  destruct (count_char "e" s + count_char "E" s <? 2)%nat eqn:K; [|discriminate H].
  apply Nat.ltb_lt in K. lia.
Qed.

Lemma MantG_one_dot : forall m, MantG m -> count_char "." m <= 1.
Proof.
  intros m [a [Ha _] | a b Ha Hb _].
  - destruct (digits_props a Ha) as (C & _). lia.
  - destruct (digits_props a Ha) as (Ca & _). destruct (digits_props b Hb) as (Cb & _).
    rewrite !count_char_app. cbn [append count_char]. rewrite Ca, Cb. cbn. lia.
Qed.

Lemma real_one_dot : forall s, is_real s = true -> count_char "." s <= 1.
Proof.
  intros s H. apply is_real_iff in H. destruct H as [sg m e Hs Hm He].
  pose proof (MantG_one_dot m Hm) as M.
  assert (E : count_char "." e = 0).
  { destruct He as [| ec sg' ds Hec Hs' [Hd _]]; [reflexivity|].
    destruct (digits_props ds Hd) as (C & _).
    cbn [count_char]. rewrite count_char_app, C.
    destruct Hec as [-> | ->]; destruct Hs' as [-> | [-> | ->]]; reflexivity. }
  rewrite !count_char_app, E.
  destruct Hs as [-> | ->]; cbn; lia.
Qed.

(** * 4c. Exponent forms: splitting at an e/E gives a basic real and an integer — as booleans *)

Lemma real_exp_split : forall x ec y, (ec = "e"%char \/ ec = "E"%char) ->
  is_real (x ++ String ec y) = is_basic_real x && is_int y.
Proof.
  intros x ec y Hec. rewrite is_real_eq.
  assert (Em : str_is_empty (x ++ String ec y) = false) by (destruct x; reflexivity).
  rewrite Em. cbv zeta.
  rewrite norm_e_app. cbn [norm_e]. rewrite (norm_e_char ec Hec).
  rewrite count_char_app. cbn [count_char]. rewrite Ascii.eqb_refl.
  destruct (Nat.eq_dec (count_char "e" (norm_e x)) 0) as [Nx | Nx].
  - destruct (Nat.eq_dec (count_char "e" (norm_e y)) 0) as [Ny | Ny].
    + rewrite Nx, Ny. cbn [Nat.add Nat.ltb Nat.leb Nat.eqb].
      rewrite (noE_norm x Nx), (noE_norm y Ny).
      rewrite split_app by (apply noE_count; exact Nx). reflexivity.
    + assert (I : is_int y = false).
      { destruct (is_int y) eqn:I; [|reflexivity]. apply is_int_iff, IntG_noE in I. contradiction. }
      rewrite I, andb_false_r.
      destruct (count_char "e" (norm_e x) + (1 + count_char "e" (norm_e y)) <? 2)%nat eqn:K; [|reflexivity].
      apply Nat.ltb_lt in K. exfalso. lia.
  - assert (B : is_basic_real x = false).
    { destruct (is_basic_real x) eqn:B; [|reflexivity]. apply basic_real_iff, SMant_noE in B. contradiction. }
    rewrite B. cbn [andb].
    destruct (count_char "e" (norm_e x) + (1 + count_char "e" (norm_e y)) <? 2)%nat eqn:K; [|reflexivity].
    apply Nat.ltb_lt in K. exfalso. lia.
Qed.

Lemma exp_forms : forall x ec y, (ec = "e"%char \/ ec = "E"%char) ->
  (is_real (x ++ String ec y) = true <-> BasicRealG x /\ IntG y).
Proof.
  intros x ec y Hec. rewrite (real_exp_split x ec y Hec), andb_true_iff, basic_real_iffG, is_int_iff.
  reflexivity.
Qed.

(** an exponent letter must be followed by at least one digit (after the optional sign) *)
Lemma exp_needs_digit : forall x ec sg, (ec = "e"%char \/ ec = "E"%char) -> (sg = "" \/ sg = "+" \/ sg = "-") ->
  is_real (x ++ String ec sg) = false.
Proof.
  intros x ec sg Hec Hs. rewrite (real_exp_split x ec sg Hec).
  destruct Hs as [-> | [-> | ->]]; apply andb_false_r.
Qed.

(** * 3. Conversion safety: the WHOLE accepted text is the literal strtod / strtol consume *)

Fixpoint skip_digits (s : string) : string :=
  match s with String c r => if is_digit c then skip_digits r else s | EmptyString => s end.

Definition starts_digit (s : string) : bool :=
  match s with String c _ => is_digit c | EmptyString => false end.

Definition strip_sign (t : string) : string :=
  match t with String c r => if is_sign c then r else t | EmptyString => t end.

(* the exponent part is consumed only if it is complete; otherwise the parse stops before the e *)
Definition strtod_exp (s : string) : string :=
  match s with
  | String c r => if is_e c
                  then (if starts_digit (strip_sign r) then skip_digits (strip_sign r) else s)
                  else s
  | EmptyString => s
  end.

Definition frac_tail (a : string) : string :=
  match a with String c r => if Ascii.eqb c "." then skip_digits r else a | EmptyString => a end.

(* digit+ ('.' digit* )? | '.' digit+ ; result: what is left *)
Definition strtod_mant (u : string) : option string :=
  if starts_digit u then Some (frac_tail (skip_digits u))
  else match u with
       | String c r => if Ascii.eqb c "." && starts_digit r then Some (skip_digits r) else None
       | EmptyString => None
       end.

(** strtod on decimal forms: None = no conversion (std::stod throws invalid_argument);
    Some rest = the characters NOT consumed (std::stod silently ignores them). *)
Definition strtod_rest (s : string) : option string :=
  match strtod_mant (strip_sign (skip_space s)) with
  | Some r => Some (strtod_exp r)
  | None => None
  end.

Definition strtol_rest (s : string) : option string :=
  let u := strip_sign (skip_space s) in
  if starts_digit u then Some (skip_digits u) else None.

Definition is_some {A} (o : option A) : bool := match o with Some _ => true | None => false end.

(** the prefix models refine NumDefs.strtod_converts / strtol_converts *)
Lemma strtod_rest_converts : forall s, strtod_converts s = is_some (strtod_rest s).
Proof.
  intros s. unfold strtod_converts, strtod_rest.
  change (match skip_space s with String c r => if is_sign c then r else skip_space s | EmptyString => skip_space s end)
    with (strip_sign (skip_space s)).
  destruct (strip_sign (skip_space s)) as [|c r]; [reflexivity|].
  unfold strtod_mant. cbn [starts_digit]. destruct (is_digit c); [reflexivity|].
  destruct (Ascii.eqb c "."); cbn [andb]; [|reflexivity].
  destruct r as [|d r']; [reflexivity|]. cbn [starts_digit]. destruct (is_digit d); reflexivity.
Qed.

Lemma strtol_rest_converts : forall s, strtol_converts s = is_some (strtol_rest s).
Proof.
  intros s. unfold strtol_converts, strtol_rest.
  change (match skip_space s with String c r => if is_sign c then r else skip_space s | EmptyString => skip_space s end)
    with (strip_sign (skip_space s)).
  cbv zeta. destruct (strip_sign (skip_space s)) as [|c r]; [reflexivity|].
  cbn [starts_digit]. destruct (is_digit c); reflexivity.
Qed.

Lemma rstep_nondigit_REDig : forall c st, (st = REDig \/ st = RESign \/ st = RDot0) ->
  is_digit c = false -> rstep st c = RBad.
Proof. intros c st [-> | [-> | ->]] D; unfold rstep; rewrite D; reflexivity. Qed.

Lemma L_REDig : forall r, raccept (rrun REDig r) = true -> skip_digits r = "".
Proof.
  induction r as [|c r IH]; intros H; [reflexivity|].
  cbn [rrun] in H. cbn [skip_digits]. destruct (is_digit c) eqn:D.
  - rewrite (rstep_digit c _ D) in H. apply IH. exact H.
  - rewrite (rstep_nondigit_REDig c REDig) in H by auto. rewrite rrun_bad in H. discriminate H.
Qed.

Lemma L_RESign : forall r, raccept (rrun RESign r) = true -> starts_digit r = true /\ skip_digits r = "".
Proof.
  intros [|c r] H; [discriminate H|].
  cbn [rrun] in H. cbn [skip_digits starts_digit]. destruct (is_digit c) eqn:D.
  - rewrite (rstep_digit c _ D) in H. split; [reflexivity | apply L_REDig; exact H].
  - rewrite (rstep_nondigit_REDig c RESign) in H by auto. rewrite rrun_bad in H. discriminate H.
Qed.

Lemma L_RE : forall r, raccept (rrun RE r) = true ->
  starts_digit (strip_sign r) = true /\ skip_digits (strip_sign r) = "".
Proof.
  intros [|c r] H; [discriminate H|].
  cbn [rrun] in H.
  destruct (char_class c) as [(D & _ & _) | [-> | [-> | [-> | [-> | [-> | (D & N)]]]]]].
  - rewrite (rstep_digit c _ D) in H. cbn [strip_sign]. rewrite (digit_not_sign c D).
    cbn [starts_digit skip_digits]. rewrite D. split; [reflexivity | apply L_REDig; exact H].
  - rewrite rstep_minus in H. change (strip_sign (String "-" r)) with r. apply L_RESign. exact H.
  - rewrite rstep_plus in H. change (strip_sign (String "+" r)) with r. apply L_RESign. exact H.
  - rewrite rstep_dot, rrun_bad in H. discriminate H.
  - rewrite rstep_e, rrun_bad in H. discriminate H.
  - rewrite rstep_E, rrun_bad in H. discriminate H.
  - rewrite (rstep_other c _ D N), rrun_bad in H. discriminate H.
Qed.

Lemma exp_consumed : forall ec r, is_e ec = true -> raccept (rrun RE r) = true -> strtod_exp (String ec r) = "".
Proof.
  intros ec r E H. apply L_RE in H. destruct H as [H1 H2].
  unfold strtod_exp. rewrite E, H1. exact H2.
Qed.

Lemma L_RFrac : forall r, raccept (rrun RFrac r) = true -> strtod_exp (skip_digits r) = "".
Proof.
  induction r as [|c r IH]; intros H; [reflexivity|].
  cbn [rrun] in H.
  destruct (char_class c) as [(D & _ & _) | [-> | [-> | [-> | [-> | [-> | (D & N)]]]]]].
  - rewrite (rstep_digit c _ D) in H. cbn [skip_digits]. rewrite D. apply IH. exact H.
  - rewrite rstep_minus, rrun_bad in H. discriminate H.
  - rewrite rstep_plus, rrun_bad in H. discriminate H.
  - rewrite rstep_dot, rrun_bad in H. discriminate H.
  - rewrite rstep_e in H. change (skip_digits (String "e" r)) with (String "e" r).
    apply exp_consumed; [reflexivity | exact H].
  - rewrite rstep_E in H. change (skip_digits (String "E" r)) with (String "E" r).
    apply exp_consumed; [reflexivity | exact H].
  - rewrite (rstep_other c _ D N), rrun_bad in H. discriminate H.
Qed.

Lemma L_RDot0 : forall r, raccept (rrun RDot0 r) = true ->
  starts_digit r = true /\ strtod_exp (skip_digits r) = "".
Proof.
  intros [|c r] H; [discriminate H|].
  cbn [rrun] in H. cbn [skip_digits starts_digit]. destruct (is_digit c) eqn:D.
  - rewrite (rstep_digit c _ D) in H. split; [reflexivity | apply L_RFrac; exact H].
  - rewrite (rstep_nondigit_REDig c RDot0) in H by auto. rewrite rrun_bad in H. discriminate H.
Qed.

Lemma L_RInt : forall r, raccept (rrun RInt r) = true -> strtod_exp (frac_tail (skip_digits r)) = "".
Proof.
  induction r as [|c r IH]; intros H; [reflexivity|].
  cbn [rrun] in H.
  destruct (char_class c) as [(D & _ & _) | [-> | [-> | [-> | [-> | [-> | (D & N)]]]]]].
  - rewrite (rstep_digit c _ D) in H. cbn [skip_digits]. rewrite D. apply IH. exact H.
  - rewrite rstep_minus, rrun_bad in H. discriminate H.
  - rewrite rstep_plus, rrun_bad in H. discriminate H.
  - rewrite rstep_dot in H. change (frac_tail (skip_digits (String "." r))) with (skip_digits r).
    apply L_RFrac. exact H.
  - rewrite rstep_e in H. change (frac_tail (skip_digits (String "e" r))) with (String "e" r).
    apply exp_consumed; [reflexivity | exact H].
  - rewrite rstep_E in H. change (frac_tail (skip_digits (String "E" r))) with (String "E" r).
    apply exp_consumed; [reflexivity | exact H].
  - rewrite (rstep_other c _ D N), rrun_bad in H. discriminate H.
Qed.

Lemma L_RSign : forall u, raccept (rrun RSign u) = true ->
  exists x, strtod_mant u = Some x /\ strtod_exp x = "".
Proof.
  intros [|c r] H; [discriminate H|].
  cbn [rrun] in H.
  destruct (char_class c) as [(D & _ & _) | [-> | [-> | [-> | [-> | [-> | (D & N)]]]]]].
  - rewrite (rstep_digit c _ D) in H. unfold strtod_mant. cbn [starts_digit]. rewrite D.
    eexists. split; [reflexivity|]. cbn [skip_digits]. rewrite D. apply L_RInt. exact H.
  - rewrite rstep_minus, rrun_bad in H. discriminate H.
  - rewrite rstep_plus, rrun_bad in H. discriminate H.
  - rewrite rstep_dot in H. apply L_RDot0 in H. destruct H as [H1 H2].
    change (strtod_mant (String "." r)) with (if starts_digit r then Some (skip_digits r) else None).
    rewrite H1. eexists. split; [reflexivity | exact H2].
  - rewrite rstep_e, rrun_bad in H. discriminate H.
  - rewrite rstep_E, rrun_bad in H. discriminate H.
  - rewrite (rstep_other c _ D N), rrun_bad in H. discriminate H.
Qed.

Lemma dfa_strtod_whole : forall s, real_dfa s = true -> strtod_rest s = Some "".
Proof.
  intros [|c r] H; [discriminate H|].
  unfold real_dfa in H. cbn [rrun] in H.
  destruct (char_class c) as [(D & S & N) | [-> | [-> | [-> | [-> | [-> | (D & N)]]]]]].
  - assert (H' : raccept (rrun RSign (String c r)) = true).
    { cbn [rrun]. rewrite (rstep_digit c _ D). rewrite (rstep_digit c _ D) in H. exact H. }
    apply L_RSign in H'. destruct H' as (x & Hx & Ex).
    unfold strtod_rest. cbn [skip_space]. rewrite S. cbn [strip_sign]. rewrite (digit_not_sign c D).
    rewrite Hx, Ex. reflexivity.
  - rewrite rstep_minus in H. apply L_RSign in H. destruct H as (x & Hx & Ex).
    change (strtod_rest (String "-" r))
      with (match strtod_mant r with Some x => Some (strtod_exp x) | None => None end).
    rewrite Hx, Ex. reflexivity.
  - rewrite rstep_plus, rrun_bad in H. discriminate H.
  - assert (H' : raccept (rrun RSign (String "." r)) = true) by exact H.
    apply L_RSign in H'. destruct H' as (x & Hx & Ex).
    change (strtod_rest (String "." r))
      with (match strtod_mant (String "." r) with Some x => Some (strtod_exp x) | None => None end).
    rewrite Hx, Ex. reflexivity.
  - rewrite rstep_e, rrun_bad in H. discriminate H.
  - rewrite rstep_E, rrun_bad in H. discriminate H.
  - rewrite (rstep_other c _ D N), rrun_bad in H. discriminate H.
Qed.

Lemma real_strtod_whole : forall s, is_real s = true -> strtod_rest s = Some "".
Proof. intros s H. apply dfa_strtod_whole. rewrite <- is_real_dfa_eq. exact H. Qed.

Lemma basic_real_strtod_whole : forall s, is_basic_real s = true -> strtod_rest s = Some "".
Proof. intros s H. apply real_strtod_whole, basic_real_sub_real. exact H. Qed.

Lemma skip_digits_all : forall s, all_digits s = true -> skip_digits s = "".
Proof.
  induction s as [|c r IH]; intros H; [reflexivity|].
  cbn [all_digits] in H. apply andb_prop in H. destruct H as [D H].
  cbn [skip_digits]. rewrite D. apply IH. exact H.
Qed.

Lemma int_strtol_whole : forall s, is_int s = true -> strtol_rest s = Some "".
Proof.
  intros [|c r] H; [discriminate H|].
  cbn [is_int] in H. destruct (is_sign c) eqn:S.
  - apply nonneg_int_iff in H. destruct H as [Hd Hn].
    destruct r as [|d r']; [congruence|].
    pose proof Hd as Hd'. apply Digits_inv in Hd'. destruct Hd' as [D _].
    assert (E : strtol_rest (String c (String d r')) =
                (if starts_digit (String d r') then Some (skip_digits (String d r')) else None)).
    { apply is_sign_true in S. destruct S as [-> | ->]; reflexivity. }
    rewrite E. cbn [starts_digit]. rewrite D. rewrite (skip_digits_all _ Hd). reflexivity.
  - apply nonneg_int_iff in H. destruct H as [Hd _].
    pose proof Hd as Hd'. apply Digits_inv in Hd'. destruct Hd' as [D _].
    destruct (digit_ns c D) as [_ Sp].
    unfold strtol_rest. cbn [skip_space]. rewrite Sp. cbn [strip_sign]. rewrite S.
    cbn [starts_digit]. rewrite D. rewrite (skip_digits_all _ Hd). reflexivity.
Qed.

Lemma nonneg_strtol_whole : forall s, is_nonneg_int s = true -> strtol_rest s = Some "".
Proof. intros s H. apply int_strtol_whole, nonneg_sub_int. exact H. Qed.

(** the prefix grammars do drop trailing text silently: the recognisers are what prevents it *)
Lemma prefix_models_drop_tails :
  strtod_rest "1.5x" = Some "x" /\ strtod_rest " -1e" = Some "e" /\ strtod_rest "1e+" = Some "e+" /\
  strtod_rest "1.2.3" = Some ".3" /\ strtod_rest "-." = None /\
  strtol_rest " +12abc" = Some "abc" /\ strtol_rest "1.5" = Some ".5" /\ strtol_rest "+" = None /\
  is_real "1.5x" = false /\ is_real " -1e" = false /\ is_real "1e+" = false /\ is_real "1.2.3" = false /\
  is_int " +12abc" = false /\ is_int "1.5" = false.
Proof. repeat split. Qed.

(** * 3b. At least one digit, and in the mantissa (the "digit-less reals" fix) *)

Fixpoint has_digit (s : string) : bool :=
  match s with EmptyString => false | String c r => is_digit c || has_digit r end.

(* the text before the first e/E: the significand *)
Fixpoint before_e (s : string) : string :=
  match s with
  | EmptyString => EmptyString
  | String c r => if is_e c then EmptyString else String c (before_e r)
  end.

Definition needs_md (st : rstate) : bool :=
  match st with R0 | RSign | RDot0 => true | _ => false end.

Lemma run_mant_digit : forall s st, needs_md st = true -> raccept (rrun st s) = true ->
  has_digit (before_e s) = true.
Proof.
  induction s as [|c r IH]; intros st N H.
  - destruct st; discriminate.
  - cbn [rrun] in H.
    destruct (char_class c) as [(D & _ & (_ & _ & _ & E1 & E2)) | [-> | [-> | [-> | [-> | [-> | (D & N')]]]]]].
    + cbn [before_e]. unfold is_e. rewrite E1, E2. cbn [orb has_digit]. rewrite D. reflexivity.
    + rewrite rstep_minus in H. change (has_digit (before_e (String "-" r))) with (has_digit (before_e r)).
      destruct st; try discriminate N; try (rewrite rrun_bad in H; discriminate H).
      apply (IH RSign); [reflexivity | exact H].
    + rewrite rstep_plus in H.
      destruct st; try discriminate N; rewrite rrun_bad in H; discriminate H.
    + rewrite rstep_dot in H. change (has_digit (before_e (String "." r))) with (has_digit (before_e r)).
      destruct st; try discriminate N; try (rewrite rrun_bad in H; discriminate H);
        (apply (IH RDot0); [reflexivity | exact H]).
    + rewrite rstep_e in H.
      destruct st; try discriminate N; rewrite rrun_bad in H; discriminate H.
    + rewrite rstep_E in H.
      destruct st; try discriminate N; rewrite rrun_bad in H; discriminate H.
    + rewrite (rstep_other c st D N'), rrun_bad in H. discriminate H.
Qed.

Lemma real_mantissa_digit : forall s, is_real s = true -> has_digit (before_e s) = true.
Proof.
  intros s H. rewrite is_real_dfa_eq in H. apply (run_mant_digit s R0); [reflexivity | exact H].
Qed.

Lemma has_digit_before_e : forall s, has_digit (before_e s) = true -> has_digit s = true.
Proof.
  induction s as [|c r IH]; intros H; [discriminate H|].
  cbn [before_e] in H. cbn [has_digit]. destruct (is_e c); [discriminate H|].
  cbn [has_digit] in H. destruct (is_digit c); [reflexivity|]. apply IH. exact H.
Qed.

Lemma real_has_digit : forall s, is_real s = true -> has_digit s = true.
Proof. intros s H. apply has_digit_before_e, real_mantissa_digit. exact H. Qed.

Lemma basic_real_has_digit : forall s, is_basic_real s = true -> has_digit s = true.
Proof. intros s H. apply real_has_digit, basic_real_sub_real. exact H. Qed.

Lemma int_has_digit : forall s, is_int s = true -> has_digit s = true.
Proof.
  intros s H. apply is_int_iff in H. destruct H as [sg ds Hs Hd].
  destruct (Digits1_inv _ Hd) as (c & r & -> & D & _).
  destruct Hs as [-> | [-> | ->]]; cbn [append has_digit]; rewrite D; apply orb_true_r || reflexivity.
Qed.

(** before the fix, digit-less mantissas were accepted, and some made std::stod throw *)
Lemma unfixed_digitless :
  (is_real_gen false "-" = true /\ has_digit "-" = false /\ strtod_rest "-" = None) /\
  (is_real_gen false "." = true /\ has_digit "." = false /\ strtod_rest "." = None) /\
  (is_real_gen false ".e5" = true /\ has_digit (before_e ".e5") = false /\ strtod_rest ".e5" = None) /\
  (is_real_gen false "-.E-1" = true /\ has_digit (before_e "-.E-1") = false /\ strtod_rest "-.E-1" = None).
Proof. repeat split. Qed.

Lemma more_nonvacuous :
  is_real "-1.5e+07" = true /\ strtod_rest "-1.5e+07" = Some "" /\ has_digit (before_e "-1.5e+07") = true /\
  is_real ".5E3" = true /\ strtod_rest ".5E3" = Some "" /\ is_real "5." = true /\ strtod_rest "5." = Some "" /\
  is_int "-12" = true /\ strtol_rest "-12" = Some "" /\
  BasicRealG "-0.5" /\ is_basic_real "-0.5" = true /\ is_nonneg_int "007" = true /\ Digits1 "007".
Proof.
  repeat split; try discriminate.
  apply basic_real_iffG. reflexivity.
Qed.

(** the hypotheses of the closure statements are satisfiable *)
Lemma hyps_nonvacuous :
  (is_space " " = true /\ is_space "009" = true /\ is_space "010" = true) /\
  (128 <= nat_of_ascii "200")%nat /\
  (real_alpha "x" = false /\ int_alpha "." = false /\ real_alpha "." = true) /\
  (is_sign "-" = true /\ is_real ("1e" ++ String "-" "5") = true /\ last_is_e "1e" = true) /\
  (is_sign "-" = true /\ is_real ("" ++ String "-" "5") = true) /\
  (is_int "-1" = true /\ first_plus "-1" = false /\ is_basic_real "-1" = true) /\
  (is_real ("-1.5" ++ String "E" "+07") = true /\ is_basic_real "-1.5" = true /\ is_int "+07" = true) /\
  (is_basic_real "-1.5" = true /\ count_char "e" "-1.5" = 0 /\ count_char "E" "-1.5" = 0).
Proof.
  repeat split; try reflexivity.
  apply Nat.leb_le. reflexivity.
Qed.
