(** HeapHistoryProofs.v — C09: the ownership invariant over ALL op lists from the fresh universe, with the carve-out made
    exact: which op forms preserve [Inv] unconditionally, which need which premise, and that the premise is necessary. *)
From Coq Require Import List String Bool Arith PeanoNat Lia.
From LC Require Import HeapDefs HeapBase HeapInv HeapOps HeapProofs HeapLive HeapWitness.
Import ListNotations.

(** the only op forms that can break the invariant: add* of a non-null entity *)
Definition is_add (o : op) : bool :=
  match o with
  | AddComponent _ (Some _) | AddVariable _ (Some _) | AddReset _ (Some _) | AddUnits _ (Some _) => true
  | _ => false
  end.

Lemma readds_is_add : forall s o, readds s o = true ->
  is_add o = true /\
  exists k c K, In c (children s K k) /\
    ((o = AddComponent k (Some c) /\ K = CComps) \/ (o = AddVariable k (Some c) /\ K = CVars) \/
     (o = AddReset k (Some c) /\ K = CResets) \/ (o = AddUnits k (Some c) /\ K = CUnits)).
Proof.
  intros s o H. destruct o; cbn [readds] in H; try discriminate;
    match goal with c : option nat |- _ => destruct c as [c|]; [|discriminate] end;
    (split; [reflexivity|]); apply memb_true in H; do 3 eexists; (split; [exact H|]); auto 6.
Qed.

Section History.
  Variable seq : state -> nat -> nat -> bool.

  (** 37 of the 41 constructors (and add* of null) preserve the invariant with NO premise, in every state *)
  Theorem step_inv_unconditional : forall s o s' r, is_add o = false -> Inv s -> step true seq s o = Ok s' r -> Inv s'.
  Proof.
    intros s o s' r A I H. apply (step_inv seq s o s' r I); [|exact H].
    destruct (readds s o) eqn:E; [|reflexivity]. apply readds_is_add in E. destruct E as [E _]. congruence.
  Qed.

  (** the four add* constructors preserve it exactly under the premise: the entity is not already listed by that container *)
  Theorem step_inv_add : forall s o s' r, is_add o = true -> readds s o = false -> Inv s -> step true seq s o = Ok s' r -> Inv s'.
  Proof. intros s o s' r _ R I H. exact (step_inv seq s o s' r I R H). Qed.

  (** ALL op lists, no hypothesis on the history: the invariant holds at the end, or the history contains a re-add -- and then
      the FIRST one is identified: everything before it satisfies the invariant *)
  Lemma run_inv_or_readd : forall ops s s', Inv s -> run true seq s ops = Some s' ->
    Inv s' \/ exists pre o post sp, ops = pre ++ o :: post /\ run true seq s pre = Some sp /\ Inv sp /\ readds sp o = true.
  Proof.
    induction ops as [|o t IH]; intros s s' I H; cbn in H.
    - inversion H; subst. left. exact I.
    - destruct (readds s o) eqn:R.
      + right. exists [], o, t, s. auto.
      + destruct (step true seq s o) as [s1 r|] eqn:E; [|discriminate].
        destruct (IH s1 s' (step_inv seq s o s1 r I R E) H) as [L|[pre [o' [post [sp [E1 [E2 [E3 E4]]]]]]]]; [left; exact L|].
        right. exists (o :: pre), o', post, sp. subst. cbn. rewrite E. auto.
  Qed.

  Theorem history_inv_exact : forall u ops s', run true seq (init u) ops = Some s' ->
    Inv s' \/
    exists pre o post sp k c K, ops = pre ++ o :: post /\ run true seq (init u) pre = Some sp /\ Inv sp /\
      In c (children sp K k) /\
      ((o = AddComponent k (Some c) /\ K = CComps) \/ (o = AddVariable k (Some c) /\ K = CVars) \/
       (o = AddReset k (Some c) /\ K = CResets) \/ (o = AddUnits k (Some c) /\ K = CUnits)).
  Proof.
    intros u ops s' H. destruct (run_inv_or_readd ops (init u) s' (init_inv u) H) as [L|[pre [o [post [sp [E1 [E2 [E3 E4]]]]]]]].
    - left. exact L.
    - right. destruct (readds_is_add sp o E4) as [_ [k [c [K [Hin Ho]]]]]. exists pre, o, post, sp, k, c, K. auto.
  Qed.

  (** histories without add* of a listed entity: unconditional *)
  Corollary history_inv_no_add : forall u ops s', (forall o, In o ops -> is_add o = false) ->
    run true seq (init u) ops = Some s' -> Inv s'.
  Proof.
    intros u ops s' A H. destruct (history_inv_exact u ops s' H) as [L|[pre [o [post [sp [k [c [K [E [_ [_ [_ Ho]]]]]]]]]]]]; [exact L|].
    assert (Hin : In o ops) by (subst; apply in_app_iff; right; left; reflexivity).
    specialize (A o Hin). destruct Ho as [[-> _]|[[-> _]|[[-> _]|[-> _]]]]; discriminate.
  Qed.
End History.

(* ------------------------------------------------------------------------------------------------ the premise is necessary *)

Lemma add_all_incl_new : forall new acc x, In x new -> In x (add_all new acc).
Proof.
  induction new as [|a t IH]; intros acc x H; [destruct H|]. cbn. destruct H as [->|H].
  - destruct (memb x acc) eqn:M.
    + apply add_all_incl_acc. apply memb_true. exact M.
    + apply add_all_incl_acc. apply in_app_iff. right. left. reflexivity.
  - destruct (memb a acc); apply IH; exact H.
Qed.

Lemma held_alive : forall s x, held s x = true -> alive s x = true.
Proof.
  intros s x H. unfold alive, reach_set. apply memb_true. apply reach_iter_incl. apply add_all_incl_new.
  apply memb_true. exact H.
Qed.

Section Necessary.
  Variable seq : state -> nat -> nat -> bool.

  (** re-adding really breaks it, for variables, resets and units in EVERY state satisfying the invariant (the library then
      lists the entity twice): the carve-out cannot be dropped *)
  Theorem readd_breaks_inv : forall s K k c, K <> CComps -> Inv s -> recv s k K = true -> In c (children s K k) ->
    ~ Inv (gc (attach true seq s K k c)).
  Proof.
    intros s K k c HK I Hr Hin J.
    assert (Hp : parent_of s c = Some k) by (eapply inv_cp; eauto).
    assert (E : attach true seq s K k c = push_child (set_parent_of s c (Some k)) K k c).
    { unfold attach, leave_parent. rewrite Hp. cbn [oeqb]. rewrite Nat.eqb_refl. reflexivity. }
    rewrite E in J. clear E.
    destruct (recv_facts s k K Hr) as [Hh [Hk _]].
    set (s1 := push_child (set_parent_of s c (Some k)) K k c) in *.
    assert (C1 : children s1 K k = children s K k ++ [c]).
    { unfold s1, push_child. rewrite children_set_children, length_set_parent_of, children_set_parent_of.
      rewrite Nat.eqb_refl, ck_eqb_refl, (ltb_inr _ _ Hk). reflexivity. }
    assert (A1 : alive s1 k = true) by (apply held_alive; exact Hh).
    pose proof (inv_nd _ J K k) as N. unfold gc in N. rewrite gc_children in N. fold (alive s1 k) in N. rewrite A1, C1 in N.
    apply NoDup_remove_2 in N. apply N. rewrite app_nil_r. exact Hin.
  Qed.
End Necessary.

(** non-vacuity: both sides of [history_inv_exact] occur *)
Lemma history_exact_nonvacuous :
  (exists s', run true seq_conc (init HeapWitness.U2) HeapWitness.H2 = Some s' /\ Inv s') /\
  (exists s', run true seq_conc (init HeapWitness.U2) [AddVariable 0 (Some 2); AddVariable 0 (Some 2)] = Some s' /\ ~ Inv s').
Proof.
  split.
  - destruct (run true seq_conc (init HeapWitness.U2) HeapWitness.H2) as [s'|] eqn:E.
    + exists s'. split; [reflexivity|]. eapply run_inv; [apply init_inv| |exact E]. apply HeapWitness.histories_in_claim.
    + exfalso. revert E. vm_compute. discriminate.
  - eexists. split; [vm_compute; reflexivity|]. intros J. pose proof (inv_nd _ J CVars 0) as N. vm_compute in N.
    inversion N as [|a l Hn _]; subst. apply Hn. left. reflexivity.
Qed.
