(** NumSpec.v — the grammar of property C16 as inductive predicates over strings, i.e. the
    readable specification.  NumDefs.real_dfa / int_dfa are its executable twins (NumProofs ties them). *)
From Coq Require Import String Ascii List Bool Arith ZArith.
From LC Require Import NumDefs.
Local Open Scope string_scope.

(** digits: a (possibly empty) string of decimal digits *)
Definition Digits (s : string) : Prop := all_digits s = true.
Definition Digits1 (s : string) : Prop := all_digits s = true /\ s <> "".

(** mantissa: digits with at most one decimal point and at least one digit *)
Inductive MantG : string -> Prop :=
| MantInt  : forall a, Digits1 a -> MantG a
| MantFrac : forall a b, Digits a -> Digits b -> (a ++ b)%string <> "" -> MantG (a ++ "." ++ b).

(** exponent part: e or E, optional sign, one or more digits *)
Inductive ExpG : string -> Prop :=
| ExpNone : ExpG ""
| ExpSome : forall (ec : ascii) sg ds,
    (ec = "e"%char \/ ec = "E"%char) -> (sg = "" \/ sg = "+" \/ sg = "-") -> Digits1 ds ->
    ExpG (String ec (sg ++ ds)).

(** "an optional minus sign followed by at least one decimal digit with at most one decimal point,
     optionally followed by e or E and an optionally signed integer" *)
Inductive RealG : string -> Prop :=
| RealIntro : forall sg m e, (sg = "" \/ sg = "-") -> MantG m -> ExpG e -> RealG (sg ++ m ++ e).

(** "an optional sign followed by one or more digits" *)
Inductive IntG : string -> Prop :=
| IntIntro : forall sg ds, (sg = "" \/ sg = "+" \/ sg = "-") -> Digits1 ds -> IntG (sg ++ ds).
