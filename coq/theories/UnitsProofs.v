(** UnitsProofs.v — lemmas for C08 (work in progress). *)
From Coq Require Import String Ascii List ZArith QArith Bool Lia.
From LC Require Import Common NumDefs UnitsDefs.
From LCGen Require Import UnitTables PrefixTable.
Import ListNotations.
Local Open Scope string_scope.
