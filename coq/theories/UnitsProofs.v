(** UnitsProofs.v — lemmas for C08 over UnitsDefs.v / UnitsSpec.v. *)
From Coq Require Import String Ascii List ZArith QArith Bool Lia Permutation Setoid Morphisms Relations.
From LC Require Import Common NumDefs UnitsDefs UnitsSpec.
From LCGen Require Import UnitTables PrefixTable.
Import ListNotations.
Local Open Scope string_scope.
Local Open Scope Q_scope.

(* ------------------------------------------------------------------ tables *)

Lemma tables_ok : tables_check = true.
Proof. vm_compute. reflexivity. Qed.

Lemma mem_str_In : forall s l, mem_str s l = true <-> In s l.
Proof.
  intros s l. unfold mem_str. rewrite existsb_exists. split.
  - intros [x [Hin Heq]]. apply String.eqb_eq in Heq. subst. exact Hin.
  - intros Hin. exists s. split; [exact Hin | apply String.eqb_refl].
Qed.

Lemma assoc_In : forall {A} k (l : list (string * A)) v, assoc k l = Some v -> In (k, v) l.
Proof.
  intros A k l. induction l as [|[k' v'] r IH]; intros v H; cbn in H; [discriminate|].
  destruct (String.eqb_spec k k') as [->|Hne].
  - injection H as ->. left. reflexivity.
  - right. apply IH. exact H.
Qed.

Lemma std_components_over_base : forall n k e, In (k, e) (std_components n) -> In k base_units_list.
Proof.
  intros n k e Hin. unfold std_components in Hin.
  destruct (assoc n standard_units_list) as [comps|] eqn:Ha; [|destruct Hin].
  assert (T : forallb (fun e : string * list (string * Q) => forallb (fun c => mem_str (fst c) base_units_list) (snd e))
                standard_units_list = true) by (vm_compute; reflexivity).
  rewrite forallb_forall in T.
  specialize (T (n, comps) (assoc_In _ _ _ Ha)). cbn in T.
  rewrite forallb_forall in T. specialize (T (k, e) Hin). cbn in T.
  apply mem_str_In. exact T.
Qed.

(* ------------------------------------------------------------------ association-list maps *)

Definition keys (m : umap) : list string := map fst m.
Definition wfmap (m : umap) : Prop := NoDup (keys m).

Lemma assoc_none_keys : forall {A} k (m : list (string * A)), assoc k m = None <-> ~ In k (map fst m).
Proof.
  intros A k m. induction m as [|[k' v] r IH]; cbn.
  - split; [intros _ []|reflexivity].
  - destruct (String.eqb_spec k k') as [->|Hne].
    + split; [discriminate|]. intros H. exfalso. apply H. left. reflexivity.
    + rewrite IH. split.
      * intros H [Heq|Hin]; [apply Hne; symmetry; exact Heq|apply H; exact Hin].
      * intros H Hin. apply H. right. exact Hin.
Qed.

Lemma assoc_some_keys : forall {A} k (m : list (string * A)) v, assoc k m = Some v -> In k (map fst m).
Proof.
  intros A k m v H. apply assoc_In in H. apply (in_map fst) in H. exact H.
Qed.

Lemma In_assoc_nodup : forall {A} k (v : A) m, NoDup (map fst m) -> In (k, v) m -> assoc k m = Some v.
Proof.
  intros A k v m. induction m as [|[k' v'] r IH]; intros Hnd Hin; [destruct Hin|].
  cbn in *. inversion Hnd as [|? ? Hnotin Hnd']; subst.
  destruct Hin as [Heq|Hin].
  - injection Heq as -> ->. rewrite String.eqb_refl. reflexivity.
  - destruct (String.eqb_spec k k') as [->|Hne].
    + exfalso. apply Hnotin. apply (in_map fst) in Hin. exact Hin.
    + apply IH; assumption.
Qed.

Lemma get_madd : forall k d m k',
  get (madd k d m) k' == (if String.eqb k k' then get m k' + d else get m k').
Proof.
  intros k d m k'. unfold get. induction m as [|[key v] r IH]; cbn.
  - rewrite (String.eqb_sym k' k). destruct (String.eqb k k'); ring.
  - destruct (String.eqb_spec k key) as [->|Hne]; cbn.
    + destruct (String.eqb_spec k' key) as [->|Hne'].
      * rewrite String.eqb_refl. reflexivity.
      * destruct (String.eqb_spec key k') as [->|_]; [contradiction Hne'; reflexivity|reflexivity].
    + destruct (String.eqb_spec k' key) as [->|Hne'].
      * destruct (String.eqb_spec k key) as [->|_]; [contradiction Hne; reflexivity|reflexivity].
      * exact IH.
Qed.

Lemma keys_madd_in : forall k d m x, In x (keys (madd k d m)) <-> x = k \/ In x (keys m).
Proof.
  intros k d m x. unfold keys. induction m as [|[key v] r IH]; cbn.
  - split; [intros [H|[]]; left; symmetry; exact H | intros [H|[]]; left; symmetry; exact H].
  - destruct (String.eqb_spec k key) as [->|Hne]; cbn.
    + split; [intros H; right; exact H|]. intros [->|H]; [left; reflexivity|exact H].
    + rewrite IH. tauto.
Qed.

Lemma wfmap_madd : forall k d m, wfmap m -> wfmap (madd k d m).
Proof.
  intros k d m. unfold wfmap, keys. induction m as [|[key v] r IH]; intros H; cbn.
  - constructor; [intros []|constructor].
  - inversion H as [|? ? Hnotin Hnd]; subst.
    destruct (String.eqb_spec k key) as [->|Hne]; cbn.
    + constructor; assumption.
    + constructor; [|apply IH; exact Hnd].
      intros Hin. apply (keys_madd_in k d r key) in Hin. destruct Hin as [Heq|Hin].
      * apply Hne. symmetry. exact Heq.
      * apply Hnotin. exact Hin.
Qed.

Lemma wfmap_nil : wfmap [].
Proof. constructor. Qed.

Lemma assoc_filter : forall (P : string * Q -> bool) (m : umap) k, wfmap m ->
  assoc k (filter P m) = match assoc k m with
                         | Some v => if P (k, v) then Some v else None
                         | None => None
                         end.
Proof.
  intros P m k. unfold wfmap, keys. induction m as [|[key v] r IH]; intros Hnd; cbn; [reflexivity|].
  inversion Hnd as [|? ? Hnotin Hnd']; subst.
  destruct (String.eqb_spec k key) as [->|Hne].
  - destruct (P (key, v)) eqn:HP; cbn.
    + rewrite String.eqb_refl. reflexivity.
    + apply assoc_none_keys. intros Hin. apply Hnotin.
      unfold keys in *. apply in_map_iff in Hin. destruct Hin as [[a b] [Hf Hin]]. cbn in Hf. subst a.
      apply filter_In in Hin. destruct Hin as [Hin _]. apply (in_map fst) in Hin. exact Hin.
  - destruct (P (key, v)); cbn.
    + destruct (String.eqb_spec k key) as [->|_]; [contradiction Hne; reflexivity|]. apply IH. exact Hnd'.
    + apply IH. exact Hnd'.
Qed.

Lemma wfmap_filter : forall (P : string * Q -> bool) m, wfmap m -> wfmap (filter P m).
Proof.
  intros P m. unfold wfmap, keys. induction m as [|[key v] r IH]; intros Hnd; cbn; [constructor|].
  inversion Hnd as [|? ? Hnotin Hnd']; subst.
  destruct (P (key, v)); cbn; [|apply IH; exact Hnd'].
  constructor; [|apply IH; exact Hnd'].
  intros Hin. apply Hnotin. apply in_map_iff in Hin. destruct Hin as [[a b] [Hf Hin]]. cbn in Hf. subst a.
  apply filter_In in Hin. destruct Hin as [Hin _]. apply (in_map fst) in Hin. exact Hin.
Qed.

(* cleaned maps: no zero entry, no "dimensionless" *)
Definition clean (m : umap) : Prop := forall k v, In (k, v) m -> ~ v == 0.

Lemma qzero_iff : forall q, qzero q = true <-> q == 0.
Proof. intros q. unfold qzero. apply Qeq_bool_iff. Qed.

Lemma clean_clean_map : forall m, clean (clean_map m).
Proof.
  intros m k v Hin. unfold clean_map in Hin. apply filter_In in Hin. destruct Hin as [_ HP]. cbn in HP.
  apply andb_prop in HP. destruct HP as [HP _]. apply negb_true_iff in HP.
  intros Hz. apply qzero_iff in Hz. rewrite Hz in HP. discriminate.
Qed.

Lemma get_clean_map : forall m k, wfmap m ->
  get (clean_map m) k == (if String.eqb k "dimensionless" then 0 else get m k).
Proof.
  intros m k Hwf. unfold get, clean_map. rewrite assoc_filter by exact Hwf.
  destruct (assoc k m) as [v|]; cbn.
  - destruct (qzero v) eqn:Hz; cbn.
    + apply qzero_iff in Hz. destruct (String.eqb k "dimensionless"); [reflexivity|symmetry; exact Hz].
    + destruct (String.eqb k "dimensionless"); cbn; reflexivity.
  - destruct (String.eqb k "dimensionless"); reflexivity.
Qed.

Lemma get_notin : forall m k, ~ In k (keys m) -> get m k = 0.
Proof. intros m k H. unfold get. apply assoc_none_keys in H. rewrite H. reflexivity. Qed.

Lemma clean_in_keys : forall m k, wfmap m -> clean m -> (In k (keys m) <-> ~ get m k == 0).
Proof.
  intros m k Hwf Hcl. split.
  - intros Hin. unfold keys in Hin. apply in_map_iff in Hin. destruct Hin as [[a v] [Hf Hin]]. cbn in Hf. subst a.
    unfold get. rewrite (In_assoc_nodup k v m Hwf Hin). apply (Hcl k v Hin).
  - intros Hnz. destruct (in_dec string_dec k (keys m)) as [Hin|Hnin]; [exact Hin|].
    exfalso. apply Hnz. rewrite (get_notin m k Hnin). reflexivity.
Qed.

(** The comparison loop of Units::compatible decides extensional equality of cleaned maps. *)
Lemma maps_equal_iff : forall m1 m2, wfmap m1 -> wfmap m2 -> clean m1 -> clean m2 ->
  (maps_equal m1 m2 = true <-> forall k, get m1 k == get m2 k).
Proof.
  intros m1 m2 W1 W2 C1 C2. unfold maps_equal. rewrite andb_true_iff, Nat.eqb_eq, forallb_forall. split.
  - intros [Hlen Hall] k.
    assert (Hincl : incl (keys m1) (keys m2)).
    { intros x Hx. unfold keys in Hx. apply in_map_iff in Hx. destruct Hx as [[a v] [Hf Hin]]. cbn in Hf. subst a.
      specialize (Hall (x, v) Hin). cbn in Hall. destruct (assoc x m2) as [v2|] eqn:Ha; [|discriminate].
      apply assoc_some_keys in Ha. exact Ha. }
    assert (Hincl2 : incl (keys m2) (keys m1)).
    { apply NoDup_length_incl; [exact W1| |exact Hincl]. unfold keys. rewrite !map_length. lia. }
    destruct (in_dec string_dec k (keys m1)) as [Hin|Hnin].
    + unfold keys in Hin. apply in_map_iff in Hin. destruct Hin as [[a v] [Hf Hin]]. cbn in Hf. subst a.
      specialize (Hall (k, v) Hin). cbn in Hall. unfold get. rewrite (In_assoc_nodup k v m1 W1 Hin).
      destruct (assoc k m2) as [v2|]; [|discriminate]. apply Qeq_bool_iff in Hall. symmetry. exact Hall.
    + rewrite (get_notin m1 k Hnin). rewrite (get_notin m2 k); [reflexivity|].
      intros Hin2. apply Hnin. apply Hincl2. exact Hin2.
  - intros Hext.
    assert (Hincl : forall ma mb, wfmap ma -> clean ma -> wfmap mb -> clean mb -> (forall k, get ma k == get mb k) -> incl (keys ma) (keys mb)).
    { intros ma mb Wa Ca Wb Cb He x Hx. apply (clean_in_keys mb x Wb Cb). rewrite <- He. apply (clean_in_keys ma x Wa Ca). exact Hx. }
    split.
    + pose proof (NoDup_incl_length W1 (Hincl m1 m2 W1 C1 W2 C2 Hext)) as L1.
      assert (Hext' : forall k, get m2 k == get m1 k) by (intros k; symmetry; apply Hext).
      pose proof (NoDup_incl_length W2 (Hincl m2 m1 W2 C2 W1 C1 Hext')) as L2.
      unfold keys in L1, L2. rewrite !map_length in L1, L2. lia.
    + intros [k v] Hin. cbn.
      assert (Hk : In k (keys m2)).
      { apply (Hincl m1 m2 W1 C1 W2 C2 Hext). unfold keys. apply in_map_iff. exists (k, v). split; [reflexivity|exact Hin]. }
      destruct (assoc k m2) as [v2|] eqn:Ha.
      * apply Qeq_bool_iff. specialize (Hext k). unfold get in Hext. rewrite (In_assoc_nodup k v m1 W1 Hin), Ha in Hext.
        symmetry. exact Hext.
      * apply assoc_none_keys in Ha. contradiction.
Qed.
