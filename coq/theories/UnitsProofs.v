(** UnitsProofs.v — lemmas for C08 over UnitsDefs.v / UnitsSpec.v. *)
From Coq Require Import String Ascii List ZArith QArith Bool Lia Permutation Setoid Morphisms Relations.
From LC Require Import Common NumDefs UnitsDefs UnitsSpec.
From LCGen Require Import UnitTables PrefixTable.
Import ListNotations.
Local Open Scope string_scope.
Local Open Scope Q_scope.

(* ------------------------------------------------------------------ tables *)

Lemma tables_ok : tables_check = true.
Proof. vm_compute. reflexivity. Qed.

Lemma mem_str_In : forall s l, mem_str s l = true <-> In s l.
Proof.
  intros s l. unfold mem_str. rewrite existsb_exists. split.
  - intros [x [Hin Heq]]. apply String.eqb_eq in Heq. subst. exact Hin.
  - intros Hin. exists s. split; [exact Hin | apply String.eqb_refl].
Qed.

Lemma assoc_In : forall {A} k (l : list (string * A)) v, assoc k l = Some v -> In (k, v) l.
Proof.
  intros A k l. induction l as [|[k' v'] r IH]; intros v H; cbn in H; [discriminate|].
  destruct (String.eqb_spec k k') as [->|Hne].
  - injection H as ->. left. reflexivity.
  - right. apply IH. exact H.
Qed.

Lemma std_components_over_base : forall n k e, In (k, e) (std_components n) -> In k base_units_list.
Proof.
  intros n k e Hin. unfold std_components in Hin.
  destruct (assoc n standard_units_list) as [comps|] eqn:Ha; [|destruct Hin].
  assert (T : forallb (fun e : string * list (string * Q) => forallb (fun c => mem_str (fst c) base_units_list) (snd e))
                standard_units_list = true) by (vm_compute; reflexivity).
  rewrite forallb_forall in T.
  specialize (T (n, comps) (assoc_In _ _ _ Ha)). cbn in T.
  rewrite forallb_forall in T. specialize (T (k, e) Hin). cbn in T.
  apply mem_str_In. exact T.
Qed.

(* ------------------------------------------------------------------ association-list maps *)

Definition keys (m : umap) : list string := map fst m.
Definition wfmap (m : umap) : Prop := NoDup (keys m).

Lemma assoc_none_keys : forall {A} k (m : list (string * A)), assoc k m = None <-> ~ In k (map fst m).
Proof.
  intros A k m. induction m as [|[k' v] r IH]; cbn.
  - split; [intros _ []|reflexivity].
  - destruct (String.eqb_spec k k') as [->|Hne].
    + split; [discriminate|]. intros H. exfalso. apply H. left. reflexivity.
    + rewrite IH. split.
      * intros H [Heq|Hin]; [apply Hne; symmetry; exact Heq|apply H; exact Hin].
      * intros H Hin. apply H. right. exact Hin.
Qed.

Lemma assoc_some_keys : forall {A} k (m : list (string * A)) v, assoc k m = Some v -> In k (map fst m).
Proof.
  intros A k m v H. apply assoc_In in H. apply (in_map fst) in H. exact H.
Qed.

Lemma In_assoc_nodup : forall {A} k (v : A) m, NoDup (map fst m) -> In (k, v) m -> assoc k m = Some v.
Proof.
  intros A k v m. induction m as [|[k' v'] r IH]; intros Hnd Hin; [destruct Hin|].
  cbn in *. inversion Hnd as [|? ? Hnotin Hnd']; subst.
  destruct Hin as [Heq|Hin].
  - injection Heq as -> ->. rewrite String.eqb_refl. reflexivity.
  - destruct (String.eqb_spec k k') as [->|Hne].
    + exfalso. apply Hnotin. apply (in_map fst) in Hin. exact Hin.
    + apply IH; assumption.
Qed.

Lemma get_madd : forall k d m k',
  get (madd k d m) k' == (if String.eqb k k' then get m k' + d else get m k').
Proof.
  intros k d m k'. unfold get. induction m as [|[key v] r IH]; cbn.
  - rewrite (String.eqb_sym k' k). destruct (String.eqb k k'); ring.
  - destruct (String.eqb_spec k key) as [->|Hne]; cbn.
    + destruct (String.eqb_spec k' key) as [->|Hne'].
      * rewrite String.eqb_refl. reflexivity.
      * destruct (String.eqb_spec key k') as [->|_]; [contradiction Hne'; reflexivity|reflexivity].
    + destruct (String.eqb_spec k' key) as [->|Hne'].
      * destruct (String.eqb_spec k key) as [->|_]; [contradiction Hne; reflexivity|reflexivity].
      * exact IH.
Qed.

Lemma keys_madd_in : forall k d m x, In x (keys (madd k d m)) <-> x = k \/ In x (keys m).
Proof.
  intros k d m x. unfold keys. induction m as [|[key v] r IH]; cbn.
  - split; [intros [H|[]]; left; symmetry; exact H | intros [H|[]]; left; symmetry; exact H].
  - destruct (String.eqb_spec k key) as [->|Hne]; cbn.
    + split; [intros H; right; exact H|]. intros [->|H]; [left; reflexivity|exact H].
    + rewrite IH. tauto.
Qed.

Lemma wfmap_madd : forall k d m, wfmap m -> wfmap (madd k d m).
Proof.
  intros k d m. unfold wfmap, keys. induction m as [|[key v] r IH]; intros H; cbn.
  - constructor; [intros []|constructor].
  - inversion H as [|? ? Hnotin Hnd]; subst.
    destruct (String.eqb_spec k key) as [->|Hne]; cbn.
    + constructor; assumption.
    + constructor; [|apply IH; exact Hnd].
      intros Hin. apply (keys_madd_in k d r key) in Hin. destruct Hin as [Heq|Hin].
      * apply Hne. symmetry. exact Heq.
      * apply Hnotin. exact Hin.
Qed.

Lemma wfmap_nil : wfmap [].
Proof. constructor. Qed.

Lemma assoc_filter : forall (P : string * Q -> bool) (m : umap) k, wfmap m ->
  assoc k (filter P m) = match assoc k m with
                         | Some v => if P (k, v) then Some v else None
                         | None => None
                         end.
Proof.
  intros P m k. unfold wfmap, keys. induction m as [|[key v] r IH]; intros Hnd; cbn; [reflexivity|].
  inversion Hnd as [|? ? Hnotin Hnd']; subst.
  destruct (String.eqb_spec k key) as [->|Hne].
  - destruct (P (key, v)) eqn:HP; cbn.
    + rewrite String.eqb_refl. reflexivity.
    + apply assoc_none_keys. intros Hin. apply Hnotin.
      unfold keys in *. apply in_map_iff in Hin. destruct Hin as [[a b] [Hf Hin]]. cbn in Hf. subst a.
      apply filter_In in Hin. destruct Hin as [Hin _]. apply (in_map fst) in Hin. exact Hin.
  - destruct (P (key, v)); cbn.
    + destruct (String.eqb_spec k key) as [->|_]; [contradiction Hne; reflexivity|]. apply IH. exact Hnd'.
    + apply IH. exact Hnd'.
Qed.

Lemma wfmap_filter : forall (P : string * Q -> bool) m, wfmap m -> wfmap (filter P m).
Proof.
  intros P m. unfold wfmap, keys. induction m as [|[key v] r IH]; intros Hnd; cbn; [constructor|].
  inversion Hnd as [|? ? Hnotin Hnd']; subst.
  destruct (P (key, v)); cbn; [|apply IH; exact Hnd'].
  constructor; [|apply IH; exact Hnd'].
  intros Hin. apply Hnotin. apply in_map_iff in Hin. destruct Hin as [[a b] [Hf Hin]]. cbn in Hf. subst a.
  apply filter_In in Hin. destruct Hin as [Hin _]. apply (in_map fst) in Hin. exact Hin.
Qed.

(* cleaned maps: no zero entry, no "dimensionless" *)
Definition clean (m : umap) : Prop := forall k v, In (k, v) m -> ~ v == 0.

Lemma qzero_iff : forall q, qzero q = true <-> q == 0.
Proof. intros q. unfold qzero. apply Qeq_bool_iff. Qed.

Lemma clean_clean_map : forall m, clean (clean_map m).
Proof.
  intros m k v Hin. unfold clean_map in Hin. apply filter_In in Hin. destruct Hin as [_ HP]. cbn in HP.
  apply andb_prop in HP. destruct HP as [HP _]. apply negb_true_iff in HP.
  intros Hz. apply qzero_iff in Hz. rewrite Hz in HP. discriminate.
Qed.

Lemma get_clean_map : forall m k, wfmap m ->
  get (clean_map m) k == (if String.eqb k "dimensionless" then 0 else get m k).
Proof.
  intros m k Hwf. unfold get, clean_map. rewrite assoc_filter by exact Hwf.
  destruct (assoc k m) as [v|]; cbn.
  - destruct (qzero v) eqn:Hz; cbn.
    + apply qzero_iff in Hz. destruct (String.eqb k "dimensionless"); [reflexivity|symmetry; exact Hz].
    + destruct (String.eqb k "dimensionless"); cbn; reflexivity.
  - destruct (String.eqb k "dimensionless"); reflexivity.
Qed.

Lemma get_notin : forall m k, ~ In k (keys m) -> get m k = 0.
Proof. intros m k H. unfold get. apply assoc_none_keys in H. rewrite H. reflexivity. Qed.

Lemma clean_in_keys : forall m k, wfmap m -> clean m -> (In k (keys m) <-> ~ get m k == 0).
Proof.
  intros m k Hwf Hcl. split.
  - intros Hin. unfold keys in Hin. apply in_map_iff in Hin. destruct Hin as [[a v] [Hf Hin]]. cbn in Hf. subst a.
    unfold get. rewrite (In_assoc_nodup k v m Hwf Hin). apply (Hcl k v Hin).
  - intros Hnz. destruct (in_dec string_dec k (keys m)) as [Hin|Hnin]; [exact Hin|].
    exfalso. apply Hnz. rewrite (get_notin m k Hnin). reflexivity.
Qed.

(** The comparison loop of Units::compatible decides extensional equality of cleaned maps. *)
Lemma maps_equal_iff : forall m1 m2, wfmap m1 -> wfmap m2 -> clean m1 -> clean m2 ->
  (maps_equal m1 m2 = true <-> forall k, get m1 k == get m2 k).
Proof.
  intros m1 m2 W1 W2 C1 C2. unfold maps_equal. rewrite andb_true_iff, Nat.eqb_eq, forallb_forall. split.
  - intros [Hlen Hall] k.
    assert (Hincl : incl (keys m1) (keys m2)).
    { intros x Hx. unfold keys in Hx. apply in_map_iff in Hx. destruct Hx as [[a v] [Hf Hin]]. cbn in Hf. subst a.
      specialize (Hall (x, v) Hin). cbn in Hall. destruct (assoc x m2) as [v2|] eqn:Ha; [|discriminate].
      apply assoc_some_keys in Ha. exact Ha. }
    assert (Hincl2 : incl (keys m2) (keys m1)).
    { apply NoDup_length_incl; [exact W1| |exact Hincl]. unfold keys. rewrite !map_length. lia. }
    destruct (in_dec string_dec k (keys m1)) as [Hin|Hnin].
    + unfold keys in Hin. apply in_map_iff in Hin. destruct Hin as [[a v] [Hf Hin]]. cbn in Hf. subst a.
      specialize (Hall (k, v) Hin). cbn in Hall. unfold get. rewrite (In_assoc_nodup k v m1 W1 Hin).
      destruct (assoc k m2) as [v2|]; [|discriminate]. apply Qeq_bool_iff in Hall. symmetry. exact Hall.
    + rewrite (get_notin m1 k Hnin). rewrite (get_notin m2 k); [reflexivity|].
      intros Hin2. apply Hnin. apply Hincl2. exact Hin2.
  - intros Hext.
    assert (Hincl : forall ma mb, wfmap ma -> clean ma -> wfmap mb -> clean mb -> (forall k, get ma k == get mb k) -> incl (keys ma) (keys mb)).
    { intros ma mb Wa Ca Wb Cb He x Hx. apply (clean_in_keys mb x Wb Cb). rewrite <- He. apply (clean_in_keys ma x Wa Ca). exact Hx. }
    split.
    + pose proof (NoDup_incl_length W1 (Hincl m1 m2 W1 C1 W2 C2 Hext)) as L1.
      assert (Hext' : forall k, get m2 k == get m1 k) by (intros k; symmetry; apply Hext).
      pose proof (NoDup_incl_length W2 (Hincl m2 m1 W2 C2 W1 C1 Hext')) as L2.
      unfold keys in L1, L2. rewrite !map_length in L1, L2. lia.
    + intros [k v] Hin. cbn.
      assert (Hk : In k (keys m2)).
      { apply (Hincl m1 m2 W1 C1 W2 C2 Hext). unfold keys. apply in_map_iff. exists (k, v). split; [reflexivity|exact Hin]. }
      destruct (assoc k m2) as [v2|] eqn:Ha.
      * apply Qeq_bool_iff. specialize (Hext k). unfold get in Hext. rewrite (In_assoc_nodup k v m1 W1 Hin), Ha in Hext.
        symmetry. exact Hext.
      * apply assoc_none_keys in Ha. contradiction.
Qed.

(* ------------------------------------------------------------------ loops *)

Lemma fold_res_inv : forall {A S} (P : S -> Prop) (step : A -> S -> res S) l s s',
  (forall a x x', In a l -> P x -> step a x = Ok x' -> P x') -> P s -> fold_res step l s = Ok s' -> P s'.
Proof.
  intros A S P step l. induction l as [|a r IH]; intros s s' Hstep HP H; cbn in H.
  - injection H as <-. exact HP.
  - destruct (step a s) as [s1| |] eqn:Hs; try discriminate.
    apply (IH s1 s'); [|apply (Hstep a s s1); [left; reflexivity|exact HP|exact Hs]|exact H].
    intros a' x x' Hin. apply Hstep. right. exact Hin.
Qed.

Lemma fold_res_all_ok : forall {A S} (step : A -> S -> res S) l s,
  (forall a x, In a l -> exists x', step a x = Ok x') -> exists s', fold_res step l s = Ok s'.
Proof.
  intros A S step l. induction l as [|a r IH]; intros s H; cbn.
  - exists s. reflexivity.
  - destruct (H a s (or_introl eq_refl)) as [x' Hx]. rewrite Hx. apply IH. intros a' x Hin. apply H. right. exact Hin.
Qed.

Lemma forall_res_true : forall {A} (step : A -> res bool) l,
  forall_res step l = Ok true <-> (forall a, In a l -> step a = Ok true).
Proof.
  intros A step l. induction l as [|a r IH]; cbn.
  - split; [intros _ a []|reflexivity].
  - split.
    + intros H. destruct (step a) as [[|]| |] eqn:Hs; try discriminate.
      intros a' [<-|Hin]; [exact Hs|]. apply IH; assumption.
    + intros H. rewrite (H a (or_introl eq_refl)). apply IH. intros a' Hin. apply H. right. exact Hin.
Qed.

(* ------------------------------------------------------------------ unfolding equations *)

Lemma is_base_h_S : forall f' w h mi name, is_base_h (S f') w h mi name =
    match lookup w mi name with
    | None => Crash
    | Some (Import mj r) =>
        if Nat.ltb mj (length w)
        then let e := new_epoch h mi mj in
             if import_cycle w h e then Ok false
             else match lookup w mj r with
                  | None => Ok false
                  | Some _ => is_base_h f' w (e :: h) mj r
                  end
        else Ok false
    | Some (Defs l) =>
        Ok ((Nat.eqb (length l) 0) && (if is_std_name name then is_base_name name else true))
    end.
Proof. reflexivity. Qed.

Lemma perform_test_S : forall fx d f' w h mi name, perform_test fx d (S f') w h mi name =
    match lookup w mi name with
    | None => Crash
    | Some (Import mj r) =>
        match lookup w mj r with
        | None => Ok None
        | Some _ =>
            let e := new_epoch h mi mj in
            if import_cycle w h e then Ok None
            else match perform_test fx d f' w (e :: h) mj r with
                 | Ok (Some h') => Ok (Some (if fx_pop fx then tl h' else h'))
                 | x => x
                 end
        end
    | Some (Defs l) =>
        fold_opt (fun c h =>
          if is_std_name (uc_ref c) then Ok (Some h)
          else match lookup w mi (uc_ref c) with
               | Some _ => perform_test fx d f' w h mi (uc_ref c)
               | None => Ok (if d then None else Some h)
               end) l h
    end.
Proof. reflexivity. Qed.

Lemma defined_sem_S : forall f' w mi name, defined_sem (S f') w mi name =
    match lookup w mi name with
    | None => Crash
    | Some (Import mj r) =>
        match lookup w mj r with None => Ok false | Some _ => defined_sem f' w mj r end
    | Some (Defs l) =>
        forall_res (fun c =>
          if is_std_name (uc_ref c) then Ok true
          else match lookup w mi (uc_ref c) with
               | Some _ => defined_sem f' w mi (uc_ref c)
               | None => Ok false
               end) l
    end.
Proof. reflexivity. Qed.

Lemma umap_go_S : forall fx f' w mi name e acc, umap_go fx (S f') w mi name e acc =
    match is_base (S f') w mi name with
    | Ok true => Ok (madd name e acc)
    | Ok false =>
        match lookup w mi name with
        | None => Crash
        | Some (Import mj r) =>
            if is_std_name name then Ok (add_std name e acc)
            else
            match lookup w mj r with
            | None => Crash
            | Some _ => umap_go fx f' w mj r (if fx_import fx then e else 1) acc
            end
        | Some (Defs l) =>
            if (Nat.eqb (length l) 0) && is_std_name name then Ok (add_std name e acc)
            else
              fold_res (fun c a =>
                if is_std_name (uc_ref c) then Ok (add_std (uc_ref c) (uc_exp c * e) a)
                else match lookup w mi (uc_ref c) with
                     | None => Crash
                     | Some _ => umap_go fx f' w mi (uc_ref c) (uc_exp c * e) a
                     end) l acc
        end
    | OutOfFuel => OutOfFuel
    | Crash => Crash
    end.
Proof. reflexivity. Qed.

(* ------------------------------------------------------------------ the library's "defined" implies fully defined *)

Lemma perform_test_sound : forall fx f w h mi name h',
  perform_test fx true f w h mi name = Ok (Some h') -> defined_sem f w mi name = Ok true.
Proof.
  intros fx. induction f as [|f' IH]; intros w h mi name h' H; [discriminate|].
  rewrite perform_test_S in H. rewrite defined_sem_S.
  destruct (lookup w mi name) as [[l|mj r]|] eqn:Hl; [| |discriminate].
  - apply forall_res_true. clear Hl. revert h H. induction l as [|c rest IHl]; intros h H a Hin; [destruct Hin|].
    cbn [fold_opt] in H.
    destruct (is_std_name (uc_ref c)) eqn:Hstd.
    + destruct Hin as [<-|Hin]; [rewrite Hstd; reflexivity|]. apply (IHl h H a Hin).
    + destruct (lookup w mi (uc_ref c)) as [d|] eqn:Hlc; [|discriminate].
      destruct (perform_test fx true f' w h mi (uc_ref c)) as [[h1|]| |] eqn:Hp; try discriminate.
      destruct Hin as [<-|Hin].
      * rewrite Hstd, Hlc. apply (IH w h mi (uc_ref c) h1 Hp).
      * apply (IHl h1 H a Hin).
  - destruct (lookup w mj r) as [d|] eqn:Hlt; [|discriminate].
    cbv zeta in H. destruct (import_cycle w h (new_epoch h mi mj)); [discriminate|].
    destruct (perform_test fx true f' w (new_epoch h mi mj :: h) mj r) as [[h1|]| |] eqn:Hp; try discriminate.
    apply (IH w _ mj r h1 Hp).
Qed.

Lemma is_defined_sound : forall fx f w mi name, is_defined fx f w mi name = Ok true -> defined_sem f w mi name = Ok true.
Proof.
  intros fx f w mi name H. unfold is_defined, test_result in H.
  destruct (perform_test fx true f w [] mi name) as [[h'|]| |] eqn:Hp; try discriminate.
  apply (perform_test_sound fx f w [] mi name h' Hp).
Qed.

(* ------------------------------------------------------------------ defined units have a map *)

Lemma defined_is_base_ok : forall f w h mi name, defined_sem f w mi name = Ok true ->
  exists b, is_base_h f w h mi name = Ok b.
Proof.
  induction f as [|f' IH]; intros w h mi name H; [discriminate|].
  rewrite defined_sem_S in H. rewrite is_base_h_S.
  destruct (lookup w mi name) as [[l|mj r]|] eqn:Hl; [| |discriminate].
  - eexists. reflexivity.
  - destruct (lookup w mj r) as [d|] eqn:Hlt; [|discriminate].
    destruct (Nat.ltb mj (length w)); [|eexists; reflexivity].
    cbv zeta. destruct (import_cycle w h (new_epoch h mi mj)); [eexists; reflexivity|].
    apply IH. exact H.
Qed.

Lemma defined_children : forall f' w mi name l c,
  defined_sem (S f') w mi name = Ok true -> lookup w mi name = Some (Defs l) -> In c l ->
  is_std_name (uc_ref c) = false ->
  lookup w mi (uc_ref c) <> None /\ defined_sem f' w mi (uc_ref c) = Ok true.
Proof.
  intros f' w mi name l c H Hl Hin Hstd. rewrite defined_sem_S, Hl in H.
  rewrite forall_res_true in H. specialize (H c Hin). rewrite Hstd in H.
  destruct (lookup w mi (uc_ref c)); [|discriminate]. split; [discriminate|exact H].
Qed.

Lemma defined_umap_ok : forall fx f w mi name e acc, defined_sem f w mi name = Ok true ->
  exists m, umap_go fx f w mi name e acc = Ok m.
Proof.
  intros fx. induction f as [|f' IH]; intros w mi name e acc H; [discriminate|].
  rewrite umap_go_S. destruct (defined_is_base_ok (S f') w [] mi name H) as [b Hb].
  unfold is_base. rewrite Hb. destruct b; [eexists; reflexivity|].
  pose proof H as H0. rewrite defined_sem_S in H.
  destruct (lookup w mi name) as [[l|mj r]|] eqn:Hl; [| |discriminate].
  - destruct (Nat.eqb (length l) 0 && is_std_name name); [eexists; reflexivity|].
    apply fold_res_all_ok. intros c a Hin.
    destruct (is_std_name (uc_ref c)) eqn:Hstd; [eexists; reflexivity|].
    destruct (defined_children f' w mi name l c H0 Hl Hin Hstd) as [Hne Hd].
    destruct (lookup w mi (uc_ref c)); [|contradiction Hne; reflexivity].
    apply IH. exact Hd.
  - destruct (is_std_name name); [eexists; reflexivity|].
    destruct (lookup w mj r) as [d|] eqn:Hlt; [|discriminate].
    apply IH. exact H.
Qed.

(* ------------------------------------------------------------------ maps stay well formed *)

Lemma wfmap_add_std : forall n e m, wfmap m -> wfmap (add_std n e m).
Proof.
  intros n e m. unfold add_std. generalize (std_components n). intros l. revert m.
  induction l as [|c r IH]; intros m H; cbn; [exact H|]. apply IH. apply wfmap_madd. exact H.
Qed.

Lemma umap_go_wf : forall fx f w mi name e acc m, wfmap acc -> umap_go fx f w mi name e acc = Ok m -> wfmap m.
Proof.
  intros fx. induction f as [|f' IH]; intros w mi name e acc m Hwf H; [discriminate|].
  rewrite umap_go_S in H.
  destruct (is_base (S f') w mi name) as [[|]| |]; try discriminate.
  - injection H as <-. apply wfmap_madd. exact Hwf.
  - destruct (lookup w mi name) as [[l|mj r]|]; [| |discriminate].
    + destruct (Nat.eqb (length l) 0 && is_std_name name).
      * injection H as <-. apply wfmap_add_std. exact Hwf.
      * revert H. apply fold_res_inv; [|exact Hwf].
        intros c x x' _ Hx Hs. destruct (is_std_name (uc_ref c)).
        -- injection Hs as <-. apply wfmap_add_std. exact Hx.
        -- destruct (lookup w mi (uc_ref c)); [|discriminate]. apply (IH _ _ _ _ _ _ Hx Hs).
    + destruct (is_std_name name).
      * injection H as <-. apply wfmap_add_std. exact Hwf.
      * destruct (lookup w mj r); [|discriminate]. apply (IH _ _ _ _ _ _ Hwf H).
Qed.

Lemma define_units_map_wf : forall fx f w u m, define_units_map fx f w u = Ok m -> wfmap m /\ clean m.
Proof.
  intros fx f w u m H. unfold define_units_map in H.
  destruct (umap_go fx f w (fst u) (snd u) 1 []) as [m0| |] eqn:Hg; try discriminate.
  injection H as <-. split; [|apply clean_clean_map].
  apply wfmap_filter. apply (umap_go_wf _ _ _ _ _ _ _ _ wfmap_nil Hg).
Qed.

Lemma defined_map_ok : forall fx f w u, is_defined fx f w (fst u) (snd u) = Ok true ->
  exists m, define_units_map fx f w u = Ok m.
Proof.
  intros fx f w u H. apply is_defined_sound in H.
  destruct (defined_umap_ok fx f w (fst u) (snd u) 1 [] H) as [m Hm].
  unfold define_units_map. rewrite Hm. eexists. reflexivity.
Qed.

(* ------------------------------------------------------------------ compatible *)

Lemma compatible_spec : forall fx f w a b,
  compatible fx f w (Some a) (Some b) = Ok true <->
  is_defined fx f w (fst a) (snd a) = Ok true /\ is_defined fx f w (fst b) (snd b) = Ok true /\
  exists ma mb, define_units_map fx f w a = Ok ma /\ define_units_map fx f w b = Ok mb /\
                forall k, get ma k == get mb k.
Proof.
  intros fx f w a b. unfold compatible. split.
  - intros H.
    destruct (is_defined fx f w (fst a) (snd a)) as [[|]| |]; try discriminate.
    destruct (is_defined fx f w (fst b) (snd b)) as [[|]| |]; try discriminate.
    destruct (define_units_map fx f w a) as [ma| |] eqn:Ha; try discriminate.
    destruct (define_units_map fx f w b) as [mb| |] eqn:Hb; try discriminate.
    injection H as H. split; [reflexivity|]. split; [reflexivity|]. exists ma, mb. split; [reflexivity|]. split; [reflexivity|].
    destruct (define_units_map_wf _ _ _ _ _ Ha) as [W1 C1]. destruct (define_units_map_wf _ _ _ _ _ Hb) as [W2 C2].
    apply (maps_equal_iff ma mb W1 W2 C1 C2). exact H.
  - intros [Ha [Hb [ma [mb [Hma [Hmb Hext]]]]]]. rewrite Ha, Hb, Hma, Hmb. f_equal.
    destruct (define_units_map_wf _ _ _ _ _ Hma) as [W1 C1]. destruct (define_units_map_wf _ _ _ _ _ Hmb) as [W2 C2].
    apply (maps_equal_iff ma mb W1 W2 C1 C2). exact Hext.
Qed.

(** compatible holds iff both are defined and the cleaned exponent maps are extensionally equal. *)
Lemma compatible_iff_same_maps : forall fx f w a b ma mb,
  is_defined fx f w (fst a) (snd a) = Ok true -> is_defined fx f w (fst b) (snd b) = Ok true ->
  define_units_map fx f w a = Ok ma -> define_units_map fx f w b = Ok mb ->
  (compatible fx f w (Some a) (Some b) = Ok true <-> forall k, get ma k == get mb k).
Proof.
  intros fx f w a b ma mb Da Db Ha Hb. rewrite compatible_spec. split.
  - intros [_ [_ [ma' [mb' [Ha' [Hb' Hext]]]]]]. rewrite Ha in Ha'. rewrite Hb in Hb'.
    injection Ha' as <-. injection Hb' as <-. exact Hext.
  - intros Hext. split; [exact Da|]. split; [exact Db|]. exists ma, mb. auto.
Qed.

Lemma compatible_refl : forall fx f w a, is_defined fx f w (fst a) (snd a) = Ok true ->
  compatible fx f w (Some a) (Some a) = Ok true.
Proof.
  intros fx f w a Da. apply compatible_spec. split; [exact Da|]. split; [exact Da|].
  destruct (defined_map_ok fx f w a Da) as [m Hm]. exists m, m. split; [exact Hm|]. split; [exact Hm|].
  intros k. reflexivity.
Qed.

Lemma compatible_sym : forall fx f w a b, compatible fx f w a b = Ok true -> compatible fx f w b a = Ok true.
Proof.
  intros fx f w [a|] [b|] H; try (cbn in H; discriminate).
  apply compatible_spec in H. destruct H as [Da [Db [ma [mb [Ha [Hb Hext]]]]]].
  apply compatible_spec. split; [exact Db|]. split; [exact Da|]. exists mb, ma. split; [exact Hb|]. split; [exact Ha|].
  intros k. symmetry. apply Hext.
Qed.

Lemma compatible_trans : forall fx f w a b c,
  compatible fx f w a b = Ok true -> compatible fx f w b c = Ok true -> compatible fx f w a c = Ok true.
Proof.
  intros fx f w [a|] [b|] [c|] H1 H2; try (cbn in H1; discriminate); try (cbn in H2; discriminate).
  apply compatible_spec in H1. destruct H1 as [Da [Db [ma [mb [Ha [Hb Hext]]]]]].
  apply compatible_spec in H2. destruct H2 as [_ [Dc [mb' [mc [Hb' [Hc Hext']]]]]].
  rewrite Hb in Hb'. injection Hb' as <-.
  apply compatible_spec. split; [exact Da|]. split; [exact Dc|]. exists ma, mc. split; [exact Ha|]. split; [exact Hc|].
  intros k. rewrite Hext. apply Hext'.
Qed.

(* compatible never holds for nullptr or undefined units *)
Lemma compatible_true_defined : forall fx f w a b, compatible fx f w a b = Ok true ->
  exists a' b', a = Some a' /\ b = Some b' /\ is_defined fx f w (fst a') (snd a') = Ok true /\ is_defined fx f w (fst b') (snd b') = Ok true.
Proof.
  intros fx f w [a|] [b|] H; try (cbn in H; discriminate).
  apply compatible_spec in H. destruct H as [Da [Db _]]. exists a, b. auto.
Qed.

(* ------------------------------------------------------------------ scaling factor *)

Lemma scaling_factor_pow : forall fx f w a b q,
  scaling_factor fx f w a b = Ok (FPow q) <->
  exists a' b' l1 l2, a = Some a' /\ b = Some b' /\ compatible fx f w a b = Ok true /\
    mult_go fx f w (fst a') (snd a') = Ok (Some l1) /\ mult_go fx f w (fst b') (snd b') = Ok (Some l2) /\
    q = (0 + l1 * (-1 # 1)) + l2 * 1.
Proof.
  intros fx f w a b q. unfold scaling_factor. split.
  - intros H. destruct (compatible fx f w a b) as [[|]| |] eqn:Hc; try discriminate.
    destruct a as [a'|]; [|discriminate]. destruct b as [b'|]; [|discriminate].
    destruct (mult_go fx f w (fst a') (snd a')) as [[l1|]| |] eqn:H1; try discriminate;
      destruct (mult_go fx f w (fst b') (snd b')) as [[l2|]| |] eqn:H2; try discriminate.
    injection H as <-. exists a', b', l1, l2. repeat split; try reflexivity; assumption.
  - intros [a' [b' [l1 [l2 [-> [-> [Hc [H1 [H2 ->]]]]]]]]]. rewrite Hc, H1, H2. reflexivity.
Qed.

Lemma factor_antisym : forall fx f w a b q, scaling_factor fx f w a b = Ok (FPow q) ->
  exists q', scaling_factor fx f w b a = Ok (FPow q') /\ q + q' == 0.
Proof.
  intros fx f w a b q H. apply scaling_factor_pow in H.
  destruct H as [a' [b' [l1 [l2 [-> [-> [Hc [H1 [H2 ->]]]]]]]]].
  eexists. split.
  - apply scaling_factor_pow. exists b', a', l2, l1. repeat split; try reflexivity; try assumption.
    apply compatible_sym. exact Hc.
  - ring.
Qed.

Lemma factor_cocycle : forall fx f w a b c q1 q2,
  scaling_factor fx f w a b = Ok (FPow q1) -> scaling_factor fx f w b c = Ok (FPow q2) ->
  exists q3, scaling_factor fx f w a c = Ok (FPow q3) /\ q3 == q1 + q2.
Proof.
  intros fx f w a b c q1 q2 H1 H2. apply scaling_factor_pow in H1. apply scaling_factor_pow in H2.
  destruct H1 as [a' [b' [l1 [l2 [-> [-> [Hc [Ha [Hb ->]]]]]]]]].
  destruct H2 as [b'' [c' [l2' [l3 [Hbb [-> [Hc' [Hb' [Hcc ->]]]]]]]]].
  injection Hbb as <-. rewrite Hb in Hb'. injection Hb' as <-.
  eexists. split.
  - apply scaling_factor_pow. exists a', c', l1, l3. repeat split; try reflexivity; try assumption.
    apply (compatible_trans _ _ _ _ _ _ Hc Hc').
  - ring.
Qed.

Lemma factor_zero_incompatible : forall fx f w a b, compatible fx f w a b = Ok false -> scaling_factor fx f w a b = Ok FZero.
Proof. intros fx f w a b H. unfold scaling_factor. rewrite H. reflexivity. Qed.

Lemma factor_zero_null : forall fx f w a b, a = None \/ b = None -> scaling_factor fx f w a b = Ok FZero.
Proof. intros fx f w a b [->| ->]; [|destruct a]; reflexivity. Qed.

Lemma factor_zero_undefined : forall fx f w a b,
  is_defined fx f w (fst a) (snd a) = Ok false \/
  (is_defined fx f w (fst a) (snd a) = Ok true /\ is_defined fx f w (fst b) (snd b) = Ok false) ->
  scaling_factor fx f w (Some a) (Some b) = Ok FZero.
Proof.
  intros fx f w a b H. apply factor_zero_incompatible. unfold compatible.
  destruct H as [H|[H1 H2]]; [rewrite H|rewrite H1, H2]; reflexivity.
Qed.

Lemma factor_zero_iff : forall fx f w a b,
  scaling_factor fx f w a b = Ok FZero <->
  compatible fx f w a b = Ok false \/
  (compatible fx f w a b = Ok true /\ exists a' b' r1 r2, a = Some a' /\ b = Some b' /\
     mult_go fx f w (fst a') (snd a') = Ok r1 /\ mult_go fx f w (fst b') (snd b') = Ok r2 /\ (r1 = None \/ r2 = None)).
Proof.
  intros fx f w a b. unfold scaling_factor. split.
  - intros H. destruct (compatible fx f w a b) as [[|]| |] eqn:Hc; try discriminate; [|left; reflexivity].
    right. split; [reflexivity|].
    destruct a as [a'|]; [|cbn in Hc; discriminate]. destruct b as [b'|]; [|cbn in Hc; discriminate].
    destruct (mult_go fx f w (fst a') (snd a')) as [r1| |] eqn:H1; try discriminate.
    destruct (mult_go fx f w (fst b') (snd b')) as [r2| |] eqn:H2; try discriminate.
    exists a', b', r1, r2. split; [reflexivity|]. split; [reflexivity|]. split; [exact H1|]. split; [exact H2|].
    destruct r1; [|left; reflexivity]. destruct r2; [discriminate|right; reflexivity].
  - intros [H|[Hc [a' [b' [r1 [r2 [-> [-> [H1 [H2 Hn]]]]]]]]]]; [rewrite H; reflexivity|].
    rewrite Hc, H1, H2. destruct Hn as [->| ->]; [reflexivity|destruct r1; reflexivity].
Qed.

Lemma factor_pos_compatible : forall fx f w a b l1 l2,
  compatible fx f w (Some a) (Some b) = Ok true ->
  mult_go fx f w (fst a) (snd a) = Ok (Some l1) -> mult_go fx f w (fst b) (snd b) = Ok (Some l2) ->
  exists q, scaling_factor fx f w (Some a) (Some b) = Ok (FPow q) /\ q == l2 - l1.
Proof.
  intros fx f w a b l1 l2 Hc H1 H2. eexists. split.
  - apply scaling_factor_pow. exists a, b, l1, l2. repeat split; try reflexivity; assumption.
  - ring.
Qed.

Lemma equivalent_iff : forall fx f w a b,
  equivalent fx f w a b = Ok true <->
  compatible fx f w a b = Ok true /\ exists q, scaling_factor fx f w a b = Ok (FPow q) /\ q == 0.
Proof.
  intros fx f w a b. unfold equivalent. split.
  - intros H. destruct (scaling_factor fx f w a b) as [[|q]| |] eqn:Hs; try discriminate.
    injection H as H. apply qzero_iff in H. split.
    + apply scaling_factor_pow in Hs. destruct Hs as [a' [b' [l1 [l2 [_ [_ [Hc _]]]]]]]. exact Hc.
    + exists q. split; [reflexivity|exact H].
  - intros [_ [q [Hs Hq]]]. rewrite Hs. f_equal. apply qzero_iff. exact Hq.
Qed.

(* ------------------------------------------------------------------ the exponent map is additive in the accumulator *)

Lemma sumq_cons : forall x l, sumq (x :: l) = x + sumq l.
Proof. reflexivity. Qed.

Lemma comp_get_cons : forall c r k, comp_get (c :: r) k = (if String.eqb (fst c) k then snd c else 0) + comp_get r k.
Proof. reflexivity. Qed.

Lemma get_nil : forall k, get [] k = 0.
Proof. reflexivity. Qed.

Lemma get_fold_madd : forall (comps : list (string * Q)) e m k,
  get (fold_left (fun m c => madd (fst c) (snd c * e) m) comps m) k == get m k + comp_get comps k * e.
Proof.
  induction comps as [|c r IH]; intros e m k.
  - cbn. unfold comp_get. cbn. ring.
  - cbn [fold_left]. rewrite IH. rewrite get_madd. rewrite comp_get_cons.
    destruct (String.eqb (fst c) k); ring.
Qed.

Lemma get_add_std : forall n e m k, get (add_std n e m) k == get m k + std_dim n k * e.
Proof. intros n e m k. unfold add_std, std_dim. apply get_fold_madd. Qed.

Definition getr (r : res umap) (k : string) : Q := match r with Ok m => get m k | _ => 0 end.

Definition additive (acc : umap) (r r0 : res umap) : Prop :=
  match r0 with
  | Ok m0 => exists m, r = Ok m /\ forall k, get m k == get acc k + get m0 k
  | OutOfFuel => r = OutOfFuel
  | Crash => r = Crash
  end.

Definition additive_step {A} (step : A -> umap -> res umap) : Prop :=
  forall c acc, additive acc (step c acc) (step c []).

Lemma additive_ok : forall acc m m0, (forall k, get m k == get acc k + get m0 k) -> additive acc (Ok m) (Ok m0).
Proof. intros acc m m0 H. exists m. split; [reflexivity|exact H]. Qed.

Lemma fold_res_additive : forall {A} (step : A -> umap -> res umap) l,
  (forall c acc, In c l -> additive acc (step c acc) (step c [])) ->
  forall acc, additive acc (fold_res step l acc) (fold_res step l []).
Proof.
  intros A step l. induction l as [|a r IH]; intros Hs acc.
  - cbn [fold_res additive]. exists acc. split; [reflexivity|]. intros k. rewrite get_nil. ring.
  - assert (Hr : forall c acc, In c r -> additive acc (step c acc) (step c [])) by (intros c x Hin; apply Hs; right; exact Hin).
    specialize (IH Hr). cbn [fold_res].
    pose proof (Hs a acc (or_introl eq_refl)) as Ha. unfold additive in Ha.
    destruct (step a []) as [s0| |] eqn:H0; [|rewrite Ha; reflexivity|rewrite Ha; reflexivity].
    destruct Ha as [m1 [Hm1 Hg1]]. rewrite Hm1.
    pose proof (IH m1) as I1. pose proof (IH s0) as I0. unfold additive in *.
    destruct (fold_res step r []) as [r0| |]; [|rewrite I1, I0; reflexivity|rewrite I1, I0; reflexivity].
    destruct I1 as [x [Hx Hgx]]. destruct I0 as [y [Hy Hgy]]. rewrite Hx, Hy.
    exists x. split; [reflexivity|]. intros k. rewrite Hgx, Hgy, Hg1. ring.
Qed.

Lemma umap_go_additive : forall fx f w mi name e acc,
  additive acc (umap_go fx f w mi name e acc) (umap_go fx f w mi name e []).
Proof.
  intros fx. induction f as [|f' IH]; intros w mi name e acc; [reflexivity|].
  rewrite !umap_go_S.
  destruct (is_base (S f') w mi name) as [[|]| |]; try reflexivity.
  - apply additive_ok. intros k. rewrite !get_madd, get_nil. destruct (String.eqb name k); ring.
  - destruct (lookup w mi name) as [[l|mj r]|]; [| |reflexivity].
    + destruct (Nat.eqb (length l) 0 && is_std_name name).
      * apply additive_ok. intros k. rewrite !get_add_std, get_nil. ring.
      * apply fold_res_additive. intros c a _.
        destruct (is_std_name (uc_ref c)).
        -- apply additive_ok. intros k. rewrite !get_add_std, get_nil. ring.
        -- destruct (lookup w mi (uc_ref c)); [apply IH|reflexivity].
    + destruct (is_std_name name).
      * apply additive_ok. intros k. rewrite !get_add_std, get_nil. ring.
      * destruct (lookup w mj r); [apply IH|reflexivity].
Qed.

(* a fold of additive steps from the empty map is the sum of the contributions of the elements *)
Lemma fold_res_sum : forall {A} (step : A -> umap -> res umap) l m,
  (forall c acc, In c l -> additive acc (step c acc) (step c [])) ->
  fold_res step l [] = Ok m ->
  (forall c, In c l -> exists mc, step c [] = Ok mc) /\
  forall k, get m k == sumq (map (fun c => getr (step c []) k) l).
Proof.
  intros A step l. induction l as [|a r IH]; intros m Hs H.
  - cbn in H. injection H as <-. split; [intros c []|]. intros k. reflexivity.
  - assert (Hr : forall c acc, In c r -> additive acc (step c acc) (step c [])) by (intros c x Hin; apply Hs; right; exact Hin).
    cbn [fold_res] in H. destruct (step a []) as [s0| |] eqn:H0; try discriminate.
    pose proof (fold_res_additive step r Hr s0) as Ad. unfold additive in Ad. rewrite H in Ad.
    destruct (fold_res step r []) as [r0| |] eqn:Hr0; try discriminate.
    destruct Ad as [x [Hx Hg]]. injection Hx as <-.
    destruct (IH r0 Hr eq_refl) as [Hall Hsum]. split.
    + intros c [<-|Hin]; [exists s0; exact H0|apply Hall; exact Hin].
    + intros k. cbn [map]. rewrite sumq_cons, Hg, Hsum, H0. reflexivity.
Qed.

Lemma fold_res_sum_ok : forall {A} (step : A -> umap -> res umap) l,
  (forall c acc, In c l -> additive acc (step c acc) (step c [])) ->
  (forall c, In c l -> exists mc, step c [] = Ok mc) -> exists m, fold_res step l [] = Ok m.
Proof.
  intros A step l. induction l as [|a r IH]; intros Hs Hall.
  - exists []. reflexivity.
  - assert (Hr : forall c acc, In c r -> additive acc (step c acc) (step c [])) by (intros c x Hin; apply Hs; right; exact Hin).
    destruct (Hall a (or_introl eq_refl)) as [s0 H0]. cbn [fold_res]. rewrite H0.
    destruct (IH Hr (fun c Hin => Hall c (or_intror Hin))) as [r0 Hr0].
    pose proof (fold_res_additive step r Hr s0) as Ad. unfold additive in Ad. rewrite Hr0 in Ad.
    destruct Ad as [x [Hx _]]. exists x. exact Hx.
Qed.

(* ------------------------------------------------------------------ order of the unit children *)

(* equal as results: both fail, or both succeed with extensionally equal maps *)
Definition req (r r' : res umap) : Prop :=
  match r, r' with
  | Ok m, Ok m' => forall k, get m k == get m' k
  | Ok _, _ | _, Ok _ => False
  | _, _ => True
  end.

Lemma sumq_perm : forall {A} (g : A -> Q) l l', Permutation l l' -> sumq (map g l) == sumq (map g l').
Proof.
  intros A g l l' P. induction P as [|x l l' P IH|x y l|l l' l'' P1 IH1 P2 IH2]; cbn [map]; rewrite ?sumq_cons.
  - reflexivity.
  - rewrite IH. reflexivity.
  - ring.
  - rewrite IH1. exact IH2.
Qed.

Lemma sumq_ext : forall {A} (g g' : A -> Q) l, (forall c, In c l -> g c == g' c) -> sumq (map g l) == sumq (map g' l).
Proof.
  intros A g g' l. induction l as [|a r IH]; intros H; cbn [map]; rewrite ?sumq_cons; [reflexivity|].
  rewrite (H a (or_introl eq_refl)), IH; [reflexivity|]. intros c Hin. apply H. right. exact Hin.
Qed.

Lemma fold_res_perm_req : forall {A} (step step' : A -> umap -> res umap) l l',
  additive_step step -> additive_step step' ->
  (forall c, In c l -> req (step c []) (step' c [])) -> Permutation l l' ->
  req (fold_res step l []) (fold_res step' l' []).
Proof.
  intros A step step' l l' As As' Hreq P.
  assert (Hreq' : forall c, In c l' -> req (step c []) (step' c [])).
  { intros c Hin. apply Hreq. apply (Permutation_in c (Permutation_sym P) Hin). }
  destruct (fold_res step l []) as [m| |] eqn:H1.
  - destruct (fold_res_sum step l m (fun c acc _ => As c acc) H1) as [Hall Hsum].
    assert (Hall' : forall c, In c l' -> exists mc, step' c [] = Ok mc).
    { intros c Hin. specialize (Hreq' c Hin). destruct (Hall c (Permutation_in c (Permutation_sym P) Hin)) as [mc Hmc].
      rewrite Hmc in Hreq'. unfold req in Hreq'. destruct (step' c []) as [mc'| |]; [exists mc'; reflexivity|contradiction|contradiction]. }
    destruct (fold_res_sum_ok step' l' (fun c acc _ => As' c acc) Hall') as [m' H2]. rewrite H2.
    destruct (fold_res_sum step' l' m' (fun c acc _ => As' c acc) H2) as [_ Hsum'].
    unfold req. intros k. rewrite Hsum, Hsum'. rewrite (sumq_perm _ l l' P). apply sumq_ext.
    intros c Hin. specialize (Hreq' c Hin). destruct (Hall' c Hin) as [mc' Hmc'].
    destruct (Hall c (Permutation_in c (Permutation_sym P) Hin)) as [mc Hmc].
    rewrite Hmc, Hmc' in *. cbn. apply Hreq'.
  - destruct (fold_res step' l' []) as [m'| |] eqn:H2; [|exact I|exact I]. exfalso.
    destruct (fold_res_sum step' l' m' (fun c acc _ => As' c acc) H2) as [Hall' _].
    assert (Hall : forall c, In c l -> exists mc, step c [] = Ok mc).
    { intros c Hin. specialize (Hreq c Hin). destruct (Hall' c (Permutation_in c P Hin)) as [mc' Hmc'].
      rewrite Hmc' in Hreq. unfold req in Hreq. destruct (step c []) as [mc| |]; [exists mc; reflexivity|contradiction|contradiction]. }
    destruct (fold_res_sum_ok step l (fun c acc _ => As c acc) Hall) as [m H]. rewrite H in H1. discriminate.
  - destruct (fold_res step' l' []) as [m'| |] eqn:H2; [|exact I|exact I]. exfalso.
    destruct (fold_res_sum step' l' m' (fun c acc _ => As' c acc) H2) as [Hall' _].
    assert (Hall : forall c, In c l -> exists mc, step c [] = Ok mc).
    { intros c Hin. specialize (Hreq c Hin). destruct (Hall' c (Permutation_in c P Hin)) as [mc' Hmc'].
      rewrite Hmc' in Hreq. unfold req in Hreq. destruct (step c []) as [mc| |]; [exists mc; reflexivity|contradiction|contradiction]. }
    destruct (fold_res_sum_ok step l (fun c acc _ => As c acc) Hall) as [m H]. rewrite H in H1. discriminate.
Qed.

(* two worlds that differ only in the order of the unit children of their units *)
Definition perm_def (d d' : option udef) : Prop :=
  match d, d' with
  | Some (Defs l), Some (Defs l') => Permutation l l'
  | Some (Import a b), Some (Import a' b') => a = a' /\ b = b'
  | None, None => True
  | _, _ => False
  end.
Definition perm_world (w w' : world) : Prop :=
  length w = length w' /\ forall mi n, perm_def (lookup w mi n) (lookup w' mi n).

Lemma perm_def_none : forall d d', perm_def d d' -> (d = None <-> d' = None).
Proof.
  intros [[l|a b]|] [[l'|a' b']|] H; cbn in H; try contradiction; split; intros E; try discriminate; reflexivity.
Qed.

Lemma is_base_h_perm : forall w w', perm_world w w' -> forall f h mi n, is_base_h f w h mi n = is_base_h f w' h mi n.
Proof.
  intros w w' [Hlen Hp]. induction f as [|f' IH]; intros h mi n; [reflexivity|].
  rewrite !is_base_h_S. pose proof (Hp mi n) as Hd. unfold perm_def in Hd.
  destruct (lookup w mi n) as [[l|a b]|]; destruct (lookup w' mi n) as [[l'|a' b']|]; try contradiction; try reflexivity.
  - rewrite (Permutation_length Hd). reflexivity.
  - destruct Hd as [<- <-]. rewrite <- Hlen.
    destruct (Nat.ltb a (length w)); [|reflexivity]. cbv zeta.
    assert (Hc : import_cycle w h (new_epoch h mi a) = import_cycle w' h (new_epoch h mi a)).
    { unfold import_cycle. rewrite Hlen. reflexivity. }
    rewrite <- Hc. destruct (import_cycle w h (new_epoch h mi a)); [reflexivity|].
    pose proof (Hp a b) as Hd2. pose proof (perm_def_none _ _ Hd2) as Hn.
    destruct (lookup w a b) as [d|]; destruct (lookup w' a b) as [d'|]; try reflexivity.
    + apply IH.
    + destruct Hn as [_ Hn]. specialize (Hn eq_refl). discriminate.
    + destruct Hn as [Hn _]. specialize (Hn eq_refl). discriminate.
Qed.

Lemma req_ok_refl : forall m, req (Ok m) (Ok m).
Proof. intros m k. reflexivity. Qed.

Lemma umap_step_additive : forall fx f' w mi e,
  additive_step (fun (c : unit_child) a =>
                if is_std_name (uc_ref c) then Ok (add_std (uc_ref c) (uc_exp c * e) a)
                else match lookup w mi (uc_ref c) with
                     | None => Crash
                     | Some _ => umap_go fx f' w mi (uc_ref c) (uc_exp c * e) a
                     end).
Proof.
  intros fx f' w mi e c acc. cbv beta.
  destruct (is_std_name (uc_ref c)).
  - apply additive_ok. intros k. rewrite !get_add_std, get_nil. ring.
  - destruct (lookup w mi (uc_ref c)); [apply umap_go_additive|reflexivity].
Qed.

Lemma umap_go_perm : forall fx w w', perm_world w w' -> forall f mi n e,
  req (umap_go fx f w mi n e []) (umap_go fx f w' mi n e []).
Proof.
  intros fx w w' PW. pose proof PW as [Hlen Hp]. induction f as [|f' IH]; intros mi n e; [exact I|].
  rewrite !umap_go_S. unfold is_base. rewrite <- (is_base_h_perm w w' PW).
  destruct (is_base_h (S f') w [] mi n) as [[|]| |]; try exact I; [apply req_ok_refl|].
  pose proof (Hp mi n) as Hd. unfold perm_def in Hd.
  destruct (lookup w mi n) as [[l|a b]|]; destruct (lookup w' mi n) as [[l'|a' b']|]; try contradiction; try exact I.
  - rewrite <- (Permutation_length Hd).
    destruct (Nat.eqb (length l) 0 && is_std_name n); [apply req_ok_refl|].
    apply fold_res_perm_req; [apply umap_step_additive|apply umap_step_additive| |exact Hd].
    intros c _. destruct (is_std_name (uc_ref c)); [apply req_ok_refl|].
    pose proof (Hp mi (uc_ref c)) as Hd2. pose proof (perm_def_none _ _ Hd2) as Hn.
    destruct (lookup w mi (uc_ref c)) as [d|]; destruct (lookup w' mi (uc_ref c)) as [d'|]; try exact I.
    + apply IH.
    + destruct Hn as [_ Hn]. specialize (Hn eq_refl). discriminate.
    + destruct Hn as [Hn _]. specialize (Hn eq_refl). discriminate.
  - destruct Hd as [<- <-]. destruct (is_std_name n); [apply req_ok_refl|].
    pose proof (Hp a b) as Hd2. pose proof (perm_def_none _ _ Hd2) as Hn.
    destruct (lookup w a b) as [d|]; destruct (lookup w' a b) as [d'|]; try exact I.
    + apply IH.
    + destruct Hn as [_ Hn]. specialize (Hn eq_refl). discriminate.
    + destruct Hn as [Hn _]. specialize (Hn eq_refl). discriminate.
Qed.

Lemma define_units_map_perm : forall fx w w' f u m, perm_world w w' ->
  define_units_map fx f w u = Ok m ->
  exists m', define_units_map fx f w' u = Ok m' /\ forall k, get m k == get m' k.
Proof.
  intros fx w w' f u m PW H. unfold define_units_map in *.
  pose proof (umap_go_perm fx w w' PW f (fst u) (snd u) 1) as R.
  destruct (umap_go fx f w (fst u) (snd u) 1 []) as [m0| |] eqn:H0; try discriminate. injection H as <-.
  unfold req in R. destruct (umap_go fx f w' (fst u) (snd u) 1 []) as [m0'| |] eqn:H0'; try contradiction.
  exists (clean_map m0'). split; [reflexivity|]. intros k.
  rewrite !get_clean_map.
  - destruct (String.eqb k "dimensionless"); [reflexivity|apply R].
  - apply (umap_go_wf _ _ _ _ _ _ _ _ wfmap_nil H0').
  - apply (umap_go_wf _ _ _ _ _ _ _ _ wfmap_nil H0).
Qed.

(* set_units gives such a world *)
Lemma assoc_set_assoc : forall {A} k (v : A) l k',
  assoc k' (set_assoc k v l) =
  match assoc k l with
  | Some _ => if String.eqb k' k then Some v else assoc k' l
  | None => assoc k' l
  end.
Proof.
  intros A k v l k'. induction l as [|[key x] r IH]; cbn; [reflexivity|].
  destruct (String.eqb_spec k key) as [->|Hne]; cbn.
  - destruct (String.eqb k' key); reflexivity.
  - rewrite IH. destruct (assoc k r).
    + destruct (String.eqb_spec k' key) as [->|Hne'].
      * destruct (String.eqb_spec key k) as [->|_]; [contradiction Hne; reflexivity|reflexivity].
      * reflexivity.
    + reflexivity.
Qed.

Lemma length_set_units : forall w mi n d, length (set_units w mi n d) = length w.
Proof.
  induction w as [|e r IH]; intros mi n d; [reflexivity|]. destruct mi; cbn; [reflexivity|]. rewrite IH. reflexivity.
Qed.

Lemma lookup_set_units : forall w mi0 n0 d mi n,
  lookup (set_units w mi0 n0 d) mi n =
  match lookup w mi0 n0 with
  | Some _ => if Nat.eqb mi mi0 && String.eqb n n0 then Some d else lookup w mi n
  | None => lookup w mi n
  end.
Proof.
  unfold lookup. induction w as [|e r IH]; intros mi0 n0 d mi n.
  - destruct mi0; destruct mi; reflexivity.
  - destruct mi0 as [|mi0']; destruct mi as [|mi']; cbn [set_units nth_error Nat.eqb andb].
    + rewrite assoc_set_assoc. destruct (assoc n0 e); reflexivity.
    + destruct (assoc n0 e); reflexivity.
    + destruct (match nth_error r mi0' with Some e0 => assoc n0 e0 | None => None end); reflexivity.
    + apply IH.
Qed.

Lemma perm_world_set_units : forall w mi0 n0 l l',
  lookup w mi0 n0 = Some (Defs l) -> Permutation l l' -> perm_world w (set_units w mi0 n0 (Defs l')).
Proof.
  intros w mi0 n0 l l' Hl P. split; [symmetry; apply length_set_units|].
  intros mi n. rewrite lookup_set_units, Hl.
  destruct (Nat.eqb_spec mi mi0) as [->|Hne]; cbn [andb].
  - destruct (String.eqb_spec n n0) as [->|Hne'].
    + rewrite Hl. exact P.
    + destruct (lookup w mi0 n) as [[x|a b]|]; cbn; auto.
  - destruct (lookup w mi n) as [[x|a b]|]; cbn; auto.
Qed.

(** The exponent map of every units is independent of the order of the unit children of any units. *)
Lemma map_perm_invariant : forall fx f w mi0 n0 l l' u m,
  lookup w mi0 n0 = Some (Defs l) -> Permutation l l' ->
  define_units_map fx f w u = Ok m ->
  exists m', define_units_map fx f (set_units w mi0 n0 (Defs l')) u = Ok m' /\ forall k, get m k == get m' k.
Proof.
  intros fx f w mi0 n0 l l' u m Hl P H.
  apply (define_units_map_perm fx w _ f u m (perm_world_set_units w mi0 n0 l l' Hl P) H).
Qed.

(** ... and so is compatible, as long as the library still calls both units defined (isDefined() itself depends on the order). *)
Lemma compatible_perm_partial : forall fx f w w' a b, perm_world w w' ->
  compatible fx f w (Some a) (Some b) = Ok true ->
  is_defined fx f w' (fst a) (snd a) = Ok true -> is_defined fx f w' (fst b) (snd b) = Ok true ->
  compatible fx f w' (Some a) (Some b) = Ok true.
Proof.
  intros fx f w w' a b PW H Da Db. apply compatible_spec in H.
  destruct H as [_ [_ [ma [mb [Ha [Hb Hext]]]]]].
  destruct (define_units_map_perm fx w w' f a ma PW Ha) as [ma' [Ha' Ea]].
  destruct (define_units_map_perm fx w w' f b mb PW Hb) as [mb' [Hb' Eb]].
  apply compatible_spec. split; [exact Da|]. split; [exact Db|]. exists ma', mb'. split; [exact Ha'|]. split; [exact Hb'|].
  intros k. rewrite <- Ea, <- Eb. apply Hext.
Qed.

(* ------------------------------------------------------------------ the exponent map is the dimension *)

Definition import_free (w : world) : Prop := forall mi n a b, lookup w mi n <> Some (Import a b).

Lemma dim_S : forall f' w mi name k, dim (S f') w mi name k =
    match is_base (S f') w mi name with
    | Ok true => if String.eqb name k then 1 else 0
    | _ =>
      match lookup w mi name with
      | None => 0
      | Some (Import mj r) => if is_std_name name then std_dim name k else dim f' w mj r k
      | Some (Defs l) =>
          if Nat.eqb (length l) 0 && is_std_name name then std_dim name k
          else sumq (map (fun c => uc_exp c * (if is_std_name (uc_ref c) then std_dim (uc_ref c) k
                                               else dim f' w mi (uc_ref c) k)) l)
      end
    end.
Proof. reflexivity. Qed.

Lemma sumq_scale : forall {A} (g : A -> Q) e l, sumq (map (fun c => e * g c) l) == e * sumq (map g l).
Proof.
  intros A g e l. induction l as [|a r IH]; cbn [map]; rewrite ?sumq_cons.
  - unfold sumq. cbn. ring.
  - rewrite IH. ring.
Qed.

Lemma umap_go_dim : forall fx w, fx_import fx = true \/ import_free w ->
  forall f mi n e, defined_sem f w mi n = Ok true ->
  exists m, umap_go fx f w mi n e [] = Ok m /\ forall k, get m k == e * dim f w mi n k.
Proof.
  intros fx w Hfx. induction f as [|f' IH]; intros mi n e Hd; [discriminate|].
  destruct (defined_umap_ok fx (S f') w mi n e [] Hd) as [m Hm]. exists m. split; [exact Hm|].
  intros k. rewrite umap_go_S in Hm. rewrite dim_S.
  destruct (defined_is_base_ok (S f') w [] mi n Hd) as [b Hb]. unfold is_base in *. rewrite Hb in *.
  destruct b.
  - injection Hm as <-. change (get (madd n e []) k == e * (if String.eqb n k then 1 else 0)).
    rewrite get_madd, get_nil. destruct (String.eqb n k); ring.
  - pose proof Hd as Hd0. rewrite defined_sem_S in Hd.
    destruct (lookup w mi n) as [[l|mj r]|] eqn:Hl; [| |discriminate].
    + destruct (Nat.eqb (length l) 0 && is_std_name n).
      * injection Hm as <-. rewrite get_add_std, get_nil. ring.
      * destruct (fold_res_sum _ l m (fun c acc _ => umap_step_additive fx f' w mi e c acc) Hm) as [_ Hsum].
        rewrite Hsum. rewrite <- sumq_scale. apply sumq_ext. intros c Hin. cbv beta.
        destruct (is_std_name (uc_ref c)) eqn:Hstd.
        -- cbn [getr]. rewrite get_add_std, get_nil. ring.
        -- destruct (defined_children f' w mi n l c Hd0 Hl Hin Hstd) as [Hne Hdc].
           destruct (lookup w mi (uc_ref c)); [|contradiction Hne; reflexivity].
           destruct (IH mi (uc_ref c) (uc_exp c * e) Hdc) as [mc [Hmc Hgc]]. rewrite Hmc. cbn [getr]. rewrite Hgc. ring.
    + destruct Hfx as [Hfx|Hfree]; [|exfalso; apply (Hfree mi n mj r Hl)].
      destruct (is_std_name n).
      * injection Hm as <-. rewrite get_add_std, get_nil. ring.
      * destruct (lookup w mj r) as [d|] eqn:Hlt; [|discriminate].
        rewrite Hfx in Hm. destruct (IH mj r e Hd) as [mc [Hmc Hgc]]. rewrite Hmc in Hm. injection Hm as <-. apply Hgc.
Qed.

(** With the import exponent passed on (or without imports), the cleaned map of a defined units is its dimension. *)
Lemma map_is_dimension : forall fx f w u, fx_import fx = true \/ import_free w ->
  is_defined fx f w (fst u) (snd u) = Ok true ->
  exists m, define_units_map fx f w u = Ok m /\
            forall k, k <> "dimensionless" -> get m k == dim f w (fst u) (snd u) k.
Proof.
  intros fx f w u Hfx Hd. apply is_defined_sound in Hd.
  destruct (umap_go_dim fx w Hfx f (fst u) (snd u) 1 Hd) as [m0 [Hm0 Hg]].
  unfold define_units_map. rewrite Hm0. exists (clean_map m0). split; [reflexivity|].
  intros k Hk. rewrite get_clean_map by apply (umap_go_wf _ _ _ _ _ _ _ _ wfmap_nil Hm0).
  destruct (String.eqb_spec k "dimensionless") as [->|_]; [contradiction Hk; reflexivity|].
  rewrite Hg. ring.
Qed.

Lemma compatible_iff_same_exponents : forall fx f w a b, fx_import fx = true \/ import_free w ->
  is_defined fx f w (fst a) (snd a) = Ok true -> is_defined fx f w (fst b) (snd b) = Ok true ->
  (compatible fx f w (Some a) (Some b) = Ok true <->
   forall k, k <> "dimensionless" -> dim f w (fst a) (snd a) k == dim f w (fst b) (snd b) k).
Proof.
  intros fx f w a b Hfx Da Db.
  destruct (map_is_dimension fx f w a Hfx Da) as [ma [Ha Ga]].
  destruct (map_is_dimension fx f w b Hfx Db) as [mb [Hb Gb]].
  rewrite (compatible_iff_same_maps fx f w a b ma mb Da Db Ha Hb). split.
  - intros H k Hk. rewrite <- Ga, <- Gb by exact Hk. apply H.
  - intros H k. destruct (String.eqb_spec k "dimensionless") as [->|Hk].
    + unfold define_units_map in Ha, Hb.
      destruct (umap_go fx f w (fst a) (snd a) 1 []) as [ma0| |] eqn:Ea; try discriminate.
      destruct (umap_go fx f w (fst b) (snd b) 1 []) as [mb0| |] eqn:Eb; try discriminate.
      injection Ha as <-. injection Hb as <-.
      rewrite !get_clean_map; [reflexivity| |].
      * apply (umap_go_wf _ _ _ _ _ _ _ _ wfmap_nil Eb).
      * apply (umap_go_wf _ _ _ _ _ _ _ _ wfmap_nil Ea).
    + rewrite Ga, Gb by exact Hk. apply H. exact Hk.
Qed.

(* ------------------------------------------------------------------ witnesses on the code as it is *)

Definition mk (r p : string) (e m : Q) : unit_child := {| uc_ref := r; uc_prefix := p; uc_exp := e; uc_mult := m |}.

(* row 23: lib: I = metre; main: Ii imports I, I2 = Ii^2, m2 = metre^2 *)
Definition w_import : world :=
  [ [("Ii", Import 1 "I"); ("I2", Defs [mk "Ii" "" (2 # 1) 0]); ("m2", Defs [mk "metre" "" (2 # 1) 0])];
    [("I", Defs [mk "metre" "" 1 0])] ].

Lemma compatible_iff_same_exponents_refuted :
  exists f w a b,
    is_defined unfixed f w (fst a) (snd a) = Ok true /\ is_defined unfixed f w (fst b) (snd b) = Ok true /\
    (forall k, k <> "dimensionless" -> dim f w (fst a) (snd a) k == dim f w (fst b) (snd b) k) /\
    compatible unfixed f w (Some a) (Some b) = Ok false.
Proof.
  exists 5%nat, w_import, (0%nat, "I2"), (0%nat, "m2").
  assert (Da : is_defined all_fixed 5 w_import 0 "I2" = Ok true) by (vm_compute; reflexivity).
  assert (Db : is_defined all_fixed 5 w_import 0 "m2" = Ok true) by (vm_compute; reflexivity).
  split; [vm_compute; reflexivity|]. split; [vm_compute; reflexivity|]. split; [|vm_compute; reflexivity].
  apply (compatible_iff_same_exponents all_fixed 5 w_import (0%nat, "I2") (0%nat, "m2") (or_introl eq_refl) Da Db).
  vm_compute. reflexivity.
Qed.

Lemma map_indirection_refuted :
  exists f w u m, is_defined unfixed f w (fst u) (snd u) = Ok true /\ define_units_map unfixed f w u = Ok m /\
                  ~ get m "metre" == dim f w (fst u) (snd u) "metre".
Proof.
  exists 5%nat, w_import, (0%nat, "I2"). eexists. split; [vm_compute; reflexivity|]. split; [vm_compute; reflexivity|].
  vm_compute. discriminate.
Qed.

(* isDefined depends on the order of the unit children (import history never popped) *)
Definition w_order (swap : bool) : world :=
  [ [("A", Import 1 "I3"); ("B", Import 1 "X");
     ("u", Defs (if swap then [mk "B" "" 1 0; mk "A" "" 1 0] else [mk "A" "" 1 0; mk "B" "" 1 0]))];
    [("I3", Import 2 "B1"); ("X", Defs [mk "metre" "" 1 0])];
    [("B1", Defs [])] ].

Lemma compatible_perm_refuted :
  exists f w mi n l l' u,
    lookup w mi n = Some (Defs l) /\ Permutation l l' /\
    compatible unfixed f (set_units w mi n (Defs l')) (Some u) (Some u) = Ok true /\
    compatible unfixed f w (Some u) (Some u) = Ok false /\
    defined_sem f w (fst u) (snd u) = Ok true.
Proof.
  exists 6%nat, (w_order false), 0%nat, "u", [mk "A" "" 1 0; mk "B" "" 1 0], [mk "B" "" 1 0; mk "A" "" 1 0], (0%nat, "u").
  split; [reflexivity|]. split; [apply perm_swap|]. split; [vm_compute; reflexivity|]. split; vm_compute; reflexivity.
Qed.

Lemma is_defined_complete_refuted :
  exists f w mi n, defined_sem f w mi n = Ok true /\ is_defined unfixed f w mi n = Ok false.
Proof. exists 6%nat, (w_order false), 0%nat, "u". split; vm_compute; reflexivity. Qed.

(* ------------------------------------------------------------------ the scale is the SI scale under the property's condition *)

Lemma mult_go_S : forall fx f' w mi name, mult_go fx (S f') w mi name =
    match lookup w mi name with
    | None => Crash
    | Some (Import mj r) =>
        match is_resolved fx (S f') w mi name with
        | Ok true =>
            match lookup w mj r with
            | None => Crash
            | Some _ => match mult_go fx f' w mj r with
                        | Ok (Some l) => Ok (Some (0 + l * 1))
                        | Ok None => Ok (Some 0)
                        | x => x
                        end
            end
        | Ok false => Ok None
        | OutOfFuel => OutOfFuel
        | Crash => Crash
        end
    | Some (Defs l) =>
        if Nat.eqb (length l) 0
        then Ok (Some (if fx_std fx && is_std_name name then std_mult name else 0))
        else
          fold_opt (fun c s =>
            match convert_prefix (uc_prefix c) with
            | None => Ok None
            | Some p =>
                if is_std_name (uc_ref c)
                then Ok (Some (s + (uc_mult c + std_mult (uc_ref c) * uc_exp c + inject_Z p)))
                else match lookup w mi (uc_ref c) with
                     | None => Ok None
                     | Some _ => match mult_go fx f' w mi (uc_ref c) with
                                 | Ok (Some b) => Ok (Some (s + (uc_mult c + (0 + b * 1) * uc_exp c + inject_Z p)))
                                 | x => x
                                 end
                     end
            end) l 0
    end.
Proof. reflexivity. Qed.

Lemma si_log_S : forall inside f' w mi name, si_log inside (S f') w mi name =
    match lookup w mi name with
    | None => 0
    | Some (Import mj r) => si_log inside f' w mj r
    | Some (Defs l) =>
        if Nat.eqb (length l) 0 then (if is_std_name name then std_mult name else 0)
        else sumq (map (fun c =>
               let p := prefix_or_zero (uc_prefix c) in
               let r := if is_std_name (uc_ref c) then std_mult (uc_ref c) else si_log inside f' w mi (uc_ref c) in
               if inside then uc_exp c * (uc_mult c + p + r) else uc_mult c + uc_exp c * (p + r)) l)
    end.
Proof. reflexivity. Qed.

Lemma si_term_eq : forall (inside : bool) (ex m p r : Q),
  ex == 1 \/ (p == 0 /\ m == 0) ->
  m + r * ex + p == (if inside then ex * (m + p + r) else m + ex * (p + r)).
Proof.
  intros inside ex m p r [H|[Hp Hm]]; destruct inside.
  - rewrite H. ring.
  - rewrite H. ring.
  - rewrite Hp, Hm. ring.
  - rewrite Hp, Hm. ring.
Qed.

Lemma mult_go_si : forall fx w (inside : bool), fx_std fx = true \/ no_bare_std_scaled w ->
  forall f mi n l, si_cond f w mi n = true -> imports_scale_ok fx f w mi n = true ->
  mult_go fx f w mi n = Ok (Some l) -> l == si_log inside f w mi n.
Proof.
  intros fx w inside Hfx. induction f as [|f' IH]; intros mi n l Hc Hi Hm; [discriminate|].
  rewrite mult_go_S in Hm. rewrite si_log_S. cbn [si_cond imports_scale_ok] in Hc, Hi.
  destruct (lookup w mi n) as [[ch|mj r]|] eqn:Hl; [| |discriminate].
  - destruct (Nat.eqb (length ch) 0) eqn:Hlen.
    + injection Hm as <-. destruct (is_std_name n) eqn:Hstd; [|rewrite andb_false_r; reflexivity].
      rewrite andb_true_r. destruct (fx_std fx) eqn:Hs; [reflexivity|].
      destruct Hfx as [Hfx|Hnb]; [discriminate|].
      destruct ch; [|discriminate]. symmetry. apply (Hnb mi n Hl Hstd).
    + clear Hl Hlen.
      assert (G : forall s t, fold_opt (fun c s =>
            match convert_prefix (uc_prefix c) with
            | None => Ok None
            | Some p =>
                if is_std_name (uc_ref c)
                then Ok (Some (s + (uc_mult c + std_mult (uc_ref c) * uc_exp c + inject_Z p)))
                else match lookup w mi (uc_ref c) with
                     | None => Ok None
                     | Some _ => match mult_go fx f' w mi (uc_ref c) with
                                 | Ok (Some b) => Ok (Some (s + (uc_mult c + (0 + b * 1) * uc_exp c + inject_Z p)))
                                 | x => x
                                 end
                     end
            end) ch s = Ok (Some t) ->
          t == s + sumq (map (fun c =>
               if inside
               then uc_exp c * (uc_mult c + prefix_or_zero (uc_prefix c) +
                                (if is_std_name (uc_ref c) then std_mult (uc_ref c) else si_log inside f' w mi (uc_ref c)))
               else uc_mult c + uc_exp c * (prefix_or_zero (uc_prefix c) +
                                (if is_std_name (uc_ref c) then std_mult (uc_ref c) else si_log inside f' w mi (uc_ref c)))) ch)).
      { clear Hm. induction ch as [|c rest IHc]; intros s t Hf.
        - cbn in Hf. injection Hf as <-. unfold sumq. cbn. ring.
        - cbn [forallb] in Hc, Hi. apply andb_prop in Hc. destruct Hc as [Hc1 Hc]. apply andb_prop in Hi. destruct Hi as [Hi1 Hi].
          apply andb_prop in Hc1. destruct Hc1 as [Hc1 Hc3]. apply andb_prop in Hc1. destruct Hc1 as [Hc1 Hc2].
          cbn [fold_opt] in Hf. cbn [map]. rewrite sumq_cons.
          destruct (convert_prefix (uc_prefix c)) as [p|] eqn:Hp; [|discriminate].
          assert (Hpz : prefix_or_zero (uc_prefix c) = inject_Z p) by (unfold prefix_or_zero; rewrite Hp; reflexivity).
          rewrite Hpz.
          assert (Hcond : uc_exp c == 1 \/ (inject_Z p == 0 /\ uc_mult c == 0)).
          { apply orb_prop in Hc1. destruct Hc1 as [H1|H1].
            - left. apply Qeq_bool_iff. exact H1.
            - right. unfold child_scale_free, prefix_or_zero in H1. rewrite Hp in H1. apply andb_prop in H1.
              destruct H1 as [Ha Hb]. split; apply Qeq_bool_iff; assumption. }
          destruct (is_std_name (uc_ref c)) eqn:Hstd.
          + rewrite (IHc Hc Hi _ _ Hf). rewrite <- (si_term_eq inside _ _ _ _ Hcond). ring.
          + cbn [orb] in Hc3, Hi1.
            destruct (lookup w mi (uc_ref c)) as [d|]; [|discriminate].
            destruct (mult_go fx f' w mi (uc_ref c)) as [[b|]| |] eqn:Hb; try discriminate.
            rewrite (IHc Hc Hi _ _ Hf). rewrite <- (si_term_eq inside _ _ _ _ Hcond).
            rewrite <- (IH mi (uc_ref c) b Hc3 Hi1 Hb). ring. }
      rewrite (G 0 l Hm). cbv zeta. ring.
  - destruct (is_resolved fx (S f') w mi n) as [[|]| |]; try discriminate.
    destruct (lookup w mj r) as [d|]; [|discriminate].
    destruct (mult_go fx f' w mj r) as [[b|]| |] eqn:Hb; try discriminate.
    injection Hm as <-. rewrite <- (IH mj r b Hc Hi Hb). ring.
Qed.

Lemma factor_is_si_ratio_partial : forall fx f w (inside : bool) a b q,
  fx_std fx = true \/ no_bare_std_scaled w ->
  si_cond f w (fst a) (snd a) = true -> si_cond f w (fst b) (snd b) = true ->
  imports_scale_ok fx f w (fst a) (snd a) = true -> imports_scale_ok fx f w (fst b) (snd b) = true ->
  scaling_factor fx f w (Some a) (Some b) = Ok (FPow q) ->
  q == si_log inside f w (fst b) (snd b) - si_log inside f w (fst a) (snd a).
Proof.
  intros fx f w inside a b q Hfx Ca Cb Ia Ib H. apply scaling_factor_pow in H.
  destruct H as [a' [b' [l1 [l2 [Ea [Eb [_ [H1 [H2 ->]]]]]]]]]. injection Ea as <-. injection Eb as <-.
  rewrite <- (mult_go_si fx w inside Hfx f _ _ l1 Ca Ia H1), <- (mult_go_si fx w inside Hfx f _ _ l2 Cb Ib H2). ring.
Qed.

(* outside the condition: mm2 = (milli metre)^2 against m2 = metre^2 *)
Definition w_mm : world :=
  [ [("mm2", Defs [mk "metre" "milli" (2 # 1) 0]); ("m2", Defs [mk "metre" "" (2 # 1) 0]);
     ("mm", Defs [mk "metre" "milli" 1 0]); ("mm_sq", Defs [mk "mm" "" (2 # 1) 0])] ].

Lemma factor_is_si_ratio_refuted :
  exists fx f w a b q, si_cond f w (fst a) (snd a) = false /\
    scaling_factor fx f w (Some a) (Some b) = Ok (FPow q) /\
    ~ q == si_log false f w (fst b) (snd b) - si_log false f w (fst a) (snd a) /\
    ~ q == si_log true f w (fst b) (snd b) - si_log true f w (fst a) (snd a).
Proof.
  exists all_fixed, 5%nat, w_mm, (0%nat, "mm2"), (0%nat, "m2"). eexists.
  split; [vm_compute; reflexivity|]. split; [vm_compute; reflexivity|]. split; vm_compute; discriminate.
Qed.

(* inside the condition, on the code as it is: a bare "litre" against metre^3 *)
Definition w_litre : world :=
  [ [("m3", Defs [mk "metre" "" (3 # 1) 0]); ("L1", Defs [mk "litre" "" 1 0])]; [("litre", Defs [])] ].

Lemma factor_is_si_ratio_bare_std_refuted :
  exists f w a b q, si_cond f w (fst a) (snd a) = true /\ si_cond f w (fst b) (snd b) = true /\
    imports_scale_ok unfixed f w (fst a) (snd a) = true /\ imports_scale_ok unfixed f w (fst b) (snd b) = true /\
    scaling_factor unfixed f w (Some a) (Some b) = Ok (FPow q) /\
    ~ q == si_log false f w (fst b) (snd b) - si_log false f w (fst a) (snd a).
Proof.
  exists 5%nat, w_litre, (1%nat, "litre"), (0%nat, "m3"). eexists.
  repeat (split; [vm_compute; reflexivity|]). vm_compute. discriminate.
Qed.

(* ------------------------------------------------------------------ the three scale formulas agree on the fragment agree_cond *)

Lemma agree_cond_S : forall f' w mi name, agree_cond (S f') w mi name =
    (negb (is_std_name name) &&
    match lookup w mi name with
    | Some (Defs l) =>
        forallb (fun c =>
          Qeq_bool (uc_exp c) 1
          && (match convert_prefix (uc_prefix c) with Some _ => true | None => false end)
          && (is_std_name (uc_ref c)
              || match lookup w mi (uc_ref c) with
                 | Some (Defs l') => (Nat.eqb (length l') 0 || child_scale_free c) && agree_cond f' w mi (uc_ref c)
                 | _ => false
                 end)) l
    | _ => false
    end).
Proof. reflexivity. Qed.

Lemma val_go_S : forall f' w mi uname uexp logmult dir s, val_go (S f') w mi uname uexp logmult dir s =
    match lookup w mi uname with
    | Some d =>
        match is_base (S f') w mi uname with
        | Ok true => Ok (madd uname (dir * uexp) (fst s), snd s + dir * logmult)
        | Ok false =>
            match d with
            | Import _ _ => Ok s
            | Defs l =>
                fold_res (fun c s =>
                  if negb (is_std_name (uc_ref c))
                  then val_go f' w mi (uc_ref c) (uc_exp c * uexp)
                         (logmult + uc_mult c * uexp + prefix_or_zero (uc_prefix c) * uexp) dir s
                  else match at_add_std (uc_ref c) (dir * (uc_exp c * uexp)) (fst s) with
                       | Ok m => Ok (m, snd s + dir * (logmult + (std_mult (uc_ref c) + uc_mult c + prefix_or_zero (uc_prefix c)) * uc_exp c))
                       | OutOfFuel => OutOfFuel
                       | Crash => Crash
                       end) l s
            end
        | OutOfFuel => OutOfFuel
        | Crash => Crash
        end
    | None =>
        if is_std_name uname
        then match at_add_std uname (dir * uexp) (fst s) with
             | Ok m => Ok (m, snd s + dir * (logmult + std_mult uname))
             | OutOfFuel => OutOfFuel
             | Crash => Crash
             end
        else Ok s
    end.
Proof. reflexivity. Qed.

Lemma ana_mult_go_S : forall f' w mi name e um acc, ana_mult_go (S f') w mi name e um acc =
    if is_std_name name then Ok (acc + (um + std_mult name))
    else match lookup w mi name with
         | None => Crash
         | Some d =>
             match is_base (S f') w mi name with
             | Ok true => Ok (acc + um)
             | Ok false =>
                 match d with
                 | Import _ _ => Ok acc
                 | Defs l =>
                     fold_res (fun c a =>
                       if is_std_name (uc_ref c)
                       then Ok (a + (um + (std_mult (uc_ref c) + uc_mult c + prefix_or_zero (uc_prefix c)) * uc_exp c * e))
                       else ana_mult_go f' w mi (uc_ref c) (uc_exp c * e)
                              (um + (uc_mult c + prefix_or_zero (uc_prefix c)) * e) a) l acc
                 end
             | OutOfFuel => OutOfFuel
             | Crash => Crash
             end
         end.
Proof. reflexivity. Qed.

Definition has_base (m : umap) : Prop := forall b, In b base_units_list -> assoc b m <> None.

Lemma has_base_madd : forall k d m, has_base m -> has_base (madd k d m).
Proof.
  intros k d m H b Hb Hn. apply assoc_none_keys in Hn. apply Hn. apply (keys_madd_in k d m b). right.
  destruct (assoc b m) as [v|] eqn:E; [apply assoc_some_keys in E; exact E|exfalso; apply (H b Hb E)].
Qed.

Lemma at_add_std_ok : forall n d m, has_base m -> exists m', at_add_std n d m = Ok m' /\ has_base m'.
Proof.
  intros n d m Hm. unfold at_add_std. pose proof (std_components_over_base n) as Hb. revert m Hm Hb.
  generalize (std_components n). intros comps. induction comps as [|c r IH]; intros m Hm Hb.
  - exists m. split; [reflexivity|exact Hm].
  - cbn [fold_res]. unfold at_add at 1.
    assert (Hin : In (fst c) base_units_list) by (apply (Hb (fst c) (snd c)); left; destruct c; reflexivity).
    destruct (assoc (fst c) m) as [v|] eqn:E; [|exfalso; apply (Hm _ Hin E)].
    apply IH; [apply has_base_madd; exact Hm|]. intros k e Hk. apply (Hb k e). right. exact Hk.
Qed.

Lemma fold_res_sum_inv : forall {A S} (step : A -> S -> res S) (P : S -> Prop) (val : S -> Q) (term : A -> Q) l,
  (forall c s, In c l -> P s -> exists s', step c s = Ok s' /\ P s' /\ val s' == val s + term c) ->
  forall s, P s -> exists s', fold_res step l s = Ok s' /\ P s' /\ val s' == val s + sumq (map term l).
Proof.
  intros A S step P val term l. induction l as [|a r IH]; intros Hs s HP.
  - exists s. split; [reflexivity|]. split; [exact HP|]. unfold sumq. cbn. ring.
  - destruct (Hs a s (or_introl eq_refl) HP) as [s1 [H1 [P1 V1]]]. cbn [fold_res]. rewrite H1.
    destruct (IH (fun c x Hin => Hs c x (or_intror Hin)) s1 P1) as [s' [H' [P' V']]].
    exists s'. split; [exact H'|]. split; [exact P'|]. cbn [map]. rewrite sumq_cons, V', V1. ring.
Qed.

Lemma fold_opt_sum_inv : forall {A} (step : A -> Q -> res (option Q)) (term : A -> Q) l,
  (forall c s, In c l -> exists s', step c s = Ok (Some s') /\ s' == s + term c) ->
  forall s, exists t, fold_opt step l s = Ok (Some t) /\ t == s + sumq (map term l).
Proof.
  intros A step term l. induction l as [|a r IH]; intros Hs s.
  - exists s. split; [reflexivity|]. unfold sumq. cbn. ring.
  - destruct (Hs a s (or_introl eq_refl)) as [s1 [H1 V1]]. cbn [fold_opt]. rewrite H1.
    destruct (IH (fun c x Hin => Hs c x (or_intror Hin)) s1) as [t [H' V']].
    exists t. split; [exact H'|]. cbn [map]. rewrite sumq_cons, V', V1. ring.
Qed.

(* what agree_cond says about one unit child *)
Lemma agree_child : forall f' w mi l c,
  forallb (fun c =>
          Qeq_bool (uc_exp c) 1
          && (match convert_prefix (uc_prefix c) with Some _ => true | None => false end)
          && (is_std_name (uc_ref c)
              || match lookup w mi (uc_ref c) with
                 | Some (Defs l') => (Nat.eqb (length l') 0 || child_scale_free c) && agree_cond f' w mi (uc_ref c)
                 | _ => false
                 end)) l = true -> In c l ->
  uc_exp c == 1 /\ exists p, convert_prefix (uc_prefix c) = Some p /\ prefix_or_zero (uc_prefix c) = inject_Z p /\
   (is_std_name (uc_ref c) = true \/
    (is_std_name (uc_ref c) = false /\ exists l', lookup w mi (uc_ref c) = Some (Defs l') /\
       agree_cond f' w mi (uc_ref c) = true /\ (l' = [] \/ (inject_Z p == 0 /\ uc_mult c == 0)))).
Proof.
  intros f' w mi l c H Hin. rewrite forallb_forall in H. specialize (H c Hin).
  apply andb_prop in H. destruct H as [H H3]. apply andb_prop in H. destruct H as [H1 H2].
  split; [apply Qeq_bool_iff; exact H1|].
  destruct (convert_prefix (uc_prefix c)) as [p|] eqn:Hp; [|discriminate]. exists p. split; [reflexivity|].
  assert (Hpz : prefix_or_zero (uc_prefix c) = inject_Z p) by (unfold prefix_or_zero; rewrite Hp; reflexivity).
  split; [exact Hpz|].
  destruct (is_std_name (uc_ref c)) eqn:Hstd; [left; reflexivity|right]. split; [reflexivity|].
  cbn [orb] in H3. destruct (lookup w mi (uc_ref c)) as [[l'|a b]|]; try discriminate.
  apply andb_prop in H3. destruct H3 as [Ha Hb]. exists l'. split; [reflexivity|]. split; [exact Hb|].
  apply orb_prop in Ha. destruct Ha as [Ha|Ha].
  - left. destruct l'; [reflexivity|discriminate].
  - right. unfold child_scale_free in Ha. rewrite Hpz in Ha. apply andb_prop in Ha. destruct Ha as [X Y].
    split; apply Qeq_bool_iff; assumption.
Qed.

Definition si_term0 (f' : nat) (w : world) (mi : nat) (c : unit_child) : Q :=
  uc_mult c + uc_exp c * (prefix_or_zero (uc_prefix c) +
     (if is_std_name (uc_ref c) then std_mult (uc_ref c) else si_log false f' w mi (uc_ref c))).

Lemma si_log_compound : forall f' w mi n c l, lookup w mi n = Some (Defs (c :: l)) ->
  si_log false (S f') w mi n = sumq (map (si_term0 f' w mi) (c :: l)).
Proof. intros f' w mi n c l H. rewrite si_log_S, H. reflexivity. Qed.

Lemma si_log_leaf : forall f' w mi n, lookup w mi n = Some (Defs []) -> is_std_name n = false -> si_log false (S f') w mi n = 0.
Proof. intros f' w mi n H Hs. rewrite si_log_S, H, Hs. reflexivity. Qed.

Lemma is_base_defs : forall f' w mi n l, lookup w mi n = Some (Defs l) -> is_std_name n = false ->
  is_base (S f') w mi n = Ok (Nat.eqb (length l) 0).
Proof. intros f' w mi n l H Hs. unfold is_base. rewrite is_base_h_S, H, Hs, andb_true_r. reflexivity. Qed.

Lemma agree_cond_inv : forall f' w mi n, agree_cond (S f') w mi n = true ->
  is_std_name n = false /\ exists l, lookup w mi n = Some (Defs l) /\
  forallb (fun c =>
          Qeq_bool (uc_exp c) 1
          && (match convert_prefix (uc_prefix c) with Some _ => true | None => false end)
          && (is_std_name (uc_ref c)
              || match lookup w mi (uc_ref c) with
                 | Some (Defs l') => (Nat.eqb (length l') 0 || child_scale_free c) && agree_cond f' w mi (uc_ref c)
                 | _ => false
                 end)) l = true.
Proof.
  intros f' w mi n H. rewrite agree_cond_S in H. apply andb_prop in H. destruct H as [H1 H2].
  apply negb_true_iff in H1. split; [exact H1|].
  destruct (lookup w mi n) as [[l|a b]|]; try discriminate. exists l. split; [reflexivity|exact H2].
Qed.

(* Units: updateUnitMultiplier *)
Lemma mult_go_agree : forall fx w f mi n, agree_cond f w mi n = true ->
  exists u, mult_go fx f w mi n = Ok (Some u) /\ u == si_log false f w mi n.
Proof.
  intros fx w. induction f as [|f' IH]; intros mi n H; [discriminate|].
  destruct (agree_cond_inv f' w mi n H) as [Hstd [l [Hl Hall]]].
  rewrite mult_go_S, Hl. destruct l as [|c0 l0].
  - cbn [length Nat.eqb]. rewrite Hstd, andb_false_r. exists 0. split; [reflexivity|].
    rewrite (si_log_leaf f' w mi n Hl Hstd). reflexivity.
  - cbn [length Nat.eqb]. rewrite (si_log_compound f' w mi n c0 l0 Hl).
    destruct (fold_opt_sum_inv
      (fun c s =>
            match convert_prefix (uc_prefix c) with
            | None => Ok None
            | Some p =>
                if is_std_name (uc_ref c)
                then Ok (Some (s + (uc_mult c + std_mult (uc_ref c) * uc_exp c + inject_Z p)))
                else match lookup w mi (uc_ref c) with
                     | None => Ok None
                     | Some _ => match mult_go fx f' w mi (uc_ref c) with
                                 | Ok (Some b) => Ok (Some (s + (uc_mult c + (0 + b * 1) * uc_exp c + inject_Z p)))
                                 | x => x
                                 end
                     end
            end) (si_term0 f' w mi) (c0 :: l0)) with (s := 0) as [t [Ht Vt]].
    + intros c s Hin. destruct (agree_child f' w mi (c0 :: l0) c Hall Hin) as [He [p [Hp [Hpz Hk]]]].
      rewrite Hp. unfold si_term0. rewrite Hpz.
      destruct Hk as [Hs|[Hs [l' [Hl' [Ha _]]]]]; rewrite Hs.
      * eexists. split; [reflexivity|]. rewrite He. ring.
      * rewrite Hl'. destruct (IH mi (uc_ref c) Ha) as [b [Hb Vb]]. rewrite Hb.
        eexists. split; [reflexivity|]. rewrite He, Vb. ring.
    + exists t. split; [exact Ht|]. rewrite Vt. ring.
Qed.

(* validator: updateBaseUnitCount *)
Lemma val_go_agree : forall w f mi n uexp logmult dir s, agree_cond f w mi n = true ->
  uexp == 1 -> (logmult == 0 \/ lookup w mi n = Some (Defs [])) -> has_base (fst s) ->
  exists s', val_go f w mi n uexp logmult dir s = Ok s' /\ has_base (fst s') /\
             snd s' == snd s + dir * (logmult + si_log false f w mi n).
Proof.
  intros w. induction f as [|f' IH]; intros mi n uexp logmult dir s H Hu Hlm Hb; [discriminate|].
  destruct (agree_cond_inv f' w mi n H) as [Hstd [l [Hl Hall]]].
  rewrite val_go_S, Hl, (is_base_defs f' w mi n l Hl Hstd). destruct l as [|c0 l0].
  - cbn [length Nat.eqb]. eexists. split; [reflexivity|]. cbn [fst snd]. split; [apply has_base_madd; exact Hb|].
    rewrite (si_log_leaf f' w mi n Hl Hstd). ring.
  - cbn [length Nat.eqb]. destruct Hlm as [Hlm|Hlm]; [|rewrite Hl in Hlm; discriminate].
    rewrite (si_log_compound f' w mi n c0 l0 Hl).
    destruct (fold_res_sum_inv
      (fun c s =>
                  if negb (is_std_name (uc_ref c))
                  then val_go f' w mi (uc_ref c) (uc_exp c * uexp)
                         (logmult + uc_mult c * uexp + prefix_or_zero (uc_prefix c) * uexp) dir s
                  else match at_add_std (uc_ref c) (dir * (uc_exp c * uexp)) (fst s) with
                       | Ok m => Ok (m, snd s + dir * (logmult + (std_mult (uc_ref c) + uc_mult c + prefix_or_zero (uc_prefix c)) * uc_exp c))
                       | OutOfFuel => OutOfFuel
                       | Crash => Crash
                       end)
      (fun s : vstate => has_base (fst s)) (fun s : vstate => snd s) (fun c => dir * si_term0 f' w mi c) (c0 :: l0)) with (s := s)
      as [s' [Hs' [Ps' Vs']]].
    + intros c x Hin Px. destruct (agree_child f' w mi (c0 :: l0) c Hall Hin) as [He [p [Hp [Hpz Hk]]]].
      unfold si_term0. rewrite Hpz.
      destruct Hk as [Hs|[Hs [l' [Hl' [Ha Hsc]]]]]; rewrite Hs; cbn [negb].
      * destruct (at_add_std_ok (uc_ref c) (dir * (uc_exp c * uexp)) (fst x) Px) as [m' [Hm' Bm']]. rewrite Hm'.
        eexists. split; [reflexivity|]. cbn [fst snd]. split; [exact Bm'|]. rewrite He, Hlm. ring.
      * assert (Hu' : uc_exp c * uexp == 1) by (rewrite He, Hu; ring).
        assert (Hlm' : logmult + uc_mult c * uexp + inject_Z p * uexp == 0 \/ lookup w mi (uc_ref c) = Some (Defs [])).
        { destruct Hsc as [->|[Hp0 Hm0]]; [right; exact Hl'|left]. rewrite Hlm, Hp0, Hm0. ring. }
        destruct (IH mi (uc_ref c) (uc_exp c * uexp) (logmult + uc_mult c * uexp + inject_Z p * uexp) dir x Ha Hu' Hlm' Px)
          as [x' [Hx' [Bx' Vx']]].
        exists x'. split; [exact Hx'|]. split; [exact Bx'|]. rewrite Vx', He, Hu, Hlm. ring.
    + exact Hb.
    + exists s'. split; [exact Hs'|]. split; [exact Ps'|]. rewrite Vs', Hlm.
      rewrite (sumq_scale (si_term0 f' w mi) dir (c0 :: l0)). ring.
Qed.

(* analyser: updateUnitsMultiplier *)
Lemma ana_mult_go_agree : forall w f mi n e um acc, agree_cond f w mi n = true ->
  e == 1 -> (um == 0 \/ lookup w mi n = Some (Defs [])) ->
  exists r, ana_mult_go f w mi n e um acc = Ok r /\ r == acc + (um + si_log false f w mi n).
Proof.
  intros w. induction f as [|f' IH]; intros mi n e um acc H He Hum; [discriminate|].
  destruct (agree_cond_inv f' w mi n H) as [Hstd [l [Hl Hall]]].
  rewrite ana_mult_go_S, Hstd, Hl, (is_base_defs f' w mi n l Hl Hstd). destruct l as [|c0 l0].
  - cbn [length Nat.eqb]. eexists. split; [reflexivity|]. rewrite (si_log_leaf f' w mi n Hl Hstd). ring.
  - cbn [length Nat.eqb]. destruct Hum as [Hum|Hum]; [|rewrite Hl in Hum; discriminate].
    rewrite (si_log_compound f' w mi n c0 l0 Hl).
    destruct (fold_res_sum_inv
      (fun c a =>
                       if is_std_name (uc_ref c)
                       then Ok (a + (um + (std_mult (uc_ref c) + uc_mult c + prefix_or_zero (uc_prefix c)) * uc_exp c * e))
                       else ana_mult_go f' w mi (uc_ref c) (uc_exp c * e)
                              (um + (uc_mult c + prefix_or_zero (uc_prefix c)) * e) a)
      (fun _ : Q => True) (fun a : Q => a) (si_term0 f' w mi) (c0 :: l0)) with (s := acc) as [r [Hr [_ Vr]]].
    + intros c x Hin _. destruct (agree_child f' w mi (c0 :: l0) c Hall Hin) as [Hec [p [Hp [Hpz Hk]]]].
      unfold si_term0. rewrite Hpz.
      destruct Hk as [Hs|[Hs [l' [Hl' [Ha Hsc]]]]]; rewrite Hs.
      * eexists. split; [reflexivity|]. split; [exact I|]. rewrite Hec, He, Hum. ring.
      * assert (He' : uc_exp c * e == 1) by (rewrite Hec, He; ring).
        assert (Hum' : um + (uc_mult c + inject_Z p) * e == 0 \/ lookup w mi (uc_ref c) = Some (Defs [])).
        { destruct Hsc as [->|[Hp0 Hm0]]; [right; exact Hl'|left]. rewrite Hum, Hp0, Hm0. ring. }
        destruct (IH mi (uc_ref c) (uc_exp c * e) (um + (uc_mult c + inject_Z p) * e) x Ha He' Hum') as [x' [Hx' Vx']].
        exists x'. split; [exact Hx'|]. split; [exact I|]. rewrite Vx', Hec, He, Hum. ring.
    + exact I.
    + exists r. split; [exact Hr|]. rewrite Vr, Hum. ring.
Qed.

Lemma has_base_init : has_base (map (fun b => (b, 0)) base_units_list).
Proof.
  intros b Hb Hn. apply assoc_none_keys in Hn. apply Hn.
  replace (map fst (map (fun b0 : string => (b0, 0)) base_units_list)) with base_units_list by (vm_compute; reflexivity). exact Hb.
Qed.

(** On the fragment agree_cond, Units, the validator and the analyser compute the same log10 scale. *)
Lemma three_agree_partial : forall fx f w mi n, agree_cond f w mi n = true ->
  exists u v a, mult_go fx f w mi n = Ok (Some u) /\ val_scale f w mi n = Ok v /\ ana_scale f w mi n = Ok a /\
                v == u /\ a == u.
Proof.
  intros fx f w mi n H.
  destruct (mult_go_agree fx w f mi n H) as [u [Hu Vu]].
  assert (Hl : exists d, lookup w mi n = Some d).
  { destruct f as [|f']; [discriminate|]. destruct (agree_cond_inv f' w mi n H) as [_ [l [Hl _]]]. exists (Defs l). exact Hl. }
  destruct Hl as [d Hl].
  destruct (val_go_agree w f mi n 1 0 1 (map (fun b => (b, 0)) base_units_list, 0) H (Qeq_refl 1) (or_introl (Qeq_refl 0)) has_base_init)
    as [s' [Hs' [_ Vs']]].
  destruct (ana_mult_go_agree w f mi n 1 0 0 H (Qeq_refl 1) (or_introl (Qeq_refl 0))) as [r [Hr Vr]].
  exists u, (snd s'), r. split; [exact Hu|]. split.
  - unfold val_scale, val_side. rewrite Hl, Hs'. reflexivity.
  - split; [exact Hr|]. split.
    + rewrite Vs', Vu. cbn [snd]. ring.
    + rewrite Vr, Vu. ring.
Qed.

(* outside the fragment: an exponent 2 on a prefixed child *)
Lemma three_disagree_refuted :
  exists fx f w mi n u v a, mult_go fx f w mi n = Ok (Some u) /\ val_scale f w mi n = Ok v /\ ana_scale f w mi n = Ok a /\
                            ~ v == u /\ ~ a == u.
Proof.
  exists unfixed, 5%nat, w_mm, 0%nat, "mm2". do 3 eexists.
  split; [vm_compute; reflexivity|]. split; [vm_compute; reflexivity|]. split; [vm_compute; reflexivity|].
  split; vm_compute; discriminate.
Qed.

(* ... and with every exponent 1: a prefix on a reference to a units with two children is counted once per child *)
Definition w_kilo : world :=
  [ [("v", Defs [mk "metre" "" 1 0; mk "second" "" 1 0]); ("u", Defs [mk "v" "kilo" 1 0])] ].

Lemma three_disagree_exponent_one_refuted :
  exists fx f w mi n u v a, mult_go fx f w mi n = Ok (Some u) /\ val_scale f w mi n = Ok v /\ ana_scale f w mi n = Ok a /\
                            u == 3 # 1 /\ v == 6 # 1 /\ a == 6 # 1.
Proof.
  exists unfixed, 5%nat, w_kilo, 0%nat, "u". do 3 eexists.
  split; [vm_compute; reflexivity|]. split; [vm_compute; reflexivity|]. split; [vm_compute; reflexivity|].
  split; [|split]; vm_compute; reflexivity.
Qed.

(* ------------------------------------------------------------------ termination on acyclic worlds *)

Definition refers (w : world) (u v : uref) : Prop :=
  match lookup w (fst u) (snd u) with
  | Some (Import mj r) => v = (mj, r)
  | Some (Defs l) => fst v = fst u /\ In (snd v) (map uc_ref l) /\ is_std_name (snd v) = false
  | None => False
  end.

Fixpoint linked (w : world) (p : list uref) : Prop :=
  match p with
  | [] => True
  | u :: q => lookup w (fst u) (snd u) <> None /\
              match q with [] => True | v :: _ => refers w u v end /\ linked w q
  end.

Definition chain (w : world) (u : uref) (p : list uref) : Prop :=
  match p with [] => True | x :: _ => x = u end /\ linked w p.

Definition deep (w : world) (f : nat) (mi : nat) (n : string) : Prop := exists p, length p = f /\ chain w (mi, n) p.

Lemma deep_O : forall w mi n, deep w 0 mi n.
Proof. intros. exists []. split; [reflexivity|]. split; exact I. Qed.

Lemma deep_S : forall w f' mi n mj r, lookup w mi n <> None -> refers w (mi, n) (mj, r) -> deep w f' mj r -> deep w (S f') mi n.
Proof.
  intros w f' mi n mj r Hl Hr [p [Hlen [Hh Hp]]]. exists ((mi, n) :: p). split; [cbn; rewrite Hlen; reflexivity|].
  split; [reflexivity|]. cbn [linked fst snd]. split; [exact Hl|]. split; [|exact Hp].
  destruct p as [|x q]; [exact I|]. rewrite Hh. exact Hr.
Qed.

Lemma refers_import : forall w mi n mj r, lookup w mi n = Some (Import mj r) -> refers w (mi, n) (mj, r).
Proof. intros w mi n mj r H. unfold refers. cbn [fst snd]. rewrite H. reflexivity. Qed.

Lemma refers_child : forall w mi n l c, lookup w mi n = Some (Defs l) -> In c l -> is_std_name (uc_ref c) = false ->
  refers w (mi, n) (mi, uc_ref c).
Proof.
  intros w mi n l c H Hin Hs. unfold refers. cbn [fst snd]. rewrite H. split; [reflexivity|]. split; [|exact Hs].
  apply in_map. exact Hin.
Qed.

Lemma fold_res_oof : forall {A S} (step : A -> S -> res S) l s,
  fold_res step l s = OutOfFuel -> exists c s', In c l /\ step c s' = OutOfFuel.
Proof.
  intros A S step l. induction l as [|a r IH]; intros s H; cbn in H; [discriminate|].
  destruct (step a s) as [s1| |] eqn:Hs; try discriminate.
  - destruct (IH s1 H) as [c [s' [Hin Hc]]]. exists c, s'. split; [right; exact Hin|exact Hc].
  - exists a, s. split; [left; reflexivity|exact Hs].
Qed.

Lemma fold_opt_oof : forall {A S} (step : A -> S -> res (option S)) l s,
  fold_opt step l s = OutOfFuel -> exists c s', In c l /\ step c s' = OutOfFuel.
Proof.
  intros A S step l. induction l as [|a r IH]; intros s H; cbn in H; [discriminate|].
  destruct (step a s) as [[s1|]| |] eqn:Hs; try discriminate.
  - destruct (IH s1 H) as [c [s' [Hin Hc]]]. exists c, s'. split; [right; exact Hin|exact Hc].
  - exists a, s. split; [left; reflexivity|exact Hs].
Qed.

Lemma some_neq_none : forall {A} (x : A) o, o = Some x -> o <> None.
Proof. intros A x o -> H. discriminate. Qed.

Lemma is_base_h_deep : forall w f h mi n, is_base_h f w h mi n = OutOfFuel -> deep w f mi n.
Proof.
  intros w. induction f as [|f' IH]; intros h mi n H; [apply deep_O|].
  rewrite is_base_h_S in H. destruct (lookup w mi n) as [[l|mj r]|] eqn:Hl; try discriminate.
  destruct (Nat.ltb mj (length w)); [|discriminate]. cbv zeta in H.
  destruct (import_cycle w h (new_epoch h mi mj)); [discriminate|].
  destruct (lookup w mj r) eqn:Ht; [|discriminate].
  apply (deep_S w f' mi n mj r (some_neq_none _ _ Hl) (refers_import w mi n mj r Hl)). apply (IH _ _ _ H).
Qed.

Lemma perform_test_deep : forall fx w d f h mi n, perform_test fx d f w h mi n = OutOfFuel -> deep w f mi n.
Proof.
  intros fx w d. induction f as [|f' IH]; intros h mi n H; [apply deep_O|].
  rewrite perform_test_S in H. destruct (lookup w mi n) as [[l|mj r]|] eqn:Hl; try discriminate.
  - apply fold_opt_oof in H. destruct H as [c [h' [Hin Hc]]].
    destruct (is_std_name (uc_ref c)) eqn:Hs; [discriminate|].
    destruct (lookup w mi (uc_ref c)) eqn:Ht; [|destruct d; discriminate].
    apply (deep_S w f' mi n mi (uc_ref c) (some_neq_none _ _ Hl) (refers_child w mi n l c Hl Hin Hs)). apply (IH _ _ _ Hc).
  - destruct (lookup w mj r) eqn:Ht; [|discriminate]. cbv zeta in H.
    destruct (import_cycle w h (new_epoch h mi mj)); [discriminate|].
    destruct (perform_test fx d f' w (new_epoch h mi mj :: h) mj r) as [[h1|]| |] eqn:Hp; try discriminate.
    apply (deep_S w f' mi n mj r (some_neq_none _ _ Hl) (refers_import w mi n mj r Hl)). apply (IH _ _ _ Hp).
Qed.

Lemma umap_go_deep : forall fx w f mi n e acc, umap_go fx f w mi n e acc = OutOfFuel -> deep w f mi n.
Proof.
  intros fx w. induction f as [|f' IH]; intros mi n e acc H; [apply deep_O|].
  rewrite umap_go_S in H. destruct (is_base (S f') w mi n) as [[|]| |] eqn:Hb; try discriminate.
  - destruct (lookup w mi n) as [[l|mj r]|] eqn:Hl; try discriminate.
    + destruct (Nat.eqb (length l) 0 && is_std_name n); [discriminate|].
      apply fold_res_oof in H. destruct H as [c [a [Hin Hc]]].
      destruct (is_std_name (uc_ref c)) eqn:Hs; [discriminate|].
      destruct (lookup w mi (uc_ref c)) eqn:Ht; [|discriminate].
      apply (deep_S w f' mi n mi (uc_ref c) (some_neq_none _ _ Hl) (refers_child w mi n l c Hl Hin Hs)). apply (IH _ _ _ _ Hc).
    + destruct (is_std_name n); [discriminate|]. destruct (lookup w mj r) eqn:Ht; [|discriminate].
      apply (deep_S w f' mi n mj r (some_neq_none _ _ Hl) (refers_import w mi n mj r Hl)). apply (IH _ _ _ _ H).
  - apply (is_base_h_deep w (S f') [] mi n Hb).
Qed.

Lemma test_result_oof : forall r, test_result r = OutOfFuel -> r = OutOfFuel.
Proof. intros [[h|]| |] H; try discriminate. reflexivity. Qed.

Lemma mult_go_deep : forall fx w f mi n, mult_go fx f w mi n = OutOfFuel -> deep w f mi n.
Proof.
  intros fx w. induction f as [|f' IH]; intros mi n H; [apply deep_O|].
  rewrite mult_go_S in H. destruct (lookup w mi n) as [[l|mj r]|] eqn:Hl; try discriminate.
  - destruct (Nat.eqb (length l) 0); [discriminate|].
    apply fold_opt_oof in H. destruct H as [c [s [Hin Hc]]].
    destruct (convert_prefix (uc_prefix c)); [|discriminate].
    destruct (is_std_name (uc_ref c)) eqn:Hs; [discriminate|].
    destruct (lookup w mi (uc_ref c)) eqn:Ht; [|discriminate].
    destruct (mult_go fx f' w mi (uc_ref c)) as [[b|]| |] eqn:Hb; try discriminate.
    apply (deep_S w f' mi n mi (uc_ref c) (some_neq_none _ _ Hl) (refers_child w mi n l c Hl Hin Hs)). apply (IH _ _ Hb).
  - destruct (is_resolved fx (S f') w mi n) as [[|]| |] eqn:Hr; try discriminate.
    + destruct (lookup w mj r) eqn:Ht; [|discriminate].
      destruct (mult_go fx f' w mj r) as [[b|]| |] eqn:Hb; try discriminate.
      apply (deep_S w f' mi n mj r (some_neq_none _ _ Hl) (refers_import w mi n mj r Hl)). apply (IH _ _ Hb).
    + unfold is_resolved in Hr. apply test_result_oof in Hr. apply (perform_test_deep fx w false (S f') [] mi n Hr).
Qed.

Lemma at_add_std_not_oof : forall n d m, at_add_std n d m <> OutOfFuel.
Proof.
  intros n d m H. unfold at_add_std in H. apply fold_res_oof in H. destruct H as [c [s [_ Hc]]].
  unfold at_add in Hc. destruct (assoc (fst c) s); discriminate.
Qed.

Lemma val_go_deep : forall w f mi n uexp logmult dir s, val_go f w mi n uexp logmult dir s = OutOfFuel -> deep w f mi n.
Proof.
  intros w. induction f as [|f' IH]; intros mi n uexp logmult dir s H; [apply deep_O|].
  rewrite val_go_S in H. destruct (lookup w mi n) as [d|] eqn:Hl.
  - destruct (is_base (S f') w mi n) as [[|]| |] eqn:Hb; try discriminate.
    + destruct d as [l|mj r]; [|discriminate].
      apply fold_res_oof in H. destruct H as [c [x [Hin Hc]]].
      destruct (is_std_name (uc_ref c)) eqn:Hs; cbn [negb] in Hc.
      * destruct (at_add_std (uc_ref c) (dir * (uc_exp c * uexp)) (fst x)) eqn:Ha; try discriminate.
        exfalso. apply (at_add_std_not_oof _ _ _ Ha).
      * apply (deep_S w f' mi n mi (uc_ref c) (some_neq_none _ _ Hl) (refers_child w mi n l c Hl Hin Hs)). apply (IH _ _ _ _ _ _ Hc).
    + apply (is_base_h_deep w (S f') [] mi n Hb).
  - destruct (is_std_name n); [|discriminate].
    destruct (at_add_std n (dir * uexp) (fst s)) eqn:Ha; try discriminate. exfalso. apply (at_add_std_not_oof _ _ _ Ha).
Qed.

Lemma ana_map_go_S : forall f' w mi name e acc, ana_map_go (S f') w mi name e acc =
    if is_std_name name then Ok (add_std name e acc)
    else match lookup w mi name with
         | None => Crash
         | Some d =>
             match is_base (S f') w mi name with
             | Ok true => Ok (madd name e acc)
             | Ok false =>
                 match d with
                 | Import _ _ => Ok acc
                 | Defs l =>
                     fold_res (fun c a =>
                       if is_std_name (uc_ref c) then Ok (add_std (uc_ref c) (uc_exp c * e) a)
                       else ana_map_go f' w mi (uc_ref c) (uc_exp c * e) a) l acc
                 end
             | OutOfFuel => OutOfFuel
             | Crash => Crash
             end
         end.
Proof. reflexivity. Qed.

(* the analyser does not test that a referenced units exists before recursing (a missing one is a null dereference) *)
Lemma deep_1 : forall w mi n, lookup w mi n <> None -> deep w 1 mi n.
Proof.
  intros w mi n H. exists [(mi, n)]. split; [reflexivity|]. split; [reflexivity|]. cbn. split; [exact H|]. split; exact I.
Qed.

Lemma ana_map_go_deep : forall w f mi n e acc, ana_map_go (S f) w mi n e acc = OutOfFuel -> deep w (S f) mi n.
Proof.
  intros w. induction f as [|f' IH]; intros mi n e acc H.
  - rewrite ana_map_go_S in H. destruct (is_std_name n); [discriminate|].
    destruct (lookup w mi n) as [d|] eqn:Hl; [|discriminate]. apply deep_1. rewrite Hl. discriminate.
  - rewrite ana_map_go_S in H. destruct (is_std_name n) eqn:Hsn; [discriminate|].
    destruct (lookup w mi n) as [d|] eqn:Hl; [|discriminate].
    destruct (is_base (S (S f')) w mi n) as [[|]| |] eqn:Hb; try discriminate.
    + destruct d as [l|mj r]; [|discriminate].
      apply fold_res_oof in H. destruct H as [c [x [Hin Hc]]].
      destruct (is_std_name (uc_ref c)) eqn:Hs; [discriminate|].
      apply (deep_S w (S f') mi n mi (uc_ref c) (some_neq_none _ _ Hl) (refers_child w mi n l c Hl Hin Hs)). apply (IH _ _ _ _ Hc).
    + apply (is_base_h_deep w (S (S f')) [] mi n Hb).
Qed.

Lemma ana_mult_go_deep : forall w f mi n e um acc, ana_mult_go (S f) w mi n e um acc = OutOfFuel -> deep w (S f) mi n.
Proof.
  intros w. induction f as [|f' IH]; intros mi n e um acc H.
  - rewrite ana_mult_go_S in H. destruct (is_std_name n); [discriminate|].
    destruct (lookup w mi n) as [d|] eqn:Hl; [|discriminate]. apply deep_1. rewrite Hl. discriminate.
  - rewrite ana_mult_go_S in H. destruct (is_std_name n) eqn:Hsn; [discriminate|].
    destruct (lookup w mi n) as [d|] eqn:Hl; [|discriminate].
    destruct (is_base (S (S f')) w mi n) as [[|]| |] eqn:Hb; try discriminate.
    + destruct d as [l|mj r]; [|discriminate].
      apply fold_res_oof in H. destruct H as [c [x [Hin Hc]]].
      destruct (is_std_name (uc_ref c)) eqn:Hs; [discriminate|].
      apply (deep_S w (S f') mi n mi (uc_ref c) (some_neq_none _ _ Hl) (refers_child w mi n l c Hl Hin Hs)). apply (IH _ _ _ _ _ Hc).
    + apply (is_base_h_deep w (S (S f')) [] mi n Hb).
Qed.

(* pigeonhole: a linked path longer than the world repeats a units object, which is a cycle *)
Fixpoint nodes_from (i : nat) (w : world) : list uref :=
  match w with
  | [] => []
  | e :: r => (map (fun kv => (i, fst kv)) e ++ nodes_from (S i) r)%list
  end.

Lemma fold_left_size : forall (w : world) a, fold_left (fun n e => (n + length e)%nat) w a = (a + fold_left (fun n e => (n + length e)%nat) w 0)%nat.
Proof.
  induction w as [|e r IH]; intros a; cbn; [lia|]. rewrite (IH (a + length e)%nat), (IH (length e)). lia.
Qed.

Lemma length_nodes_from : forall w i, length (nodes_from i w) = world_size w.
Proof.
  unfold world_size. induction w as [|e r IH]; intros i; cbn; [reflexivity|].
  rewrite app_length, map_length, IH, (fold_left_size r (length e)). reflexivity.
Qed.

Lemma lookup_in_nodes : forall w i mi n, lookup w mi n <> None -> In ((i + mi)%nat, n) (nodes_from i w).
Proof.
  unfold lookup. induction w as [|e r IH]; intros i mi n H.
  - destruct mi; cbn in H; contradiction H; reflexivity.
  - destruct mi as [|mi']; cbn [nth_error nodes_from] in *; apply in_or_app.
    + left. rewrite Nat.add_0_r. destruct (assoc n e) as [d|] eqn:Ha; [|contradiction H; reflexivity].
      apply assoc_In in Ha. apply (in_map (fun kv : string * udef => (i, fst kv))) in Ha. exact Ha.
    + right. replace (i + S mi')%nat with (S i + mi')%nat by lia. apply IH. exact H.
Qed.

Lemma uref_eq_dec : forall a b : uref, {a = b} + {a <> b}.
Proof. decide equality; [apply string_dec|apply Nat.eq_dec]. Qed.

Lemma not_nodup_split : forall l : list uref, ~ NoDup l -> exists x l1 l2 l3, l = (l1 ++ x :: l2 ++ x :: l3)%list.
Proof.
  induction l as [|a r IH]; intros H; [contradiction H; constructor|].
  destruct (in_dec uref_eq_dec a r) as [Hin|Hnin].
  - apply in_split in Hin. destruct Hin as [l2 [l3 ->]]. exists a, [], l2, l3. reflexivity.
  - assert (Hr : ~ NoDup r) by (intros Hn; apply H; constructor; assumption).
    destruct (IH Hr) as [x [l1 [l2 [l3 ->]]]]. exists x, (a :: l1), l2, l3. reflexivity.
Qed.

Lemma linked_head : forall w y q, linked w (y :: q) -> lookup w (fst y) (snd y) <> None.
Proof. intros w y q [H _]. exact H. Qed.

Lemma linked_suffix : forall w l1 q, linked w (l1 ++ q)%list -> linked w q.
Proof.
  intros w l1 q. induction l1 as [|a r IH]; intros H; [exact H|]. apply IH. cbn [app linked] in H. apply H.
Qed.

Lemma linked_all_exist : forall w p x, linked w p -> In x p -> lookup w (fst x) (snd x) <> None.
Proof.
  intros w p x. induction p as [|a r IH]; intros H Hin; [destruct Hin|].
  destruct Hin as [<-|Hin]; [apply (linked_head w a r H)|]. apply IH; [apply H|exact Hin].
Qed.

Lemma edge_of_refers : forall w u v, refers w u v -> lookup w (fst v) (snd v) <> None -> edge w u v.
Proof.
  intros w u v Hr Hv. unfold refers in Hr. unfold edge.
  destruct (lookup w (fst u) (snd u)) as [[l|mj r]|]; [| |exact Hr].
  - destruct Hr as [A [B C]]. auto.
  - subst v. cbn [fst snd] in Hv. split; [reflexivity|exact Hv].
Qed.

Lemma linked_path : forall w l2 x y l3, linked w (x :: l2 ++ y :: l3)%list -> clos_trans uref (edge w) x y.
Proof.
  intros w. induction l2 as [|c l2' IH]; intros x y l3 H.
  - cbn [app linked] in H. destruct H as [_ [Hr Hq]]. apply t_step. apply (edge_of_refers w x y Hr). apply Hq.
  - cbn [app] in H. pose proof H as [_ [Hr Hq]]. cbn [app] in Hq. fold linked in Hq.
    apply (t_trans _ _ x c y).
    + apply t_step. apply (edge_of_refers w x c Hr). apply (linked_head w c _ Hq).
    + apply (IH c y l3 Hq).
Qed.

Lemma acyclic_not_deep : forall w f mi n, acyclic w -> (world_size w < f)%nat -> ~ deep w f mi n.
Proof.
  intros w f mi n Hac Hf [p [Hlen [_ Hp]]].
  assert (Hnd : ~ NoDup p).
  { intros Hn. assert (Hincl : incl p (nodes_from 0 w)).
    { intros x Hx. pose proof (lookup_in_nodes w 0 (fst x) (snd x) (linked_all_exist w p x Hp Hx)) as Hin.
      cbn [Nat.add] in Hin. destruct x. exact Hin. }
    pose proof (NoDup_incl_length Hn Hincl) as L. rewrite length_nodes_from in L. lia. }
  destruct (not_nodup_split p Hnd) as [x [l1 [l2 [l3 ->]]]].
  apply linked_suffix in Hp. apply (Hac x). apply (linked_path w l2 x x l3 Hp).
Qed.

(** On an acyclic world, fuel above the number of units objects is never exhausted, by any of the reducers. *)
Lemma reducers_terminate : forall fx f w, acyclic w -> (world_size w < f)%nat ->
  (forall a b, compatible fx f w a b <> OutOfFuel /\ scaling_factor fx f w a b <> OutOfFuel /\ equivalent fx f w a b <> OutOfFuel) /\
  (forall mi n1 n2, val_equiv f w mi n1 n2 <> OutOfFuel /\ ana_equiv f w mi n1 n2 <> OutOfFuel) /\
  (forall mi n, is_base f w mi n <> OutOfFuel /\ is_defined fx f w mi n <> OutOfFuel /\
                define_units_map fx f w (mi, n) <> OutOfFuel /\ mult_go fx f w mi n <> OutOfFuel).
Proof.
  intros fx f w Hac Hf.
  assert (ND : forall mi n, ~ deep w f mi n) by (intros mi n; apply acyclic_not_deep; assumption).
  assert (B : forall mi n, is_base f w mi n <> OutOfFuel) by (intros mi n H; apply (ND mi n), (is_base_h_deep w f [] mi n H)).
  assert (D : forall mi n, is_defined fx f w mi n <> OutOfFuel).
  { intros mi n H. unfold is_defined in H. apply test_result_oof in H. apply (ND mi n), (perform_test_deep fx w true f [] mi n H). }
  assert (M : forall u, define_units_map fx f w u <> OutOfFuel).
  { intros u H. unfold define_units_map in H. destruct (umap_go fx f w (fst u) (snd u) 1 []) eqn:Hg; try discriminate.
    apply (ND (fst u) (snd u)), (umap_go_deep fx w f _ _ _ _ Hg). }
  assert (U : forall mi n, mult_go fx f w mi n <> OutOfFuel) by (intros mi n H; apply (ND mi n), (mult_go_deep fx w f mi n H)).
  assert (C : forall a b, compatible fx f w a b <> OutOfFuel).
  { intros [a|] [b|] H; try discriminate. unfold compatible in H.
    destruct (is_defined fx f w (fst a) (snd a)) as [[|]| |] eqn:Da; try discriminate; [|apply (D _ _ Da)].
    destruct (is_defined fx f w (fst b) (snd b)) as [[|]| |] eqn:Db; try discriminate; [|apply (D _ _ Db)].
    destruct (define_units_map fx f w a) eqn:Ma; try discriminate; [|apply (M _ Ma)].
    destruct (define_units_map fx f w b) eqn:Mb; try discriminate. apply (M _ Mb). }
  assert (SF : forall a b, scaling_factor fx f w a b <> OutOfFuel).
  { intros a b H. unfold scaling_factor in H. destruct (compatible fx f w a b) as [[|]| |] eqn:Hc; try discriminate; [|apply (C _ _ Hc)].
    destruct a as [a|]; [|discriminate]. destruct b as [b|]; [|discriminate].
    destruct (mult_go fx f w (fst a) (snd a)) as [r1| |] eqn:H1; try discriminate; [|apply (U _ _ H1)].
    destruct (mult_go fx f w (fst b) (snd b)) as [r2| |] eqn:H2; try discriminate; [|apply (U _ _ H2)].
    destruct r1; destruct r2; discriminate. }
  split; [|split].
  - intros a b. split; [apply C|]. split; [apply SF|]. intros H. unfold equivalent in H.
    destruct (scaling_factor fx f w a b) as [[|q]| |] eqn:Hs; try discriminate. apply (SF _ _ Hs).
  - assert (VS : forall mi n dir s, val_side f w mi n dir s <> OutOfFuel).
    { intros mi n dir s H. unfold val_side in H. destruct (lookup w mi n).
      - apply (ND mi n), (val_go_deep w f _ _ _ _ _ _ H).
      - destruct (assoc n (fst s)); [discriminate|]. destruct (is_std_name n); [|discriminate].
        apply (ND mi n), (val_go_deep w f _ _ _ _ _ _ H). }
    intros mi n1 n2. split.
    + intros H. unfold val_equiv in H.
      destruct (val_side f w mi n1 1 _) eqn:H1; try discriminate; [|apply (VS _ _ _ _ H1)].
      destruct (val_side f w mi n2 (-1 # 1) _) eqn:H2; try discriminate. apply (VS _ _ _ _ H2).
    + destruct f as [|f0]; [lia|].
      assert (AM : forall n, ana_map (S f0) w mi n <> OutOfFuel) by (intros n H; apply (ND mi n), (ana_map_go_deep w f0 _ _ _ _ H)).
      assert (AS : forall n, ana_scale (S f0) w mi n <> OutOfFuel) by (intros n H; apply (ND mi n), (ana_mult_go_deep w f0 _ _ _ _ _ H)).
      intros H. unfold ana_equiv in H.
      destruct (ana_map (S f0) w mi n1) eqn:E1; [|exfalso; apply (AM _ E1)|];
      destruct (ana_map (S f0) w mi n2) eqn:E2; try (exfalso; apply (AM _ E2));
      destruct (ana_scale (S f0) w mi n1) eqn:E3; try (exfalso; apply (AS _ E3));
      destruct (ana_scale (S f0) w mi n2) eqn:E4; try (exfalso; apply (AS _ E4)); discriminate.
  - intros mi n. split; [apply B|]. split; [apply D|]. split; [apply M|apply U].
Qed.

(* ------------------------------------------------------------------ isDefined is complete without imports *)

Lemma perform_test_import_free : forall fx w, import_free w -> forall f h mi n,
  defined_sem f w mi n = Ok true -> perform_test fx true f w h mi n = Ok (Some h).
Proof.
  intros fx w Hfree. induction f as [|f' IH]; intros h mi n H; [discriminate|].
  pose proof H as H0. rewrite defined_sem_S in H. rewrite perform_test_S.
  destruct (lookup w mi n) as [[l|mj r]|] eqn:Hl; [| |discriminate].
  - rewrite forall_res_true in H. clear Hl H0. induction l as [|c rest IHl]; [reflexivity|].
    cbn [fold_opt]. pose proof (H c (or_introl eq_refl)) as Hc.
    destruct (is_std_name (uc_ref c)).
    + apply IHl. intros a Hin. apply H. right. exact Hin.
    + destruct (lookup w mi (uc_ref c)); [|discriminate]. rewrite (IH h mi (uc_ref c) Hc).
      apply IHl. intros a Hin. apply H. right. exact Hin.
  - exfalso. apply (Hfree mi n mj r Hl).
Qed.

Lemma is_defined_complete_partial : forall fx f w mi n, import_free w ->
  defined_sem f w mi n = Ok true -> is_defined fx f w mi n = Ok true.
Proof.
  intros fx f w mi n Hfree H. unfold is_defined. rewrite (perform_test_import_free fx w Hfree f [] mi n H). reflexivity.
Qed.

(* ------------------------------------------------------------------ the defining equations of the dimension (indirection) *)

Lemma dim_compound : forall f' w mi n l k, lookup w mi n = Some (Defs l) -> is_base (S f') w mi n = Ok false ->
  Nat.eqb (length l) 0 && is_std_name n = false ->
  dim (S f') w mi n k = sumq (map (fun c => uc_exp c * (if is_std_name (uc_ref c) then std_dim (uc_ref c) k
                                                       else dim f' w mi (uc_ref c) k)) l).
Proof. intros f' w mi n l k Hl Hb Hs. rewrite dim_S, Hb, Hl, Hs. reflexivity. Qed.

Lemma dim_import : forall f' w mi n mj r k, lookup w mi n = Some (Import mj r) -> is_base (S f') w mi n = Ok false ->
  is_std_name n = false -> dim (S f') w mi n k = dim f' w mj r k.
Proof. intros f' w mi n mj r k Hl Hb Hs. rewrite dim_S, Hb, Hl, Hs. reflexivity. Qed.

(* ------------------------------------------------------------------ non-vacuity *)

Lemma acyclic_w_mm : acyclic w_mm.
Proof.
  set (rank := fun u : uref => if String.eqb (snd u) "mm_sq" then 1%nat else 0%nat).
  assert (E : forall u v, edge w_mm u v -> (rank v < rank u)%nat).
  { intros [mi n] [mj m] H. unfold edge in H. cbn [fst snd] in H. unfold rank. cbn [snd].
    destruct mi as [|mi]; [|destruct mi; cbn in H; contradiction].
    unfold lookup, w_mm in H. cbn [nth_error assoc] in H.
    destruct (String.eqb_spec n "mm2") as [->|N1].
    { destruct H as [_ [[<-|[]] [Hs _]]]. vm_compute in Hs. discriminate. }
    destruct (String.eqb_spec n "m2") as [->|N2].
    { destruct H as [_ [[<-|[]] [Hs _]]]. vm_compute in Hs. discriminate. }
    destruct (String.eqb_spec n "mm") as [->|N3].
    { destruct H as [_ [[<-|[]] [Hs _]]]. vm_compute in Hs. discriminate. }
    destruct (String.eqb_spec n "mm_sq") as [->|N4]; [|contradiction].
    destruct H as [_ [[<-|[]] _]]. cbn. lia. }
  assert (T : forall u v, clos_trans uref (edge w_mm) u v -> (rank v < rank u)%nat).
  { intros u v H. induction H as [u v H|u v x _ IH1 _ IH2]; [apply E; exact H|lia]. }
  intros u H. specialize (T u u H). lia.
Qed.

Lemma nonvacuous :
  compatible unfixed 5 w_mm (Some (0%nat, "mm_sq")) (Some (0%nat, "m2")) = Ok true /\
  scaling_factor unfixed 5 w_mm (Some (0%nat, "mm_sq")) (Some (0%nat, "m2")) = Ok (FPow (6 # 1)) /\
  equivalent unfixed 5 w_mm (Some (0%nat, "mm2")) (Some (0%nat, "mm2")) = Ok true /\
  agree_cond 5 w_mm 0 "mm" = true /\ si_cond 5 w_mm 0 "mm" = true /\ imports_scale_ok unfixed 5 w_mm 0 "mm" = true /\
  acyclic w_mm /\ (world_size w_mm < 5)%nat /\ import_free w_mm /\ no_bare_std_scaled w_mm /\
  is_defined unfixed 5 w_import 0 "I2" = Ok true.
Proof.
  repeat (split; [vm_compute; reflexivity|]). split; [exact acyclic_w_mm|]. split; [vm_compute; lia|]. split; [|split].
  - intros mi n a b H. destruct mi as [|[|mi]]; cbn in H; try discriminate.
    unfold lookup, w_mm in H. cbn [nth_error assoc] in H.
    repeat match type of H with context [String.eqb n ?s] => destruct (String.eqb n s); try discriminate end.
  - intros mi n H Hs. destruct mi as [|[|mi]]; cbn in H; try discriminate.
    unfold lookup, w_mm in H. cbn [nth_error assoc] in H.
    repeat match type of H with context [String.eqb n ?s] => destruct (String.eqb n s); try discriminate end.
  - vm_compute. reflexivity.
Qed.

(* ------------------------------------------------------------------ the validator's verdict is Units::compatible (without imports) *)

Definition nonstd_names (w : world) : Prop := forall mi n d, lookup w mi n = Some d -> is_std_name n = false.

Lemma at_add_std_get : forall n d m m' k, at_add_std n d m = Ok m' -> get m' k == get m k + d * std_dim n k.
Proof.
  intros n d m m' k. unfold at_add_std, std_dim. generalize (std_components n). intros comps. revert m.
  induction comps as [|c r IH]; intros m H.
  - cbn in H. injection H as <-. unfold comp_get. cbn. ring.
  - cbn [fold_res] in H. unfold at_add at 1 in H. destruct (assoc (fst c) m); [|discriminate].
    rewrite (IH _ H), get_madd, comp_get_cons. destruct (String.eqb (fst c) k); ring.
Qed.

Lemma at_add_std_wf : forall n d m m', wfmap m -> at_add_std n d m = Ok m' -> wfmap m'.
Proof.
  intros n d m m' Hwf. unfold at_add_std. apply fold_res_inv; [|exact Hwf].
  intros c x x' _ Hx Hs. unfold at_add in Hs. destruct (assoc (fst c) x); [|discriminate]. injection Hs as <-.
  apply wfmap_madd. exact Hx.
Qed.

Lemma defined_lookup : forall f w mi n, defined_sem f w mi n = Ok true -> exists d, lookup w mi n = Some d.
Proof.
  intros [|f'] w mi n H; [discriminate|]. rewrite defined_sem_S in H.
  destruct (lookup w mi n) as [d|]; [exists d; reflexivity|discriminate].
Qed.

Lemma val_go_dim : forall w, import_free w -> nonstd_names w -> forall k f mi n uexp lm dir s,
  defined_sem f w mi n = Ok true -> has_base (fst s) /\ wfmap (fst s) ->
  exists s', val_go f w mi n uexp lm dir s = Ok s' /\ (has_base (fst s') /\ wfmap (fst s')) /\
             get (fst s') k == get (fst s) k + dir * uexp * dim f w mi n k.
Proof.
  intros w Hfree Hns k. induction f as [|f' IH]; intros mi n uexp lm dir s Hd [Hb Hwf]; [discriminate|].
  destruct (defined_lookup _ _ _ _ Hd) as [d Hl]. pose proof (Hns mi n d Hl) as Hstd.
  destruct d as [l|mj r]; [|exfalso; apply (Hfree mi n mj r Hl)].
  rewrite val_go_S, Hl, (is_base_defs f' w mi n l Hl Hstd).
  destruct l as [|c0 l0].
  - cbn [length Nat.eqb]. eexists. split; [reflexivity|]. cbn [fst snd].
    split; [split; [apply has_base_madd; exact Hb|apply wfmap_madd; exact Hwf]|].
    rewrite get_madd, dim_S, (is_base_defs f' w mi n [] Hl Hstd). cbn [length Nat.eqb].
    destruct (String.eqb n k); ring.
  - cbn [length Nat.eqb].
    rewrite (dim_compound f' w mi n (c0 :: l0) k Hl (is_base_defs f' w mi n (c0 :: l0) Hl Hstd) eq_refl).
    destruct (fold_res_sum_inv
      (fun c s =>
                  if negb (is_std_name (uc_ref c))
                  then val_go f' w mi (uc_ref c) (uc_exp c * uexp)
                         (lm + uc_mult c * uexp + prefix_or_zero (uc_prefix c) * uexp) dir s
                  else match at_add_std (uc_ref c) (dir * (uc_exp c * uexp)) (fst s) with
                       | Ok m => Ok (m, snd s + dir * (lm + (std_mult (uc_ref c) + uc_mult c + prefix_or_zero (uc_prefix c)) * uc_exp c))
                       | OutOfFuel => OutOfFuel
                       | Crash => Crash
                       end)
      (fun s : vstate => has_base (fst s) /\ wfmap (fst s)) (fun s : vstate => get (fst s) k)
      (fun c => dir * uexp * (uc_exp c * (if is_std_name (uc_ref c) then std_dim (uc_ref c) k else dim f' w mi (uc_ref c) k)))
      (c0 :: l0)) with (s := s) as [s' [Hs' [Ps' Vs']]].
    + intros c x Hin [Bx Wx]. destruct (is_std_name (uc_ref c)) eqn:Hs; cbn [negb].
      * destruct (at_add_std_ok (uc_ref c) (dir * (uc_exp c * uexp)) (fst x) Bx) as [m' [Hm' Bm']]. rewrite Hm'.
        eexists. split; [reflexivity|]. cbn [fst snd]. split; [split; [exact Bm'|apply (at_add_std_wf _ _ _ _ Wx Hm')]|].
        rewrite (at_add_std_get _ _ _ _ k Hm'). ring.
      * destruct (defined_children f' w mi n (c0 :: l0) c Hd Hl Hin Hs) as [_ Hdc].
        destruct (IH mi (uc_ref c) (uc_exp c * uexp) (lm + uc_mult c * uexp + prefix_or_zero (uc_prefix c) * uexp) dir x Hdc (conj Bx Wx))
          as [x' [Hx' [Px' Vx']]].
        exists x'. split; [exact Hx'|]. split; [exact Px'|]. rewrite Vx'. ring.
    + split; assumption.
    + exists s'. split; [exact Hs'|]. split; [exact Ps'|]. rewrite Vs'.
      rewrite (sumq_scale (fun c => uc_exp c * (if is_std_name (uc_ref c) then std_dim (uc_ref c) k else dim f' w mi (uc_ref c) k)) (dir * uexp) (c0 :: l0)).
      ring.
Qed.

Lemma forallb_filter_get : forall m, wfmap m ->
  (forallb (fun kv : string * Q => qzero (snd kv)) (filter (fun kv => negb (String.eqb (fst kv) "dimensionless")) m) = true <->
   forall k, k <> "dimensionless" -> get m k == 0).
Proof.
  intros m Hwf. rewrite forallb_forall. split.
  - intros H k Hk. unfold get. destruct (assoc k m) as [v|] eqn:Ha; [|reflexivity].
    apply qzero_iff. apply (H (k, v)). apply filter_In. split; [apply assoc_In; exact Ha|]. cbn.
    apply negb_true_iff. apply String.eqb_neq. exact Hk.
  - intros H [k v] Hin. apply filter_In in Hin. destruct Hin as [Hin Hnd]. cbn in *.
    apply negb_true_iff in Hnd. apply String.eqb_neq in Hnd. apply qzero_iff.
    specialize (H k Hnd). unfold get in H. rewrite (In_assoc_nodup k v m Hwf Hin) in H. exact H.
Qed.

Lemma wfmap_init : wfmap (map (fun b : string => (b, 0)) base_units_list).
Proof.
  unfold wfmap, keys.
  replace (map fst (map (fun b0 : string => (b0, 0)) base_units_list)) with base_units_list by (vm_compute; reflexivity).
  unfold base_units_list. repeat (constructor; [cbn; intuition discriminate|]). constructor.
Qed.

(** Without imports and with no units named after a standard unit, the validator's verdict for two defined units of a model
    is Units::compatible. *)
Lemma val_verdict_agrees_partial : forall fx f w mi n1 n2, import_free w -> nonstd_names w ->
  is_defined fx f w mi n1 = Ok true -> is_defined fx f w mi n2 = Ok true ->
  exists st q, val_equiv f w mi n1 n2 = Ok (st, q) /\
               (st = true <-> compatible fx f w (Some (mi, n1)) (Some (mi, n2)) = Ok true).
Proof.
  intros fx f w mi n1 n2 Hfree Hns D1 D2.
  pose proof (is_defined_sound _ _ _ _ _ D1) as S1. pose proof (is_defined_sound _ _ _ _ _ D2) as S2.
  destruct (defined_lookup _ _ _ _ S1) as [d1 L1]. destruct (defined_lookup _ _ _ _ S2) as [d2 L2].
  set (s0 := (map (fun b : string => (b, 0)) base_units_list, 0) : vstate).
  assert (P0 : has_base (fst s0) /\ wfmap (fst s0)) by (split; [apply has_base_init|apply wfmap_init]).
  (* the status does not depend on k: run val_go once, get the map equation for every k *)
  destruct (val_go_dim w Hfree Hns "x" f mi n1 1 0 1 s0 S1 P0) as [s1 [H1 [P1 _]]].
  destruct (val_go_dim w Hfree Hns "x" f mi n2 1 0 (-1 # 1) s1 S2 P1) as [s2 [H2 [P2 _]]].
  unfold val_equiv. fold s0. unfold val_side. rewrite L1, H1, L2, H2.
  eexists. eexists. split; [reflexivity|].
  rewrite (forallb_filter_get (fst s2) (proj2 P2)).
  rewrite (compatible_iff_same_exponents fx f w (mi, n1) (mi, n2) (or_intror Hfree) D1 D2). cbn [fst snd].
  assert (G : forall k, get (fst s2) k == dim f w mi n1 k - dim f w mi n2 k).
  { intros k.
    destruct (val_go_dim w Hfree Hns k f mi n1 1 0 1 s0 S1 P0) as [s1' [H1' [_ V1]]]. rewrite H1 in H1'. injection H1' as <-.
    destruct (val_go_dim w Hfree Hns k f mi n2 1 0 (-1 # 1) s1 S2 P1) as [s2' [H2' [_ V2]]]. rewrite H2 in H2'. injection H2' as <-.
    rewrite V2, V1.
    assert (Z : get (fst s0) k == 0).
    { unfold s0. cbn [fst]. unfold get. destruct (assoc k (map (fun b : string => (b, 0)) base_units_list)) as [v|] eqn:Ha; [|reflexivity].
      apply assoc_In in Ha. apply in_map_iff in Ha. destruct Ha as [b [Hb _]]. injection Hb as _ <-. reflexivity. }
    rewrite Z. ring. }
  split.
  - intros H k Hk. specialize (H k Hk). rewrite G in H. rewrite <- (Qplus_0_l (dim f w mi n2 k)), <- H. ring.
  - intros H k Hk. rewrite G, (H k Hk). ring.
Qed.

(* ------------------------------------------------------------------ the import history once it is popped (fx_pop, 94d567f) *)

Lemma fold_opt_same_state : forall {A S} (step : A -> S -> res (option S)) l s s',
  (forall c x x', In c l -> step c x = Ok (Some x') -> x' = x) ->
  fold_opt step l s = Ok (Some s') -> s' = s /\ forall c, In c l -> step c s = Ok (Some s).
Proof.
  intros A S step l. induction l as [|a r IH]; intros s s' Hst H.
  - cbn in H. injection H as <-. split; [reflexivity|intros c []].
  - cbn [fold_opt] in H. destruct (step a s) as [[s1|]| |] eqn:Ha; try discriminate.
    pose proof (Hst a s s1 (or_introl eq_refl) Ha) as ->.
    destruct (IH s s' (fun c x x' Hin => Hst c x x' (or_intror Hin)) H) as [-> Hall].
    split; [reflexivity|]. intros c [<-|Hin]; [exact Ha|apply Hall; exact Hin].
Qed.

Lemma fold_opt_build : forall {A S} (step : A -> S -> res (option S)) l s,
  (forall c, In c l -> step c s = Ok (Some s)) -> fold_opt step l s = Ok (Some s).
Proof.
  intros A S step l s. induction l as [|a r IH]; intros H; [reflexivity|].
  cbn [fold_opt]. rewrite (H a (or_introl eq_refl)). apply IH. intros c Hin. apply H. right. exact Hin.
Qed.

(* with the pop, a successful test leaves the history as it found it *)
Lemma perform_test_state : forall fx d, fx_pop fx = true -> forall f w h mi n h',
  perform_test fx d f w h mi n = Ok (Some h') -> h' = h.
Proof.
  intros fx d Hpop. induction f as [|f' IH]; intros w h mi n h' H; [discriminate|].
  rewrite perform_test_S in H. destruct (lookup w mi n) as [[l|mj r]|]; [| |discriminate].
  - apply fold_opt_same_state in H; [apply H|].
    intros c x x' _ Hc. destruct (is_std_name (uc_ref c)); [injection Hc as <-; reflexivity|].
    destruct (lookup w mi (uc_ref c)); [apply (IH _ _ _ _ _ Hc)|].
    destruct d; [discriminate|injection Hc as <-; reflexivity].
  - destruct (lookup w mj r); [|discriminate]. cbv zeta in H.
    destruct (import_cycle w h (new_epoch h mi mj)); [discriminate|].
    destruct (perform_test fx d f' w (new_epoch h mi mj :: h) mj r) as [[h1|]| |] eqn:Hp; try discriminate.
    rewrite Hpop in H. injection H as <-. rewrite (IH _ _ _ _ _ Hp). reflexivity.
Qed.

(* every epoch of the history lies (weakly) below the model being visited *)
Definition hist_below (rk : nat -> nat) (h : hist) (mi : nat) : Prop :=
  forall x, In x h -> (rk (ep_srcmodel x) <= rk mi)%nat /\ (rk (ep_dst x) <= rk mi)%nat /\
                      forall s, ep_src x = Some s -> (rk s <= rk mi)%nat.

Lemma importee_url_in : forall h url s, importee_url h url = Some s -> exists x, In x h /\ ep_dst x = s.
Proof.
  intros h url s H. unfold importee_url in H.
  destruct (find (fun e => negb (Nat.eqb (ep_dst e) url)) h) as [e|] eqn:Hf; [|discriminate].
  injection H as <-. apply find_some in Hf. exists e. split; [apply Hf|reflexivity].
Qed.

Lemma no_cycle_below : forall rk w h mi mj, hist_below rk h mi -> (rk mi < rk mj)%nat ->
  import_cycle w h (new_epoch h mi mj) = false.
Proof.
  intros rk w h mi mj Hb Hlt. unfold import_cycle. cbn [ep_dst new_epoch].
  apply not_true_is_false. intros H. apply existsb_exists in H. destruct H as [x [Hin Hx]].
  destruct (Hb x Hin) as [B1 [B2 B3]]. apply orb_prop in Hx. destruct Hx as [Hx|Hx].
  - unfold opt_nat_eqb in Hx. destruct (ep_src x) as [s|] eqn:Hs; [|discriminate].
    apply Nat.eqb_eq in Hx. subst s. specialize (B3 mj eq_refl). lia.
  - apply andb_prop in Hx. destruct Hx as [Hx _]. apply andb_prop in Hx. destruct Hx as [_ Hx].
    apply Nat.eqb_eq in Hx. rewrite Hx in B1. lia.
Qed.

Lemma hist_below_push : forall rk h mi mj, hist_below rk h mi -> (rk mi < rk mj)%nat ->
  hist_below rk (new_epoch h mi mj :: h) mj.
Proof.
  intros rk h mi mj Hb Hlt x [<-|Hin].
  - cbn [new_epoch ep_srcmodel ep_dst ep_src]. split; [lia|]. split; [lia|].
    intros s Hs. apply importee_url_in in Hs. destruct Hs as [y [Hy <-]]. destruct (Hb y Hy) as [_ [B2 _]]. lia.
  - destruct (Hb x Hin) as [B1 [B2 B3]]. split; [lia|]. split; [lia|]. intros s Hs. specialize (B3 s Hs). lia.
Qed.

Lemma perform_test_dag : forall fx w rk, fx_pop fx = true ->
  (forall mi n mj r, lookup w mi n = Some (Import mj r) -> (rk mi < rk mj)%nat) ->
  forall f h mi n, hist_below rk h mi -> defined_sem f w mi n = Ok true ->
  perform_test fx true f w h mi n = Ok (Some h).
Proof.
  intros fx w rk Hpop Hdag. induction f as [|f' IH]; intros h mi n Hb H; [discriminate|].
  pose proof H as H0. rewrite defined_sem_S in H. rewrite perform_test_S.
  destruct (lookup w mi n) as [[l|mj r]|] eqn:Hl; [| |discriminate].
  - rewrite forall_res_true in H. apply fold_opt_build. intros c Hin. specialize (H c Hin).
    destruct (is_std_name (uc_ref c)); [reflexivity|].
    destruct (lookup w mi (uc_ref c)); [|discriminate]. apply IH; assumption.
  - destruct (lookup w mj r) as [d|] eqn:Ht; [|discriminate]. cbv zeta.
    pose proof (Hdag mi n mj r Hl) as Hlt.
    rewrite (no_cycle_below rk w h mi mj Hb Hlt).
    rewrite (IH _ mj r (hist_below_push rk h mi mj Hb Hlt) H). rewrite Hpop. reflexivity.
Qed.

(** With the history popped, isDefined() is exactly "every reference resolves", as long as the models import from one
    another along a DAG. *)
Lemma is_defined_complete : forall fx f w mi n, fx_pop fx = true -> model_dag w ->
  defined_sem f w mi n = Ok true -> is_defined fx f w mi n = Ok true.
Proof.
  intros fx f w mi n Hpop [rk Hdag] H. unfold is_defined.
  rewrite (perform_test_dag fx w rk Hpop Hdag f [] mi n); [reflexivity| |exact H].
  intros x [].
Qed.

Lemma is_defined_iff : forall fx f w mi n, fx_pop fx = true -> model_dag w ->
  (is_defined fx f w mi n = Ok true <-> defined_sem f w mi n = Ok true).
Proof.
  intros fx f w mi n Hpop Hdag. split; [apply is_defined_sound|apply is_defined_complete; assumption].
Qed.

(* the hypothesis model_dag is needed: acyclic units spread over two models that import from each other *)
Definition w_mutual : world :=
  [ [("u", Import 1 "A")]; [("A", Import 2 "B"); ("C", Defs [mk "metre" "" 1 0])]; [("B", Import 1 "C")] ].

Lemma is_defined_needs_model_dag :
  defined_sem 6 w_mutual 0 "u" = Ok true /\ is_defined all_fixed 6 w_mutual 0 "u" = Ok false.
Proof. split; vm_compute; reflexivity. Qed.

(* ... and no longer depends on the order of the unit children *)
Lemma perm_world_sym : forall w w', perm_world w w' -> perm_world w' w.
Proof.
  intros w w' [Hlen Hp]. split; [symmetry; exact Hlen|]. intros mi n. specialize (Hp mi n). unfold perm_def in *.
  destruct (lookup w mi n) as [[l|a b]|]; destruct (lookup w' mi n) as [[l'|a' b']|]; try contradiction; try exact I.
  - apply Permutation_sym. exact Hp.
  - destruct Hp as [-> ->]. split; reflexivity.
Qed.

Lemma perform_test_perm : forall fx d w w', fx_pop fx = true -> perm_world w w' ->
  forall f h mi n, perform_test fx d f w h mi n = Ok (Some h) -> perform_test fx d f w' h mi n = Ok (Some h).
Proof.
  intros fx d w w' Hpop PW. pose proof PW as [Hlen Hp]. induction f as [|f' IH]; intros h mi n H; [discriminate|].
  rewrite perform_test_S in *. pose proof (Hp mi n) as Hd. unfold perm_def in Hd.
  destruct (lookup w mi n) as [[l|a b]|]; destruct (lookup w' mi n) as [[l'|a' b']|]; try contradiction; try discriminate.
  - apply fold_opt_same_state in H.
    + destruct H as [_ Hall]. apply fold_opt_build. intros c Hin.
      specialize (Hall c (Permutation_in c (Permutation_sym Hd) Hin)). cbv beta in *.
      destruct (is_std_name (uc_ref c)); [reflexivity|].
      pose proof (Hp mi (uc_ref c)) as Hd2. pose proof (perm_def_none _ _ Hd2) as Hn.
      destruct (lookup w mi (uc_ref c)) as [x|]; destruct (lookup w' mi (uc_ref c)) as [x'|].
      * apply IH. exact Hall.
      * destruct Hn as [_ Hn]. specialize (Hn eq_refl). discriminate.
      * destruct Hn as [Hn _]. specialize (Hn eq_refl). discriminate.
      * exact Hall.
    + intros c x x' _ Hc. destruct (is_std_name (uc_ref c)); [injection Hc as <-; reflexivity|].
      destruct (lookup w mi (uc_ref c)); [apply (perform_test_state fx d Hpop _ _ _ _ _ _ Hc)|].
      destruct d; [discriminate|injection Hc as <-; reflexivity].
  - destruct Hd as [<- <-].
    pose proof (Hp a b) as Hd2. pose proof (perm_def_none _ _ Hd2) as Hn.
    destruct (lookup w a b) as [x|]; [|discriminate].
    destruct (lookup w' a b) as [x'|]; [|destruct Hn as [_ Hn]; specialize (Hn eq_refl); discriminate].
    cbv zeta in *.
    assert (Hc : import_cycle w' h (new_epoch h mi a) = import_cycle w h (new_epoch h mi a)).
    { unfold import_cycle. rewrite Hlen. reflexivity. }
    rewrite Hc. destruct (import_cycle w h (new_epoch h mi a)); [discriminate|].
    destruct (perform_test fx d f' w (new_epoch h mi a :: h) a b) as [[h1|]| |] eqn:Hpt; try discriminate.
    pose proof (perform_test_state fx d Hpop _ _ _ _ _ _ Hpt) as ->.
    rewrite (IH _ _ _ Hpt). exact H.
Qed.

Lemma is_defined_perm : forall fx w w' f mi n, fx_pop fx = true -> perm_world w w' ->
  is_defined fx f w mi n = Ok true -> is_defined fx f w' mi n = Ok true.
Proof.
  intros fx w w' f mi n Hpop PW H. unfold is_defined, test_result in *.
  destruct (perform_test fx true f w [] mi n) as [[h'|]| |] eqn:Hp; try discriminate.
  pose proof (perform_test_state fx true Hpop _ _ _ _ _ _ Hp) as ->.
  rewrite (perform_test_perm fx true w w' Hpop PW f [] mi n Hp). reflexivity.
Qed.

(** compatible is independent of the order of the unit children of any units. *)
Lemma compatible_perm_invariant : forall fx f w w' a b, fx_pop fx = true -> perm_world w w' ->
  (compatible fx f w a b = Ok true <-> compatible fx f w' a b = Ok true).
Proof.
  assert (G : forall fx f w w' a b, fx_pop fx = true -> perm_world w w' ->
              compatible fx f w a b = Ok true -> compatible fx f w' a b = Ok true).
  { intros fx f w w' [a|] [b|] Hpop PW H; try (cbn in H; discriminate).
    pose proof H as H0. apply compatible_spec in H0. destruct H0 as [Da [Db _]].
    apply (compatible_perm_partial fx f w w' a b PW H); apply (is_defined_perm fx w w'); assumption. }
  intros fx f w w' a b Hpop PW. split; [apply G; assumption|apply G; [exact Hpop|apply perm_world_sym; exact PW]].
Qed.

Lemma compatible_perm_set_units : forall fx f w mi0 n0 l l' a b, fx_pop fx = true ->
  lookup w mi0 n0 = Some (Defs l) -> Permutation l l' ->
  (compatible fx f w a b = Ok true <-> compatible fx f (set_units w mi0 n0 (Defs l')) a b = Ok true).
Proof.
  intros fx f w mi0 n0 l l' a b Hpop Hl P. apply compatible_perm_invariant; [exact Hpop|].
  apply (perm_world_set_units w mi0 n0 l l' Hl P).
Qed.

(* the witnesses of the code before 94d567f are no witnesses any more *)
Lemma order_witness_repaired :
  compatible all_fixed 6 (w_order false) (Some (0%nat, "u")) (Some (0%nat, "u")) = Ok true /\
  compatible all_fixed 6 (w_order true) (Some (0%nat, "u")) (Some (0%nat, "u")) = Ok true.
Proof. split; vm_compute; reflexivity. Qed.

Lemma model_dag_w_order : forall b, model_dag (w_order b).
Proof.
  intros b. exists (fun x => x). intros mi n mj r H.
  destruct mi as [|[|[|mi]]]; unfold lookup, w_order in H; cbn [nth_error assoc] in H; try discriminate.
  - destruct (String.eqb n "A"); [injection H as <- _; lia|].
    destruct (String.eqb n "B"); [injection H as <- _; lia|].
    destruct (String.eqb n "u"); [destruct b; discriminate|discriminate].
  - destruct (String.eqb n "I3"); [injection H as <- _; lia|].
    destruct (String.eqb n "X"); discriminate.
  - destruct (String.eqb n "B1"); discriminate.
  - destruct mi; discriminate.
Qed.

Lemma nonvacuous_pop :
  model_dag (w_order false) /\ fx_pop all_fixed = true /\
  defined_sem 6 (w_order false) 0 "u" = Ok true /\ is_defined all_fixed 6 (w_order false) 0 "u" = Ok true /\
  is_defined unfixed 6 (w_order false) 0 "u" = Ok false.
Proof. split; [apply model_dag_w_order|]. repeat split; vm_compute; reflexivity. Qed.

(* ------------------------------------------------------------------ the analyser's verdict on the fragment agree_cond *)

Lemma get_fold_madd_gen : forall (g : string * Q -> Q) (l : list (string * Q)) m k,
  get (fold_left (fun m c => madd (fst c) (g c) m) l m) k ==
  get m k + sumq (map (fun c => if String.eqb (fst c) k then g c else 0) l).
Proof.
  intros g. induction l as [|c r IH]; intros m k.
  - cbn. unfold sumq. cbn. ring.
  - cbn [fold_left map]. rewrite IH, get_madd, sumq_cons. destruct (String.eqb (fst c) k); ring.
Qed.

Lemma wfmap_fold_madd : forall (g : string * Q -> Q) (l : list (string * Q)) m, wfmap m ->
  wfmap (fold_left (fun m c => madd (fst c) (g c) m) l m).
Proof.
  intros g. induction l as [|c r IH]; intros m H; cbn; [exact H|]. apply IH. apply wfmap_madd. exact H.
Qed.

(* the sum of the entries of key k of a map without repeated keys is its value at k *)
Lemma sum_entries_wf : forall (m : umap) k, wfmap m ->
  sumq (map (fun c : string * Q => if String.eqb (fst c) k then snd c else 0) m) == get m k.
Proof.
  intros m k. unfold wfmap, keys. induction m as [|[key v] r IH]; intros Hnd.
  - reflexivity.
  - inversion Hnd as [|? ? Hnotin Hnd']; subst. cbn [map fst snd]. rewrite sumq_cons. unfold get. cbn [assoc].
    destruct (String.eqb_spec key k) as [->|Hne].
    + rewrite String.eqb_refl. rewrite IH by exact Hnd'. rewrite (get_notin r k Hnotin). ring.
    + destruct (String.eqb_spec k key) as [->|_]; [contradiction Hne; reflexivity|]. rewrite IH by exact Hnd'. unfold get. ring.
Qed.

Lemma sum_entries_filter : forall (m : umap) k (g : string * Q -> Q),
  sumq (map (fun c : string * Q => if String.eqb (fst c) k then g c else 0)
            (filter (fun kv : string * Q => negb (String.eqb (fst kv) "dimensionless")) m)) ==
  (if String.eqb k "dimensionless" then 0 else sumq (map (fun c : string * Q => if String.eqb (fst c) k then g c else 0) m)).
Proof.
  intros m k g. induction m as [|[key v] r IH].
  - cbn. destruct (String.eqb k "dimensionless"); reflexivity.
  - cbn [filter fst]. destruct (String.eqb_spec key "dimensionless") as [->|Hne]; cbn [negb].
    + rewrite IH. cbn [map fst]. rewrite sumq_cons.
      destruct (String.eqb_spec k "dimensionless") as [->|Hk]; [reflexivity|].
      destruct (String.eqb_spec "dimensionless" k) as [E|_]; [contradiction Hk; symmetry; exact E|]. ring.
    + cbn [map fst]. rewrite !sumq_cons, IH.
      destruct (String.eqb_spec k "dimensionless") as [->|Hk]; [|reflexivity].
      destruct (String.eqb_spec key "dimensionless") as [E|_]; [contradiction Hne|]. ring.
Qed.

Lemma sumq_opp : forall {A} (g : A -> Q) l, sumq (map (fun c => - g c) l) == - sumq (map g l).
Proof.
  intros A g l. induction l as [|a r IH]; cbn [map]; rewrite ?sumq_cons; [reflexivity|]. rewrite IH. ring.
Qed.

(* analyser.cpp: areSameUnitsMaps on maps without repeated keys *)
Lemma ana_same_maps_iff : forall m1 m2, wfmap m1 -> wfmap m2 ->
  (ana_same_maps m1 m2 = true <-> forall k, k <> "dimensionless" -> get m1 k == get m2 k).
Proof.
  intros m1 m2 W1 W2. unfold ana_same_maps.
  set (nd := fun kv : string * Q => negb (String.eqb (fst kv) "dimensionless")).
  set (d1 := fold_left (fun m kv => madd (fst kv) (snd kv) m) (filter nd m1) []).
  set (d2 := fold_left (fun m kv => madd (fst kv) (- snd kv) m) (filter nd m2) d1).
  assert (Wd : wfmap d2).
  { apply (wfmap_fold_madd (fun kv => - snd kv)). apply (wfmap_fold_madd (fun kv => snd kv)). apply wfmap_nil. }
  assert (G : forall k, get d2 k == (if String.eqb k "dimensionless" then 0 else get m1 k - get m2 k)).
  { intros k. unfold d2, d1, nd. rewrite (get_fold_madd_gen (fun kv => - snd kv)).
    rewrite (get_fold_madd_gen (fun kv => snd kv)), get_nil.
    rewrite (sum_entries_filter m1 k (fun kv => snd kv)), (sum_entries_filter m2 k (fun kv => - snd kv)).
    destruct (String.eqb k "dimensionless"); [ring|].
    rewrite (sum_entries_wf m1 k W1).
    assert (E : sumq (map (fun c : string * Q => if String.eqb (fst c) k then - snd c else 0) m2) ==
                - sumq (map (fun c : string * Q => if String.eqb (fst c) k then snd c else 0) m2)).
    { rewrite <- sumq_opp. apply sumq_ext. intros c _. destruct (String.eqb (fst c) k); ring. }
    rewrite E, (sum_entries_wf m2 k W2). ring. }
  rewrite forallb_forall. split.
  - intros H k Hk. specialize (G k). destruct (String.eqb_spec k "dimensionless") as [E|_]; [contradiction Hk|].
    assert (Z : get d2 k == 0).
    { unfold get. destruct (assoc k d2) as [v|] eqn:Ha; [|reflexivity]. apply qzero_iff. apply (H (k, v)). apply assoc_In. exact Ha. }
    rewrite Z in G. rewrite <- (Qplus_0_l (get m2 k)), G. ring.
  - intros H [k v] Hin. cbn [snd]. apply qzero_iff. specialize (G k). unfold get in G at 1.
    rewrite (In_assoc_nodup k v d2 Wd Hin) in G. rewrite G.
    destruct (String.eqb_spec k "dimensionless") as [->|Hk]; [reflexivity|]. rewrite (H k Hk). ring.
Qed.

Lemma ana_map_go_dim : forall w, import_free w -> nonstd_names w -> forall k f mi n e acc,
  defined_sem f w mi n = Ok true -> wfmap acc ->
  exists m, ana_map_go f w mi n e acc = Ok m /\ wfmap m /\ get m k == get acc k + e * dim f w mi n k.
Proof.
  intros w Hfree Hns k. induction f as [|f' IH]; intros mi n e acc Hd Hwf; [discriminate|].
  destruct (defined_lookup _ _ _ _ Hd) as [d Hl]. pose proof (Hns mi n d Hl) as Hstd.
  destruct d as [l|mj r]; [|exfalso; apply (Hfree mi n mj r Hl)].
  rewrite ana_map_go_S, Hstd, Hl, (is_base_defs f' w mi n l Hl Hstd).
  destruct l as [|c0 l0].
  - cbn [length Nat.eqb]. eexists. split; [reflexivity|]. split; [apply wfmap_madd; exact Hwf|].
    rewrite get_madd, dim_S, (is_base_defs f' w mi n [] Hl Hstd). cbn [length Nat.eqb].
    destruct (String.eqb n k); ring.
  - cbn [length Nat.eqb].
    rewrite (dim_compound f' w mi n (c0 :: l0) k Hl (is_base_defs f' w mi n (c0 :: l0) Hl Hstd) eq_refl).
    destruct (fold_res_sum_inv
      (fun c a =>
                       if is_std_name (uc_ref c) then Ok (add_std (uc_ref c) (uc_exp c * e) a)
                       else ana_map_go f' w mi (uc_ref c) (uc_exp c * e) a)
      wfmap (fun a : umap => get a k)
      (fun c => e * (uc_exp c * (if is_std_name (uc_ref c) then std_dim (uc_ref c) k else dim f' w mi (uc_ref c) k)))
      (c0 :: l0)) with (s := acc) as [m [Hm [Wm Vm]]].
    + intros c x Hin Wx. destruct (is_std_name (uc_ref c)) eqn:Hs.
      * eexists. split; [reflexivity|]. split; [apply wfmap_add_std; exact Wx|]. rewrite get_add_std. ring.
      * destruct (defined_children f' w mi n (c0 :: l0) c Hd Hl Hin Hs) as [_ Hdc].
        destruct (IH mi (uc_ref c) (uc_exp c * e) x Hdc Wx) as [x' [Hx' [Wx' Vx']]].
        exists x'. split; [exact Hx'|]. split; [exact Wx'|]. rewrite Vx'. ring.
    + exact Hwf.
    + exists m. split; [exact Hm|]. split; [exact Wm|]. rewrite Vm.
      rewrite (sumq_scale (fun c => uc_exp c * (if is_std_name (uc_ref c) then std_dim (uc_ref c) k else dim f' w mi (uc_ref c) k)) e (c0 :: l0)).
      ring.
Qed.

(** On the fragment where the three formulas agree (and without imports / units named after standard units), the analyser
    finds the two sides of "x = y" equivalent exactly when Units::equivalent does. *)
Lemma ana_verdict_agrees_partial : forall fx f w mi n1 n2, import_free w -> nonstd_names w ->
  agree_cond f w mi n1 = true -> agree_cond f w mi n2 = true ->
  is_defined fx f w mi n1 = Ok true -> is_defined fx f w mi n2 = Ok true ->
  exists b, ana_equiv f w mi n1 n2 = Ok b /\
            (b = true <-> equivalent fx f w (Some (mi, n1)) (Some (mi, n2)) = Ok true).
Proof.
  intros fx f w mi n1 n2 Hfree Hns A1 A2 D1 D2.
  pose proof (is_defined_sound _ _ _ _ _ D1) as S1. pose proof (is_defined_sound _ _ _ _ _ D2) as S2.
  destruct (three_agree_partial fx f w mi n1 A1) as [u1 [_ [a1 [U1 [_ [As1 [_ E1]]]]]]].
  destruct (three_agree_partial fx f w mi n2 A2) as [u2 [_ [a2 [U2 [_ [As2 [_ E2]]]]]]].
  destruct (ana_map_go_dim w Hfree Hns "x" f mi n1 1 [] S1 wfmap_nil) as [m1 [M1 [W1 _]]].
  destruct (ana_map_go_dim w Hfree Hns "x" f mi n2 1 [] S2 wfmap_nil) as [m2 [M2 [W2 _]]].
  unfold ana_equiv, ana_map. rewrite M1, M2, As1, As2. eexists. split; [reflexivity|].
  assert (G1 : forall k, get m1 k == dim f w mi n1 k).
  { intros k. destruct (ana_map_go_dim w Hfree Hns k f mi n1 1 [] S1 wfmap_nil) as [m [Hm [_ V]]].
    rewrite M1 in Hm. injection Hm as <-. rewrite V, get_nil. ring. }
  assert (G2 : forall k, get m2 k == dim f w mi n2 k).
  { intros k. destruct (ana_map_go_dim w Hfree Hns k f mi n2 1 [] S2 wfmap_nil) as [m [Hm [_ V]]].
    rewrite M2 in Hm. injection Hm as <-. rewrite V, get_nil. ring. }
  rewrite andb_true_iff, (ana_same_maps_iff m1 m2 W1 W2), Qeq_bool_iff.
  rewrite equivalent_iff.
  rewrite (compatible_iff_same_exponents fx f w (mi, n1) (mi, n2) (or_intror Hfree) D1 D2). cbn [fst snd].
  split.
  - intros [Hm Hs]. assert (Hd : forall k, k <> "dimensionless" -> dim f w mi n1 k == dim f w mi n2 k).
    { intros k Hk. rewrite <- G1, <- G2. apply Hm. exact Hk. }
    split; [exact Hd|].
    assert (Hc : compatible fx f w (Some (mi, n1)) (Some (mi, n2)) = Ok true).
    { apply (compatible_iff_same_exponents fx f w (mi, n1) (mi, n2) (or_intror Hfree) D1 D2). exact Hd. }
    destruct (factor_pos_compatible fx f w (mi, n1) (mi, n2) u1 u2 Hc U1 U2) as [q [Hq Vq]].
    exists q. split; [exact Hq|]. rewrite Vq, <- E1, <- E2, Hs. ring.
  - intros [Hd [q [Hq Vq]]]. split.
    + intros k Hk. rewrite G1, G2. apply Hd. exact Hk.
    + apply scaling_factor_pow in Hq. destruct Hq as [a' [b' [l1 [l2 [Ea [Eb [_ [H1 [H2 ->]]]]]]]]].
      injection Ea as <-. injection Eb as <-. cbn [fst snd] in H1, H2. rewrite U1 in H1. rewrite U2 in H2.
      injection H1 as <-. injection H2 as <-.
      rewrite E1, E2. rewrite <- (Qplus_0_l u1). rewrite <- Vq. ring.
Qed.

(* ------------------------------------------------------------------ fuel: an answer, once given, is the answer for every larger fuel *)

Lemma fold_res_mono : forall {A S} (step step' : A -> S -> res S) l,
  (forall c s, In c l -> step c s <> OutOfFuel -> step' c s = step c s) ->
  forall s, fold_res step l s <> OutOfFuel -> fold_res step' l s = fold_res step l s.
Proof.
  intros A S step step' l. induction l as [|a r IH]; intros Hs s H; [reflexivity|].
  cbn [fold_res] in *.
  assert (Ha : step a s <> OutOfFuel) by (intros E; rewrite E in H; apply H; reflexivity).
  rewrite (Hs a s (or_introl eq_refl) Ha).
  destruct (step a s) as [s1| |]; try reflexivity.
  apply IH; [|exact H]. intros c x Hin. apply Hs. right. exact Hin.
Qed.

Lemma fold_opt_mono : forall {A S} (step step' : A -> S -> res (option S)) l,
  (forall c s, In c l -> step c s <> OutOfFuel -> step' c s = step c s) ->
  forall s, fold_opt step l s <> OutOfFuel -> fold_opt step' l s = fold_opt step l s.
Proof.
  intros A S step step' l. induction l as [|a r IH]; intros Hs s H; [reflexivity|].
  cbn [fold_opt] in *.
  assert (Ha : step a s <> OutOfFuel) by (intros E; rewrite E in H; apply H; reflexivity).
  rewrite (Hs a s (or_introl eq_refl) Ha).
  destruct (step a s) as [[s1|]| |]; try reflexivity.
  apply IH; [|exact H]. intros c x Hin. apply Hs. right. exact Hin.
Qed.

Lemma is_base_h_mono : forall w f f' h mi n, (f <= f')%nat ->
  is_base_h f w h mi n <> OutOfFuel -> is_base_h f' w h mi n = is_base_h f w h mi n.
Proof.
  intros w. induction f as [|f0 IH]; intros f' h mi n Hle H; [contradiction H; reflexivity|].
  destruct f' as [|f0']; [lia|]. rewrite !is_base_h_S in *.
  destruct (lookup w mi n) as [[l|mj r]|]; try reflexivity.
  destruct (Nat.ltb mj (length w)); [|reflexivity]. cbv zeta in *.
  destruct (import_cycle w h (new_epoch h mi mj)); [reflexivity|].
  destruct (lookup w mj r); [|reflexivity]. apply IH; [lia|exact H].
Qed.

Lemma is_base_mono : forall w f f' mi n, (f <= f')%nat ->
  is_base f w mi n <> OutOfFuel -> is_base f' w mi n = is_base f w mi n.
Proof. intros. unfold is_base. apply is_base_h_mono; assumption. Qed.

Lemma perform_test_mono : forall fx d w f f' h mi n, (f <= f')%nat ->
  perform_test fx d f w h mi n <> OutOfFuel -> perform_test fx d f' w h mi n = perform_test fx d f w h mi n.
Proof.
  intros fx d w. induction f as [|f0 IH]; intros f' h mi n Hle H; [contradiction H; reflexivity|].
  destruct f' as [|f0']; [lia|]. rewrite !perform_test_S in *.
  destruct (lookup w mi n) as [[l|mj r]|]; try reflexivity.
  - apply fold_opt_mono; [|exact H]. intros c s _ Hc.
    destruct (is_std_name (uc_ref c)); [reflexivity|].
    destruct (lookup w mi (uc_ref c)); [|reflexivity]. apply IH; [lia|exact Hc].
  - destruct (lookup w mj r); [|reflexivity]. cbv zeta in *.
    destruct (import_cycle w h (new_epoch h mi mj)); [reflexivity|].
    assert (Hi : perform_test fx d f0 w (new_epoch h mi mj :: h) mj r <> OutOfFuel).
    { intros E. rewrite E in H. apply H. reflexivity. }
    rewrite (IH f0' _ mj r (le_S_n _ _ Hle) Hi). reflexivity.
Qed.

Lemma test_result_oof_iff : forall r, test_result r = OutOfFuel <-> r = OutOfFuel.
Proof. intros [[h|]| |]; split; intros H; try discriminate; reflexivity. Qed.

Lemma is_defined_mono : forall fx w f f' mi n, (f <= f')%nat ->
  is_defined fx f w mi n <> OutOfFuel -> is_defined fx f' w mi n = is_defined fx f w mi n.
Proof.
  intros fx w f f' mi n Hle H. unfold is_defined in *.
  rewrite (perform_test_mono fx true w f f' [] mi n Hle); [reflexivity|].
  intros E. apply H. apply test_result_oof_iff. exact E.
Qed.

Lemma is_resolved_mono : forall fx w f f' mi n, (f <= f')%nat ->
  is_resolved fx f w mi n <> OutOfFuel -> is_resolved fx f' w mi n = is_resolved fx f w mi n.
Proof.
  intros fx w f f' mi n Hle H. unfold is_resolved in *.
  rewrite (perform_test_mono fx false w f f' [] mi n Hle); [reflexivity|].
  intros E. apply H. apply test_result_oof_iff. exact E.
Qed.

Lemma umap_go_mono : forall fx w f f' mi n e acc, (f <= f')%nat ->
  umap_go fx f w mi n e acc <> OutOfFuel -> umap_go fx f' w mi n e acc = umap_go fx f w mi n e acc.
Proof.
  intros fx w. induction f as [|f0 IH]; intros f' mi n e acc Hle H; [contradiction H; reflexivity|].
  destruct f' as [|f0']; [lia|]. rewrite !umap_go_S in *.
  assert (Hb : is_base (S f0) w mi n <> OutOfFuel) by (intros E; rewrite E in H; apply H; reflexivity).
  rewrite (is_base_mono w (S f0) (S f0') mi n Hle Hb).
  destruct (is_base (S f0) w mi n) as [[|]| |]; try reflexivity.
  destruct (lookup w mi n) as [[l|mj r]|]; try reflexivity.
  - destruct (Nat.eqb (length l) 0 && is_std_name n); [reflexivity|].
    apply fold_res_mono; [|exact H]. intros c a _ Hc.
    destruct (is_std_name (uc_ref c)); [reflexivity|].
    destruct (lookup w mi (uc_ref c)); [|reflexivity]. apply IH; [lia|exact Hc].
  - destruct (is_std_name n); [reflexivity|]. destruct (lookup w mj r); [|reflexivity]. apply IH; [lia|exact H].
Qed.

Lemma mult_go_mono : forall fx w f f' mi n, (f <= f')%nat ->
  mult_go fx f w mi n <> OutOfFuel -> mult_go fx f' w mi n = mult_go fx f w mi n.
Proof.
  intros fx w. induction f as [|f0 IH]; intros f' mi n Hle H; [contradiction H; reflexivity|].
  destruct f' as [|f0']; [lia|]. rewrite !mult_go_S in *.
  destruct (lookup w mi n) as [[l|mj r]|]; try reflexivity.
  - destruct (Nat.eqb (length l) 0); [reflexivity|].
    apply fold_opt_mono; [|exact H]. intros c s _ Hc.
    destruct (convert_prefix (uc_prefix c)); [|reflexivity].
    destruct (is_std_name (uc_ref c)); [reflexivity|].
    destruct (lookup w mi (uc_ref c)); [|reflexivity].
    assert (Hi : mult_go fx f0 w mi (uc_ref c) <> OutOfFuel) by (intros E; rewrite E in Hc; apply Hc; reflexivity).
    rewrite (IH f0' mi (uc_ref c) (le_S_n _ _ Hle) Hi). reflexivity.
  - assert (Hr : is_resolved fx (S f0) w mi n <> OutOfFuel) by (intros E; rewrite E in H; apply H; reflexivity).
    rewrite (is_resolved_mono fx w (S f0) (S f0') mi n Hle Hr).
    destruct (is_resolved fx (S f0) w mi n) as [[|]| |]; try reflexivity.
    destruct (lookup w mj r); [|reflexivity].
    assert (Hi : mult_go fx f0 w mj r <> OutOfFuel) by (intros E; rewrite E in H; apply H; reflexivity).
    rewrite (IH f0' mj r (le_S_n _ _ Hle) Hi). reflexivity.
Qed.

Lemma define_units_map_mono : forall fx w f f' u, (f <= f')%nat ->
  define_units_map fx f w u <> OutOfFuel -> define_units_map fx f' w u = define_units_map fx f w u.
Proof.
  intros fx w f f' u Hle H. unfold define_units_map in *.
  rewrite (umap_go_mono fx w f f' (fst u) (snd u) 1 [] Hle); [reflexivity|].
  intros E. rewrite E in H. apply H. reflexivity.
Qed.

Lemma compatible_mono : forall fx w f f' a b, (f <= f')%nat ->
  compatible fx f w a b <> OutOfFuel -> compatible fx f' w a b = compatible fx f w a b.
Proof.
  intros fx w f f' [a|] [b|] Hle H; try reflexivity. unfold compatible in *.
  assert (Ha : is_defined fx f w (fst a) (snd a) <> OutOfFuel) by (intros E; rewrite E in H; apply H; reflexivity).
  rewrite (is_defined_mono fx w f f' _ _ Hle Ha).
  destruct (is_defined fx f w (fst a) (snd a)) as [[|]| |]; try reflexivity.
  assert (Hb : is_defined fx f w (fst b) (snd b) <> OutOfFuel) by (intros E; rewrite E in H; apply H; reflexivity).
  rewrite (is_defined_mono fx w f f' _ _ Hle Hb).
  destruct (is_defined fx f w (fst b) (snd b)) as [[|]| |]; try reflexivity.
  assert (Hma : define_units_map fx f w a <> OutOfFuel) by (intros E; rewrite E in H; apply H; reflexivity).
  rewrite (define_units_map_mono fx w f f' a Hle Hma).
  destruct (define_units_map fx f w a) as [ma| |]; try reflexivity.
  assert (Hmb : define_units_map fx f w b <> OutOfFuel) by (intros E; rewrite E in H; apply H; reflexivity).
  rewrite (define_units_map_mono fx w f f' b Hle Hmb). reflexivity.
Qed.

Lemma scaling_factor_mono : forall fx w f f' a b, (f <= f')%nat ->
  scaling_factor fx f w a b <> OutOfFuel -> scaling_factor fx f' w a b = scaling_factor fx f w a b.
Proof.
  intros fx w f f' a b Hle H. unfold scaling_factor in *.
  assert (Hc : compatible fx f w a b <> OutOfFuel) by (intros E; rewrite E in H; apply H; reflexivity).
  rewrite (compatible_mono fx w f f' a b Hle Hc).
  destruct (compatible fx f w a b) as [[|]| |]; try reflexivity.
  destruct a as [a|]; [|reflexivity]. destruct b as [b|]; [|reflexivity].
  assert (H1 : mult_go fx f w (fst a) (snd a) <> OutOfFuel) by (intros E; rewrite E in H; apply H; reflexivity).
  rewrite (mult_go_mono fx w f f' _ _ Hle H1).
  destruct (mult_go fx f w (fst a) (snd a)) as [r1| |]; try reflexivity.
  assert (H2 : mult_go fx f w (fst b) (snd b) <> OutOfFuel) by (intros E; rewrite E in H; apply H; reflexivity).
  rewrite (mult_go_mono fx w f f' _ _ Hle H2). reflexivity.
Qed.

Lemma equivalent_mono : forall fx w f f' a b, (f <= f')%nat ->
  equivalent fx f w a b <> OutOfFuel -> equivalent fx f' w a b = equivalent fx f w a b.
Proof.
  intros fx w f f' a b Hle H. unfold equivalent in *.
  assert (Hs : scaling_factor fx f w a b <> OutOfFuel) by (intros E; rewrite E in H; apply H; reflexivity).
  rewrite (scaling_factor_mono fx w f f' a b Hle Hs). reflexivity.
Qed.

Lemma defined_sem_mono : forall w f f' mi n, (f <= f')%nat ->
  defined_sem f w mi n = Ok true -> defined_sem f' w mi n = Ok true.
Proof.
  intros w. induction f as [|f0 IH]; intros f' mi n Hle H; [discriminate|].
  destruct f' as [|f0']; [lia|]. rewrite defined_sem_S in *.
  destruct (lookup w mi n) as [[l|mj r]|]; try discriminate.
  - rewrite forall_res_true in *. intros c Hin. specialize (H c Hin).
    destruct (is_std_name (uc_ref c)); [reflexivity|].
    destruct (lookup w mi (uc_ref c)); [|discriminate]. apply (IH f0'); [lia|exact H].
  - destruct (lookup w mj r); [|discriminate]. apply (IH f0'); [lia|exact H].
Qed.

(** The dimension of a fully defined units does not depend on the fuel beyond what definedness needed. *)
Lemma dim_fuel_independent : forall w f f' mi n k, (f <= f')%nat ->
  defined_sem f w mi n = Ok true -> dim f' w mi n k = dim f w mi n k.
Proof.
  intros w. induction f as [|f0 IH]; intros f' mi n k Hle Hd; [discriminate|].
  destruct f' as [|f0']; [lia|]. rewrite !dim_S.
  destruct (defined_is_base_ok (S f0) w [] mi n Hd) as [b Hb].
  assert (Hb' : is_base (S f0') w mi n = is_base (S f0) w mi n).
  { apply is_base_mono; [exact Hle|]. unfold is_base. rewrite Hb. discriminate. }
  rewrite Hb'. unfold is_base at 1 2. rewrite Hb. destruct b; [reflexivity|].
  pose proof Hd as Hd0. rewrite defined_sem_S in Hd.
  destruct (lookup w mi n) as [[l|mj r]|] eqn:Hl; try reflexivity.
  - destruct (Nat.eqb (length l) 0 && is_std_name n); [reflexivity|].
    f_equal. apply map_ext_in. intros c Hin.
    destruct (is_std_name (uc_ref c)) eqn:Hs; [reflexivity|].
    destruct (defined_children f0 w mi n l c Hd0 Hl Hin Hs) as [_ Hdc].
    rewrite (IH f0' mi (uc_ref c) k (le_S_n _ _ Hle) Hdc). reflexivity.
  - destruct (is_std_name n); [reflexivity|].
    destruct (lookup w mj r); [|discriminate]. apply IH; [lia|exact Hd].
Qed.

(** fuel_monotone + fuel_sufficient: on an acyclic world every fuel above the number of units objects gives the same,
    non-OutOfFuel, answer as the fuel the drivers use (fuel_for w = S (world_size w)). *)
Lemma fuel_independent : forall fx w f, acyclic w -> (world_size w < f)%nat ->
  (forall a b, compatible fx f w a b = compatible fx (fuel_for w) w a b /\ compatible fx f w a b <> OutOfFuel) /\
  (forall a b, scaling_factor fx f w a b = scaling_factor fx (fuel_for w) w a b /\ scaling_factor fx f w a b <> OutOfFuel) /\
  (forall a b, equivalent fx f w a b = equivalent fx (fuel_for w) w a b /\ equivalent fx f w a b <> OutOfFuel) /\
  (forall mi n, is_defined fx f w mi n = is_defined fx (fuel_for w) w mi n /\
                define_units_map fx f w (mi, n) = define_units_map fx (fuel_for w) w (mi, n) /\
                mult_go fx f w mi n = mult_go fx (fuel_for w) w mi n) /\
  (forall mi n k, defined_sem (fuel_for w) w mi n = Ok true -> dim f w mi n k = dim (fuel_for w) w mi n k).
Proof.
  intros fx w f Hac Hf. unfold fuel_for.
  assert (Hle : (S (world_size w) <= f)%nat) by lia.
  destruct (reducers_terminate fx (S (world_size w)) w Hac (Nat.lt_succ_diag_r _)) as [T1 [_ T3]].
  destruct (reducers_terminate fx f w Hac Hf) as [T1' _].
  split; [|split; [|split; [|split]]].
  - intros a b. split; [apply compatible_mono; [exact Hle|apply T1]|apply T1'].
  - intros a b. split; [apply scaling_factor_mono; [exact Hle|apply T1]|apply T1'].
  - intros a b. split; [apply equivalent_mono; [exact Hle|apply T1]|apply T1'].
  - intros mi n. destruct (T3 mi n) as [_ [D [M U]]].
    split; [apply is_defined_mono; [exact Hle|exact D]|].
    split; [apply define_units_map_mono; [exact Hle|exact M]|apply mult_go_mono; [exact Hle|exact U]].
  - intros mi n k Hd. apply dim_fuel_independent; [exact Hle|exact Hd].
Qed.

Lemma fuel_nonvacuous :
  acyclic w_mm /\ fuel_for w_mm = 5%nat /\
  defined_sem (fuel_for w_mm) w_mm 0 "mm_sq" = Ok true /\
  scaling_factor unfixed 50 w_mm (Some (0%nat, "mm_sq")) (Some (0%nat, "m2")) = Ok (FPow (6 # 1)) /\
  dim 50 w_mm 0 "mm_sq" "metre" == 2 # 1.
Proof.
  split; [exact acyclic_w_mm|]. split; [reflexivity|]. split; [vm_compute; reflexivity|].
  destruct (fuel_independent unfixed w_mm 50 acyclic_w_mm) as [_ [S [_ [_ D]]]]; [vm_compute; lia|].
  split.
  - rewrite (proj1 (S _ _)). vm_compute. reflexivity.
  - rewrite (D 0%nat "mm_sq" "metre"); [vm_compute; reflexivity|vm_compute; reflexivity].
Qed.
