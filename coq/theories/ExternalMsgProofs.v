(** ExternalMsgProofs.v — the exact content of primaryExternalVariables and the two remaining message claims of C20:
    a class marked more than once, and ANY mark on a variable that is not the primary variable of its class. *)
From Coq Require Import List Bool Arith PeanoNat Lia.
From LC Require Import AnalysisDefs AnalysisSpec AnalysisProofs AnalysisWfProofs AnalysisOwnProofs
                       ExternalDefs ExternalMarkProofs ExternalProofs.
Import ListNotations.
Local Open Scope bool_scope.

(* ------------------------------------------------------------------ primaryExternalVariables as a finite map *)

Definition pev_get (k : vref) (pe : list (vref * list vref)) : list vref :=
  match find (fun en => vref_eqb (fst en) k) pe with Some en => snd en | None => [] end.

Lemma vref_eqb_refl : forall a, vref_eqb a a = true.
Proof. intro a. apply vref_eqb_eq. reflexivity. Qed.

Lemma vref_eqb_sym : forall a b, vref_eqb a b = vref_eqb b a.
Proof.
  intros a b. destruct (vref_eqb a b) eqn:E.
  - apply vref_eqb_eq in E. subst. symmetry. apply vref_eqb_refl.
  - destruct (vref_eqb b a) eqn:E2; [|reflexivity]. apply vref_eqb_eq in E2. subst. rewrite vref_eqb_refl in E. discriminate.
Qed.

Lemma pev_get_add : forall key v pe k,
  pev_get k (pev_add key v pe) = if vref_eqb key k then pev_get k pe ++ [v] else pev_get k pe.
Proof.
  intros key v pe k. induction pe as [|[k0 vs0] t IH]; cbn [pev_add].
  - unfold pev_get. cbn [find fst snd]. destruct (vref_eqb key k); reflexivity.
  - destruct (vref_eqb k0 key) eqn:E0.
    + apply vref_eqb_eq in E0. subst k0. unfold pev_get. cbn [find fst snd].
      destruct (vref_eqb key k); reflexivity.
    + unfold pev_get in *. cbn [find fst snd]. destruct (vref_eqb k0 k) eqn:E1.
      * apply vref_eqb_eq in E1. subst k0. rewrite vref_eqb_sym, E0. reflexivity.
      * exact IH.
Qed.

(* the tracked variable of the class of a mark, and the variables filed under a key, in addExternalVariable order *)
Definition key_of (s : system) (ivs0 : list ivar) (r : vref) : vref := iv_var (geti ivs0 (ivar_of s ivs0 r)).
Definition members_of (s : system) (ivs0 : list ivar) (k : vref) (marks : list xmark) : list vref :=
  filter_map (fun m => match local_of (xm_var m) with
                       | Some r => if vref_eqb (key_of s ivs0 r) k then Some r else None
                       | None => None end) marks.

Lemma pev_of_cons : forall s ivs0 m t pe,
  pev_of s ivs0 (m :: t) pe =
  pev_of s ivs0 t (match local_of (xm_var m) with Some r => pev_add (key_of s ivs0 r) r pe | None => pe end).
Proof. reflexivity. Qed.

Lemma pev_of_get : forall s ivs0 marks pe k,
  pev_get k (pev_of s ivs0 marks pe) = pev_get k pe ++ members_of s ivs0 k marks.
Proof.
  intros s ivs0 marks. induction marks as [|m t IH]; intros pe k.
  - cbn. rewrite app_nil_r. reflexivity.
  - rewrite pev_of_cons. unfold members_of. cbn [filter_map]. fold (members_of s ivs0 k t).
    destruct (local_of (xm_var m)) as [r|].
    + rewrite IH, pev_get_add. destruct (vref_eqb (key_of s ivs0 r) k).
      * rewrite <- app_assoc. reflexivity.
      * reflexivity.
    + apply IH.
Qed.

Lemma pev_add_nodup : forall key v pe, NoDup (map fst pe) -> NoDup (map fst (pev_add key v pe)).
Proof.
  intros key v pe. induction pe as [|[k0 vs0] t IH]; intro H; cbn [pev_add map fst].
  - constructor; [intros []|constructor].
  - inversion H as [|? ? Hn Ht]; subst. destruct (vref_eqb k0 key) eqn:E; cbn [map fst].
    + constructor; assumption.
    + constructor; [|apply IH; exact Ht]. intro K. apply pev_add_keys in K. destruct K as [K|K]; [|contradiction].
      subst k0. rewrite vref_eqb_refl in E. discriminate.
Qed.

Lemma pev_of_nodup : forall s ivs0 marks pe, NoDup (map fst pe) -> NoDup (map fst (pev_of s ivs0 marks pe)).
Proof.
  intros s ivs0 marks. induction marks as [|m t IH]; intros pe H; [exact H|].
  rewrite pev_of_cons. apply IH.
  destruct (local_of (xm_var m)); [apply pev_add_nodup; exact H|exact H].
Qed.

Lemma pev_get_entry : forall pe k vs, NoDup (map fst pe) -> In (k, vs) pe -> pev_get k pe = vs.
Proof.
  intros pe k vs. induction pe as [|[k0 vs0] t IH]; intros Hn Hin; [destruct Hin|].
  inversion Hn as [|? ? Hk Ht]; subst. unfold pev_get. cbn [find fst snd]. destruct Hin as [E|Hin].
  - inversion E; subst. rewrite vref_eqb_refl. reflexivity.
  - destruct (vref_eqb k0 k) eqn:E.
    + apply vref_eqb_eq in E. subst k0. exfalso. apply Hk. apply in_map_iff. exists (k, vs). split; [reflexivity|exact Hin].
    + apply IH; assumption.
Qed.

(** the entry of a key holds exactly the marked variables of its class, in order *)
Lemma pev_of_entry : forall s ivs0 marks k vs, In (k, vs) (pev_of s ivs0 marks []) -> vs = members_of s ivs0 k marks.
Proof.
  intros s ivs0 marks k vs H.
  rewrite <- (pev_get_entry _ k vs (pev_of_nodup s ivs0 marks [] (NoDup_nil _)) H).
  rewrite pev_of_get. reflexivity.
Qed.

Lemma members_of_In : forall s ivs0 k marks m r, In m marks -> xm_var m = XLocal r -> key_of s ivs0 r = k ->
  In r (members_of s ivs0 k marks).
Proof.
  intros s ivs0 k marks m r Hm Hv Hk. unfold members_of. induction marks as [|m0 t IH]; [destruct Hm|].
  cbn [filter_map]. destruct Hm as [->|Hm].
  - rewrite Hv. cbn [local_of]. rewrite Hk, vref_eqb_refl. left. reflexivity.
  - destruct (local_of (xm_var m0)) as [r0|].
    + destruct (vref_eqb (key_of s ivs0 r0) k); [right|]; apply IH; exact Hm.
    + apply IH; exact Hm.
Qed.

Lemma members_of_app : forall s ivs0 k a b, members_of s ivs0 k (a ++ b) = members_of s ivs0 k a ++ members_of s ivs0 k b.
Proof.
  intros s ivs0 k a b. unfold members_of. induction a as [|m t IH]; [reflexivity|].
  cbn [app filter_map]. destruct (local_of (xm_var m)) as [r|]; [destruct (vref_eqb (key_of s ivs0 r) k)|]; cbn [app]; rewrite IH; reflexivity.
Qed.

Lemma two_distinct_length : forall (l : list vref) a b, In a l -> In b l -> a <> b -> 1 <? length l = true.
Proof.
  intros l a b Ha Hb Hne. apply Nat.ltb_lt. destruct l as [|x [|y t]].
  - destruct Ha.
  - destruct Ha as [<-|[]]. destruct Hb as [<-|[]]. contradiction.
  - cbn. lia.
Qed.

(* ------------------------------------------------------------------ the two message theorems *)

Section Messages2.
Variable s : system.
Variable marks : list xmark.
Variables (ivs0 : list ivar) (es0 : list ieq).
Hypothesis Hres : resolvable s = true.
Hypothesis Eb : build s = Some (ivs0, es0).
Hypothesis Eci : check_inits s ivs0 0 s = [].
Hypothesis Ei : vs_issues (analyse_asts s ivs0 es0) = [].
Hypothesis Hr : marks_in_range s marks.

(* the message that the entry of a key produces, once its condition holds *)
Lemma entry_message : forall key vs, In (key, vs) (pev_of s ivs0 marks []) ->
  (1 <? length vs) || negb (existsb (vref_eqb key) vs) = true ->
  exists rule, (rule = XVoi \/ rule = XUsePrimary) /\ In (mkXissue rule (XLocal key)) (xr_messages (analyse_x true s marks)).
Proof.
  intros key vs Hen Hc.
  exists (if vtype_eqb (iv_type (geti (vs_ivs (analyse_asts s ivs0 es0)) (ivar_of s (vs_ivs (analyse_asts s ivs0 es0)) key))) VVoi then XVoi else XUsePrimary).
  split; [destruct (vtype_eqb _ VVoi); auto|].
  rewrite (analyse_x_messages s marks ivs0 es0 Hres Eb Eci Ei). apply in_or_app. right.
  apply in_flat_map. exists (key, vs). split; [exact Hen|]. unfold entry_msg.
  rewrite <- orb_assoc, Hc, orb_true_r. left. reflexivity.
Qed.

(** marking a NON-PRIMARY member of an equivalence class is reported with a message: every mark on a variable that is
    not the variable the analyser holds for its class yields a message on that primary variable (whatever else is
    marked) *)
Theorem non_primary_member_message : forall m r, In m marks -> xm_var m = XLocal r -> r <> primary_at_marking s r ->
  exists rule, (rule = XVoi \/ rule = XUsePrimary) /\
               cls_of s (primary_at_marking s r) = cls_of s r /\
               In (mkXissue rule (XLocal (primary_at_marking s r))) (xr_messages (analyse_x true s marks)).
Proof.
  intros m r Hm Hv Hne. unfold primary_at_marking in *. rewrite Eb in *.
  destruct (local_mark_entry s marks ivs0 es0 Eb Hr m r Hm Hv) as (Kc & _ & _ & vs & Hen). cbv zeta in *.
  fold (key_of s ivs0 r) in *. set (key := key_of s ivs0 r) in *.
  pose proof (pev_of_entry s ivs0 marks key vs Hen) as Hvs.
  assert (Hrin : In r vs) by (rewrite Hvs; eapply members_of_In; [exact Hm|exact Hv|reflexivity]).
  assert (Hc : (1 <? length vs) || negb (existsb (vref_eqb key) vs) = true).
  { destruct (existsb (vref_eqb key) vs) eqn:Ex; [|rewrite orb_true_r; reflexivity].
    apply existsb_exists in Ex. destruct Ex as (x & Hx & Ekx). apply vref_eqb_eq in Ekx. subst x.
    rewrite (two_distinct_length vs r key Hrin Hx Hne). reflexivity. }
  destruct (entry_message key vs Hen Hc) as (rule & R1 & R2). exists rule. split; [exact R1|]. split; [exact Kc|exact R2].
Qed.

(** a class marked more than once (two AnalyserExternalVariable objects on variables of one class, the same variable
    included) is reported with a message on its primary variable *)
Theorem class_marked_twice_message : forall l1 m1 l2 m2 l3 r1 r2,
  marks = l1 ++ m1 :: l2 ++ m2 :: l3 -> xm_var m1 = XLocal r1 -> xm_var m2 = XLocal r2 -> cls_of s r1 = cls_of s r2 ->
  exists rule, (rule = XVoi \/ rule = XUsePrimary) /\
               cls_of s (primary_at_marking s r1) = cls_of s r1 /\
               In (mkXissue rule (XLocal (primary_at_marking s r1))) (xr_messages (analyse_x true s marks)).
Proof.
  intros l1 m1 l2 m2 l3 r1 r2 Hsplit Hv1 Hv2 Hcls. unfold primary_at_marking. rewrite Eb.
  assert (Hm1 : In m1 marks) by (rewrite Hsplit; apply in_or_app; right; left; reflexivity).
  destruct (local_mark_entry s marks ivs0 es0 Eb Hr m1 r1 Hm1 Hv1) as (Kc & _ & _ & vs & Hen). cbv zeta in *.
  fold (key_of s ivs0 r1) in *. set (key := key_of s ivs0 r1) in *.
  pose proof (pev_of_entry s ivs0 marks key vs Hen) as Hvs.
  assert (Hk2 : key_of s ivs0 r2 = key).
  { unfold key, key_of. rewrite (ivar_of_same_class s ivs0 r1 r2 Hcls). reflexivity. }
  assert (Hlen : 1 <? length vs = true).
  { rewrite Hvs, Hsplit. rewrite members_of_app. cbn [members_of filter_map]. rewrite Hv1. cbn [local_of].
    fold (key_of s ivs0 r1). fold key. rewrite vref_eqb_refl.
    change (filter_map _ (l2 ++ m2 :: l3)) with (members_of s ivs0 key (l2 ++ m2 :: l3)).
    rewrite members_of_app. cbn [members_of filter_map]. rewrite Hv2. cbn [local_of]. rewrite Hk2, vref_eqb_refl.
    apply Nat.ltb_lt. rewrite !app_length. cbn [length]. rewrite app_length. cbn [length]. lia. }
  destruct (entry_message key vs Hen) as (rule & R1 & R2); [rewrite Hlen; reflexivity|].
  exists rule. split; [exact R1|]. split; [exact Kc|exact R2].
Qed.

End Messages2.
