(** Properties_C15.v — statements only.  Each theorem is closed by [exact <lemma of LoggerProofs>] and
    followed by Print Assumptions.  C15: issue reporting is coherent across all services.

    Model: LoggerDefs.v (logger.cpp / logger_p.h, the removeError loops and fetchModel of importer.cpp,
    Issue::referenceHeading()/url() of issue.cpp, the setters/accessors of types.cpp).
    Tables: LCGen.RuleTable, LCGen.IssueSites are rewritten from /repo/src on every run, so the theorems
    over them are re-checked against the source as it is now. *)
From Coq Require Import String List Bool Arith.
From LCGen Require Import RuleTable IssueSites.
From LC Require Import LoggerDefs LoggerProofs LoggerRefineProofs LoggerRound5Proofs.
Import ListNotations.

(* ---------------------------------------------------------------------------------------------- *)
(** * A. The logger invariant: each index vector is exactly the positions of the issues of its level *)

Theorem C15_inv_empty : Inv empty_logger.
Proof. exact LoggerProofs.inv_empty. Qed.
Print Assumptions C15_inv_empty.

Theorem C15_inv_add : forall x s, Inv s -> Inv (add_issue x s).
Proof. exact LoggerProofs.inv_add. Qed.
Print Assumptions C15_inv_add.

Theorem C15_inv_remove_all : forall s, Inv (remove_all s).
Proof. exact LoggerProofs.inv_remove_all. Qed.
Print Assumptions C15_inv_remove_all.

(** issueCount() = errorCount() + warningCount() + messageCount() *)
Theorem C15_counts_add_up : forall s, Inv s ->
  issue_count s = error_count s + warning_count s + message_count s.
Proof. exact LoggerProofs.counts_add_up. Qed.
Print Assumptions C15_counts_add_up.

(** error(i)/warning(i)/message(i) is the i-th issue of that level in list order, nullptr past the end;
    in particular the read mIssues.at(...) never throws. *)
Theorem C15_level_enumeration_exact : forall s l i, Inv s ->
  get_level l s i = match nth_error (filter (has_level l) (issues s)) i with
                    | Some x => AIssue x
                    | None => ANull
                    end.
Proof. exact LoggerProofs.level_enumeration_exact. Qed.
Print Assumptions C15_level_enumeration_exact.

Theorem C15_in_range_issue : forall s l i, Inv s -> i < level_count l s ->
  exists x, get_level l s i = AIssue x /\ i_level x = l /\ In x (issues s).
Proof. exact LoggerProofs.in_range_issue. Qed.
Print Assumptions C15_in_range_issue.

Theorem C15_out_of_range_null : forall s l i, Inv s -> level_count l s <= i -> get_level l s i = ANull.
Proof. exact LoggerProofs.out_of_range_null. Qed.
Print Assumptions C15_out_of_range_null.

Theorem C15_issue_out_of_range_null : forall s i, issue_count s <= i -> get_issue s i = ANull.
Proof. exact LoggerProofs.issue_out_of_range_null. Qed.
Print Assumptions C15_issue_out_of_range_null.

Theorem C15_every_issue_enumerated : forall s x, Inv s -> In x (issues s) ->
  exists i, get_level (i_level x) s i = AIssue x.
Proof. exact LoggerProofs.every_issue_enumerated. Qed.
Print Assumptions C15_every_issue_enumerated.

(* ---------------------------------------------------------------------------------------------- *)
(** * B. removeError: exactly when it is safe *)

(** With the invariant and a valid error index, removeError(i) keeps the invariant if and only if the error
    it removes is the last issue of the list (later indices are not shifted by the code). *)
Theorem C15_remove_error_inv_iff : forall s i p, Inv s -> nth_error (errs s) i = Some p ->
  exists s', remove_error i s = Ok s' /\ (Inv s' <-> p = issue_count s - 1).
Proof. exact LoggerProofs.remove_error_inv_iff. Qed.
Print Assumptions C15_remove_error_inv_iff.

(** Without it: after [E; M] and removeError(0), message(0) reads mIssues.at(1) of a 1-element vector. *)
Theorem C15_remove_error_refuted :
  exists s s', Inv s /\ remove_error 0 s = Ok s' /\ ~ Inv s' /\ get_message s' 0 = AThrows.
Proof. exact LoggerProofs.remove_error_refuted_throws. Qed.
Print Assumptions C15_remove_error_refuted.

(** ... and after [E; M; W] message(0) silently returns the warning. *)
Theorem C15_remove_error_refuted_wrong_level :
  exists s s', Inv s /\ remove_error 0 s = Ok s' /\ get_message s' 0 = AIssue (wW 2) /\ get_warning s' 0 = AThrows.
Proof. exact LoggerProofs.remove_error_refuted_wrong_level. Qed.
Print Assumptions C15_remove_error_refuted_wrong_level.

(* ---------------------------------------------------------------------------------------------- *)
(** * C. The importer's error-removal loops *)

(** If the errors to be removed are the tail of the issue list, the loop of fetchComponent()/fetchUnits()
    succeeds, hands them to the caller last-first, leaves the issues that preceded them, keeps the invariant. *)
Theorem C15_importer_cleanup_ok : forall s pre suf, Inv s -> issues s = pre ++ suf ->
  forallb (has_level LError) suf = true ->
  exists s', importer_cleanup (length (positions LError pre)) s = (Ok s', map AIssue (rev suf)) /\
             issues s' = pre /\ Inv s'.
Proof. exact LoggerProofs.importer_cleanup_ok. Qed.
Print Assumptions C15_importer_cleanup_ok.

Theorem C15_importer_cleanup_inv : forall s start, Inv s -> suffix_is_errors s start ->
  exists s' seen, importer_cleanup start s = (Ok s', seen) /\ Inv s' /\ error_count s' = Nat.min start (error_count s).
Proof. exact LoggerProofs.importer_cleanup_inv. Qed.
Print Assumptions C15_importer_cleanup_inv.

(** The loop does break the invariant when something that is not an error was logged after the first error. *)
Theorem C15_importer_cleanup_refuted :
  exists s s' seen, Inv s /\ ~ suffix_is_errors s 0 /\ importer_cleanup 0 s = (Ok s', seen) /\ ~ Inv s'.
Proof. exact LoggerProofs.importer_cleanup_refuted. Qed.
Print Assumptions C15_importer_cleanup_refuted.

(** What the only caller logs between reading startIndex and running the loop (fetchModel: an optional message,
    then only errors) satisfies the suffix condition, whatever the file contained. *)
Theorem C15_fetch_model_suffix : forall f s, Inv s ->
  Inv (fst (fetch_model f s)) /\ suffix_is_errors (fst (fetch_model f s)) (error_count s).
Proof. exact LoggerProofs.fetch_model_shape. Qed.
Print Assumptions C15_fetch_model_suffix.

Theorem C15_fetch_and_clean_inv : forall f related follow s, Inv s ->
  exists s', fst (fetch_and_clean f related follow s) = Ok s' /\ Inv s'.
Proof. exact LoggerProofs.fetch_and_clean_inv. Qed.
Print Assumptions C15_fetch_and_clean_inv.

Theorem C15_fetch_and_clean_error_count : forall f related follow s s', Inv s ->
  fetch_and_clean f related follow s = (Ok s', true) -> error_count s' = error_count s /\ Inv s'.
Proof. exact LoggerProofs.fetch_and_clean_error_count. Qed.
Print Assumptions C15_fetch_and_clean_error_count.

(* ---------------------------------------------------------------------------------------------- *)
(** * D. Every history *)

(** Any sequence of what the services do to their logger (add, clear, the importer's fetch-and-clean step with
    any file content, any relatedness test) runs to completion and ends in a coherent logger. *)
Theorem C15_history_inv : forall ops, exists s, run_sops ops empty_logger = Ok s /\ Inv s.
Proof. exact LoggerProofs.history_inv. Qed.
Print Assumptions C15_history_inv.

Theorem C15_history_inv_from : forall ops s, Inv s -> exists s', run_sops ops s = Ok s' /\ Inv s'.
Proof. exact LoggerProofs.history_inv_from. Qed.
Print Assumptions C15_history_inv_from.

(** Traces of primitive calls (as recorded from the real library by the driver): if every removeError in the
    trace removed the last issue, the trace ran without throwing and the end state is coherent. *)
Theorem C15_checked_trace_inv : forall ops s o, Inv s -> run_checked ops s = (o, true) -> outcome_inv o.
Proof. exact LoggerProofs.run_checked_inv. Qed.
Print Assumptions C15_checked_trace_inv.

Theorem C15_inv_b_iff : forall s, inv_b s = true <-> Inv s.
Proof. exact LoggerProofs.inv_b_iff. Qed.
Print Assumptions C15_inv_b_iff.

(* ---------------------------------------------------------------------------------------------- *)
(** * E. Rule metadata (re-checked on the regenerated tables) *)

(** Every rule named anywhere in src/*.cpp (a superset of the rules that reach setReferenceRule) has a row in
    ruleToInformation, so referenceHeading()/url() do not throw std::out_of_range for it. *)
Theorem C15_used_rules_have_rows : forall r, In r mentioned_rules -> exists x, rt_at r = Some x.
Proof. exact LoggerProofs.mentioned_rules_have_rows. Qed.
Print Assumptions C15_used_rules_have_rows.

Theorem C15_site_rules_have_rows : forall r, In r site_rules -> exists x, rt_at r = Some x.
Proof. exact LoggerProofs.site_rules_have_rows. Qed.
Print Assumptions C15_site_rules_have_rows.

Theorem C15_heading_url_defined : forall r, In r table_keys -> exists h u, rt_heading r = Some h /\ rt_url r = Some u.
Proof. exact LoggerProofs.heading_url_defined. Qed.
Print Assumptions C15_heading_url_defined.

Theorem C15_rows_shape_well_formed : forall x, In x rule_table -> row_shape_wf x = true.
Proof. exact LoggerProofs.rows_shape_well_formed. Qed.
Print Assumptions C15_rows_shape_well_formed.

(** The name carried by the URL is the rule's own name — for every row but one (finding C15-rule-name-mismatch);
    the statement also holds once that row is corrected. *)
Theorem C15_rows_name_ok_except : forall x, In x rule_table ->
  row_name_ok x = true \/ r_key x = "MAP_VARIABLES_VARIABLE2_ATTRIBUTE"%string.
Proof. exact LoggerProofs.rows_name_ok_except. Qed.
Print Assumptions C15_rows_name_ok_except.

Theorem C15_no_duplicate_rows : NoDup table_keys.
Proof. exact LoggerProofs.no_duplicate_rows. Qed.
Print Assumptions C15_no_duplicate_rows.

Theorem C15_table_keys_in_enum : length rule_names = rule_count /\ forall r, In r table_keys -> r < rule_count.
Proof. exact LoggerProofs.table_keys_in_enum. Qed.
Print Assumptions C15_table_keys_in_enum.

(** The enumerators without a row (today: UNSPECIFIED only) are named nowhere in the sources, so no service
    can give them to an issue; referenceHeading()/url() would throw for them. *)
Theorem C15_rules_without_row_unreachable : forall r, r < rule_count -> rt_at r = None ->
  rule_name_of r = "UNSPECIFIED"%string /\ ~ In r mentioned_rules.
Proof. exact LoggerProofs.rules_without_row_unreachable. Qed.
Print Assumptions C15_rules_without_row_unreachable.

(* ---------------------------------------------------------------------------------------------- *)
(** * F. Issue sites (re-checked on the regenerated table) *)

Theorem C15_sites_have_description : forall s, In s issue_sites -> s_desc s = true.
Proof. exact LoggerProofs.sites_have_description. Qed.
Print Assumptions C15_sites_have_description.

Theorem C15_sites_level_valid : forall s, In s issue_sites -> s_level s < length all_levels.
Proof. exact LoggerProofs.sites_level_valid. Qed.
Print Assumptions C15_sites_level_valid.

(** Every created issue reaches addIssue (or is returned to a caller) — except the one that
    Annotator::assignAllIds(ModelPtr&) creates for a null model (finding C15-annotator-null-model-silent);
    the statement also holds once that site adds its issue. *)
Theorem C15_sites_added_except : forall s, In s issue_sites -> site_kept_or_known s = true.
Proof. exact LoggerProofs.sites_added_except. Qed.
Print Assumptions C15_sites_added_except.

Theorem C15_sites_setters_consistent : forall s, In s issue_sites -> site_setter_ok s = true.
Proof. exact LoggerProofs.sites_setters_consistent. Qed.
Print Assumptions C15_sites_setters_consistent.

(* ---------------------------------------------------------------------------------------------- *)
(** * G. The typed item holder *)

(** The hand-written model of setters, accessors and enumerations equals the tables regenerated from
    anycellmlelement_p.h / types.cpp / types.h / enums.h / issue.h. *)
Theorem C15_model_matches_source :
  model_setter_table = holder_setters /\
  model_accessor_table tree_math_fixed = holder_accessors /\
  model_setter_defaults = holder_setter_defaults /\
  map etype_name all_etypes = element_type_names /\
  map etype_index all_etypes = seq 0 (length element_type_names) /\
  etype_index UNDEFINED = holder_default_type /\
  map level_name all_levels = level_names /\
  map level_index all_levels = seq 0 (length level_names).
Proof. exact LoggerProofs.model_matches_source. Qed.
Print Assumptions C15_model_matches_source.

Theorem C15_holder_init_coherent : forall fx, holder_coherent fx holder_init.
Proof. exact LoggerProofs.holder_init_coherent. Qed.
Print Assumptions C15_holder_init_coherent.

(** For every setter and every argument: when the tag written denotes the kind of object stored, the accessor
    that belongs to the tag returns the stored object and every other accessor returns null —
    on the unchanged tree for every tag except MATH ... *)
Theorem C15_holder_coherent_partial : forall c h, call_consistent c = true ->
  written_tag (c_name c) (c_type c) <> MATH -> holder_coherent false (apply_setter c h).
Proof. exact LoggerProofs.holder_coherent_partial. Qed.
Print Assumptions C15_holder_coherent_partial.

(** ... because setMath(component) stores a component that no accessor hands out (finding C15-math-item-unreachable) ... *)
Theorem C15_holder_math_refuted :
  exists c, c_name c = SetMath /\ call_consistent c = true /\ p_obj (h_item (apply_setter c holder_init)) <> None /\
            (forall b, read false b (apply_setter c holder_init) = None) /\
            ~ holder_coherent false (apply_setter c holder_init).
Proof. exact LoggerProofs.holder_math_refuted. Qed.
Print Assumptions C15_holder_math_refuted.

(** ... and for every tag once component() also answers for MATH. *)
Theorem C15_holder_coherent_fixed : forall c h, call_consistent c = true -> holder_coherent true (apply_setter c h).
Proof. exact LoggerProofs.holder_coherent_fixed. Qed.
Print Assumptions C15_holder_coherent_fixed.

(** A tag that does not denote the stored kind: every accessor returns null, never a pointer of another type. *)
Theorem C15_holder_inconsistent_all_null : forall fx c h, call_consistent c = false ->
  forall b, read fx b (apply_setter c h) = None.
Proof. exact LoggerProofs.holder_inconsistent_all_null. Qed.
Print Assumptions C15_holder_inconsistent_all_null.

Theorem C15_read_only_own_tags : forall fx a h x, read fx a h = Some x ->
  In (h_type h) (accessor_tags fx a) /\ p_kind (h_item h) = accessor_kind a.
Proof. exact LoggerProofs.read_only_own_tags. Qed.
Print Assumptions C15_read_only_own_tags.

(* ---------------------------------------------------------------------------------------------- *)
(** * H. Non-vacuity *)

Example C15_nonvacuous :
  mentioned_rules <> [] /\ issue_sites <> [] /\ rule_table <> [] /\
  (exists ops s, run_sops ops empty_logger = Ok s /\ issue_count s = 2 /\ error_count s = 1 /\ message_count s = 1 /\
                 get_error s 0 = AIssue (wE 9) /\ get_message s 0 = AIssue (wM 1)).
Proof. exact LoggerProofs.nonvacuous. Qed.
Print Assumptions C15_nonvacuous.

(* ---------------------------------------------------------------------------------------------- *)
(** * I. Refinement of an abstract specification (LoggerRefineProofs.v)

    Abstract state [spec] = the list of issues in insertion order.  Abstract operations [spec_step]: append, clear,
    remove the k-th error ([remove_kth]); [run_spec] = fold_left of them.  [Refines s l := issues s = l /\ Inv s]. *)

(** Every observation of a refining logger is the abstract one: issue(k) is the k-th issue; error/warning/message(k)
    is the k-th issue of that level in insertion order (null past the end); the per-level counts are the numbers of
    issues of each level and add up to issueCount(). *)
Theorem C15_refines_observe : forall s l, Refines s l ->
  (forall k, get_issue s k = observe (spec_issue l k)) /\
  (forall lv k, get_level lv s k = observe (spec_of_level lv l k)) /\
  (forall lv, level_count lv s = spec_count lv l) /\
  issue_count s = length l /\
  length l = spec_count LError l + spec_count LWarning l + spec_count LMessage l.
Proof. exact LoggerRefineProofs.refines_observe. Qed.
Print Assumptions C15_refines_observe.

Theorem C15_refines_null_iff : forall s l lv k, Refines s l -> (get_level lv s k = ANull <-> level_count lv s <= k).
Proof. exact LoggerRefineProofs.refines_null_iff. Qed.
Print Assumptions C15_refines_null_iff.

(** abs commutes, one operation at a time *)
Theorem C15_refines_add : forall x s l, Refines s l -> Refines (add_issue x s) (l ++ [x]).
Proof. exact LoggerRefineProofs.refines_add. Qed.
Print Assumptions C15_refines_add.

Theorem C15_refines_remove_all : forall s, Refines (remove_all s) [].
Proof. exact LoggerRefineProofs.refines_remove_all. Qed.
Print Assumptions C15_refines_remove_all.

(** removeError on the issue list, with NO side condition: it removes exactly the k-th error, throws exactly when there
    is no k-th error, and is never undefined. *)
Theorem C15_remove_error_abs_commutes : forall s k, Inv s ->
  match remove_error k s with
  | Ok s' => remove_kth (has_level LError) k (issues s) = Some (issues s')
  | ThrowsOutOfRange => remove_kth (has_level LError) k (issues s) = None
  | UndefinedBehaviour => False
  end.
Proof. exact LoggerRefineProofs.remove_error_abs_commutes. Qed.
Print Assumptions C15_remove_error_abs_commutes.

(** removeError of the last issue: the whole concrete state refines the abstract removal. *)
Theorem C15_refines_remove_error : forall s l k, Refines s l -> spec_last_error k l ->
  exists s' l', remove_error k s = Ok s' /\ spec_step (ORemoveError k) l = Some l' /\ Refines s' l' /\
                l = l' ++ [nth (length l') l (mk_error 0)].
Proof. exact LoggerRefineProofs.refines_remove_error. Qed.
Print Assumptions C15_refines_remove_error.

(** adding an error and removing it again restores exactly the previous state (issue list and all three vectors),
    from ANY state *)
Theorem C15_add_then_remove_restores : forall s x, i_level x = LError ->
  remove_error (error_count s) (add_issue x s) = Ok s.
Proof. exact LoggerRefineProofs.add_then_remove_restores. Qed.
Print Assumptions C15_add_then_remove_restores.

(** Forward simulation over every operation sequence (unbounded): if, on the specification, every removal asks for
    the last issue, the real sequence runs to completion, the specification is defined, and the end states are related —
    hence (C15_refines_observe) every accessor answers as the specification says after any such history. *)
Theorem C15_refinement_from : forall ops s l, Refines s l -> spec_wf ops l ->
  exists s' l', run_ops ops s = Ok s' /\ run_spec ops l = Some l' /\ Refines s' l'.
Proof. exact LoggerRefineProofs.refinement_from. Qed.
Print Assumptions C15_refinement_from.

Theorem C15_refinement : forall ops, spec_wf ops [] ->
  exists s l, run_ops ops empty_logger = Ok s /\ run_spec ops [] = Some l /\ Refines s l.
Proof. exact LoggerRefineProofs.refinement. Qed.
Print Assumptions C15_refinement.

(** Without the side condition the issue list still follows the specification but the state does not refine it. *)
Theorem C15_refinement_refuted :
  exists ops s l, ~ spec_wf ops [] /\ run_ops ops empty_logger = Ok s /\ run_spec ops [] = Some l /\
                  issues s = l /\ ~ Refines s l /\ get_message s 0 = AThrows.
Proof. exact LoggerRefineProofs.refinement_refuted. Qed.
Print Assumptions C15_refinement_refuted.

Example C15_refinement_nonvacuous :
  let ops := [OAdd (wW 0); ORemoveAll; OAdd (wM 1); OAdd (wE 2); OAdd (wE 3); ORemoveError 1; OAdd (wW 4)] in
  spec_wf ops [] /\ run_spec ops [] = Some [wM 1; wE 2; wW 4] /\
  exists s, run_ops ops empty_logger = Ok s /\ Refines s [wM 1; wE 2; wW 4] /\
            get_error s 0 = AIssue (wE 2) /\ get_warning s 0 = AIssue (wW 4) /\ get_message s 0 = AIssue (wM 1) /\
            get_error s 1 = ANull.
Proof. exact LoggerRefineProofs.refinement_nonvacuous. Qed.
Print Assumptions C15_refinement_nonvacuous.

(* ---------------------------------------------------------------------------------------------- *)
(** * J. Proof depth round 5 (LoggerRound5Proofs.v) *)

(** A coherent logger is a function of its issue list: two states satisfying the invariant with the same issues
    are equal, index vectors included — so the abstraction is injective on coherent states. *)
Theorem C15_abstraction_injective : forall s s', Inv s -> Inv s' -> issues s = issues s' -> s = s'.
Proof. exact LoggerRound5Proofs.abstraction_injective. Qed.
Print Assumptions C15_abstraction_injective.

Theorem C15_refines_functional : forall s s' l l', Refines s l -> Refines s' l' -> (s = s' <-> l = l').
Proof. exact LoggerRound5Proofs.refines_functional. Qed.
Print Assumptions C15_refines_functional.

(** Well-formedness of a concatenated history (one service instance re-used over several inputs) is exactly
    well-formedness of the first part and of the second part from the specification state the first part reaches. *)
Theorem C15_spec_wf_app : forall a b l,
  spec_wf (a ++ b) l <-> spec_wf a l /\ match run_spec a l with Some l' => spec_wf b l' | None => False end.
Proof. exact LoggerRound5Proofs.spec_wf_app. Qed.
Print Assumptions C15_spec_wf_app.

(** The forward simulation composes over re-use: the run of [a ++ b] is the run of [b] from where [a] ended,
    on both sides, with related end states. *)
Theorem C15_refinement_app : forall (a b : list op) (s : logger) (l : spec), Refines s l -> spec_wf a l ->
  exists s1 l1, run_ops a s = Ok s1 /\ run_spec a l = Some l1 /\ Refines s1 l1 /\ (spec_wf b l1 ->
     exists s2 l2, run_ops (a ++ b) s = Ok s2 /\ run_spec (a ++ b) l = Some l2 /\ Refines s2 l2 /\ run_ops b s1 = Ok s2 /\ run_spec b l1 = Some l2).
Proof. exact LoggerRound5Proofs.refinement_app. Qed.
Print Assumptions C15_refinement_app.
