(** ScaleProofs.v — the scaling pass preserves what an equation says, exactly when the two findings are
    excluded; kernel-evaluated refutations for the two findings (C03). *)
From Coq Require Import String List Bool QArith Qcanon Lia.
From LC Require Import AstDefs ScaleDefs.
Local Open Scope string_scope.

Local Ltac inv H := inversion H; subst; clear H.

Section Proofs.
Variable S : senv.
Variable Es : aenv.                                   (* stored values: primary units *)
Hypothesis pos : forall v, (0 < sf S v)%Q.
Hypothesis lit_ok : forall v, a_lit Es (sf_text S v) = Q2Qc (sf S v).
Hypothesis lit_inv_ok : forall v, a_lit Es (sf_inv_text S v) = (/ Q2Qc (sf S v))%Qc.

Notation El := (local_env S Es).
Notation se := (scale_expr S).

Lemma is_one_1 v : is_one S v = true -> Q2Qc (sf S v) = 1%Qc.
Proof.
  unfold is_one. intros H. apply Qeq_bool_iff in H. apply Qc_is_canon. cbn. rewrite Qred_correct. exact H.
Qed.

Lemma sf_nz v : Q2Qc (sf S v) <> 0%Qc.
Proof.
  intros H. assert (E : (Q2Qc (sf S v) == 0)%Q) by (rewrite H; reflexivity).
  cbn in E. rewrite Qred_correct in E. pose proof (pos v) as P. rewrite E in P. discriminate P.
Qed.

Lemma se_null a : se a = Null -> a = Null.
Proof.
  destruct a as [|t v l r]; [reflexivity|]. intros H. exfalso.
  destruct t; cbn in H; try discriminate.
  - destruct l as [|tl vl ll rl]; try discriminate. destruct tl; try discriminate.
    destruct ll as [|tll vll lll rll]; try discriminate. destruct tll; try discriminate.
    destruct r as [|tr0 vr lr rr]; try discriminate. destruct tr0; try discriminate.
    unfold scale_diff_inner in H. destruct (is_one S vr), (is_one S vll); discriminate.
  - unfold scale_ci in H. destruct (is_one S v); discriminate.
  - destruct l as [|tl vl ll rl]; try discriminate. destruct tl; discriminate.
Qed.

Lemma aeval_scale_ci E v node : aeval E (scale_ci S v node) =
  if is_one S v then aeval E node else (a_lit E (sf_text S v) * aeval E node)%Qc.
Proof. unfold scale_ci. destruct (is_one S v); reflexivity. Qed.

Lemma plus_val E v l r : r <> Null -> aeval E (Node PLUS v l r) = (aeval E l + aeval E r)%Qc.
Proof. destruct r; [congruence|reflexivity]. Qed.
Lemma minus_val E v l r : r <> Null -> aeval E (Node MINUS v l r) = (aeval E l - aeval E r)%Qc.
Proof. destruct r; [congruence|reflexivity]. Qed.

(** expressions: the scaled tree over stored values = the original over local values *)
Theorem scale_expr_value a : wf_diff a = true -> aeval Es (se a) = aeval El a.
Proof.
  induction a as [|t v l IHl r IHr]; [reflexivity|]. intros Hwf.
  destruct t;
    try (cbn [wf_diff] in Hwf; apply andb_prop in Hwf; destruct Hwf as [Hl Hr];
         cbn [scale_expr aeval]; rewrite ?(IHl Hl), ?(IHr Hr); reflexivity).
  - (* PLUS *)
    cbn [wf_diff] in Hwf. apply andb_prop in Hwf. destruct Hwf as [Hl Hr]. cbn [scale_expr].
    destruct r as [|tr0 vr lr rr]; [cbn; apply IHl; exact Hl|].
    rewrite !plus_val by (try discriminate; intros E; apply se_null in E; discriminate).
    rewrite (IHl Hl), (IHr Hr). reflexivity.
  - (* MINUS *)
    cbn [wf_diff] in Hwf. apply andb_prop in Hwf. destruct Hwf as [Hl Hr]. cbn [scale_expr].
    destruct r as [|tr0 vr lr rr]; [cbn; rewrite (IHl Hl); reflexivity|].
    rewrite !minus_val by (try discriminate; intros E; apply se_null in E; discriminate).
    rewrite (IHl Hl), (IHr Hr). reflexivity.
  - (* DIFF *)
    destruct l as [|tl vl ll rl]; [discriminate|]. destruct tl; try discriminate.
    destruct ll as [|tll vll lll rll]; [discriminate|]. destruct tll; try discriminate.
    destruct rl; [|discriminate].
    destruct r as [|tr0 vr lr rr]; [discriminate|]. destruct tr0; try discriminate.
    cbn [scale_expr]. unfold scale_diff_inner, times_cn.
    destruct (is_one S vr) eqn:Ex, (is_one S vll) eqn:Et; cbn [aeval local_env a_rate a_lit];
      rewrite ?lit_ok, ?lit_inv_ok, ?(is_one_1 _ Ex), ?(is_one_1 _ Et); field; try apply sf_nz.
    all: try (intros H; discriminate H).
  - (* CI *)
    cbn [scale_expr]. rewrite aeval_scale_ci. cbn [aeval local_env a_var].
    destruct (is_one S v) eqn:E1; [rewrite (is_one_1 _ E1); ring|rewrite lit_ok; reflexivity].
  - (* BVAR *) discriminate.
Qed.

(** the two sides of an equation *)
Lemma scale_rhs_wrapped t r : wf_diff r = true ->
  aeval Es (scale_rhs S (Some t) r) = (Q2Qc (sf S t) * aeval El r)%Qc.
Proof. intros H. cbn. rewrite lit_ok, (scale_expr_value _ H). reflexivity. Qed.

Lemma scale_rhs_plain l r : wf_diff r = true -> bare_rate_ok S l r = true -> snd (scale_lhs S l) = None ->
  aeval Es (scale_rhs S None r) = aeval El r.
Proof.
  intros Hwf Hb Hl.
  destruct r as [|t v rl rr]; [reflexivity|].
  destruct t; try (apply (scale_expr_value _ Hwf)).
  (* DIFF *)
  destruct rl as [|tl vl ll rl2]; [discriminate|]. destruct tl; try discriminate.
  destruct ll as [|tll vll lll rll]; [discriminate|]. destruct tll; try discriminate.
  destruct rl2; [|discriminate].
  destruct rr as [|tr0 vr lr rr2]; [discriminate|]. destruct tr0; try discriminate.
  cbn [bare_rate_ok] in Hb.
  assert (Ht : is_one S vll = true).
  { apply orb_prop in Hb. destruct Hb as [Hb|Hb]; [exact Hb|]. exfalso.
    destruct l as [|t2 v2 l2 r2]; try discriminate. destruct t2; try discriminate.
    destruct l2 as [|t3 v3 l3 r3]; try discriminate. destruct t3; try discriminate.
    destruct l3 as [|t4 v4 l4 r4]; try discriminate. destruct t4; try discriminate.
    destruct r2 as [|t5 v5 l5 r5]; try discriminate. destruct t5; try discriminate.
    cbn in Hl. apply negb_true_iff in Hb. rewrite Hb in Hl. discriminate. }
  cbn [scale_rhs scale_expr]. unfold scale_diff_rhs, times_cn. rewrite Ht.
  destruct (is_one S vr) eqn:Ex; cbn [aeval local_env a_rate a_lit];
    rewrite ?lit_ok, ?(is_one_1 _ Ex), ?(is_one_1 _ Ht); field; intros H; discriminate H.
Qed.

(** equations: the scaled equation holds of the stored values iff the original holds of the local values,
    provided the left side is not a bare scaled variable and the right side is not a bare rate over a scaled
    variable of integration (the two findings) *)
Theorem scale_preserves_value ev l r :
  wf_diff l = true -> wf_diff r = true -> lhs_ok S l = true -> bare_rate_ok S l r = true ->
  (holds Es (scale_eq S (Node EQUALITY ev l r)) <-> holds El (Node EQUALITY ev l r)).
Proof.
  intros Wl Wr Hl Hb. cbn [scale_eq holds].
  destruct l as [|t v ll rl].
  - cbn [scale_lhs fst snd]. rewrite (scale_rhs_plain Null r Wr Hb eq_refl). reflexivity.
  - destruct t;
      try (cbn [scale_lhs fst snd]; rewrite (scale_rhs_plain _ r Wr Hb eq_refl), (scale_expr_value _ Wl); reflexivity).
    + (* DIFF: an ODE *)
      destruct ll as [|tl vl l2 r2]; [discriminate|]. destruct tl; try discriminate.
      destruct l2 as [|tll vll lll rll]; [discriminate|]. destruct tll; try discriminate.
      destruct r2; [|discriminate].
      destruct rl as [|tr0 vr lr rr]; [discriminate|]. destruct tr0; try discriminate.
      cbn [scale_lhs fst snd scale_expr]. unfold times_cn.
      pose proof (sf_nz vll) as Nt. pose proof (sf_nz vr) as Nx.
      destruct (is_one S vll) eqn:Et.
      * rewrite (scale_rhs_plain (Node DIFF v (Node BVAR vl (Node CI vll lll rll) Null) (Node CI vr lr rr)) r Wr Hb)
          by (cbn; rewrite Et; reflexivity).
        destruct (is_one S vr) eqn:Ex; cbn [aeval local_env a_rate a_lit];
          rewrite ?lit_ok, ?(is_one_1 _ Ex), ?(is_one_1 _ Et);
          (split; intros H; rewrite <- H; field; intros K; discriminate K).
      * rewrite (scale_rhs_wrapped vll r Wr).
        destruct (is_one S vr) eqn:Ex; cbn [aeval local_env a_rate a_lit]; rewrite ?lit_ok, ?(is_one_1 _ Ex).
        -- split; intros H.
           ++ rewrite H. field. exact Nt.
           ++ rewrite <- H. field. exact Nt.
        -- split; intros H.
           ++ replace (Q2Qc (sf S vr) / Q2Qc (sf S vll) * a_rate Es vr vll)%Qc
                with ((Q2Qc (sf S vr) * a_rate Es vr vll) / Q2Qc (sf S vll))%Qc by (field; exact Nt).
              rewrite H. field. exact Nt.
           ++ rewrite <- H. field. exact Nt.
    + (* CI: the left side is the computed variable *)
      cbn [scale_lhs fst snd]. rewrite (scale_rhs_plain _ r Wr Hb eq_refl).
      cbn [lhs_ok] in Hl. cbn [aeval local_env a_var]. rewrite (is_one_1 _ Hl).
      replace (1 * a_var Es v)%Qc with (a_var Es v) by ring. reflexivity.
Qed.

End Proofs.

(** ** the two findings, reproduced by the faithful model (kernel-evaluated) *)
Local Open Scope Q_scope.

Definition env1 : senv :=
  {| sf := fun v => if String.eqb v "k" then 1 # 10 else 1;
     sf_text := fun v => if String.eqb v "k" then "0.1" else "1";
     sf_inv_text := fun v => if String.eqb v "k" then "10" else "1" |}.
Definition stored1 : aenv :=
  {| a_var := fun v => if String.eqb v "k" then Q2Qc 597 else if String.eqb v "y" then Q2Qc (597 # 10) else 0%Qc;
     a_rate := fun _ _ => 0%Qc;
     a_lit := fun s => if String.eqb s "0.1" then Q2Qc (1 # 10) else if String.eqb s "10" then Q2Qc 10 else 1%Qc;
     a_fun := fun _ _ _ _ => 0%Qc |}.
(* C03-known-variable-on-lhs-not-scaled:  k = y  in a component where k [dm] is a view of a quantity stored in cm
   (factor 1/10) and y is the unknown: the equation is left as it is, so the code assigns y := stored k *)
Definition eq1 : ast := Node EQUALITY "" (ci "k") (ci "y").
Theorem scale_refuted_lhs :
  scale_eq env1 eq1 = eq1 /\ lhs_ok env1 (ci "k") = false
  /\ holds (local_env env1 stored1) eq1 /\ ~ holds stored1 (scale_eq env1 eq1).
Proof.
  split; [reflexivity|split; [reflexivity|split]].
  - vm_compute. apply Qc_is_canon. reflexivity.
  - vm_compute. intros H. apply (f_equal this) in H. discriminate H.
Qed.

Definition env2 : senv :=
  {| sf := fun v => if String.eqb v "tb" then 1000 else 1;
     sf_text := fun v => if String.eqb v "tb" then "1000" else "1";
     sf_inv_text := fun v => if String.eqb v "tb" then "0.001" else "1" |}.
Definition stored2 : aenv :=
  {| a_var := fun v => if String.eqb v "y" then Q2Qc (2 # 1000) else 0%Qc;
     a_rate := fun _ _ => Q2Qc 2;
     a_lit := fun s => if String.eqb s "1000" then Q2Qc 1000 else if String.eqb s "0.001" then Q2Qc (1 # 1000) else 1%Qc;
     a_fun := fun _ _ _ _ => 0%Qc |}.
(* C03-bare-rate-on-rhs-voi-scaling:  y = d xb/d tb  with tb in milliseconds (factor 1000 against the stored
   seconds): the DIFF directly under the equality is multiplied by 1000 instead of divided *)
Definition rate2 : ast := Node DIFF "" (Node BVAR "" (ci "tb") Null) (ci "xb").
Definition eq2 : ast := Node EQUALITY "" (ci "y") rate2.
Theorem scale_refuted_bare_rate :
  scale_eq env2 eq2 = Node EQUALITY "" (ci "y") (Node TIMES "" (cn "1000") rate2)
  /\ bare_rate_ok env2 (ci "y") rate2 = false
  /\ holds (local_env env2 stored2) eq2 /\ ~ holds stored2 (scale_eq env2 eq2).
Proof.
  split; [reflexivity|split; [reflexivity|split]].
  - vm_compute. apply Qc_is_canon. reflexivity.
  - vm_compute. intros H. apply (f_equal this) in H. discriminate H.
Qed.

(* non-vacuity: an ODE with a scaled variable of integration and scaled operands satisfies every hypothesis *)
Definition env3 : senv :=
  {| sf := fun v => if String.eqb v "t" then 1000 else if String.eqb v "p" then 1 # 100 else 1;
     sf_text := fun v => if String.eqb v "t" then "1000" else if String.eqb v "p" then "0.01" else "1";
     sf_inv_text := fun v => if String.eqb v "t" then "0.001" else if String.eqb v "p" then "100" else "1" |}.
Definition eq3 : ast :=
  Node EQUALITY "" (Node DIFF "" (Node BVAR "" (ci "t") Null) (ci "x"))
       (bin PLUS (ci "p") (bin ROOT (un DEGREE (ci "p")) (ci "x"))).
Example scale_nonvacuous :
  wf_diff (left_of eq3) = true /\ wf_diff (right_of eq3) = true /\ lhs_ok env3 (left_of eq3) = true
  /\ bare_rate_ok env3 (left_of eq3) (right_of eq3) = true
  /\ scale_eq env3 eq3 =
     Node EQUALITY "" (Node DIFF "" (Node BVAR "" (ci "t") Null) (ci "x"))
       (Node TIMES "" (cn "1000")
          (bin PLUS (Node TIMES "" (cn "0.01") (ci "p"))
                    (bin ROOT (un DEGREE (Node TIMES "" (cn "0.01") (ci "p"))) (ci "x")))).
Proof. repeat split. Qed.
