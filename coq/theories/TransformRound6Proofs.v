(** TransformRound6Proofs.v — C14, proof depth round 6: the MathML namespace rewriting at tree level is a PROJECTION.
    [rewrite_attrs] leaves no 1.x-namespaced attribute, keeps the number of attributes, is the identity where there is
    nothing to move (WITHOUT any distinctness hypothesis) and is idempotent; [rewrite_below] / [rewrite_math] are
    idempotent on every tree whose elements carry attributes with distinct local names, and the identity on every tree
    without 1.x-namespaced attributes (no distinctness hypothesis). *)
From Coq Require Import String Ascii List Bool ZArith Arith Lia.
From LC Require Import Common NumDefs XmlDefs EntTreeDefs PrintDefs LoadDefs RoundtripSpec Load1xDefs To1xDefs
     RoundtripReadProofs Load1xProofs TransformSimProofs.
Import ListNotations.
Local Open Scope string_scope.
Local Open Scope list_scope.

Lemma filter_none : forall {A} (f : A -> bool) l, forallb (fun a => negb (f a)) l = true -> filter f l = [].
Proof.
  intros A f l. induction l as [|a r IH]; intros H; [reflexivity|].
  cbn in H. apply andb_true_iff in H. destruct H as [Ha Hr]. cbn. destruct (f a); [discriminate|]. now apply IH.
Qed.

(** nothing to move: the identity, for ANY attribute list (duplicated local names allowed) *)
Theorem rewrite_attrs_noop : forall l, forallb (fun a => negb (is1x a)) l = true -> rewrite_attrs l = l.
Proof.
  intros l H. unfold rewrite_attrs. change (fun a => ns_is_1x (a_ns a)) with is1x. now rewrite (filter_none is1x l H).
Qed.

Lemma is1x_to20 : forall a, is1x (to20 a) = false.
Proof. intros a. reflexivity. Qed.

(** after the rewriting no attribute is left in a 1.0 / 1.1 namespace *)
Theorem rewrite_attrs_clean : forall l, names_distinct (map a_name l) = true ->
  forallb (fun a => negb (is1x a)) (rewrite_attrs l) = true.
Proof.
  intros l Hd. rewrite rewrite_attrs_spec by assumption. rewrite forallb_app. apply andb_true_iff. split.
  - apply forallb_forall. intros a Ha. apply filter_In in Ha. now destruct Ha.
  - apply forallb_forall. intros a Ha. apply in_map_iff in Ha. destruct Ha as (b & <- & _). now rewrite is1x_to20.
Qed.

(** no attribute is lost or invented *)
Theorem rewrite_attrs_length : forall l, names_distinct (map a_name l) = true -> length (rewrite_attrs l) = length l.
Proof.
  intros l Hd. rewrite rewrite_attrs_spec by assumption. rewrite app_length, map_length. clear Hd.
  induction l as [|a r IH]; [reflexivity|]. cbn. destruct (is1x a); cbn; lia.
Qed.

(** the rewriting is a projection *)
Theorem rewrite_attrs_idem : forall l, names_distinct (map a_name l) = true ->
  rewrite_attrs (rewrite_attrs l) = rewrite_attrs l.
Proof. intros l Hd. apply rewrite_attrs_noop. now apply rewrite_attrs_clean. Qed.

(** * tree level *)

(* every element of the tree carries attributes with distinct local names (what an XML parser guarantees per expanded
   name; here per local name, the hypothesis of C14_math_rewrite_attrs) *)
Fixpoint distinct_below (x : xml) : bool :=
  match x with
  | Elem _ _ attrs ks =>
    names_distinct (map a_name attrs)
    && (fix go (l : list xml) : bool := match l with [] => true | k :: r => distinct_below k && go r end) ks
  | _ => true
  end.

(* no attribute in a 1.0 / 1.1 namespace anywhere in the tree *)
Fixpoint no_1x_attrs_below (x : xml) : bool :=
  match x with
  | Elem _ _ attrs ks =>
    forallb (fun a => negb (is1x a)) attrs
    && (fix go (l : list xml) : bool := match l with [] => true | k :: r => no_1x_attrs_below k && go r end) ks
  | _ => true
  end.

Lemma distinct_below_elem : forall ns nm attrs ks,
  distinct_below (Elem ns nm attrs ks) = names_distinct (map a_name attrs) && forallb distinct_below ks.
Proof. intros. cbn [distinct_below]. f_equal. all: induction ks as [|k r IH]; [reflexivity|]; cbn [forallb]; now rewrite IH. Qed.

Lemma no_1x_attrs_below_elem : forall ns nm attrs ks,
  no_1x_attrs_below (Elem ns nm attrs ks) = forallb (fun a => negb (is1x a)) attrs && forallb no_1x_attrs_below ks.
Proof. intros. cbn [no_1x_attrs_below]. f_equal. all: induction ks as [|k r IH]; [reflexivity|]; cbn [forallb]; now rewrite IH. Qed.

(** a tree without 1.x attributes is untouched — no distinctness hypothesis *)
Theorem rewrite_below_noop : forall x, no_1x_attrs_below x = true -> rewrite_below x = x.
Proof.
  induction x as [ns nm attrs ks IH| |] using xml_ind'; intros H; try reflexivity.
  rewrite no_1x_attrs_below_elem in H. apply andb_true_iff in H. destruct H as [Ha Hk].
  rewrite rewrite_below_elem, rewrite_attrs_noop by assumption. f_equal.
  apply map_id_ext. intros k Hin. rewrite Forall_forall in IH. apply IH; [assumption|].
  exact (proj1 (forallb_forall _ _) Hk k Hin).
Qed.

(** the rewritten tree holds no 1.x attribute *)
Theorem rewrite_below_clean : forall x, distinct_below x = true -> no_1x_attrs_below (rewrite_below x) = true.
Proof.
  induction x as [ns nm attrs ks IH| |] using xml_ind'; intros H; try reflexivity.
  rewrite distinct_below_elem in H. apply andb_true_iff in H. destruct H as [Ha Hk].
  rewrite rewrite_below_elem, no_1x_attrs_below_elem. apply andb_true_iff. split; [now apply rewrite_attrs_clean|].
  apply forallb_forall. intros k' Hin. apply in_map_iff in Hin. destruct Hin as (k & <- & Hin).
  rewrite Forall_forall in IH. apply IH; [assumption|]. exact (proj1 (forallb_forall _ _) Hk k Hin).
Qed.

Theorem rewrite_below_idem : forall x, distinct_below x = true -> rewrite_below (rewrite_below x) = rewrite_below x.
Proof. intros x H. apply rewrite_below_noop. now apply rewrite_below_clean. Qed.

(** the whole math element: rewriting twice = rewriting once *)
Theorem rewrite_math_idem : forall x, forallb distinct_below (xml_kids x) = true ->
  rewrite_math (rewrite_math x) = rewrite_math x.
Proof.
  intros [ns nm attrs ks| |] H; try reflexivity. cbn [xml_kids] in H.
  cbn [rewrite_math]. f_equal. rewrite map_map. apply map_ext_in. intros k Hin. apply rewrite_below_idem.
  exact (proj1 (forallb_forall _ _) H k Hin).
Qed.
